import HidVerif.Proofs.TypeSound
/-!
# Type soundness, continued: statements, blocks, functions, programs
-/
namespace HidVerif.Hid.TC
open HidVerif.Hid HidVerif.Hid.Lex HidVerif.Hid.Parse HidVerif.Gen

theorem noNest_of_not_arr {t : Ty} (h : isArr t = false) : noNest t = true := by
  cases t <;> simp_all [isArr, noNest]

theorem tyOK_tgtOK {t : Ty} (h : tyOK t = true) : tgtOK t = true := by
  cases t <;> simp_all [tyOK, tgtOK, scalarTy]

theorem tyOK_noNest {t : Ty} (h : tyOK t = true) : noNest t = true := by
  cases t with
  | arr el c => cases el <;> simp_all [tyOK, noNest, scalarTy, isArr]
  | _ => simp [noNest]

theorem tgtOK_of_not_arr {t : Ty} (h : isArr t = false) : tgtOK t = true := by
  cases t <;> simp_all [isArr, tgtOK]

/-- the static type of a well-typed tree is never an array of arrays -/
theorem typeOf_noNest (fs : List FuncSig) (hfs : ∀ f ∈ fs, noNest f.ret = true) :
    ∀ e : TE, wtE fs e = true → noNest (typeOf e) = true
  | .intv v b sh, _ => by cases b <;> simp [typeOf, noNest]
  | .boolv _, _ => by simp [typeOf, noNest]
  | .strv _, _ => by simp [typeOf, noNest]
  | .param t, h => by simp only [wtE] at h; simpa [typeOf] using tyOK_noNest h
  | .var _ t _, h => by simp only [wtE] at h; simpa [typeOf] using tyOK_noNest h
  | .cast k e, h => by
    simp only [wtE, Bool.and_eq_true] at h
    have ih := typeOf_noNest fs hfs e h.1
    cases k with
    | vol =>
      simp only [typeOf]
      cases ht : typeOf e <;> simp_all [noNest]
    | b2i => simp [typeOf, castTarget, noNest]
    | i2b => simp [typeOf, castTarget, noNest]
    | i2bool => simp [typeOf, castTarget, noNest]
    | bool2b => simp [typeOf, castTarget, noNest]
    | s2a => simp [typeOf, castTarget, noNest, isArr]
  | .index s i, h => by
    simp only [wtE, Bool.and_eq_true] at h
    have ih := typeOf_noNest fs hfs s h.1.1.1
    simp only [typeOf]
    cases ht : typeOf s with
    | arr el c =>
      rw [ht] at ih
      simp only [noNest] at ih
      exact noNest_of_not_arr (by simpa using ih)
    | _ => simp_all [noNest, isArr]
  | .len _, _ => by simp [typeOf, noNest]
  | .call n fl args ptys ret, h => by
    simp only [wtE, Bool.and_eq_true, List.any_eq_true] at h
    obtain ⟨f, hf, hq⟩ := h.2
    simp only [Bool.and_eq_true, beq_iff_eq] at hq
    have := hfs f hf
    rw [hq.2] at this
    simpa [typeOf] using this
  | .arrlit vals ty lk, h => by
    simp only [wtE, Bool.and_eq_true] at h
    have h2 := h.2
    simp only [typeOf]
    cases ty with
    | arr el c =>
      by_cases hel : el = .empty
      · subst hel; simp [noNest, isArr]
      · have : (el == Ty.empty) = false := by simpa using hel
        simp [this] at h2
        cases el <;> simp_all [noNest, isArr, scalarTy]
    | _ => simp at h2
  | .arrinit el len, h => by
    simp only [wtE, Bool.and_eq_true] at h
    cases el <;> simp_all [typeOf, noNest, isArr, scalarTy]
  | .arith _ _ _ _, _ => by simp [typeOf, noNest]
  | .unarith _ _ _, _ => by simp [typeOf, noNest]
  | .boolop _ _ _, _ => by simp [typeOf, noNest]
  | .notop _, _ => by simp [typeOf, noNest]
  | .spec l r, h => by
    simp only [wtE, Bool.and_eq_true, Bool.or_eq_true, beq_iff_eq] at h
    simp only [typeOf]
    rcases h.2 with (h1 | h1) | h1 <;> simp [h1, noNest]

/-- the type of an assignable expression is a possible cast target -/
theorem assignable_tgtOK {fs : List FuncSig} (hfs : ∀ f ∈ fs, noNest f.ret = true) {lk : TE} (hw : wtE fs lk = true)
    (ha : isAssignableTE lk = some false) : tgtOK (typeOf lk) = true := by
  cases lk with
  | var n t c => simp only [wtE] at hw; simpa [typeOf] using tyOK_tgtOK hw
  | index s i =>
    simp only [wtE, Bool.and_eq_true] at hw
    have ih := typeOf_noNest fs hfs s hw.1.1.1
    simp only [typeOf]
    cases ht : typeOf s with
    | arr el c =>
      rw [ht] at ih
      simp only [noNest] at ih
      exact tgtOK_of_not_arr (by simpa using ih)
    | _ => simp_all [tgtOK, isArr]
  | _ => simp [isAssignableTE] at ha

/-! ## environments -/
theorem EnvOK.child {env : Env} (h : EnvOK env) : EnvOK env.child := by
  refine ⟨?_, h.ptys, h.rets, h.ret⟩
  intro sc hsc d hd
  simp only [Env.child, List.mem_cons] at hsc
  rcases hsc with rfl | hsc
  · simp at hd
  · exact h.decls sc hsc d hd

theorem EnvOK.declare {env : Env} (h : EnvOK env) {d : VarDecl} (hd : declOK env.funcs d = true) :
    EnvOK (env.declare d) ∧ (env.declare d).funcs = env.funcs ∧ (env.declare d).retTy = env.retTy := by
  unfold Env.declare
  split
  · rename_i sc rest hsc
    refine ⟨⟨?_, h.ptys, h.rets, h.ret⟩, rfl, rfl⟩
    intro sc' hsc' d' hd'
    simp only [List.mem_cons] at hsc'
    rcases hsc' with rfl | hsc'
    · simp only [List.mem_cons, List.mem_filter] at hd'
      rcases hd' with rfl | hd'
      · exact hd
      · exact h.decls sc (by rw [hsc]; simp) d' hd'.1
    · exact h.decls sc' (by rw [hsc]; simp [hsc']) d' hd'
  · refine ⟨⟨?_, h.ptys, h.rets, h.ret⟩, rfl, rfl⟩
    intro sc' hsc' d' hd'
    simp only [List.mem_singleton] at hsc'
    subst hsc'
    simp only [List.mem_singleton] at hd'
    subst hd'
    exact hd

theorem tcDecl_ok {env : Env} (henv : EnvOK env) {n : List CP} {ty : Ty} {c : Bool} {init : TE} {env' : Env} {t : TS} (rt : Ty)
    (hty : tyOK ty = true) (hi : wtE env.funcs init = true) (h : tcDecl env n ty c init = .ok (env', t)) :
    wtS env.funcs rt t = true ∧ EnvOK env' ∧ env'.funcs = env.funcs ∧ env'.retTy = env.retTy := by
  unfold tcDecl at h
  obtain ⟨_, _, h⟩ := bind_ok h
  obtain ⟨i, hi', h⟩ := bind_ok h
  obtain ⟨hwi, hti⟩ := coerce_ok hi (tyOK_tgtOK hty) hi'
  have hd : declOK env.funcs ⟨n, ty, c, i⟩ = true := by simp [declOK, hty, hwi, hti]
  obtain ⟨h1, h2, h3⟩ := henv.declare hd
  split at h
  · exact (throw_ok h).elim
  · have := pure_ok h
    simp only [Prod.mk.injEq] at this
    obtain ⟨rfl, rfl⟩ := this
    exact ⟨by simp [wtS, hwi, hti, hty], h1, h2, h3⟩

theorem checkRedecl_ok {env : Env} {n : List CP} {u : Unit} (_h : checkRedecl env n = .ok u) : True := trivial

theorem tcAssign_ok {env : Env} (henv : EnvOK env) {l r : PExpr} {env' : Env} {t : TS} (rt : Ty)
    (hl : ptyE l = true) (hr : ptyE r = true) (h : tcAssign env l r = .ok (env', t)) :
    env' = env ∧ ∃ lk e, t = .assign lk e ∧ wtE env.funcs lk = true ∧ wtE env.funcs e = true ∧ typeOf e = typeOf lk ∧
      isAssignableTE lk = some false := by
  unfold tcAssign at h
  obtain ⟨lk, hlk, h⟩ := bind_ok h
  have hwl := tcExpr_wt env henv l lk hl hlk
  split at h
  · rename_i ha
    obtain ⟨e, he, h⟩ := bind_ok h
    have hwe := tcExpr_wt env henv r e hr he
    obtain ⟨e', he', h⟩ := bind_ok h
    obtain ⟨h1, h2⟩ := coerce_ok hwe (assignable_tgtOK henv.rets hwl ha) he'
    have := pure_ok h
    simp only [Prod.mk.injEq] at this
    obtain ⟨rfl, rfl⟩ := this
    exact ⟨rfl, lk, e', rfl, hwl, h1, h2, ha⟩
  · exact (throw_ok h).elim

theorem coerce_coercible {e : TE} {new : Ty} {e' : TE} (h : coerce e new = .ok e') : coercible e new = true := by
  unfold coerce at h
  split at h
  · assumption
  · exact (throw_ok h).elim

/-- what a successful arithmetic node says about its operands -/
theorem tcExpr_arith_inv {env : Env} {op : String} {aop : BinOp} {l r : PExpr} {te : TE} (ha : arithOpOf op = some aop)
    (h : tcExpr env (.bin op l r) = .ok te) :
    ∃ a b, tcExpr env l = .ok a ∧ tcExpr env r = .ok b ∧ coercible a .int = true ∧ coercible b .int = true := by
  unfold tcExpr at h
  split at h
  · obtain ⟨a, ha', h⟩ := bind_ok h
    obtain ⟨b, hb', h⟩ := bind_ok h
    obtain ⟨ai, hai, h⟩ := bind_ok h
    obtain ⟨bi, hbi, h⟩ := bind_ok h
    exact ⟨a, b, ha', hb', coerce_coercible hai, coerce_coercible hbi⟩
  · rename_i hn
    rw [ha] at hn; cases hn

theorem wtSs_eq_all (fs : List FuncSig) (rt : Ty) : ∀ l : List TS, wtSs fs rt l = l.all (wtS fs rt)
  | [] => by simp [wtSs]
  | s :: rest => by simp [wtSs, wtSs_eq_all fs rt rest]

theorem wtSs_reverse {fs : List FuncSig} {rt : Ty} {l : List TS} (h : wtSs fs rt l = true) : wtSs fs rt l.reverse = true := by
  rw [wtSs_eq_all] at *
  simpa using h

theorem wtSs_append {fs : List FuncSig} {rt : Ty} {l1 l2 : List TS} (h1 : wtSs fs rt l1 = true) (h2 : wtSs fs rt l2 = true) :
    wtSs fs rt (l1 ++ l2) = true := by
  rw [wtSs_eq_all] at *
  simp [List.all_append, h1, h2]

/-- the result of checking one statement: a well-typed statement and an environment that is still in order -/
def StOK (env : Env) (rt : Ty) (env' : Env) (t : TS) : Prop :=
  wtS env.funcs rt t = true ∧ EnvOK env' ∧ env'.funcs = env.funcs ∧ env'.retTy = env.retTy

theorem StOK.same {env : Env} {rt : Ty} {t : TS} (henv : EnvOK env) (h : wtS env.funcs rt t = true) : StOK env rt env t :=
  ⟨h, henv, rfl, rfl⟩

mutual
theorem tcStmt_wt (rt : Ty) : ∀ (s : PStmt) (env env' : Env) (t : TS), EnvOK env → (∀ r, env.retTy = some r → r = rt) →
    ptyS s = true → tcStmt env s = .ok (env', t) → StOK env rt env' t
  | .expr e, env, env', t, henv, _, hp, h => by
    simp only [ptyS] at hp
    unfold tcStmt at h
    obtain ⟨te, hte, h⟩ := bind_ok h
    have := pure_ok h
    simp only [Prod.mk.injEq] at this
    obtain ⟨rfl, rfl⟩ := this
    exact StOK.same henv (by simpa [wtS] using tcExpr_wt env henv e te hp hte)
  | .decl n ty c init, env, env', t, henv, _, hp, h => by
    simp only [ptyS, Bool.and_eq_true] at hp
    unfold tcStmt at h
    obtain ⟨_, _, h⟩ := bind_ok h
    obtain ⟨i, hi, h⟩ := bind_ok h
    exact tcDecl_ok henv rt hp.1 (tcExpr_wt env henv init i hp.2 hi) h
  | .vla n el c len, env, env', t, henv, _, hp, h => by
    simp only [ptyS, Bool.and_eq_true] at hp
    unfold tcStmt at h
    obtain ⟨_, _, h⟩ := bind_ok h
    obtain ⟨l, hl, h⟩ := bind_ok h
    obtain ⟨l', hl', h⟩ := bind_ok h
    obtain ⟨h1, h2⟩ := coerce_ok (tcExpr_wt env henv len l hp.2 hl) tgtOK_int hl'
    exact tcDecl_ok henv rt (by simpa [tyOK] using hp.1) (by simp [wtE, h1, h2, hp.1]) h
  | .assign l r, env, env', t, henv, _, hp, h => by
    simp only [ptyS, Bool.and_eq_true] at hp
    unfold tcStmt at h
    obtain ⟨rfl, lk, e, rfl, h1, h2, h3, h4⟩ := tcAssign_ok henv rt hp.1 hp.2 h
    exact StOK.same henv (by simp [wtS, h1, h2, h3, h4])
  | .incassign l r op, env, env', t, henv, _, hp, h => by
    simp only [ptyS, Bool.and_eq_true] at hp
    unfold tcStmt at h
    split at h
    · exact (throw_ok h).elim
    · rename_i aop haop
      obtain ⟨pr, hpr, h⟩ := bind_ok h
      obtain ⟨env1, eq⟩ := pr
      obtain ⟨_, lk0, e0, rfl, h1, _, _, h4⟩ := tcAssign_ok henv rt hp.1 (by simp [ptyE, hp.1, hp.2]) hpr
      -- the operands of the equivalent assignment `l = l op r`
      have hops : coercible lk0 .int = true ∧ ∀ e, tcExpr env r = .ok e → coercible e .int = true := by
        unfold tcAssign at hpr
        obtain ⟨lk1, hlk1, hpr⟩ := bind_ok hpr
        split at hpr
        · obtain ⟨e1, he1, hpr⟩ := bind_ok hpr
          obtain ⟨e2, _, hpr⟩ := bind_ok hpr
          have := pure_ok hpr
          simp only [Prod.mk.injEq, TS.assign.injEq] at this
          obtain ⟨_, rfl, _⟩ := this
          obtain ⟨a, b, ha, hb, hca, hcb⟩ := tcExpr_arith_inv (show arithOpOf op = some aop from haop) he1
          rw [hlk1] at ha
          injection ha with ha; subst ha
          exact ⟨hca, fun e he => by rw [hb] at he; injection he with he; subst he; exact hcb⟩
        · exact (throw_ok hpr).elim
      dsimp only at h
      obtain ⟨lk, hlk, h⟩ := bind_ok h
      have := pure_ok hlk; subst this
      obtain ⟨e, he, h⟩ := bind_ok h
      have := pure_ok h
      simp only [Prod.mk.injEq] at this
      obtain ⟨rfl, rfl⟩ := this
      have hwe := tcExpr_wt env henv r e hp.2 he
      exact StOK.same henv (by simp [wtS, h1, hwe, h4, arithOpOf_ok (show arithOpOf op = some aop from haop), hops.1, hops.2 e he])
  | .ret e, env, env', t, henv, hrt, hp, h => by
    unfold tcStmt at h
    split at h
    · exact (throw_ok h).elim
    · rename_i rt' hrt'
      have hr := hrt rt' hrt'
      subst hr
      split at h
      · rename_i v
        simp only [ptyS] at hp
        split at h
        · exact (throw_ok h).elim
        · rename_i hne
          obtain ⟨te, hte, h⟩ := bind_ok h
          obtain ⟨te', hte', h⟩ := bind_ok h
          obtain ⟨h1, h2⟩ := coerce_ok (tcExpr_wt env henv v te hp hte) (henv.ret _ hrt') hte'
          have := pure_ok h
          simp only [Prod.mk.injEq] at this
          obtain ⟨rfl, rfl⟩ := this
          exact StOK.same henv (by simp [wtS, h1, h2]; simpa using hne)
      · split at h
        · exact (throw_ok h).elim
        · rename_i hne
          have := pure_ok h
          simp only [Prod.mk.injEq] at this
          obtain ⟨rfl, rfl⟩ := this
          exact StOK.same henv (by simpa [wtS] using hne)
  | .brk, env, env', t, henv, _, _, h => by
    unfold tcStmt at h
    have := pure_ok h
    simp only [Prod.mk.injEq] at this
    obtain ⟨rfl, rfl⟩ := this
    exact StOK.same henv (by simp [wtS])
  | .cont, env, env', t, henv, _, _, h => by
    unfold tcStmt at h
    have := pure_ok h
    simp only [Prod.mk.injEq] at this
    obtain ⟨rfl, rfl⟩ := this
    exact StOK.same henv (by simp [wtS])
  | .block ss pre, env, env', t, henv, hrt, hp, h => by
    simp only [ptyS] at hp
    unfold tcStmt at h
    obtain ⟨b, hb, h⟩ := bind_ok h
    have := pure_ok h
    simp only [Prod.mk.injEq] at this
    obtain ⟨rfl, rfl⟩ := this
    exact StOK.same henv (tcBlockGo_wt rt ss env.child [] _ _ b henv.child hrt hp (by simp [wtSs]) hb)
  | .ifb c a b, env, env', t, henv, hrt, hp, h => by
    simp only [ptyS, Bool.and_eq_true] at hp
    unfold tcStmt at h
    obtain ⟨ta, hta, h⟩ := bind_ok h
    obtain ⟨cc, hcc, h⟩ := bind_ok h
    obtain ⟨cc', hcc', h⟩ := bind_ok h
    obtain ⟨tb, htb, h⟩ := bind_ok h
    have := pure_ok h
    simp only [Prod.mk.injEq] at this
    obtain ⟨rfl, rfl⟩ := this
    obtain ⟨h1, h2⟩ := cast_ok env.funcs cc .bool false cc' (tcExpr_wt env henv c cc hp.1.1 hcc) tgtOK_bool hcc'
    have ha := tcStmt_wt rt a env ta.1 ta.2 henv hrt hp.1.2 hta
    have hb := tcStmt_wt rt b env tb.1 tb.2 henv hrt hp.2 htb
    exact StOK.same henv (by simp [wtS, h1, h2, ha.1, hb.1])
  | .loop c a b, env, env', t, henv, hrt, hp, h => by
    simp only [ptyS, Bool.and_eq_true] at hp
    unfold tcStmt at h
    obtain ⟨ta, hta, h⟩ := bind_ok h
    obtain ⟨cc, hcc, h⟩ := bind_ok h
    obtain ⟨cc', hcc', h⟩ := bind_ok h
    obtain ⟨tb, htb, h⟩ := bind_ok h
    have := pure_ok h
    simp only [Prod.mk.injEq] at this
    obtain ⟨rfl, rfl⟩ := this
    obtain ⟨h1, h2⟩ := cast_ok env.funcs cc .bool false cc' (tcExpr_wt env henv c cc hp.1.1 hcc) tgtOK_bool hcc'
    have ha := tcStmt_wt rt a env ta.1 ta.2 henv hrt hp.1.2 hta
    have hb := tcStmt_wt rt b env tb.1 tb.2 henv hrt hp.2 htb
    exact StOK.same henv (by simp [wtS, h1, h2, ha.1, hb.1])
  | .tryb a k b, env, env', t, henv, hrt, hp, h => by
    simp only [ptyS, Bool.and_eq_true] at hp
    unfold tcStmt at h
    obtain ⟨ta, hta, h⟩ := bind_ok h
    obtain ⟨tb, htb, h⟩ := bind_ok h
    have := pure_ok h
    simp only [Prod.mk.injEq] at this
    obtain ⟨rfl, rfl⟩ := this
    have ha := tcStmt_wt rt a env ta.1 ta.2 henv hrt hp.1 hta
    have hb := tcStmt_wt rt b env tb.1 tb.2 henv hrt hp.2 htb
    exact StOK.same henv (by simp [wtS, ha.1, hb.1])
  | .preempt a, env, env', t, henv, hrt, hp, h => by
    simp only [ptyS] at hp
    unfold tcStmt at h
    obtain ⟨ta, hta, h⟩ := bind_ok h
    have := pure_ok h
    simp only [Prod.mk.injEq] at this
    obtain ⟨rfl, rfl⟩ := this
    have ha := tcStmt_wt rt a env ta.1 ta.2 henv hrt hp hta
    exact StOK.same henv (by simp [wtS, ha.1])

theorem tcBlockGo_wt (rt : Ty) : ∀ (ss : List PStmt) (env : Env) (acc : List TS) (mode : Nat) (fc : Bool) (t : TS), EnvOK env →
    (∀ r, env.retTy = some r → r = rt) → ptySs ss = true → wtSs env.funcs rt acc = true →
    tcBlockGo env ss acc mode fc = .ok t → wtS env.funcs rt t = true
  | [], env, acc, mode, fc, t, _, _, _, hacc, h => by
    unfold tcBlockGo at h
    have := pure_ok h; subst this
    simpa [wtS] using wtSs_reverse hacc
  | s :: rest, env, acc, mode, fc, t, henv, hrt, hp, hacc, h => by
    simp only [ptySs, Bool.and_eq_true] at hp
    unfold tcBlockGo at h
    split at h
    · split at h
      · exact (throw_ok h).elim
      · have := pure_ok h; subst this
        simpa [wtS] using wtSs_reverse hacc
    · obtain ⟨pr, hpr, h⟩ := bind_ok h
      obtain ⟨env1, t1⟩ := pr
      obtain ⟨h1, h2, h3, h4⟩ := tcStmt_wt rt s env env1 t1 henv hrt hp.1 hpr
      dsimp only at h
      have := tcBlockGo_wt rt rest env1 (t1 :: acc) _ _ t h2 (by rw [h4]; exact hrt) hp.2
        (by rw [h3]; simp [wtSs, h1, hacc]) h
      rw [h3] at this; exact this
end

/-! ## functions -/
theorem params_fold_ok : ∀ (ps : List (List CP × Ty × Bool)) (env env1 : Env), EnvOK env → (∀ q ∈ ps, tyOK q.2.1 = true) →
    ps.foldlM (fun (e : Env) (p : List CP × Ty × Bool) => do
      let (e', _) ← tcDecl e p.1 p.2.1 p.2.2 (.param p.2.1)
      pure e') env = .ok env1 →
    EnvOK env1 ∧ env1.funcs = env.funcs ∧ env1.retTy = env.retTy
  | [], env, env1, henv, _, h => by
    simp only [List.foldlM_nil] at h
    have := pure_ok h; subst this; exact ⟨henv, rfl, rfl⟩
  | q :: ps, env, env1, henv, hq, h => by
    simp only [List.foldlM_cons] at h
    obtain ⟨e1, he1, h⟩ := bind_ok h
    obtain ⟨pr, hpr, he1⟩ := bind_ok he1
    obtain ⟨e', t'⟩ := pr
    have := pure_ok he1; subst this
    have hty := hq q (by simp)
    obtain ⟨_, h2, h3, h4⟩ := tcDecl_ok henv .int hty (by simpa [wtE] using hty) hpr
    obtain ⟨h5, h6, h7⟩ := params_fold_ok ps e' env1 h2 (fun q' hq' => hq q' (by simp [hq'])) h
    exact ⟨h5, by rw [h6, h3], by rw [h7, h4]⟩

theorem finishBody_ok {fs : List FuncSig} {fl : Flavor} {ret : Ty} {body body' : TS} {mode : Nat}
    (hw : wtS fs ret body = true) (h : finishBody fl ret body mode = .ok body') : wtS fs ret body' = true := by
  unfold finishBody at h
  split at h
  · exact (throw_ok h).elim
  split at h
  · exact (throw_ok h).elim
  split at h
  · split at h
    · exact (throw_ok h).elim
    · rename_i hne
      have hre : (ret == Ty.empty) = true := by
        cases hh : (ret == Ty.empty) <;> simp_all
      split at h
      · have := pure_ok h; subst this
        simp only [wtS] at hw ⊢
        exact wtSs_append hw (by simp [wtSs, wtS, hre])
      · have := pure_ok h; subst this; exact hw
  · have := pure_ok h; subst this; exact hw

theorem bodyStmts_pty {s : PStmt} (h : ptyS s = true) : ptySs (bodyStmts s) = true := by
  cases s <;> simp_all [bodyStmts, ptyS, ptySs]

theorem tcFunc_wt {env : Env} (henv : EnvOK env) {f : PFunc} {tf : TFunc} (hp : ptyFunc f = true) (h : tcFunc env f = .ok tf) :
    wtS env.funcs tf.ret tf.body = true ∧ tf.name = f.name ∧ tf.fl = f.fl ∧ tf.ret = f.ret ∧
      tf.params.map (·.2) = f.params.map (fun q => q.2.1) := by
  simp only [ptyFunc, Bool.and_eq_true, Bool.or_eq_true, List.all_eq_true] at hp
  obtain ⟨⟨hret, hpar⟩, hbody⟩ := hp
  have hss := bodyStmts_pty hbody
  unfold tcFunc at h
  have henv0 : EnvOK { env.child with retTy := some f.ret } := by
    refine ⟨henv.child.decls, henv.ptys, henv.rets, ?_⟩
    intro r hr
    simp only [Option.some.injEq] at hr
    subst hr
    rcases hret with h1 | h1
    · exact tyOK_tgtOK h1
    · have : f.ret = .empty := by simpa using h1
      rw [this]; rfl
  obtain ⟨env1, henv1, h⟩ := bind_ok h
  obtain ⟨h1, h2, h3⟩ := params_fold_ok f.params _ env1 henv0 hpar henv1
  obtain ⟨body, hb, h⟩ := bind_ok h
  obtain ⟨body', hb', h⟩ := bind_ok h
  have := pure_ok h; subst this
  refine ⟨?_, rfl, rfl, rfl, by simp [List.map_map, Function.comp_def]⟩
  have hwb : wtS env.funcs f.ret body = true := by
    have := tcBlockGo_wt f.ret _ env1.child [] _ _ body h1.child (by
      intro r hr
      have : env1.child.retTy = env1.retTy := rfl
      rw [this, h3] at hr
      simpa using hr.symm) hss (by simp [wtSs]) hb
    have e : env1.child.funcs = env.funcs := by
      have : env1.child.funcs = env1.funcs := rfl
      rw [this, h2]; rfl
    rw [e] at this; exact this
  exact finishBody_ok hwb hb'

/-! ## programs -/
def sigOfP (f : PFunc) : FuncSig := ⟨f.name, f.fl, f.params.map (fun q => q.2.1), f.ret, false⟩

theorem sigs_fold_ok : ∀ (fl : List PFunc) (acc r : List FuncSig),
    fl.foldlM (fun (acc : List FuncSig) (f : PFunc) =>
      let ptys := f.params.map (fun q => q.2.1)
      if acc.any (fun g => g.name == f.name && g.fl == f.fl && g.ptys == ptys) then (MonadExcept.throw (TErr.tc "Redefinition of function") : R (List FuncSig))
      else pure (acc ++ [⟨f.name, f.fl, ptys, f.ret, false⟩])) acc = .ok r → r = acc ++ fl.map sigOfP
  | [], acc, r, h => by
    simp only [List.foldlM_nil] at h
    have := pure_ok h; subst this; simp
  | f :: fl, acc, r, h => by
    simp only [List.foldlM_cons] at h
    obtain ⟨a1, ha1, h⟩ := bind_ok h
    split at ha1
    · exact (throw_ok ha1).elim
    · have := pure_ok ha1; subst this
      have := sigs_fold_ok fl _ r h
      rw [this]; simp [sigOfP]

theorem vars_fold_ok : ∀ (vs : List PStmt) (env env1 : Env), EnvOK env → env.retTy = none → ptySs vs = true →
    vs.foldlM (fun (e : Env) (s : PStmt) => do let (e', _) ← tcStmt e s; pure e') env = .ok env1 →
    EnvOK env1 ∧ env1.funcs = env.funcs
  | [], env, env1, henv, _, _, h => by
    simp only [List.foldlM_nil] at h
    have := pure_ok h; subst this; exact ⟨henv, rfl⟩
  | v :: vs, env, env1, henv, hr, hp, h => by
    simp only [ptySs, Bool.and_eq_true] at hp
    simp only [List.foldlM_cons] at h
    obtain ⟨e1, he1, h⟩ := bind_ok h
    obtain ⟨pr, hpr, he1⟩ := bind_ok he1
    obtain ⟨e', t'⟩ := pr
    have := pure_ok he1; subst this
    obtain ⟨_, h2, h3, h4⟩ := tcStmt_wt .int v env e' t' henv (by intro r hr'; rw [hr] at hr'; cases hr') hp.1 hpr
    obtain ⟨h5, h6⟩ := vars_fold_ok vs e' env1 h2 (by rw [h4]; exact hr) hp.2 h
    exact ⟨h5, by rw [h6, h3]⟩

inductive All2 {α β : Type} (R : α → β → Prop) : List α → List β → Prop
  | nil : All2 R [] []
  | cons {a b l r} : R a b → All2 R l r → All2 R (a :: l) (b :: r)

theorem mapM_ok {α β : Type} (f : α → R β) : ∀ (l : List α) (r : List β), l.mapM f = .ok r → All2 (fun a b => f a = .ok b) l r
  | [], r, h => by
    simp only [List.mapM_nil] at h
    have := pure_ok h; subst this; exact .nil
  | a :: l, r, h => by
    simp only [List.mapM_cons] at h
    obtain ⟨b, hb, h⟩ := bind_ok h
    obtain ⟨bs, hbs, h⟩ := bind_ok h
    have := pure_ok h; subst this
    exact .cons hb (mapM_ok f l bs hbs)

theorem getLastD_mem {α : Type} : ∀ (l : List (List α)) (x : α), x ∈ l.getLastD [] → ∃ sc ∈ l, x ∈ sc
  | [], x, h => by simp at h
  | [a], x, h => by simp at h; exact ⟨a, by simp, h⟩
  | a :: b :: l, x, h => by
    have : (a :: b :: l).getLastD [] = (b :: l).getLastD [] := by simp [List.getLastD]
    rw [this] at h
    obtain ⟨sc, hsc, hx⟩ := getLastD_mem (b :: l) x h
    exact ⟨sc, by simp only [List.mem_cons] at hsc ⊢; exact Or.inr hsc, hx⟩

theorem builtin_ptys_ok : ∀ f ∈ builtinSigs, ∀ t ∈ f.ptys, tgtOK t = true := by decide
theorem builtin_rets_ok : ∀ f ∈ builtinSigs, noNest f.ret = true := by decide

/-- **every program the typechecker accepts has a well-typed tree**: all calls carry arguments of exactly the parameter
types of a declared overload, conditions are `bool`, operands of arithmetic `int`, assignment targets mutable,
`return` agrees with the function's type, array literals and casts obey the rules (`wtE`, `wtS`) -/
theorem tcProgram_wt {lint : Bool} {p : PProgram} {tp : TProgram} (hp : ptyProg p = true) (h : tcProgram lint p = .ok tp) :
    wtProgWith (progSigs p) tp = true ∧ sigsOf tp = progSigs p := by
  simp only [ptyProg, Bool.and_eq_true, List.all_eq_true] at hp
  obtain ⟨hvars, hfuncs⟩ := hp
  unfold tcProgram at h
  obtain ⟨funcs, hf, h⟩ := bind_ok h
  have hfs := sigs_fold_ok p.funcs builtinSigs funcs hf
  have hfs' : funcs = progSigs p := by rw [hfs]; rfl
  subst hfs'
  dsimp only at h
  have henv0 : EnvOK { scopes := [[]], funcs := progSigs p, lint := lint, retTy := none } := by
    refine ⟨?_, ?_, ?_, ?_⟩
    · intro sc hsc d hd
      simp only [List.mem_singleton] at hsc
      subst hsc; simp at hd
    · intro f hf t ht
      simp only [progSigs, List.mem_append, List.mem_map] at hf
      rcases hf with hf | ⟨g, hg, rfl⟩
      · exact builtin_ptys_ok f hf t ht
      · have := hfuncs g hg
        simp only [ptyFunc, Bool.and_eq_true, List.all_eq_true] at this
        simp only [List.mem_map] at ht
        obtain ⟨q, hq, rfl⟩ := ht
        exact tyOK_tgtOK (this.1.2 q hq)
    · intro f hf
      simp only [progSigs, List.mem_append, List.mem_map] at hf
      rcases hf with hf | ⟨g, hg, rfl⟩
      · exact builtin_rets_ok f hf
      · have := hfuncs g hg
        simp only [ptyFunc, Bool.and_eq_true, Bool.or_eq_true] at this
        rcases this.1.1 with h1 | h1
        · exact tyOK_noNest h1
        · have : g.ret = .empty := by simpa using h1
          simp [this, noNest]
    · intro r hr; cases hr
  obtain ⟨env, henv, h⟩ := bind_ok h
  obtain ⟨he1, he2⟩ := vars_fold_ok p.vars _ env henv0 rfl hvars henv
  obtain ⟨fs, hfsm, h⟩ := bind_ok h
  have := pure_ok h; subst this
  have hall := mapM_ok (tcFunc env) p.funcs fs hfsm
  have he2' : env.funcs = progSigs p := he2
  constructor
  · simp only [wtProgWith, Bool.and_eq_true, List.all_eq_true]
    constructor
    · intro d hd
      simp only [List.mem_reverse] at hd
      obtain ⟨sc, hsc, hd⟩ := getLastD_mem env.scopes d hd
      have := he1.decls sc hsc d hd
      rw [he2'] at this; exact this
    · intro tf htf
      have key : ∀ (l : List PFunc) (r : List TFunc), All2 (fun a b => tcFunc env a = .ok b) l r → (∀ g ∈ l, ptyFunc g = true) →
          ∀ tf ∈ r, wtS env.funcs tf.ret tf.body = true := by
        intro l r hlr
        induction hlr with
        | nil => intro _ tf htf; simp at htf
        | cons hab _ ih =>
          intro hg tf htf
          simp only [List.mem_cons] at htf
          rcases htf with rfl | htf
          · exact (tcFunc_wt he1 (hg _ (by simp)) hab).1
          · exact ih (fun g hg' => hg g (by simp [hg'])) tf htf
      have := key p.funcs fs hall hfuncs tf htf
      rw [he2'] at this; exact this
  · have key : ∀ (l : List PFunc) (r : List TFunc), All2 (fun a b => tcFunc env a = .ok b) l r → (∀ g ∈ l, ptyFunc g = true) →
        r.map (fun f => (⟨f.name, f.fl, f.params.map (·.2), f.ret, false⟩ : FuncSig)) = l.map sigOfP := by
      intro l r hlr
      induction hlr with
      | nil => intro _; rfl
      | cons hab _ ih =>
        intro hg
        obtain ⟨_, h1, h2, h3, h4⟩ := tcFunc_wt he1 (hg _ (by simp)) hab
        simp only [List.map_cons, ih (fun g hg' => hg g (by simp [hg'])), sigOfP, h1, h2, h3, h4]
    simp only [sigsOf, progSigs]
    rw [key p.funcs fs hall hfuncs]
    rfl

end HidVerif.Hid.TC
