import HidVerif.Proofs.Prophetic
import HidVerif.Proofs.Mem
/-!
# Single-instruction lemmas for the Sphinx machine, code placement, register file view
-/
namespace HidVerif.Sphinx
open HidVerif HidVerif.PSys

theorem pow_ge2 (w : Nat) (hw : 2 ≤ w) : 65536 ≤ 256 ^ w := by
  calc 65536 = 256 ^ 2 := by decide
    _ ≤ 256 ^ w := Nat.pow_le_pow_right (by decide) hw

theorem w_lt_pow (w : Nat) : w < 256 ^ w := Nat.lt_pow_self (by decide)

/-- `8 * w < 256 ^ w` for `w ≥ 1`; used to show register addresses need no wrapping -/
theorem mul_w_lt_pow (w : Nat) (hw : 2 ≤ w) : 64 * w < 256 ^ w := by
  induction w with
  | zero => omega
  | succ n ih =>
    by_cases h : n = 1
    · subst h; decide
    · have := ih (by omega)
      rw [Nat.pow_succ]; omega

/-! ## code placement -/

/-- `code` sits in the program at address `base` -/
def PlacedAt (p : Prog) (base : Nat) (code : List Instr) : Prop :=
  ∀ i (h : i < code.length), p.code[base + i]? = some code[i]

theorem PlacedAt.append {p : Prog} {b : Nat} {l₁ l₂ : List Instr} (h : PlacedAt p b (l₁ ++ l₂)) :
    PlacedAt p b l₁ ∧ PlacedAt p (b + l₁.length) l₂ := by
  constructor
  · intro i hi
    have := h i (by simp; omega)
    rwa [List.getElem_append_left hi] at this
  · intro i hi
    have := h (l₁.length + i) (by simp; omega)
    rw [List.getElem_append_right (by omega)] at this
    simp only [Nat.add_sub_cancel_left] at this
    rwa [Nat.add_assoc]

/-- offsets of a routine table are the running sums of the routine lengths -/
def OffsetsFrom : Nat → List (Nat × List Instr) → Prop
  | _, [] => True
  | n, (o, c) :: rs => o = n ∧ OffsetsFrom (n + c.length) rs

theorem placed_routines {p : Prog} {B n : Nat} {rs : List (Nat × List Instr)}
    (hoff : OffsetsFrom n rs) (h : PlacedAt p (B + n) (rs.map (·.2)).flatten) :
    ∀ oc ∈ rs, PlacedAt p (B + oc.1) oc.2 := by
  induction rs generalizing n with
  | nil => intro _ h; cases h
  | cons r rs ih =>
    obtain ⟨o, c⟩ := r
    obtain ⟨ho, hrest⟩ := hoff
    simp only [List.map_cons, List.flatten_cons] at h
    obtain ⟨h1, h2⟩ := h.append
    intro oc hmem
    rcases List.mem_cons.1 hmem with rfl | hm
    · simpa [ho] using h1
    · exact ih hrest (by simpa [Nat.add_assoc] using h2) oc hm

/-! ## operand evaluation -/
section
variable {p : Prog} {pc : Nat} {m : Mem}

theorem ev_imm (v : Nat) : evalArg p ⟨pc, m⟩ (.imm v) = some (v % p.M) := rfl

theorem ev_st {a : Nat} (ha : a < p.M) (hb : a + p.w ≤ m.size) :
    evalArg p ⟨pc, m⟩ (.st a) = some (m.readLE a p.w) := by
  simp [evalArg, Nat.mod_eq_of_lt ha, hb]

theorem ev_cn {a : Nat} (ha : a < p.M) (hb : a + p.w ≤ p.const.size) :
    evalArg p ⟨pc, m⟩ (.cn a) = some (p.const.readLE a p.w) := by
  simp [evalArg, Nat.mod_eq_of_lt ha, hb]

/-! ## one lemma per instruction form -/

theorem step_halt (hc : p.code[pc]? = some .halt) : step p ⟨pc, m⟩ = .halt := by
  simp [step, hc]

theorem step_hcond {c a b x y} (hc : p.code[pc]? = some (.hcond c a b))
    (ha : evalArg p ⟨pc, m⟩ a = some x) (hb : evalArg p ⟨pc, m⟩ b = some y) :
    step p ⟨pc, m⟩ = if haltCond p.M c x y then .halt else .next ⟨pc + 1, m⟩ none := by
  simp [step, hc, ha, hb]

theorem step_j {t x} (hc : p.code[pc]? = some (.j t)) (ht : evalArg p ⟨pc, m⟩ t = some x) :
    step p ⟨pc, m⟩ = .jump ⟨pc + 1, m⟩ ⟨x, m⟩ := by
  simp [step, hc, ht]

theorem step_mov {d v x} (hc : p.code[pc]? = some (.mov d v))
    (hv : evalArg p ⟨pc, m⟩ v = some x) (hd : d < p.M) (hb : d + p.w ≤ m.size) :
    step p ⟨pc, m⟩ = .next ⟨pc + 1, m.writeLE d p.w x⟩ none := by
  simp [step, hc, hv, Nat.mod_eq_of_lt hd, hb]

theorem step_alu {op d a b x y r} (hc : p.code[pc]? = some (.alu op d a b))
    (ha : evalArg p ⟨pc, m⟩ a = some x) (hb : evalArg p ⟨pc, m⟩ b = some y)
    (hr : aluOp p.M (8 * p.w) op x y = some r) (hd : d < p.M) (hbd : d + p.w ≤ m.size) :
    step p ⟨pc, m⟩ = .next ⟨pc + 1, m.writeLE d p.w r⟩ none := by
  simp [step, hc, ha, hb, hr, Nat.mod_eq_of_lt hd, hbd]

/-- word load from the state section with offset -/
theorem step_lwso {d src off b o} (hc : p.code[pc]? = some (.load true .state d src (some off)))
    (hs : evalArg p ⟨pc, m⟩ src = some b) (ho : evalArg p ⟨pc, m⟩ off = some o)
    (ha : (b + o) % p.M + p.w ≤ m.size) (hd : d < p.M) (hbd : d + p.w ≤ m.size) :
    step p ⟨pc, m⟩ = .next ⟨pc + 1, m.writeLE d p.w (m.readLE ((b + o) % p.M) p.w)⟩ none := by
  simp [step, hc, hs, ho, ha, Nat.mod_eq_of_lt hd, hbd]

/-- byte load from the state section with offset -/
theorem step_lbso {d src off b o} (hc : p.code[pc]? = some (.load false .state d src (some off)))
    (hs : evalArg p ⟨pc, m⟩ src = some b) (ho : evalArg p ⟨pc, m⟩ off = some o)
    (ha : (b + o) % p.M + 1 ≤ m.size) (hd : d < p.M) (hbd : d + p.w ≤ m.size) :
    step p ⟨pc, m⟩ = .next ⟨pc + 1, m.writeLE d p.w (m.rd ((b + o) % p.M))⟩ none := by
  simp [step, hc, hs, ho, ha, Nat.mod_eq_of_lt hd, hbd, Mem.readLE_one]

/-- byte load from the state section, no offset -/
theorem step_lbs {d src b} (hc : p.code[pc]? = some (.load false .state d src none))
    (hs : evalArg p ⟨pc, m⟩ src = some b) (hb : b < p.M)
    (ha : b + 1 ≤ m.size) (hd : d < p.M) (hbd : d + p.w ≤ m.size) :
    step p ⟨pc, m⟩ = .next ⟨pc + 1, m.writeLE d p.w (m.rd b)⟩ none := by
  simp [step, hc, hs, Nat.mod_eq_of_lt hb, ha, Nat.mod_eq_of_lt hd, hbd, Mem.readLE_one]

/-- byte load from the const section, no offset -/
theorem step_lbc {d src b} (hc : p.code[pc]? = some (.load false .const d src none))
    (hs : evalArg p ⟨pc, m⟩ src = some b) (hb : b < p.M)
    (ha : b + 1 ≤ p.const.size) (hd : d < p.M) (hbd : d + p.w ≤ m.size) :
    step p ⟨pc, m⟩ = .next ⟨pc + 1, m.writeLE d p.w (p.const.rd b)⟩ none := by
  simp [step, hc, hs, Nat.mod_eq_of_lt hb, ha, Nat.mod_eq_of_lt hd, hbd, Mem.readLE_one]

/-- word load from the const section, no offset -/
theorem step_lwc {d src b} (hc : p.code[pc]? = some (.load true .const d src none))
    (hs : evalArg p ⟨pc, m⟩ src = some b) (hb : b < p.M)
    (ha : b + p.w ≤ p.const.size) (hd : d < p.M) (hbd : d + p.w ≤ m.size) :
    step p ⟨pc, m⟩ = .next ⟨pc + 1, m.writeLE d p.w (p.const.readLE b p.w)⟩ none := by
  simp [step, hc, hs, Nat.mod_eq_of_lt hb, ha, Nat.mod_eq_of_lt hd, hbd]

/-- byte store to the state section, no offset -/
theorem step_sbs {dst v a x} (hc : p.code[pc]? = some (.store false dst none v))
    (hd : evalArg p ⟨pc, m⟩ dst = some a) (hv : evalArg p ⟨pc, m⟩ v = some x)
    (ha : a < p.M) (hb : a + 1 ≤ m.size) :
    step p ⟨pc, m⟩ = .next ⟨pc + 1, m.writeLE a 1 x⟩ none := by
  simp [step, hc, hd, hv, Nat.mod_eq_of_lt ha, hb]

theorem step_yld {a x} (hc : p.code[pc]? = some (.yld a)) (ha : evalArg p ⟨pc, m⟩ a = some x) :
    step p ⟨pc, m⟩ = .next ⟨pc + 1, m⟩ (some (.out (x % 256))) := by
  simp [step, hc, ha]

theorem step_sleep {a x} (hc : p.code[pc]? = some (.sleep a)) (ha : evalArg p ⟨pc, m⟩ a = some x) :
    step p ⟨pc, m⟩ = .next ⟨pc + 1, m⟩ (some (.sleep x)) := by
  simp [step, hc, ha]

theorem step_flag {f} (hc : p.code[pc]? = some (.flag f)) :
    step p ⟨pc, m⟩ = .next ⟨pc + 1, m⟩ (some (.flag f)) := by
  simp [step, hc]
end

/-! ## arithmetic facts (modulus kept symbolic) -/
theorem toS_small {M x : Nat} (h : x < M / 2) : toS M x = (x : Int) := by simp [toS, h]
theorem toS_big {M x : Nat} (h : ¬ x < M / 2) : toS M x = (x : Int) - M := by simp [toS, h]

theorem wrapI_nat {M n : Nat} (h : n < M) : wrapI M (n : Int) = n := by
  unfold wrapI
  have : ((n : Int) % (M : Int)) = (n : Int) := Int.emod_eq_of_lt (by omega) (by omega)
  rw [this]; simp

theorem wrapI_neg {M n : Nat} (h0 : 0 < n) (h : n ≤ M) : wrapI M (-(n : Int)) = M - n := by
  unfold wrapI
  have h1 : (-(n : Int)) % (M : Int) = ((-(n : Int)) + (M : Int)) % (M : Int) := by
    rw [Int.add_emod_right]
  have h2 : ((-(n : Int)) + (M : Int)) % (M : Int) = (-(n : Int)) + (M : Int) :=
    Int.emod_eq_of_lt (by omega) (by omega)
  rw [h1, h2]; omega

end HidVerif.Sphinx
