import HidVerif.Hid.Lexer
/-!
# C12 (i): integer literals — every digit string, every base, every placement of `_`
-/
namespace HidVerif.Hid.Lex

/-- the text after a literal does not continue it -/
def Stops (isD : CP → Option Nat) : Line → Prop
  | [] => True
  | d :: l' => isD d = none ∧ (d = 95 → match l' with | e :: _ => isD e = none | [] => True)

/-- further digits, each optionally preceded by one underscore -/
def renderTail : List (Bool × CP) → Line
  | [] => []
  | (sep, c) :: tl => (if sep then [95, c] else [c]) ++ renderTail tl

theorem more_spec (isD : CP → Option Nat) (hus : isD 95 = none) (rest : Line) (hrest : Stops isD rest) :
    ∀ (tl : List (Bool × CP)) (val : CP → Nat), (∀ x ∈ tl, isD x.2 = some (val x.2)) →
    ∀ (fuel : Nat) (acc : List Nat) (n : Nat), (renderTail tl ++ rest).length ≤ fuel →
      digitsSep.more isD fuel (renderTail tl ++ rest) acc n =
        (acc.reverse ++ tl.map (fun x => val x.2), n + (renderTail tl).length) := by
  intro tl
  induction tl with
  | nil =>
    intro val hv fuel acc n _
    simp only [renderTail, List.nil_append, List.append_nil, List.length_nil, Nat.add_zero, List.map_nil]
    cases fuel with
    | zero => simp [digitsSep.more]
    | succ fuel =>
      cases rest with
      | nil => simp [digitsSep.more]
      | cons d l' =>
        obtain ⟨hd, hu⟩ := hrest
        unfold digitsSep.more
        simp only [hd]
        by_cases h95 : d = 95
        · subst h95
          cases l' with
          | nil => simp
          | cons e l'' =>
            have := hu rfl
            simp only at this
            simp [this]
        · simp [h95]
  | cons x tl ih =>
    intro val hv fuel acc n hf
    obtain ⟨sep, c⟩ := x
    have hc : isD c = some (val c) := hv (sep, c) (by simp)
    have hrestv : ∀ x ∈ tl, isD x.2 = some (val x.2) := fun x hx => hv x (by simp [hx])
    generalize hvdef : val c = v at hc
    have hmap : (List.map (fun x => val x.2) ((sep, c) :: tl)) = v :: tl.map (fun x => val x.2) := by simp [hvdef]
    rw [hmap]
    cases sep with
      | false =>
        simp only [renderTail, Bool.false_eq_true, if_false, List.cons_append, List.nil_append] at hf ⊢
        cases fuel with
        | zero => simp at hf
        | succ fuel =>
          unfold digitsSep.more
          simp only [hc]
          rw [ih val hrestv fuel (v :: acc) (n + 1) (by simp at hf ⊢; omega)]
          simp [Nat.add_assoc, Nat.add_comm 1]
      | true =>
        simp only [renderTail, if_true, List.cons_append, List.nil_append] at hf ⊢
        cases fuel with
        | zero => simp at hf
        | succ fuel =>
          unfold digitsSep.more
          simp only [hus, hc]
          rw [ih val hrestv fuel (v :: acc) (n + 2) (by simp at hf ⊢; omega)]
          simp [Nat.add_assoc, Nat.add_comm 2]

/-- **separator theorem**: a first digit followed by digits with single underscores anywhere
between them is read completely, underscores ignored -/
theorem digitsSep_spec (isD : CP → Option Nat) (hus : isD 95 = none) (c0 : CP) (v0 : Nat) (h0 : isD c0 = some v0)
    (tl : List (Bool × CP)) (val : CP → Nat) (hv : ∀ x ∈ tl, isD x.2 = some (val x.2))
    (rest : Line) (hrest : Stops isD rest) :
    digitsSep isD (c0 :: renderTail tl ++ rest) = (v0 :: tl.map (fun x => val x.2), 1 + (renderTail tl).length) := by
  simp only [digitsSep, List.cons_append, h0]
  rw [more_spec isD hus rest hrest tl val hv _ [v0] 1 (Nat.le_refl _)]
  simp

/-- positional value: most significant digit first -/
theorem ofDigits_append (base : Nat) (ds : List Nat) (d : Nat) :
    ofDigits base (ds ++ [d]) = base * ofDigits base ds + d := by
  simp [ofDigits, List.foldl_append]

end HidVerif.Hid.Lex
