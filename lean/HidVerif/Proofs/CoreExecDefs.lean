import HidVerif.Proofs.CoreFrame
/-!
# Core compiler proofs: what the theorem about statement lists (`cS_ok`) says

Two kinds of statement lists are covered by one theorem:
* lists without `try` (bodies of `try` blocks: they may contain defeat calls) — the conclusion
  is a `Reach`, or `Halts` of the start state when the source semantics says *defeat*;
* lists at the level of the you function (`youLevel`: `try` allowed, defeat calls only inside
  `try` bodies) — these additionally need to know that the states in which the whole list can
  end never halt, because a Turing jump looks at the whole future (`hsafe`).
-/
namespace HidVerif.Core
open HidVerif HidVerif.PSys HidVerif.Sphinx HidVerif.Gen

section
variable {p : Prog} {ck : Bool} {B : Nat} {dA : Nat} {fa : FAddr} {fns : List FDecl}

/-- what the proofs need to know about the functions of the program -/
structure FnsOK (p : Prog) (ck : Bool) (B dA : Nat) (fa : FAddr) (fns : List FDecl) : Prop where
  placed : ∀ fd ∈ fns, PlacedAt p (faddr fa fd.name) (funcCode (cxOf p ck B dA) fa (faddr fa fd.name) fd.dfn fd.params fd.body)
  inB : ∀ fd ∈ fns, faddr fa fd.name + (funcCode (cxOf p ck B dA) fa (faddr fa fd.name) fd.dfn fd.params fd.body).length ≤ B
  nodup : ∀ fd ∈ fns, fd.params.Nodup
  wf : ∀ fd ∈ fns, wfS fns fd.dfn fd.params fd.body = true
  plain : ∀ fd ∈ fns, fd.dfn = false → Core.plain fns fd.body = true
  dfnNoTry : ∀ fd ∈ fns, fd.dfn = true → noTry fd.body = true

/-- faults are only defined in checked builds; a callee's stack check compares with the frame peak
modulo the word, so the overflow verdict needs the peaks of the functions to be representable -/
def FaultOK (ck : Bool) (fns : List FDecl) (w : Nat) : Res → Prop
  | .div0 => ck = true
  | .ovf => ck = true ∧ ∀ fd ∈ fns, pkS w (entryOff w fd.params) fd.body < 256 ^ w
  | _ => True

/-- in the situation `md` every defeat handler halts, whatever the memory (vacuous unless `md` is `stop`:
it describes the world in which a `try/stop` asks whether its body would be defeated) -/
def HaltW (p : Prog) (md : Md) : Prop := ∀ a v, md = .stop a v → ∀ m', Halts (sphinx p) ⟨v, m'⟩

theorem HaltW.plain : HaltW p .plain := fun _ _ e => by cases e

/-- what a caller must say about the situation of a statement list.  Either the list has no `try`
(then in the body of a `try/stop`, and only there, defeat calls jump through the word at `dA`; a
Turing jump to the handler that is *not* taken needs to know the future: either the handler is a
`halt`, or no state in which the whole list can end halts), or it is at the level of the you
function: then the states in which the whole list can end never halt, because a Turing jump looks at
the whole future, and programs with a `try/stop` or a defeat function have the words `try_fp` and `defeat`
behind the entry frame, `defeat` holding the address of a `halt` between `try` blocks.  `dc`: the list is in a
defeat context (it may call defeat functions). -/
def Safe (p : Prog) (B dA ra : Nat) (lp : Jt) (md : Md) (st dc : Bool) (fns : List FDecl) (Γ : Gam) (env' : Env) (F D o pcEnd : Nat) (m : Mem) (res : Res) (s : S) : Prop :=
  (md.isYou = false ∧
      ((lp.vd = true → ∃ v, md = .stop dA v) ∧ (dc = true → (∃ v, md = .stop dA v) ∨ ∀ fd ∈ fns, fd.dfn = false)) ∧
      noTry s = true ∧
      (HaltW p md ∨ (lp.vd = true ∧ ∀ st', Post p B ra lp md Γ env' F D o pcEnd m res st' → ¬ Halts (sphinx p) st'))) ∨
    ((md.isYou = true ∧ dc = false ∧ (st = false → ∀ fd ∈ fns, fd.dfn = false)) ∧ lp.vd = false ∧ youLevel st fns s = true ∧
      (st = true → dA = F + p.w ∧ F + 2 * p.w ≤ m.size ∧ F + 2 * p.w < 256 ^ p.w ∧ md = .you (some (dA, B + off_halt))) ∧
      ∀ st', Post p B ra lp md Γ env' F D o pcEnd m res st' → ¬ Halts (sphinx p) st')

theorem Safe.sub' {lp : Jt} {md : Md} {st dc : Bool} {Γ Γ' : Gam} {env' : Env} {F D ra o o' e e' : Nat} {m m1 : Mem} {res : Res} {s k : S}
    (h : Safe p B dA ra lp md st dc fns Γ env' F D o e m res s)
    (hnt : noTry s = true → noTry k = true) (hyl : youLevel st fns s = true → youLevel st fns k = true)
    (km : Keep p.w m m1 (md.kb F p.w))
    (conv : ∀ st', Post p B ra lp md Γ' env' F D o' e' m res st' → Post p B ra lp md Γ env' F D o e m res st') :
    Safe p B dA ra lp md st dc fns Γ' env' F D o' e' m1 res k := by
  rcases h with ⟨hm, hv, h, hw⟩ | ⟨hm, hv, h1, hst, h2⟩
  · exact Or.inl ⟨hm, hv, hnt h, hw.imp id (fun hf => ⟨hf.1, fun st' hp => hf.2 st' (conv st' (hp.rebase km))⟩)⟩
  · exact Or.inr ⟨hm, hv, hyl h1, fun e => by rw [km.size]; exact hst e, fun st' hp => h2 st' (conv st' (hp.rebase km))⟩

theorem Safe.sub {lp : Jt} {md : Md} {st dc : Bool} {Γ Γ' : Gam} {env' : Env} {F D ra o o' e e' : Nat} {m m1 : Mem} {res : Res} {s k : S}
    (h : Safe p B dA ra lp md st dc fns Γ env' F D o e m res s)
    (hnt : noTry s = true → noTry k = true) (hyl : youLevel st fns s = true → youLevel st fns k = true)
    (km : Keep p.w m m1 F)
    (conv : ∀ st', Post p B ra lp md Γ' env' F D o' e' m res st' → Post p B ra lp md Γ env' F D o e m res st') :
    Safe p B dA ra lp md st dc fns Γ' env' F D o' e' m1 res k := h.sub' hnt hyl km.kb conv

/-- what `cS_ok` concludes: a defeat halts the machine, except inside a `try/stop` body, where it
leaves it at the handler -/
def Concl (p : Prog) (B ra : Nat) (lp : Jt) (md : Md) (Γ : Gam) (env' : Env) (F D o pc pcEnd : Nat) (m : Mem) (tr : List Ev) (res : Res) : Prop :=
  (res = .defeat → lp.vd = false → Halts (sphinx p) ⟨pc, m⟩) ∧
  ((res = .defeat → lp.vd = true) → ∃ st', Reach (sphinx p) ⟨pc, m⟩ tr st' ∧ Post p B ra lp md Γ env' F D o pcEnd m res st')

theorem nd {res : Res} {P : Prop} (h : res ≠ .defeat) : res = .defeat → P := fun e => absurd e h

/-- prefix a `Reach` to a conclusion about the rest -/
theorem Concl.pre' {lp : Jt} {md : Md} {Γ Γ' : Gam} {env' : Env} {F D ra o o' pc pc1 e e' : Nat} {m m1 : Mem} {tr0 tr : List Ev} {res : Res}
    (r : Reach (sphinx p) ⟨pc, m⟩ tr0 ⟨pc1, m1⟩) (km : Keep p.w m m1 (md.kb F p.w))
    (h : Concl p B ra lp md Γ' env' F D o' pc1 e' m1 tr res)
    (conv : ∀ st', Post p B ra lp md Γ' env' F D o' e' m res st' → Post p B ra lp md Γ env' F D o e m res st') :
    Concl p B ra lp md Γ env' F D o pc e m (tr0 ++ tr) res :=
  ⟨fun hd hv => r.1 (h.1 hd hv), fun hn => by
    obtain ⟨st', r2, hp⟩ := h.2 hn
    exact ⟨st', r.trans r2, conv st' (hp.rebase km)⟩⟩

theorem Concl.pre {lp : Jt} {md : Md} {Γ Γ' : Gam} {env' : Env} {F D ra o o' pc pc1 e e' : Nat} {m m1 : Mem} {tr0 tr : List Ev} {res : Res}
    (r : Reach (sphinx p) ⟨pc, m⟩ tr0 ⟨pc1, m1⟩) (km : Keep p.w m m1 F)
    (h : Concl p B ra lp md Γ' env' F D o' pc1 e' m1 tr res)
    (conv : ∀ st', Post p B ra lp md Γ' env' F D o' e' m res st' → Post p B ra lp md Γ env' F D o e m res st') :
    Concl p B ra lp md Γ env' F D o pc e m (tr0 ++ tr) res := Concl.pre' r km.kb h conv

theorem Concl.toYou {lp : Jt} {md1 : Md} {w : Option (Nat × Nat)} {Γ : Gam} {env' : Env} {F D ra o pc e : Nat} {m : Mem} {tr : List Ev} {res : Res}
    (hkb : md1.kb F p.w = F) (hd : DReg p (.you w) m F) (hres : res ≠ .defeat)
    (h : Concl p B ra lp md1 Γ env' F D o pc e m tr res) : Concl p B ra lp (.you w) Γ env' F D o pc e m tr res :=
  ⟨fun hdf => absurd hdf hres, fun _ => by obtain ⟨st', r, hp⟩ := h.2 (nd hres); exact ⟨st', r, hp.toYou hkb hd hres⟩⟩

theorem post_conv {lp : Jt} {md : Md} {Γ : Gam} {env' : Env} {F D ra o e e' : Nat} {m : Mem} {res : Res} (he : e' = e) :
    ∀ st', Post p B ra lp md Γ env' F D o e' m res st' → Post p B ra lp md Γ env' F D o e m res st' := by
  subst he; exact fun _ h => h

/-- the statement of `cS_ok` for runs of the source semantics with fuel `fuel` -/
def StmtOK (p : Prog) (ck : Bool) (B dA : Nat) (fa : FAddr) (fns : List FDecl) (fuel : Nat) : Prop :=
    ∀ (F D ra : Nat) (hra : ra < 256 ^ p.w) (lp : Jt) (hlp : lp.cont < 256 ^ p.w ∧ lp.brk < 256 ^ p.w) (md : Md) (sb dc : Bool)
      (s : S) (Γ : Gam) (env : Env) (pc o : Nat) (m : Mem) (env' : Env) (tr : List Ev) (res : Res),
      PlacedAt p pc (cS (cxOf p ck B dA) fa lp Γ pc o s) →
      pc + (cS (cxOf p ck B dA) fa lp Γ pc o s).length ≤ B →
      SInv p md Γ env m F D o ra → Disj p.w Γ → wfS fns dc (Γ.map Prod.fst) s = true →
      pkS p.w o s ≤ D → p.w ≤ o →
      exec (256 ^ p.w) (8 * p.w) fns p.w fuel D o env s = some (env', tr, res) → FaultOK ck fns p.w res →
      Safe p B dA ra lp md sb dc fns Γ env' F D o (pc + (cS (cxOf p ck B dA) fa lp Γ pc o s).length) m res s →
      Concl p B ra lp md Γ env' F D o pc (pc + (cS (cxOf p ck B dA) fa lp Γ pc o s).length) m tr res

end

end HidVerif.Core
