import HidVerif.Hid.ExitModes
/-!
# C16 — the exit-mode analysis is sound: a block whose modes lack `NONE` cannot complete normally
-/
namespace HidVerif.Hid.Exit

/-! bit facts on bounded mode values (ExitMode has five members: all values are below 32) -/
theorem replace_lt : ∀ m < 32, ∀ n < 32, ∀ o ∈ [NONE, BREAK, DEFEAT], replace m o n < 32 := by decide
theorem lor_lt : ∀ m < 32, ∀ n < 32, Nat.lor m n < 32 := by decide
theorem f_none_replace_none : ∀ m < 32, ∀ n < 32, has (replace m NONE n) NONE = has n NONE := by decide
theorem f_break_replace_none : ∀ m < 32, ∀ n < 32, has (replace m NONE n) BREAK = (has m BREAK || has n BREAK) := by decide
theorem f_lor : ∀ m < 32, ∀ n < 32, ∀ b ∈ [NONE, BREAK], has (Nat.lor m n) b = (has m b || has n b) := by decide
theorem f_replace_defeat : ∀ m < 32, ∀ n < 32, ∀ b ∈ [NONE, BREAK], has (replace m DEFEAT n) b = (has m b || has n b) := by decide
theorem f_loop_exit : ∀ m < 32, has (replace m BREAK NONE) NONE = true ∧ has (replace m BREAK NONE) BREAK = false := by decide
theorem f_loop_inf : ∀ m < 32, has (replace m NONE LOOP) NONE = false ∧ has (replace m NONE LOOP) BREAK = has m BREAK := by decide
theorem consts_lt : NONE < 32 ∧ BREAK < 32 ∧ LOOP < 32 ∧ DEFEAT < 32 ∧ RETURN < 32 ∧ (0 : Nat) < 32 := by decide
theorem has_none_none : has NONE NONE = true ∧ has NONE BREAK = false := by decide

mutual
theorem modes_lt : ∀ s : Skel, modes s < 32
  | .block ss => by simp only [modes]; exact blockGo_lt ss NONE false consts_lt.1
  | .ifb t e => by simp only [modes]; exact lor_lt _ (modes_lt t) _ (modes_lt e)
  | .loop tc b k => by
    simp only [modes]
    split
    · exact replace_lt _ (modes_lt b) _ consts_lt.2.2.1 NONE (by simp)
    · exact replace_lt _ (modes_lt b) _ consts_lt.1 BREAK (by simp)
  | .tryb b h => by simp only [modes]; exact replace_lt _ (modes_lt b) _ (modes_lt h) DEFEAT (by simp)
  | .preempt b => by simp only [modes]; exact lor_lt _ (modes_lt b) _ consts_lt.1
  | .other => by decide | .ret => by decide | .brk => by decide | .cont => by decide
  | .defeat => by decide | .term => by decide | .defcall => by decide

theorem blockGo_lt : ∀ (ss : List Skel) (mode : Nat) (fc : Bool), mode < 32 → blockGo ss mode fc < 32
  | [], mode, fc, h => by simpa [blockGo] using h
  | s :: rest, mode, fc, h => by
    unfold blockGo
    split
    · exact h
    · cases s with
      | other => exact blockGo_lt rest _ _ h
      | ret => exact blockGo_lt rest _ _ (replace_lt _ h _ consts_lt.2.2.2.2.1 NONE (by simp))
      | brk => exact blockGo_lt rest _ _ (replace_lt _ h _ consts_lt.2.1 NONE (by simp))
      | cont => exact blockGo_lt rest _ _ h
      | defeat => exact blockGo_lt rest _ _ (replace_lt _ h _ consts_lt.2.2.2.1 NONE (by simp))
      | term => exact blockGo_lt rest _ _ (replace_lt _ h _ consts_lt.2.2.1 NONE (by simp))
      | defcall => exact blockGo_lt rest _ _ (lor_lt _ h _ consts_lt.2.2.2.1)
      | block ss' => exact blockGo_lt rest _ _ (replace_lt _ h _ (modes_lt (.block ss')) NONE (by simp))
      | ifb t e => exact blockGo_lt rest _ _ (replace_lt _ h _ (modes_lt (.ifb t e)) NONE (by simp))
      | loop tc b k => exact blockGo_lt rest _ _ (replace_lt _ h _ (modes_lt (.loop tc b k)) NONE (by simp))
      | tryb b hh => exact blockGo_lt rest _ _ (replace_lt _ h _ (modes_lt (.tryb b hh)) NONE (by simp))
      | preempt b => exact blockGo_lt rest _ _ (replace_lt _ h _ (modes_lt (.preempt b)) NONE (by simp))
end

end HidVerif.Hid.Exit

namespace HidVerif.Hid.Exit

/-- once a `break` has been recorded in a block's mode it stays -/
theorem blockGo_break_mono : ∀ (ss : List Skel) (mode : Nat) (fc : Bool), mode < 32 →
    has mode BREAK = true → has (blockGo ss mode fc) BREAK = true
  | [], mode, fc, _, h => by simpa [blockGo] using h
  | s :: rest, mode, fc, hlt, h => by
    unfold blockGo
    split
    · exact h
    · have keepR : ∀ n < 32, has (replace mode NONE n) BREAK = true := fun n hn => by
        rw [f_break_replace_none mode hlt n hn, h]; rfl
      cases s with
      | other => exact blockGo_break_mono rest _ _ hlt h
      | cont => exact blockGo_break_mono rest _ _ hlt h
      | ret => exact blockGo_break_mono rest _ _ (replace_lt _ hlt _ consts_lt.2.2.2.2.1 NONE (by simp)) (keepR _ consts_lt.2.2.2.2.1)
      | brk => exact blockGo_break_mono rest _ _ (replace_lt _ hlt _ consts_lt.2.1 NONE (by simp)) (keepR _ consts_lt.2.1)
      | defeat => exact blockGo_break_mono rest _ _ (replace_lt _ hlt _ consts_lt.2.2.2.1 NONE (by simp)) (keepR _ consts_lt.2.2.2.1)
      | term => exact blockGo_break_mono rest _ _ (replace_lt _ hlt _ consts_lt.2.2.1 NONE (by simp)) (keepR _ consts_lt.2.2.1)
      | defcall =>
        exact blockGo_break_mono rest _ _ (lor_lt _ hlt _ consts_lt.2.2.2.1)
          (by rw [f_lor mode hlt DEFEAT consts_lt.2.2.2.1 BREAK (by simp), h]; rfl)
      | block ss' => exact blockGo_break_mono rest _ _ (replace_lt _ hlt _ (modes_lt _) NONE (by simp)) (keepR _ (modes_lt _))
      | ifb t e => exact blockGo_break_mono rest _ _ (replace_lt _ hlt _ (modes_lt _) NONE (by simp)) (keepR _ (modes_lt _))
      | loop tc b k => exact blockGo_break_mono rest _ _ (replace_lt _ hlt _ (modes_lt _) NONE (by simp)) (keepR _ (modes_lt _))
      | tryb b hh => exact blockGo_break_mono rest _ _ (replace_lt _ hlt _ (modes_lt _) NONE (by simp)) (keepR _ (modes_lt _))
      | preempt b => exact blockGo_break_mono rest _ _ (replace_lt _ hlt _ (modes_lt _) NONE (by simp)) (keepR _ (modes_lt _))

/-- what the induction carries: for a well-formed control block, normal completion shows as
`NONE` and a `break` as `BREAK`; for code blocks the same from any reachable accumulator -/
def Inv (s : Skel) (o : Out) : Prop :=
  wf s = true →
  (blockish s = true → (o = .normal → has (modes s) NONE = true) ∧ (o = .brk → has (modes s) BREAK = true)) ∧
  (∀ ss, s = .block ss → ∀ mode, mode < 32 → has mode NONE = true →
    (o = .normal → has (blockGo ss mode false) NONE = true) ∧ (o = .brk → has (blockGo ss mode false) BREAK = true))

theorem inv_of_block {ss : List Skel} {o : Out}
    (h : wfAll ss = true → ∀ mode, mode < 32 → has mode NONE = true →
      (o = .normal → has (blockGo ss mode false) NONE = true) ∧ (o = .brk → has (blockGo ss mode false) BREAK = true)) :
    Inv (.block ss) o := by
  intro hw
  have hw' : wfAll ss = true := by simpa [wf] using hw
  refine ⟨fun _ => ⟨fun ho => ?_, fun ho => ?_⟩, fun ss' he => ?_⟩
  · simpa [modes] using (h hw' NONE consts_lt.1 has_none_none.1).1 ho
  · simpa [modes] using (h hw' NONE consts_lt.1 has_none_none.1).2 ho
  · cases he; exact h hw'

theorem inv_leaf {s : Skel} {o : Out} (hb : blockish s = false) (hn : ∀ ss, s ≠ .block ss) : Inv s o := by
  intro _
  exact ⟨fun h => (by rw [hb] at h; cases h), fun ss h => absurd h (hn ss)⟩

theorem inv_ctrl {s : Skel} {o : Out} (hn : ∀ ss, s ≠ .block ss)
    (h : wf s = true → (o = .normal → has (modes s) NONE = true) ∧ (o = .brk → has (modes s) BREAK = true)) : Inv s o := by
  intro hw
  exact ⟨fun _ => h hw, fun ss he => absurd he (hn ss)⟩

theorem exits_sound {s : Skel} {o : Out} (h : Exits s o) : Inv s o := by
  induction h with
  | other => exact inv_leaf rfl (fun _ h => by cases h)
  | otherD => exact inv_leaf rfl (fun _ h => by cases h)
  | ret => exact inv_leaf rfl (fun _ h => by cases h)
  | retD => exact inv_leaf rfl (fun _ h => by cases h)
  | ifD => exact inv_ctrl (fun _ h => by cases h) (fun _ => ⟨fun h => (by cases h), fun h => (by cases h)⟩)
  | loopD => exact inv_ctrl (fun _ h => by cases h) (fun _ => ⟨fun h => (by cases h), fun h => (by cases h)⟩)
  | brk => exact inv_leaf rfl (fun _ h => by cases h)
  | cont => exact inv_leaf rfl (fun _ h => by cases h)
  | defeat => exact inv_leaf rfl (fun _ h => by cases h)
  | defcallN => exact inv_leaf rfl (fun _ h => by cases h)
  | defcallD => exact inv_leaf rfl (fun _ h => by cases h)
  | blockNil =>
    apply inv_of_block
    intro _ mode _ hn
    exact ⟨fun _ => by simpa [blockGo] using hn, fun h => by cases h⟩
  | @blockStop s rest o hs hne ih =>
    apply inv_of_block
    intro hw mode hlt hn
    have hws : wf s = true := by simp [wfAll] at hw; exact hw.1
    refine ⟨fun ho => absurd ho hne, fun ho => ?_⟩
    subst ho
    unfold blockGo
    simp only [hn, Bool.not_true, Bool.false_or, Bool.false_eq_true, if_false]
    have step : ∀ n < 32, has n BREAK = true →
        has (blockGo rest (replace mode NONE n) false) BREAK = true := fun n hn' hb =>
      blockGo_break_mono rest _ _ (replace_lt _ hlt _ hn' NONE (by simp))
        (by rw [f_break_replace_none mode hlt n hn', hb]; simp)
    cases s with
    | brk => exact step BREAK consts_lt.2.1 (by decide)
    | block ss' => exact step _ (modes_lt _) (((ih hws).1 rfl).2 rfl)
    | ifb t e => exact step _ (modes_lt _) (((ih hws).1 rfl).2 rfl)
    | tryb b hh => exact step _ (modes_lt _) (((ih hws).1 rfl).2 rfl)
    | preempt b => exact step _ (modes_lt _) (((ih hws).1 rfl).2 rfl)
    | loop tc b k => exact step _ (modes_lt _) (((ih hws).1 rfl).2 rfl)
    | other => cases hs
    | ret => cases hs
    | cont => cases hs
    | defeat => cases hs
    | term => cases hs
    | defcall => cases hs
  | @blockNext s rest o hs _ ihs ihr =>
    apply inv_of_block
    intro hw mode hlt hn
    have hws : wf s = true := by simp [wfAll] at hw; exact hw.1
    have hwr : wf (.block rest) = true := by simp [wfAll] at hw; simpa [wf] using hw.2
    have hrest := (ihr hwr).2 rest rfl
    unfold blockGo
    simp only [hn, Bool.not_true, Bool.false_or, Bool.false_eq_true, if_false]
    have step : ∀ n < 32, has n NONE = true →
        (o = .normal → has (blockGo rest (replace mode NONE n) false) NONE = true) ∧
        (o = .brk → has (blockGo rest (replace mode NONE n) false) BREAK = true) := fun n hn' hb =>
      hrest _ (replace_lt _ hlt _ hn' NONE (by simp)) (by rw [f_none_replace_none mode hlt n hn', hb])
    cases s with
    | other => exact hrest mode hlt hn
    | defcall =>
      exact hrest _ (lor_lt _ hlt _ consts_lt.2.2.2.1)
        (by rw [f_lor mode hlt DEFEAT consts_lt.2.2.2.1 NONE (by simp), hn]; rfl)
    | block ss' => exact step _ (modes_lt _) (((ihs hws).1 rfl).1 rfl)
    | ifb t e => exact step _ (modes_lt _) (((ihs hws).1 rfl).1 rfl)
    | tryb b hh => exact step _ (modes_lt _) (((ihs hws).1 rfl).1 rfl)
    | preempt b => exact step _ (modes_lt _) (((ihs hws).1 rfl).1 rfl)
    | loop tc b k => exact step _ (modes_lt _) (((ihs hws).1 rfl).1 rfl)
    | ret => cases hs
    | brk => cases hs
    | cont => cases hs
    | defeat => cases hs
    | term => cases hs
  | @ifT t e o _ ih =>
    apply inv_ctrl (fun _ h => by cases h)
    intro hw
    simp only [wf, Bool.and_eq_true] at hw
    have iht := (ih hw.1.2).1 hw.1.1.1
    refine ⟨fun ho => ?_, fun ho => ?_⟩
    · simp only [modes]; rw [f_lor _ (modes_lt t) _ (modes_lt e) NONE (by simp), iht.1 ho]; rfl
    · simp only [modes]; rw [f_lor _ (modes_lt t) _ (modes_lt e) BREAK (by simp), iht.2 ho]; rfl
  | @ifE t e o _ ih =>
    apply inv_ctrl (fun _ h => by cases h)
    intro hw
    simp only [wf, Bool.and_eq_true] at hw
    have ihe := (ih hw.2).1 hw.1.1.2
    refine ⟨fun ho => ?_, fun ho => ?_⟩
    · simp only [modes]; rw [f_lor _ (modes_lt t) _ (modes_lt e) NONE (by simp), ihe.1 ho]; simp
    · simp only [modes]; rw [f_lor _ (modes_lt t) _ (modes_lt e) BREAK (by simp), ihe.2 ho]; simp
  | @loopSkip b k =>
    apply inv_ctrl (fun _ h => by cases h)
    intro _
    refine ⟨fun _ => ?_, fun h => by cases h⟩
    simp only [modes, Bool.and_false, Bool.false_eq_true, if_false]
    exact (f_loop_exit _ (modes_lt b)).1
  | @loopBreak tc b k _ ih =>
    apply inv_ctrl (fun _ h => by cases h)
    intro hw
    simp only [wf, Bool.and_eq_true] at hw
    have ihb := (ih hw.1.2).1 hw.1.1.1
    refine ⟨fun _ => ?_, fun h => by cases h⟩
    simp only [modes, ihb.2 rfl, Bool.not_true, Bool.false_and, Bool.false_eq_true, if_false]
    exact (f_loop_exit _ (modes_lt b)).1
  | loopBody _ ho _ =>
    apply inv_ctrl (fun _ h => by cases h)
    intro _
    exact ⟨fun h => (by subst h; rcases ho with h | h <;> cases h), fun h => (by subst h; rcases ho with h | h <;> cases h)⟩
  | loopCont _ ho _ =>
    apply inv_ctrl (fun _ h => by cases h)
    intro _
    exact ⟨fun h => (by subst h; rcases ho with h | h <;> cases h), fun h => (by subst h; rcases ho with h | h <;> cases h)⟩
  | @tryBody b hh o _ _ ih =>
    apply inv_ctrl (fun _ h => by cases h)
    intro hw
    simp only [wf, Bool.and_eq_true] at hw
    have ihb := (ih hw.1.2).1 hw.1.1.1
    refine ⟨fun ho => ?_, fun ho => ?_⟩
    · simp only [modes]; rw [f_replace_defeat _ (modes_lt b) _ (modes_lt hh) NONE (by simp), ihb.1 ho]; rfl
    · simp only [modes]; rw [f_replace_defeat _ (modes_lt b) _ (modes_lt hh) BREAK (by simp), ihb.2 ho]; rfl
  | @tryHandler b hh o _ _ _ ih =>
    apply inv_ctrl (fun _ h => by cases h)
    intro hw
    simp only [wf, Bool.and_eq_true] at hw
    have ihh := (ih hw.2).1 hw.1.1.2
    refine ⟨fun ho => ?_, fun ho => ?_⟩
    · simp only [modes]; rw [f_replace_defeat _ (modes_lt b) _ (modes_lt hh) NONE (by simp), ihh.1 ho]; simp
    · simp only [modes]; rw [f_replace_defeat _ (modes_lt b) _ (modes_lt hh) BREAK (by simp), ihh.2 ho]; simp
  | @preemptSkip b =>
    apply inv_ctrl (fun _ h => by cases h)
    intro _
    refine ⟨fun _ => ?_, fun h => by cases h⟩
    simp only [modes]; rw [f_lor _ (modes_lt b) _ consts_lt.1 NONE (by simp)]; simp [has_none_none.1]
  | @preemptRun b o _ ih =>
    apply inv_ctrl (fun _ h => by cases h)
    intro hw
    simp only [wf, Bool.and_eq_true] at hw
    have ihb := (ih hw.2).1 hw.1
    refine ⟨fun ho => ?_, fun ho => ?_⟩
    · simp only [modes]; rw [f_lor _ (modes_lt b) _ consts_lt.1 NONE (by simp), ihb.1 ho]; rfl
    · simp only [modes]; rw [f_lor _ (modes_lt b) _ consts_lt.1 BREAK (by simp), ihb.2 ho]; rfl

/-- **C16 (a)**: a well-formed block whose exit modes lack `NONE` never completes normally -/
theorem no_none_no_fallthrough (s : Skel) (hb : blockish s = true) (hw : wf s = true)
    (h : has (modes s) NONE = false) : ¬ Exits s .normal := by
  intro he
  have := ((exits_sound he hw).1 hb).1 rfl
  rw [h] at this; cases this

/-- **C16 (c)**: whatever follows a statement prefix whose mode lacks `NONE` is unreachable:
the block cannot get past the prefix normally -/
theorem unreachable_after (pre : List Skel) (hw : wfAll pre = true)
    (h : has (blockGo pre NONE false) NONE = false) : ¬ Exits (.block pre) .normal :=
  no_none_no_fallthrough (.block pre) rfl (by simpa [wf] using hw) (by simpa [modes] using h)

end HidVerif.Hid.Exit
