import HidVerif.Proofs.LexQuoted
/-!
# C12 (v, vi) continued: string literals with escape sequences are layout pieces

A string body is a sequence of segments, each a plain run (no `"`, no `\`) followed by one complete
escape sequence, and a final plain run.  `selfDelim_string_esc`: such a literal is exactly one `str`
token holding the UTF-8 bytes of the plain runs and the bytes of the escapes, in order.  Complete
escape sequences: every simple escape of the regenerated table and every `\xHH`.
-/
namespace HidVerif.Hid.Lex
open HidVerif.Gen

/-- `e` is a complete escape sequence denoting the bytes `bs`, whatever follows it -/
def IsEsc (e : Line) (bs : List Nat) : Prop :=
  (∃ r, e = 92 :: r) ∧ ∀ rest, readEscape (e ++ rest) = .ok bs e.length

abbrev Seg := Line × List (List Nat) × Line × List Nat

def SegOK (s : Seg) : Prop := (∀ c ∈ s.1, c ≠ 92 ∧ c ≠ 34) ∧ s.1.mapM utf8 = some s.2.1 ∧ IsEsc s.2.2.1 s.2.2.2

def bodyText : List Seg → Line
  | [] => []
  | (p, _, e, _) :: tl => p ++ (e ++ bodyText tl)

def bodyBytes : List Seg → List Nat
  | [] => []
  | (_, enc, _, bs) :: tl => enc.flatten ++ (bs ++ bodyBytes tl)

theorem takeWhile_plain' (body rest : Line) (c : CP) (hc : c = 92 ∨ c = 34) (hb : ∀ c ∈ body, c ≠ 92 ∧ c ≠ 34) :
    (body ++ c :: rest).takeWhile (fun c => c != 92 && c != 34) = body := by
  induction body with
  | nil => rcases hc with rfl | rfl <;> simp
  | cons a body ih =>
    have ha := hb a List.mem_cons_self
    have hp : (a != 92 && a != 34) = true := by simp [ha.1, ha.2]
    simp only [List.cons_append, List.takeWhile_cons, hp, if_true]
    rw [ih (fun c hc => hb c (List.mem_cons_of_mem _ hc))]

theorem loop_segments (last : Line) (lenc : List (List Nat)) (hl : ∀ c ∈ last, c ≠ 92 ∧ c ≠ 34) (hlenc : last.mapM utf8 = some lenc)
    (rest : Line) : ∀ (segs : List Seg), (∀ s ∈ segs, SegOK s) → ∀ (fuel off : Nat) (acc : List Nat), segs.length < fuel →
    readString.loop fuel (bodyText segs ++ (last ++ 34 :: rest)) off acc =
      .ok (.str (acc ++ (bodyBytes segs ++ lenc.flatten))) (off + ((bodyText segs).length + (last.length + 1))) := by
  intro segs
  induction segs with
  | nil =>
    intro _ fuel off acc hf
    cases fuel with
    | zero => cases hf
    | succ f =>
      unfold readString.loop
      simp only [bodyText, List.nil_append, takeWhile_plain' last rest 34 (Or.inr rfl) hl, hlenc, List.drop_left', readEscape,
        bodyBytes, List.length_nil, Nat.zero_add, Nat.add_assoc]
  | cons s tl ih =>
    intro hs fuel off acc hf
    obtain ⟨p, enc, e, bs⟩ := s
    obtain ⟨hp, henc, ⟨r, hr⟩, hesc⟩ := hs (p, enc, e, bs) List.mem_cons_self
    simp only at hp henc hr hesc
    cases fuel with
    | zero => cases hf
    | succ f =>
      unfold readString.loop
      have htw : (p ++ (e ++ bodyText tl) ++ (last ++ 34 :: rest)).takeWhile (fun c => c != 92 && c != 34) = p := by
        subst hr
        have := takeWhile_plain' p (r ++ bodyText tl ++ (last ++ 34 :: rest)) 92 (Or.inl rfl) hp
        simpa [List.append_assoc] using this
      have hdrop : (p ++ (e ++ bodyText tl) ++ (last ++ 34 :: rest)).drop p.length = e ++ (bodyText tl ++ (last ++ 34 :: rest)) := by
        rw [List.append_assoc, List.drop_left' rfl, List.append_assoc]
      simp only [bodyText, htw, henc, hdrop, hesc, List.drop_left']
      rw [ih (fun s h => hs s (List.mem_cons_of_mem _ h)) f _ _ (by simp at hf; omega)]
      simp only [bodyBytes, List.append_assoc, List.length_append]
      congr 1
      omega

/-- the reader on a string literal with escapes, whatever follows the closing quote -/
theorem read_string_esc (segs : List Seg) (hs : ∀ s ∈ segs, SegOK s) (last : Line) (lenc : List (List Nat))
    (hl : ∀ c ∈ last, c ≠ 92 ∧ c ≠ 34) (hlenc : last.mapM utf8 = some lenc) (rest : Line) :
    readToken ((34 :: (bodyText segs ++ (last ++ [34]))) ++ rest) =
      .ok (.str (bodyBytes segs ++ lenc.flatten)) (34 :: (bodyText segs ++ (last ++ [34]))).length := by
  have ht : (34 :: (bodyText segs ++ (last ++ [34]))) ++ rest = 34 :: (bodyText segs ++ (last ++ 34 :: rest)) := by simp
  unfold readToken
  rw [ht, readSymbol_quote 34 _ (Or.inl rfl)]
  simp only [readIdent_quote 34 _ (Or.inl rfl), readInt_quote 34 _ (Or.inl rfl)]
  have hlen : segs.length < (bodyText segs ++ (last ++ 34 :: rest)).length + 1 := by
    have : ∀ (l : List Seg), (∀ s ∈ l, SegOK s) → l.length ≤ (bodyText l).length := by
      intro l
      induction l with
      | nil => intro _; simp
      | cons s tl ih =>
        intro h
        obtain ⟨p, enc, e, bs⟩ := s
        obtain ⟨_, _, ⟨r, hr⟩, _⟩ := h (p, enc, e, bs) List.mem_cons_self
        have := ih (fun s hs' => h s (List.mem_cons_of_mem _ hs'))
        subst hr
        simp only [bodyText, List.length_cons, List.length_append]
        omega
    have := this segs hs
    simp only [List.length_append]
    omega
  have hsr : readString (34 :: (bodyText segs ++ (last ++ 34 :: rest))) =
      .ok (.str (bodyBytes segs ++ lenc.flatten)) (34 :: (bodyText segs ++ (last ++ [34]))).length := by
    simp only [readString]
    rw [loop_segments last lenc hl hlenc rest segs hs _ 1 [] hlen]
    simp only [List.nil_append, List.length_cons, List.length_append, List.length_nil]
    congr 1
    omega
  simp only [hsr]

/-- **string literals with escapes are pieces** -/
theorem selfDelim_string_esc (segs : List Seg) (hs : ∀ s ∈ segs, SegOK s) (last : Line) (lenc : List (List Nat))
    (hl : ∀ c ∈ last, c ≠ 92 ∧ c ≠ 34) (hlenc : last.mapM utf8 = some lenc) :
    SelfDelim (34 :: (bodyText segs ++ (last ++ [34]))) (.str (bodyBytes segs ++ lenc.flatten)) :=
  ⟨by simp, fun c r h => (by injection h with h1 _; rw [← h1]; decide +kernel),
    fun r h => (by injection h with h1 _; exact absurd h1 (by decide)), fun rest _ => read_string_esc segs hs last lenc hl hlenc rest⟩

/-- … and read the same in front of anything -/
theorem readsAs_string_esc (segs : List Seg) (hs : ∀ s ∈ segs, SegOK s) (last : Line) (lenc : List (List Nat))
    (hl : ∀ c ∈ last, c ≠ 92 ∧ c ≠ 34) (hlenc : last.mapM utf8 = some lenc) (rest : Line) :
    ReadsAs (34 :: (bodyText segs ++ (last ++ [34]))) (.str (bodyBytes segs ++ lenc.flatten)) rest :=
  ⟨by simp, fun c r h => (by injection h with h1 _; rw [← h1]; decide +kernel),
    fun r h => (by simp only [List.cons_append] at h; injection h with h1 _; exact absurd h1 (by decide)),
    read_string_esc segs hs last lenc hl hlenc rest⟩

/-! ## complete escape sequences -/

theorem isEsc_simple (c v : Nat) (bs : List Nat) (h : escapeCodes.lookup c = some v) (hu : utf8 v = some bs) : IsEsc [92, c] bs := by
  refine ⟨⟨_, rfl⟩, fun rest => ?_⟩
  have hx : c ≠ 120 := fun hc => by
    rw [hc] at h; have : escapeCodes.lookup 120 = none := by decide
    rw [this] at h; cases h
  have hu' : c ≠ 117 := fun hc => by
    rw [hc] at h; have : escapeCodes.lookup 117 = none := by decide
    rw [this] at h; cases h
  show readEscape (92 :: c :: rest) = _
  unfold readEscape
  split
  · rename_i h'; injection h' with _ h2; injection h2 with h3 _; exact absurd h3 hx
  · rename_i h'; injection h' with _ h2; injection h2 with h3 _; exact absurd h3 hu'
  · rename_i c' _ h'
    injection h' with _ h2; injection h2 with h3 _
    subst h3
    simp [h, hu]
  · rename_i h'; cases h'
  · rename_i h1 h2 h3 h4; exact absurd rfl (h3 c rest)

theorem isEsc_hex (a b x y : Nat) (ha : hexVal a = some x) (hb : hexVal b = some y) : IsEsc [92, 120, a, b] [16 * x + y] := by
  refine ⟨⟨_, rfl⟩, fun rest => ?_⟩
  show readEscape (92 :: 120 :: a :: b :: rest) = _
  simp [readEscape, ha, hb]

end HidVerif.Hid.Lex
