import HidVerif.Gen.Funcs
/-!
# C13: `pack_bools` — bit `i % 8` of byte `i / 8` is element `i`

`Gen.packBools` is the loop of `CodeGen.pack_bools` transcribed statement by statement from the source by
`tools/extract.py` on every run (`Gen/Funcs.lean`).  Spec: the result has `⌈n/8⌉` bytes and `testBit`.
-/
namespace HidVerif.Pack
open HidVerif.Gen

/-! ## the invariant: after `i` elements the result is `i / 8` full bytes and, unless `i % 8 = 0`, one open byte -/

theorem packStep_open (r : List Nat) (x i b : Nat) (h : i % 8 ≠ 0) :
    packStep 8 (r ++ [x]) i b = r ++ [x ||| (b <<< (i % 8))] := by
  simp [packStep, h]

theorem packStep_new (r : List Nat) (i b : Nat) (h : i % 8 = 0) :
    packStep 8 r i b = r ++ [0 ||| (b <<< 0)] := by
  simp [packStep, h]

/-- bit `j` of the packed bytes -/
def bitAt (r : List Nat) (j : Nat) : Bool := (r.getD (j / 8) 0).testBit (j % 8)

/-- the state after the first `i` elements `pre` -/
structure Inv (pre r : List Nat) : Prop where
  len : r.length = (pre.length + 7) / 8
  bits : ∀ j, j < pre.length → bitAt r j = (pre.getD j 0).testBit 0
  clean : ∀ j, pre.length ≤ j → bitAt r j = false

theorem getD_left (r : List Nat) (x k : Nat) (h : k < r.length) : (r ++ [x]).getD k 0 = r.getD k 0 := by
  simp [List.getD, List.getElem?_append_left h]

theorem getD_mid (r : List Nat) (x : Nat) : (r ++ [x]).getD r.length 0 = x := by
  simp [List.getD]

theorem getD_right (r : List Nat) (x k : Nat) (h : r.length < k) : (r ++ [x]).getD k 0 = 0 := by
  have : (r ++ [x]).length ≤ k := by simp; omega
  simp [List.getD, List.getElem?_eq_none this]

theorem bit_small (b n : Nat) (hb : b ≤ 1) (hn : 0 < n) : b.testBit n = false := by
  apply Nat.testBit_lt_two_pow
  have : 2 ≤ 2 ^ n := by
    obtain ⟨k, rfl⟩ : ∃ k, n = k + 1 := ⟨n - 1, by omega⟩
    have := Nat.one_le_two_pow (n := k)
    rw [Nat.pow_succ]; omega
  omega

theorem inv_nil : Inv [] [] := ⟨rfl, fun j h => (by cases h), fun j _ => (by simp [bitAt])⟩

theorem inv_step (pre r : List Nat) (b : Nat) (hb : b ≤ 1) (h : Inv pre r) :
    Inv (pre ++ [b]) (packStep 8 r pre.length b) := by
  obtain ⟨hlen, hbits, hclean⟩ := h
  by_cases h0 : pre.length % 8 = 0
  · -- a new byte
    rw [packStep_new r _ b h0]
    have hr : r.length = pre.length / 8 := by omega
    have hv : (0 ||| (b <<< 0)) = b := by simp
    rw [hv]
    refine ⟨by simp; omega, fun j hj => ?_, fun j hj => ?_⟩
    · simp only [List.length_append, List.length_cons, List.length_nil] at hj
      by_cases hji : j < pre.length
      · have hq : j / 8 < r.length := by omega
        have := hbits j hji
        simp only [bitAt, getD_left r b _ hq] at this ⊢
        rw [this]
        simp [List.getD, List.getElem?_append_left hji]
      · have hje : j = pre.length := by omega
        subst hje
        have hq : pre.length / 8 = r.length := by omega
        simp only [bitAt, hq, getD_mid, h0]
        try simp [List.getD]
    · simp only [List.length_append, List.length_cons, List.length_nil] at hj
      by_cases hq : j / 8 = r.length
      · simp only [bitAt, hq, getD_mid]
        exact bit_small b _ hb (by omega)
      · have : r.length < j / 8 := by omega
        simp only [bitAt]; rw [getD_right r b _ this]; simp
  · -- the open byte
    have hrl : r.length = pre.length / 8 + 1 := by omega
    obtain ⟨r0, x, rfl⟩ : ∃ r0 x, r = r0 ++ [x] := by
      cases hr : r.reverse with
      | nil => simp at hr; subst hr; simp at hrl
      | cons x t => exact ⟨t.reverse, x, by rw [← List.reverse_reverse r, hr]; simp⟩
    rw [packStep_open r0 x _ b h0]
    have hr0 : r0.length = pre.length / 8 := by simp at hrl; omega
    refine ⟨by simp at hlen ⊢; omega, fun j hj => ?_, fun j hj => ?_⟩
    · simp only [List.length_append, List.length_cons, List.length_nil] at hj
      by_cases hji : j < pre.length
      · have hpre : (pre ++ [b]).getD j 0 = pre.getD j 0 := by simp [List.getD, List.getElem?_append_left hji]
        rw [hpre, ← hbits j hji]
        by_cases hq : j / 8 < r0.length
        · simp only [bitAt, getD_left _ _ _ hq]
        · have hq' : j / 8 = r0.length := by omega
          simp only [bitAt, hq', getD_mid, Nat.testBit_or, Nat.testBit_shiftLeft]
          have : ¬ (j % 8 ≥ pre.length % 8) := by omega
          simp [this]
      · have hje : j = pre.length := by omega
        subst hje
        have hq : pre.length / 8 = r0.length := by omega
        have hx := hclean pre.length (Nat.le_refl _)
        simp only [bitAt, hq, getD_mid] at hx
        simp only [bitAt, hq, getD_mid, Nat.testBit_or, Nat.testBit_shiftLeft, hx, Bool.false_or]
        simp [List.getD]
    · simp only [List.length_append, List.length_cons, List.length_nil] at hj
      have hx := hclean j (by omega)
      by_cases hq : j / 8 = r0.length
      · simp only [bitAt, hq, getD_mid] at hx
        simp only [bitAt, hq, getD_mid, Nat.testBit_or, Nat.testBit_shiftLeft, hx, Bool.false_or]
        have hge : j % 8 ≥ pre.length % 8 := by omega
        simp only [hge, decide_true, Bool.true_and]
        exact bit_small b _ hb (by omega)
      · have : r0.length < j / 8 := by omega
        simp only [bitAt]; rw [getD_right r0 _ _ this]; simp

theorem packFrom_inv : ∀ (bs pre r : List Nat), (∀ b ∈ bs, b ≤ 1) → Inv pre r → Inv (pre ++ bs) (packFrom 8 bs pre.length r) := by
  intro bs
  induction bs with
  | nil => intro pre r _ h; simpa [packFrom] using h
  | cons b bs ih =>
    intro pre r hb h
    have h1 := inv_step pre r b (hb b List.mem_cons_self) h
    have h2 := ih (pre ++ [b]) _ (fun c hc => hb c (List.mem_cons_of_mem _ hc)) h1
    simp only [List.length_append, List.length_cons, List.length_nil, Nat.zero_add, List.append_assoc, List.cons_append,
      List.nil_append] at h2
    simpa [packFrom] using h2

/-- every byte of the result is a byte -/
def Small (r : List Nat) : Prop := ∀ x ∈ r, x < 256

theorem shift_small (b k : Nat) (hb : b ≤ 1) (hk : k < 8) : b <<< k < 2 ^ 8 := by
  rw [Nat.shiftLeft_eq]
  have : 2 ^ k ≤ 2 ^ 7 := Nat.pow_le_pow_right (by decide) (by omega)
  have h1 : b * 2 ^ k ≤ 1 * 2 ^ k := Nat.mul_le_mul_right _ hb
  omega

theorem small_step (r : List Nat) (i b : Nat) (hb : b ≤ 1) (h : Small r) : Small (packStep 8 r i b) := by
  have hk : i % 8 < 8 := Nat.mod_lt _ (by decide)
  have hor : ∀ x, x < 256 → x ||| (b <<< (i % 8)) < 256 := fun x hx =>
    Nat.or_lt_two_pow (n := 8) hx (shift_small b _ hb hk)
  unfold packStep
  simp only
  generalize hr' : (if (i % 8 == 0) = true then r ++ [0] else r) = r'
  have hs' : Small r' := by
    rw [← hr']
    split
    · intro y hy
      rw [List.mem_append] at hy
      rcases hy with hm | hm
      · exact h y hm
      · simp at hm; omega
    · exact h
  split
  · rename_i last hl
    intro y hy
    rw [List.mem_append] at hy
    rcases hy with hy | hy
    · exact hs' y (List.dropLast_subset _ hy)
    · simp only [List.mem_singleton] at hy
      subst hy
      exact hor _ (hs' _ (List.mem_of_getLast? hl))
  · exact hs'

theorem packFrom_small : ∀ (bs : List Nat) (i : Nat) (r : List Nat), (∀ b ∈ bs, b ≤ 1) → Small r → Small (packFrom 8 bs i r) := by
  intro bs
  induction bs with
  | nil => intro i r _ h; simpa [packFrom] using h
  | cons b bs ih =>
    intro i r hb h
    simp only [packFrom]
    exact ih _ _ (fun c hc => hb c (List.mem_cons_of_mem _ hc)) (small_step r i b (hb b List.mem_cons_self) h)

/-- **`pack_bools` specification**: `⌈n/8⌉` bytes, each below 256; bit `j % 8` of byte `j / 8` is element `j`; all other bits are clear -/
theorem packBools_spec (bs : List Nat) (hb : ∀ b ∈ bs, b ≤ 1) :
    (packBools bs).length = (bs.length + 7) / 8 ∧ (∀ x ∈ packBools bs, x < 256) ∧
    (∀ j, j < bs.length → bitAt (packBools bs) j = (bs.getD j 0 == 1)) ∧
    (∀ j, bs.length ≤ j → bitAt (packBools bs) j = false) := by
  have h := packFrom_inv bs [] [] hb inv_nil
  simp only [List.nil_append, List.length_nil] at h
  refine ⟨h.len, packFrom_small bs 0 [] hb (fun x hx => by cases hx), fun j hj => ?_, h.clean⟩
  rw [show packBools bs = packFrom 8 bs 0 [] from rfl, h.bits j hj]
  have hle : bs.getD j 0 ≤ 1 := by
    have : bs.getD j 0 ∈ bs := by
      simp only [List.getD, List.getElem?_eq_getElem hj, Option.getD_some]
      exact List.getElem_mem hj
    exact hb _ this
  rcases Nat.le_one_iff_eq_zero_or_eq_one.1 hle with h0 | h1
  · rw [h0]; rfl
  · rw [h1]; rfl

end HidVerif.Pack
