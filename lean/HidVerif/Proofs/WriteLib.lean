import HidVerif.Proofs.Lib
/-!
# The write family of the runtime library: loop invariants

All statements are about `Gen.code_*` — the instruction lists regenerated from
`hidc/codegen/stdlib.py` — for every word size `w ≥ 2`.
-/
namespace HidVerif.Sphinx
open HidVerif HidVerif.PSys HidVerif.Gen

/-- register view of a state memory: `fp r0 r1 r2` hold these values, and the register file
lies inside the section -/
structure Regs (w : Nat) (m : Mem) (fp r0 r1 r2 : Nat) : Prop where
  sz : 5 * w ≤ m.size
  fp : m.readLE w w = fp
  r0 : m.readLE (2*w) w = r0
  r1 : m.readLE (3*w) w = r1
  r2 : m.readLE (4*w) w = r2

section regs
variable {w : Nat} {m : Mem} {fp r0 r1 r2 : Nat}

theorem Regs.set0 (h : Regs w m fp r0 r1 r2) (v : Nat) (hv : v < 256 ^ w) :
    Regs w (m.writeLE (2*w) w v) fp v r1 r2 := by
  have := h.sz
  refine ⟨by simpa using h.sz, ?_, ?_, ?_, ?_⟩
  · rw [Mem.readLE_writeLE_disj _ _ _ _ _ _ (by omega)]; exact h.fp
  · rw [Mem.readLE_writeLE_same _ _ _ _ (by omega)]; exact Nat.mod_eq_of_lt hv
  · rw [Mem.readLE_writeLE_disj _ _ _ _ _ _ (by omega)]; exact h.r1
  · rw [Mem.readLE_writeLE_disj _ _ _ _ _ _ (by omega)]; exact h.r2

theorem Regs.set1 (h : Regs w m fp r0 r1 r2) (v : Nat) (hv : v < 256 ^ w) :
    Regs w (m.writeLE (3*w) w v) fp r0 v r2 := by
  have := h.sz
  refine ⟨by simpa using h.sz, ?_, ?_, ?_, ?_⟩
  · rw [Mem.readLE_writeLE_disj _ _ _ _ _ _ (by omega)]; exact h.fp
  · rw [Mem.readLE_writeLE_disj _ _ _ _ _ _ (by omega)]; exact h.r0
  · rw [Mem.readLE_writeLE_same _ _ _ _ (by omega)]; exact Nat.mod_eq_of_lt hv
  · rw [Mem.readLE_writeLE_disj _ _ _ _ _ _ (by omega)]; exact h.r2

theorem Regs.set2 (h : Regs w m fp r0 r1 r2) (v : Nat) (hv : v < 256 ^ w) :
    Regs w (m.writeLE (4*w) w v) fp r0 r1 v := by
  have := h.sz
  refine ⟨by simpa using h.sz, ?_, ?_, ?_, ?_⟩
  · rw [Mem.readLE_writeLE_disj _ _ _ _ _ _ (by omega)]; exact h.fp
  · rw [Mem.readLE_writeLE_disj _ _ _ _ _ _ (by omega)]; exact h.r0
  · rw [Mem.readLE_writeLE_disj _ _ _ _ _ _ (by omega)]; exact h.r1
  · rw [Mem.readLE_writeLE_same _ _ _ _ (by omega)]; exact Nat.mod_eq_of_lt hv

/-- a byte store above the register file leaves the registers alone -/
theorem Regs.setB (h : Regs w m fp r0 r1 r2) (x v : Nat) (hx : 5 * w ≤ x) :
    Regs w (m.writeLE x 1 v) fp r0 r1 r2 := by
  refine ⟨by simpa using h.sz, ?_, ?_, ?_, ?_⟩
  · rw [Mem.readLE_writeLE_disj _ _ _ _ _ _ (by omega)]; exact h.fp
  · rw [Mem.readLE_writeLE_disj _ _ _ _ _ _ (by omega)]; exact h.r0
  · rw [Mem.readLE_writeLE_disj _ _ _ _ _ _ (by omega)]; exact h.r1
  · rw [Mem.readLE_writeLE_disj _ _ _ _ _ _ (by omega)]; exact h.r2
end regs

section regev
variable {p : Prog} {pc : Nat} {m : Mem} {F r0 r1 r2 : Nat}
theorem Regs.ev_fp (h : Regs p.w m F r0 r1 r2) (hM : 5 * p.w < 256 ^ p.w) :
    evalArg p ⟨pc, m⟩ (.st p.w) = some F := by
  have := h.sz; rw [ev_st (by unfold Prog.M; omega) (by omega), h.fp]
theorem Regs.ev_r0 (h : Regs p.w m F r0 r1 r2) (hM : 5 * p.w < 256 ^ p.w) :
    evalArg p ⟨pc, m⟩ (.st (2 * p.w)) = some r0 := by
  have := h.sz; rw [ev_st (by unfold Prog.M; omega) (by omega), h.r0]
theorem Regs.ev_r1 (h : Regs p.w m F r0 r1 r2) (hM : 5 * p.w < 256 ^ p.w) :
    evalArg p ⟨pc, m⟩ (.st (3 * p.w)) = some r1 := by
  have := h.sz; rw [ev_st (by unfold Prog.M; omega) (by omega), h.r1]
theorem Regs.ev_r2 (h : Regs p.w m F r0 r1 r2) (hM : 5 * p.w < 256 ^ p.w) :
    evalArg p ⟨pc, m⟩ (.st (4 * p.w)) = some r2 := by
  have := h.sz; rw [ev_st (by unfold Prog.M; omega) (by omega), h.r2]
end regev

/-- frame condition: the size is unchanged and outside `[lo,hi)` every byte that is not in the
scratch registers `r0 r1 r2` (addresses `2w … 5w`) is unchanged — in particular `ap` and `fp` -/
def Same (w : Nat) (m m' : Mem) (lo hi : Nat) : Prop :=
  m'.size = m.size ∧ ∀ x, (x < 2 * w ∨ 5 * w ≤ x) → (x < lo ∨ hi ≤ x) → m'.rd x = m.rd x

theorem Same.refl' (w : Nat) (m : Mem) (lo hi : Nat) : Same w m m lo hi := ⟨rfl, fun _ _ _ => rfl⟩

theorem Same.reg {w : Nat} {m m' : Mem} {lo hi : Nat} (h : Same w m m' lo hi) (d v : Nat)
    (hd : 2 * w ≤ d ∧ d + w ≤ 5 * w) : Same w m (m'.writeLE d w v) lo hi := by
  refine ⟨by simpa using h.1, fun x hx hr => ?_⟩
  rw [Mem.rd_writeLE_other _ _ _ _ _ (by omega)]; exact h.2 x hx hr

theorem Same.trans {w : Nat} {m m' m'' : Mem} {lo hi lo' hi' : Nat}
    (h : Same w m m' lo hi) (h' : Same w m' m'' lo' hi') (hlo : lo' ≥ lo) (hhi : hi' ≤ hi) :
    Same w m m'' lo hi := by
  refine ⟨h'.1.trans h.1, fun x hx hr => ?_⟩
  rw [h'.2 x hx (by omega), h.2 x hx hr]

theorem Same.mono {w : Nat} {m m' : Mem} {lo hi lo' hi' : Nat}
    (h : Same w m m' lo hi) (hlo : lo' ≤ lo) (hhi : hi ≤ hi') : Same w m m' lo' hi' :=
  ⟨h.1, fun x hx hr => h.2 x hx (by omega)⟩

/-- the bytes stored at a, a+1, …, a+k-1 -/
def bytesAt (m : Mem) (a : Nat) : Nat → List Nat
  | 0 => []
  | k+1 => m.rd a :: bytesAt m (a+1) k

theorem bytesAt_congr (m m' : Mem) (a k : Nat) (h : ∀ x, a ≤ x → x < a + k → m'.rd x = m.rd x) :
    bytesAt m' a k = bytesAt m a k := by
  induction k generalizing a with
  | zero => rfl
  | succ k ih =>
    simp only [bytesAt]
    rw [h a (by omega) (by omega), ih (a+1) (fun x h1 h2 => h x (by omega) (by omega))]

theorem bytesAt_snoc (m : Mem) (a k : Nat) : bytesAt m a (k+1) = bytesAt m a k ++ [m.rd (a + k)] := by
  induction k generalizing a with
  | zero => simp [bytesAt]
  | succ k ih =>
    rw [bytesAt, ih (a+1)]
    have : a + 1 + k = a + (k + 1) := by omega
    simp [bytesAt, this]

@[simp] theorem bytesAt_length (m : Mem) (a k : Nat) : (bytesAt m a k).length = k := by
  induction k generalizing a with
  | zero => rfl
  | succ k ih => simp [bytesAt, ih]

def outs (bs : List Nat) : List Ev := bs.map (fun b => Ev.out (b % 256))

@[simp] theorem outs_append (a b : List Nat) : outs (a ++ b) = outs a ++ outs b := by simp [outs]

/-- decimal digits as ASCII, most significant first -/
def digits (n : Nat) : List Nat :=
  if h : n < 10 then [n + 48] else digits (n / 10) ++ [n % 10 + 48]
decreasing_by omega

theorem digits_lt (n : Nat) (h : n < 10) : digits n = [n + 48] := by
  rw [digits]; simp [h]
theorem digits_ge (n : Nat) (h : ¬ n < 10) : digits n = digits (n / 10) ++ [n % 10 + 48] := by
  rw [digits]; simp [h]
theorem digits_pos (n : Nat) : 0 < (digits n).length := by
  by_cases h : n < 10
  · rw [digits_lt n h]; simp
  · rw [digits_ge n h]; simp

theorem digits_len_le (n : Nat) (h : 1 ≤ n) : (digits n).length ≤ n := by
  induction n using Nat.strongRecOn with
  | _ n ih =>
    by_cases hlt : n < 10
    · rw [digits_lt n hlt]; simpa using h
    · rw [digits_ge n hlt]; simp
      have := ih (n / 10) (by omega) (by omega); omega

/-- what `write(int)` must print for the word value `v`: the decimal reading of `toS v` -/
def decimalW (M v : Nat) : List Nat :=
  if v < M / 2 then digits v else 45 :: digits (M - v)

/-! ### ALU facts -/
theorem alu_mod10 {M k n : Nat} (hM : 22 ≤ M) (hn : n < M / 2) :
    aluOp M k .mod n (10 % M) = some (n % 10) := by
  have h10 : 10 % M = 10 := Nat.mod_eq_of_lt (by omega)
  simp only [aluOp, h10]
  rw [if_neg (by omega)]
  rw [toS_small hn, toS_small (by omega : 10 < M / 2)]
  rw [Int.fmod_eq_emod_of_nonneg _ (by omega)]
  have : ((n : Int) % ((10 : Nat) : Int)) = ((n % 10 : Nat) : Int) := by omega
  rw [this, wrapI_nat (by omega)]

theorem alu_div10 {M k n : Nat} (hM : 22 ≤ M) (hn : n < M / 2) :
    aluOp M k .div n (10 % M) = some (n / 10) := by
  have h10 : 10 % M = 10 := Nat.mod_eq_of_lt (by omega)
  simp only [aluOp, h10]
  rw [if_neg (by omega)]
  rw [toS_small hn, toS_small (by omega : 10 < M / 2)]
  rw [Int.fdiv_eq_ediv_of_nonneg _ (by omega)]
  have : ((n : Int) / ((10 : Nat) : Int)) = ((n / 10 : Nat) : Int) := by omega
  rw [this, wrapI_nat (by omega)]

theorem alu_add {M k a b : Nat} : aluOp M k .add a b = some ((a + b) % M) := rfl
theorem alu_sub {M k a b : Nat} : aluOp M k .sub a b = some ((a + M - b % M) % M) := rfl

theorem sub_mod_small {M a b : Nat} (hb : b ≤ a) (ha : a < M) : (a + M - b % M) % M = a - b := by
  rw [Nat.mod_eq_of_lt (by omega : b < M)]
  have : a + M - b = (a - b) + M := by omega
  rw [this, Nat.add_mod_right]; exact Nat.mod_eq_of_lt (by omega)

theorem add_neg_mod {M a b : Nat} (hb : b ≤ a) (hb0 : 0 < b) (ha : a < M) :
    (a + (M - b) % M) % M = a - b := by
  rw [Nat.mod_eq_of_lt (by omega : M - b < M)]
  have : a + (M - b) = (a - b) + M := by omega
  rw [this, Nat.add_mod_right]; exact Nat.mod_eq_of_lt (by omega)

end HidVerif.Sphinx
