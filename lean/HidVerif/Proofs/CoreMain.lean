import HidVerif.Proofs.CoreExec
/-!
# Core compiler proofs: whole programs

`core_correct`: for every core program, word size, stack size and build mode, the program
`coreProg` (which the `core` correspondence suite shows to be exactly what `hidc` emits) started
in its initial state performs exactly the output of the source semantics followed by the
terminal flag(s), ends in the `tnt` loop, and never halts — provided the stack is large enough
for the frame peak; in checked builds a stack that is too small leads to `stack_overflow`
before any output.
-/
namespace HidVerif.Core
open HidVerif HidVerif.PSys HidVerif.Sphinx HidVerif.Gen

theorem placedAt_toArray_append (w : Nat) (l1 l2 : List Instr) (cn : Mem) :
    PlacedAt ⟨w, (l1 ++ l2).toArray, cn⟩ 0 l1 ∧ PlacedAt ⟨w, (l1 ++ l2).toArray, cn⟩ l1.length l2 := by
  constructor
  · intro i hi
    simp [List.getElem?_append_left hi]
  · intro i hi
    simp [List.getElem?_append_right]

theorem funcCode_len (cf : Config) (params : List String) (body : S) :
    (funcCode cf params body).length = funcLen cf.checked body := by
  unfold funcCode funcLen prologueLen
  cases hc : cf.checked <;> simp [hc, cS_len, mkCx] <;> omega

theorem stdlibCode_len (w B : Nat) : (stdlibCode w B).length = stdlibLength := by
  simp [stdlibCode, stdlibLength, code_all_is_win, code_all_is_broken, code_stack_overflow, code_division_by_zero,
    code_out_of_bounds, code_nonlocal_preempt, code_write_const_byte_array, code_write_string,
    code_write_state_byte_array, code_write_bool, code_write_int]

/-- the runtime library sits right behind the function -/
theorem core_placed (cf : Config) (params : List String) (body : S) (hw : 2 ≤ cf.w)
    (hB : funcLen cf.checked body + stdlibLength < 256 ^ cf.w) :
    Placed (coreProg cf params body) (funcLen cf.checked body) := by
  refine ⟨hw, ?_, hB⟩
  have := (placedAt_toArray_append cf.w (funcCode cf params body) (stdlibCode cf.w (funcLen cf.checked body)) ⟨#[]⟩).2
  rw [funcCode_len] at this
  exact this

/-! ## the initial state -/
theorem zsize (n : Nat) : (⟨Array.replicate n 0⟩ : Mem).size = n := by simp [Mem.size]

theorem writeArgs_size (w F : Nat) : ∀ (args : List Int) (m : Mem) (i : Nat), (writeArgs w F m i args).size = m.size := by
  intro args
  induction args with
  | nil => intro m i; rfl
  | cons a as ih => intro m i; simp only [writeArgs]; rw [ih]; simp

/-- `writeArgs` only touches the argument words -/
theorem writeArgs_other (w F : Nat) : ∀ (args : List Int) (m : Mem) (i x : Nat),
    (i + args.length + 1) * w ≤ F → (x < F - (i + args.length + 1) * w ∨ F - (i + 1) * w ≤ x) →
    (writeArgs w F m i args).rd x = m.rd x := by
  intro args
  induction args with
  | nil => intro m i x _ _; rfl
  | cons a as ih =>
    intro m i x hF hx
    simp only [writeArgs, List.length_cons] at hF hx ⊢
    have h1 := ih (m.writeLE (F - (i + 2) * w) w (wrapI (256 ^ w) a)) (i + 1) x
    simp only [Nat.add_mul, Nat.one_mul] at hF hx h1 ⊢
    rw [h1 (by omega) (by omega)]
    exact Mem.rd_writeLE_other _ _ _ _ _ (by omega)

/-- … and stores argument `j` in the word at offset `(i + j + 2)·w` below the frame pointer -/
theorem writeArgs_read (w F : Nat) (hw : 0 < w) : ∀ (args : List Int) (m : Mem) (i j : Nat) (hj : j < args.length),
    (i + args.length + 1) * w ≤ F → F ≤ m.size →
    (writeArgs w F m i args).readLE (F - (i + j + 2) * w) w = wrapI (256 ^ w) args[j] := by
  intro args
  induction args with
  | nil => intro m i j hj; simp at hj
  | cons a as ih =>
    intro m i j hj hF hsz
    simp only [writeArgs]
    simp only [List.length_cons] at hF hj
    have hM : 0 < 256 ^ w := Nat.pow_pos (by decide)
    cases j with
    | zero =>
      simp only [Nat.add_zero, List.getElem_cons_zero]
      have hoth := writeArgs_other w F as (m.writeLE (F - (i + 2) * w) w (wrapI (256 ^ w) a)) (i + 1)
      simp only [Nat.add_mul, Nat.one_mul] at hF hoth ⊢
      have : (writeArgs w F (m.writeLE (F - (i * w + 2 * w)) w (wrapI (256 ^ w) a)) (i + 1) as).readLE (F - (i * w + 2 * w)) w
          = (m.writeLE (F - (i * w + 2 * w)) w (wrapI (256 ^ w) a)).readLE (F - (i * w + 2 * w)) w :=
        Mem.readLE_congr _ _ _ _ (fun x h1 h2 => hoth x (by omega) (Or.inr (by omega)))
      rw [this, Mem.readLE_writeLE_same _ _ _ _ (by omega)]
      exact Nat.mod_eq_of_lt (wrapI_lt hM a)
    | succ j =>
      simp only [List.getElem_cons_succ]
      have := ih (m.writeLE (F - (i + 2) * w) w (wrapI (256 ^ w) a)) (i + 1) j (by omega)
        (by simp only [Nat.add_mul, Nat.one_mul] at hF ⊢; omega) (by simp; omega)
      rw [show i + 1 + j + 2 = i + (j + 1) + 2 from by omega] at this
      exact this

theorem initMem_size (cf : Config) (args : List Int) (body : S) :
    (initMem cf args body).size = 5 * cf.w + cf.stackWords * cf.w + args.length * cf.w + cf.w := by
  unfold initMem
  simp only [writeArgs_size, Mem.size_writeLE, zsize]

section init
variable (cf : Config) (args : List Int) (body : S)

/-- address of the frame pointer of the entry point -/
abbrev F0 : Nat := 5 * cf.w + cf.stackWords * cf.w + args.length * cf.w + cf.w

theorem F0_args : (0 + args.length + 1) * cf.w ≤ F0 cf args := by
  unfold F0; simp only [Nat.zero_add, Nat.add_mul, Nat.one_mul]; omega

theorem initMem_low (hw : 2 ≤ cf.w) (x k : Nat) (hx : x + k ≤ 5 * cf.w) :
    (initMem cf args body).readLE x k =
      ((((⟨Array.replicate (F0 cf args) 0⟩ : Mem).writeLE 0 cf.w (5 * cf.w)).writeLE cf.w cf.w (F0 cf args)).writeLE (F0 cf args - cf.w) cf.w
        (funcLen cf.checked body + off_all_is_win)).readLE x k := by
  unfold initMem
  exact Mem.readLE_congr _ _ _ _ (fun y h1 h2 => writeArgs_other cf.w _ args _ 0 y (F0_args cf args)
    (Or.inl (by
      have : (0 + args.length + 1) * cf.w = args.length * cf.w + cf.w := by simp only [Nat.zero_add, Nat.add_mul, Nat.one_mul]
      unfold F0 at *; omega)))

theorem initMem_fp (hw : 2 ≤ cf.w) (hSE : F0 cf args < 256 ^ cf.w) :
    (initMem cf args body).readLE cf.w cf.w = F0 cf args := by
  rw [initMem_low cf args body hw cf.w cf.w (by omega)]
  rw [Mem.readLE_writeLE_disj _ _ _ _ _ _ (by unfold F0; omega),
    Mem.readLE_writeLE_same _ _ _ _ (by simp only [Mem.size_writeLE, zsize]; unfold F0; omega)]
  exact Nat.mod_eq_of_lt hSE

theorem initMem_ap (hw : 2 ≤ cf.w) : (initMem cf args body).readLE 0 cf.w = 5 * cf.w := by
  rw [initMem_low cf args body hw 0 cf.w (by omega)]
  rw [Mem.readLE_writeLE_disj _ _ _ _ _ _ (by unfold F0; omega), Mem.readLE_writeLE_disj _ _ _ _ _ _ (by omega),
    Mem.readLE_writeLE_same _ _ _ _ (by simp only [zsize]; unfold F0; omega)]
  exact Nat.mod_eq_of_lt (by have := mul_w_lt_pow cf.w hw; omega)

theorem initMem_ra (hw : 2 ≤ cf.w) (hB : funcLen cf.checked body + stdlibLength < 256 ^ cf.w) :
    (initMem cf args body).readLE (F0 cf args - cf.w) cf.w = funcLen cf.checked body + off_all_is_win := by
  unfold initMem
  have : (writeArgs cf.w (F0 cf args) ((((⟨Array.replicate (F0 cf args) 0⟩ : Mem).writeLE 0 cf.w (5 * cf.w)).writeLE cf.w cf.w (F0 cf args)).writeLE (F0 cf args - cf.w) cf.w
        (funcLen cf.checked body + off_all_is_win)) 0 args).readLE (F0 cf args - cf.w) cf.w
      = ((((⟨Array.replicate (F0 cf args) 0⟩ : Mem).writeLE 0 cf.w (5 * cf.w)).writeLE cf.w cf.w (F0 cf args)).writeLE (F0 cf args - cf.w) cf.w
        (funcLen cf.checked body + off_all_is_win)).readLE (F0 cf args - cf.w) cf.w :=
    Mem.readLE_congr _ _ _ _ (fun y h1 h2 => writeArgs_other cf.w _ args _ 0 y (F0_args cf args)
      (Or.inr (by simp only [Nat.zero_add, Nat.one_mul]; exact h1)))
  show (writeArgs cf.w (F0 cf args) _ 0 args).readLE (F0 cf args - cf.w) cf.w = _
  rw [this, Mem.readLE_writeLE_same _ _ _ _ (by simp only [Mem.size_writeLE, zsize]; unfold F0; omega)]
  exact Nat.mod_eq_of_lt (by simp [off_all_is_win, stdlibLength] at *; omega)

theorem initMem_arg (hw : 2 ≤ cf.w) (j : Nat) (hj : j < args.length) :
    (initMem cf args body).readLE (F0 cf args - (j + 2) * cf.w) cf.w = wrapI (256 ^ cf.w) args[j] := by
  unfold initMem
  have := writeArgs_read cf.w (F0 cf args) (by omega) args
    ((((⟨Array.replicate (F0 cf args) 0⟩ : Mem).writeLE 0 cf.w (5 * cf.w)).writeLE cf.w cf.w (F0 cf args)).writeLE (F0 cf args - cf.w) cf.w
        (funcLen cf.checked body + off_all_is_win)) 0 j hj (F0_args cf args)
    (by simp only [Mem.size_writeLE, zsize]; exact Nat.le_refl _)
  rw [Nat.zero_add] at this
  exact this
end init

/-! ## the entry frame: parameters bound to the arguments -/
theorem contains_paramGam (w : Nat) : ∀ (params : List String) (i : Nat) (y : String),
    ((paramGam w i params).map Prod.fst).contains y = params.contains y := by
  intro params
  induction params with
  | nil => intro i y; rfl
  | cons x xs ih => intro i y; simp only [paramGam, List.map_cons, List.contains_cons, ih]

theorem look_paramGam_ge (w : Nat) : ∀ (params : List String) (i : Nat) (y : String),
    params.contains y = true → (i + 2) * w ≤ look (paramGam w i params) y ∧ look (paramGam w i params) y ≤ (i + params.length + 1) * w := by
  intro params
  induction params with
  | nil => intro i y h; simp at h
  | cons x xs ih =>
    intro i y h
    simp only [paramGam, List.length_cons]
    by_cases hyx : y = x
    · subst hyx
      rw [look_cons_same]
      simp only [Nat.add_mul, Nat.one_mul]; omega
    · rw [look_cons_other _ _ _ _ hyx]
      have hy : xs.contains y = true := by
        simp only [List.contains_cons] at h
        have : (y == x) = false := by simpa using hyx
        simpa [this] using h
      have := ih (i + 1) y hy
      simp only [Nat.add_mul, Nat.one_mul] at this ⊢; omega

theorem disj_paramGam (w : Nat) : ∀ (params : List String) (i : Nat), params.Nodup → Disj w (paramGam w i params) := by
  intro params
  induction params with
  | nil => intro i _ x y hx; simp [paramGam] at hx
  | cons x xs ih =>
    intro i hnd y z hy hz hyz
    rw [contains_paramGam] at hy hz
    have hxs : xs.Nodup := (List.nodup_cons.1 hnd).2
    simp only [paramGam]
    by_cases hyx : y = x
    · subst hyx
      have hzy : z ≠ y := fun e => hyz e.symm
      have hz' : xs.contains z = true := by
        simp only [List.contains_cons] at hz
        have : (z == y) = false := by simpa using hzy
        simpa [this] using hz
      rw [look_cons_same, look_cons_other _ _ _ _ hzy]
      have := (look_paramGam_ge w xs (i + 1) z hz').1
      simp only [Nat.add_mul, Nat.one_mul] at this ⊢
      left; omega
    · have hy' : xs.contains y = true := by
        simp only [List.contains_cons] at hy
        have : (y == x) = false := by simpa using hyx
        simpa [this] using hy
      rw [look_cons_other _ _ _ _ hyx]
      by_cases hzx : z = x
      · subst hzx
        rw [look_cons_same]
        have := (look_paramGam_ge w xs (i + 1) y hy').1
        simp only [Nat.add_mul, Nat.one_mul] at this ⊢
        right; omega
      · have hz' : xs.contains z = true := by
          simp only [List.contains_cons] at hz
          have : (z == x) = false := by simpa using hzx
          simpa [this] using hz
        rw [look_cons_other _ _ _ _ hzx]
        exact ih (i + 1) hxs y z (by rw [contains_paramGam]; exact hy') (by rw [contains_paramGam]; exact hz') hyz

theorem vars_paramGam (w : Nat) (m : Mem) (F : Nat) : ∀ (params : List String) (args : List Int) (i : Nat),
    params.Nodup → args.length = params.length →
    (∀ j (hj : j < args.length), m.readLE (F - (i + j + 2) * w) w = wrapI (256 ^ w) args[j]) →
    VarsOK w (paramGam w i params) (argEnv (256 ^ w) params args) m F ((i + params.length + 1) * w) := by
  intro params
  induction params with
  | nil => intro args i _ _ _ x hx; simp [paramGam] at hx
  | cons x xs ih =>
    intro args i hnd hlen hm y hy
    cases args with
    | nil => simp at hlen
    | cons a as =>
      rw [contains_paramGam] at hy
      have hb := look_paramGam_ge w (x :: xs) i y hy
      refine ⟨by have := hb.1; simp only [Nat.add_mul] at this; omega, hb.2, ?_⟩
      simp only [paramGam, argEnv]
      by_cases hyx : y = x
      · subst hyx
        rw [look_cons_same, upd_same]
        have := hm 0 (by simp)
        simpa using this
      · rw [look_cons_other _ _ _ _ hyx, upd_other _ _ _ _ hyx]
        have hy' : xs.contains y = true := by
          simp only [List.contains_cons] at hy
          have : (y == x) = false := by simpa using hyx
          simpa [this] using hy
        have := ih as (i + 1) (List.nodup_cons.1 hnd).2 (by simpa using hlen)
          (fun j hj => by
            have := hm (j + 1) (by simp; omega)
            rw [show i + 1 + j + 2 = i + (j + 1) + 2 from by omega]
            simpa using this) y (by rw [contains_paramGam]; exact hy')
        exact this.2.2

theorem map_fst_paramGam (w : Nat) : ∀ (params : List String) (i : Nat), (paramGam w i params).map Prod.fst = params := by
  intro params
  induction params with
  | nil => intro i; rfl
  | cons x xs ih => intro i; simp [paramGam, ih]

/-- the flags a run ends with -/
def terminalEvs : Res → List Ev
  | .div0 => [Ev.flag "division_by_zero", Ev.flag "error"]
  | _ => [Ev.flag "win"]

/-- the prologue of a checked build: compares the free stack `fp - ap` with the frame peak -/
theorem prologue_steps (cf : Config) (params : List String) (args : List Int) (body : S) (hw : 2 ≤ cf.w)
    (hck : cf.checked = true)
    (hB : funcLen cf.checked body + stdlibLength < 256 ^ cf.w) (hSE : F0 cf args < 256 ^ cf.w)
    (hpkM : pkS cf.w (entryOff cf.w params) body < 256 ^ cf.w) :
    let p := coreProg cf params body
    ∃ m1, Keep cf.w (initMem cf args body) m1 (5 * cf.w) ∧
      Sphinx.step p ⟨0, initMem cf args body⟩ = .jump ⟨1, initMem cf args body⟩ ⟨5, initMem cf args body⟩ ∧
      Sphinx.step p ⟨1, initMem cf args body⟩ = .next ⟨2, m1⟩ none ∧
      Sphinx.step p ⟨2, m1⟩ =
        (if pkS cf.w (entryOff cf.w params) body ≤ cf.stackWords * cf.w + args.length * cf.w + cf.w then .halt
         else .next ⟨3, m1⟩ none) ∧
      Sphinx.step p ⟨3, m1⟩ = .jump ⟨4, m1⟩ ⟨funcLen cf.checked body + off_stack_overflow, m1⟩ ∧
      Sphinx.step p ⟨4, m1⟩ = .halt := by
  intro p
  have h64 := mul_w_lt_pow cf.w hw
  have hM := pow_ge2 cf.w hw
  have hpw : p.w = cf.w := rfl
  have hcodeP : PlacedAt p 0 (funcCode cf params body) :=
    (placedAt_toArray_append cf.w (funcCode cf params body) (stdlibCode cf.w (funcLen cf.checked body)) ⟨#[]⟩).1
  have hpro := hcodeP
  unfold funcCode at hpro
  rw [hck] at hpro
  simp only [if_true] at hpro
  have hpro1 := hpro.append.1
  have c0 := hpro1 0 (by simp); have c1 := hpro1 1 (by simp); have c2 := hpro1 2 (by simp)
  have c3 := hpro1 3 (by simp); have c4 := hpro1 4 (by simp)
  simp only [List.getElem_cons_succ, List.getElem_cons_zero, Nat.add_zero, Nat.zero_add] at c0 c1 c2 c3 c4
  have hsz := initMem_size cf args body
  have hF : F0 cf args = 5 * cf.w + cf.stackWords * cf.w + args.length * cf.w + cf.w := rfl
  have s0 := step_j (p := p) (m := initMem cf args body) c0 (ev_imm 5)
  rw [show 5 % p.M = 5 from Nat.mod_eq_of_lt (by unfold Prog.M; rw [hpw]; omega)] at s0
  have hfp : evalArg p ⟨1, initMem cf args body⟩ (.st (mkCx cf body).fp) = some (F0 cf args) := by
    show evalArg p _ (.st p.w) = _
    rw [ev_st (by unfold Prog.M; rw [hpw]; omega) (by rw [hpw, hsz]; omega), hpw, initMem_fp cf args body hw hSE]
  have hap : evalArg p ⟨1, initMem cf args body⟩ (.st 0) = some (5 * cf.w) := by
    rw [ev_st (by unfold Prog.M; rw [hpw]; omega) (by rw [hpw, hsz]; omega), hpw, initMem_ap cf args body hw]
  have s1 := step_alu (p := p) (m := initMem cf args body) c1 hfp hap alu_sub
    (by show 3 * cf.w < p.M; unfold Prog.M; rw [hpw]; omega) (by show 3 * cf.w + p.w ≤ _; rw [hpw, hsz]; omega)
  rw [show (F0 cf args + p.M - 5 * cf.w % p.M) % p.M = cf.stackWords * cf.w + args.length * cf.w + cf.w from by
    unfold Prog.M; rw [hpw, sub_mod_small (by rw [hF]; omega) hSE]; rw [hF]; omega] at s1
  refine ⟨(initMem cf args body).writeLE (mkCx cf body).r1 p.w (cf.stackWords * cf.w + args.length * cf.w + cf.w),
    Keep.write _ _ _ _ _ _ (by show 2 * cf.w ≤ 3 * cf.w; omega) (by show 3 * cf.w + cf.w ≤ _; omega), s0, s1, ?_, ?_, ?_⟩
  · have hr1 : evalArg p ⟨2, (initMem cf args body).writeLE (mkCx cf body).r1 p.w (cf.stackWords * cf.w + args.length * cf.w + cf.w)⟩
        (.st (mkCx cf body).r1) = some (cf.stackWords * cf.w + args.length * cf.w + cf.w) := by
      show evalArg p _ (.st (3 * cf.w)) = _
      rw [ev_st (by unfold Prog.M; rw [hpw]; omega) (by simp; rw [hpw, hsz]; omega)]
      show some (((initMem cf args body).writeLE (3 * cf.w) cf.w _).readLE (3 * cf.w) cf.w) = _
      rw [Mem.readLE_writeLE_same _ _ _ _ (by rw [hsz]; omega)]
      rw [Nat.mod_eq_of_lt (by rw [hF] at hSE; omega)]
    have s2 := step_hcond (p := p) c2 hr1 (ev_imm _)
    have hmax : pkS cf.w (entryOff cf.w params) body % (mkCx cf body).M % p.M = pkS cf.w (entryOff cf.w params) body := by
      show pkS cf.w (entryOff cf.w params) body % 256 ^ cf.w % p.M = _
      unfold Prog.M; rw [hpw, Nat.mod_mod]; exact Nat.mod_eq_of_lt hpkM
    rw [hmax] at s2
    simpa [haltCond] using s2
  · have s3 := step_j (p := p) (m := (initMem cf args body).writeLE (mkCx cf body).r1 p.w (cf.stackWords * cf.w + args.length * cf.w + cf.w))
      c3 (ev_imm _)
    rw [show ((mkCx cf body).B + off_stack_overflow) % p.M = funcLen cf.checked body + off_stack_overflow from
      Nat.mod_eq_of_lt (by unfold Prog.M; rw [hpw]; show funcLen cf.checked body + off_stack_overflow < _
                           simp [off_stack_overflow, stdlibLength] at *; omega)] at s3
    exact s3
  · exact step_halt (p := p) c4

theorem core_correct (cf : Config) (params : List String) (args : List Int) (body : S) (hw : 2 ≤ cf.w)
    (hB : funcLen cf.checked body + stdlibLength < 256 ^ cf.w) (hSE : F0 cf args < 256 ^ cf.w)
    (hnd : params.Nodup) (hlen : args.length = params.length)
    (hwf : wfS params body = true) (hyl : youLevel body = true)
    (fuel : Nat) (env' : Env) (tr : List Ev) (res : Res)
    (hex : exec (256 ^ cf.w) (8 * cf.w) fuel (argEnv (256 ^ cf.w) params args) body = some (env', tr, res))
    (hck : res = .div0 → cf.checked = true)
    (hroom : pkS cf.w (entryOff cf.w params) body ≤ cf.stackWords * cf.w + args.length * cf.w + cf.w) :
    ∃ mEnd, Exec (sphinx (coreProg cf params body)) (coreInit cf args body) (tr ++ terminalEvs res)
        ⟨tntPc (funcLen cf.checked body), mEnd⟩ ∧
      ¬ Halts (sphinx (coreProg cf params body)) (coreInit cf args body) := by
  have lib := core_placed cf params body hw hB
  have h64 := mul_w_lt_pow cf.w hw
  have hM := pow_ge2 cf.w hw
  have hpro := fun hc hpk => prologue_steps cf params args body hw hc hB hSE hpk
  generalize hp : coreProg cf params body = p at *
  have hpw : p.w = cf.w := by rw [← hp]; rfl
  generalize hBdef : funcLen cf.checked body = B at *
  have hF : F0 cf args = 5 * cf.w + cf.stackWords * cf.w + args.length * cf.w + cf.w := rfl
  have heo : entryOff cf.w params = params.length * cf.w + cf.w := by
    unfold entryOff; simp only [Nat.add_mul, Nat.one_mul]
  -- frame facts of the initial memory
  have fr0 : Fr p (initMem cf args body) (F0 cf args) (cf.stackWords * cf.w + args.length * cf.w + cf.w) :=
    ⟨by rw [hpw]; exact initMem_fp cf args body hw hSE, by rw [initMem_size]; exact Nat.le_refl _,
     by rw [hpw]; exact hSE, by rw [hpw, hF]; omega⟩
  have hra0 : (initMem cf args body).readLE (F0 cf args - p.w) p.w = B + off_all_is_win := by
    rw [hpw, ← hBdef]; exact initMem_ra cf args body hw (by rw [hBdef]; exact hB)
  have hvars0 : VarsOK p.w (paramGam cf.w 0 params) (argEnv (256 ^ cf.w) params args) (initMem cf args body) (F0 cf args)
      (entryOff cf.w params) := by
    have := vars_paramGam cf.w (initMem cf args body) (F0 cf args) params args 0 hnd hlen
      (fun j hj => by rw [Nat.zero_add]; exact initMem_arg cf args body hw j hj)
    rw [hpw]; unfold entryOff; rw [Nat.zero_add] at this; exact this
  have hinv0 : SInv p (paramGam cf.w 0 params) (argEnv (256 ^ cf.w) params args) (initMem cf args body) (F0 cf args)
      (cf.stackWords * cf.w + args.length * cf.w + cf.w) (entryOff cf.w params) (B + off_all_is_win) :=
    ⟨fr0, hvars0, hra0⟩
  -- the function body
  have hcodeP : PlacedAt p 0 (funcCode cf params body) := by
    rw [← hp]; exact (placedAt_toArray_append cf.w (funcCode cf params body) (stdlibCode cf.w (funcLen cf.checked body)) ⟨#[]⟩).1
  have hcx : mkCx cf body = cxOf p cf.checked B := by rw [← hp, ← hBdef]; rfl
  have hbodyP : PlacedAt p (prologueLen cf.checked)
      (cS (cxOf p cf.checked B) (paramGam cf.w 0 params) (prologueLen cf.checked) (entryOff cf.w params) body) := by
    have := hcodeP
    unfold funcCode at this
    rw [hcx] at this
    have h2 := this.append.2
    cases hc : cf.checked <;> simp [hc, prologueLen] at h2 ⊢ <;> exact h2
  have hbodyLen : prologueLen cf.checked +
      (cS (cxOf p cf.checked B) (paramGam cf.w 0 params) (prologueLen cf.checked) (entryOff cf.w params) body).length = B := by
    rw [cS_len, ← hBdef]; rfl
  have hbody := cS_ok (ck := cf.checked) lib (F0 cf args) (cf.stackWords * cf.w + args.length * cf.w + cf.w)
    (B + off_all_is_win) (by rw [hpw]; simp [off_all_is_win, stdlibLength] at *; omega)
    fuel body (paramGam cf.w 0 params) (argEnv (256 ^ cf.w) params args) (prologueLen cf.checked) (entryOff cf.w params)
  rw [hpw] at hbody
  have hnd' : res ≠ .defeat := exec_no_defeat _ _ _ _ _ _ _ _ hyl hex
  -- after the body: win or the division_by_zero stub
  have hend : ∀ (m0 : Mem), SInv p (paramGam cf.w 0 params) (argEnv (256 ^ cf.w) params args) m0 (F0 cf args)
        (cf.stackWords * cf.w + args.length * cf.w + cf.w) (entryOff cf.w params) (B + off_all_is_win) →
      ∃ mEnd, Reach (sphinx p) ⟨prologueLen cf.checked, m0⟩ (tr ++ terminalEvs res) ⟨tntPc B, mEnd⟩ := by
    intro m0 hi0
    have hsafe : ∀ st', Post p B (B + off_all_is_win) (paramGam cf.w 0 params) env' (F0 cf args)
        (cf.stackWords * cf.w + args.length * cf.w + cf.w) (entryOff cf.w params)
        (prologueLen cf.checked + (cS (cxOf p cf.checked B) (paramGam cf.w 0 params) (prologueLen cf.checked) (entryOff cf.w params) body).length) res st' →
        ¬ Halts (sphinx p) st' := by
      intro st' hp'
      obtain ⟨pc', m'⟩ := st'
      have tn := terminal_never_halts lib m'
      cases res with
      | norm =>
        simp only [Post] at hp'
        have hpc : pc' = B + off_all_is_win := by rw [hp'.1, hbodyLen]; simp [off_all_is_win]
        subst hpc; exact tn.1
      | returned => simp only [Post] at hp'; subst hp'; exact tn.1
      | div0 => simp only [Post] at hp'; subst hp'; exact tn.2.2.2.1
      | defeat => exact absurd rfl hnd'
    obtain ⟨st', r, hpost⟩ := (hbody m0 env' tr res hbodyP (by omega) hi0 (disj_paramGam cf.w params 0 hnd)
      (by rw [map_fst_paramGam]; exact hwf) hroom (by rw [heo]; omega) hex hck (Or.inr ⟨hyl, hsafe⟩)).2 hnd'
    obtain ⟨pc', m'⟩ := st'
    cases res with
    | norm =>
      simp only [Post] at hpost
      have hpc : pc' = B + off_all_is_win := by rw [hpost.1, hbodyLen]; simp [off_all_is_win]
      subst hpc
      exact ⟨m', r.trans (all_is_win_reach lib m')⟩
    | returned =>
      simp only [Post] at hpost
      subst hpost
      exact ⟨m', r.trans (all_is_win_reach lib m')⟩
    | div0 =>
      simp only [Post] at hpost
      subst hpost
      exact ⟨m', r.trans (error_stub_reach lib m').2.1⟩
    | defeat => exact absurd rfl hnd'
  -- the prologue
  have hreach : ∃ mEnd, Reach (sphinx p) (coreInit cf args body) (tr ++ terminalEvs res) ⟨tntPc B, mEnd⟩ := by
    cases hc : cf.checked with
    | false =>
      rw [hc] at hend
      simpa [coreInit, prologueLen] using hend (initMem cf args body) hinv0
    | true =>
      rw [hc] at hend
      obtain ⟨m1, k1, s0, s1, s2, _, _⟩ := hpro hc (by omega)
      rw [if_pos hroom] at s2
      have hh : Halts (sphinx p) ⟨1, initMem cf args body⟩ :=
        Halts.next (sys := sphinx p) s1 (Halts.halt (sys := sphinx p) s2)
      have j := Reach.jump_taken' (sys := sphinx p) s0 hh
      obtain ⟨mEnd, r⟩ := hend (initMem cf args body) hinv0
      exact ⟨mEnd, by simpa [coreInit, prologueLen] using j.trans r⟩
  obtain ⟨mEnd, r⟩ := hreach
  have nh := tnt_never_halts lib mEnd
  exact ⟨mEnd, (r.exec nh).1, (r.exec nh).2⟩

/-- checked build, stack smaller than the frame peak: `stack_overflow` before anything else happens -/
theorem core_overflow (cf : Config) (params : List String) (args : List Int) (body : S) (hw : 2 ≤ cf.w)
    (hck : cf.checked = true)
    (hB : funcLen cf.checked body + stdlibLength < 256 ^ cf.w) (hSE : F0 cf args < 256 ^ cf.w)
    (hsmall : cf.stackWords * cf.w + args.length * cf.w + cf.w < pkS cf.w (entryOff cf.w params) body)
    (hpkM : pkS cf.w (entryOff cf.w params) body < 256 ^ cf.w) :
    ∃ mEnd, Exec (sphinx (coreProg cf params body)) (coreInit cf args body) [Ev.flag "stack_overflow", Ev.flag "error"]
        ⟨tntPc (funcLen cf.checked body), mEnd⟩ ∧
      ¬ Halts (sphinx (coreProg cf params body)) (coreInit cf args body) := by
  have lib := core_placed cf params body hw hB
  obtain ⟨m1, k1, s0, s1, s2, s3, s4⟩ := prologue_steps cf params args body hw hck hB hSE hpkM
  rw [if_neg (by omega)] at s2
  generalize hp : coreProg cf params body = p at *
  have j3 := Reach.jump_taken (sys := sphinx p) s3 s4
  have rso := (error_stub_reach lib m1).1
  have r1 : Reach (sphinx p) ⟨1, initMem cf args body⟩ [Ev.flag "stack_overflow", Ev.flag "error"]
      ⟨tntPc (funcLen cf.checked body), m1⟩ := by
    have := (Reach.of_next (sys := sphinx p) s1).trans ((Reach.of_next (sys := sphinx p) s2).trans (j3.trans rso))
    simpa [evl] using this
  have nh := tnt_never_halts lib m1
  have nh1 : ¬ Halts (sphinx p) ⟨1, initMem cf args body⟩ := (r1.exec nh).2
  have r0 := Reach.jump_not_taken (sys := sphinx p) s0 (fun hh => absurd hh nh1)
  have r := r0.trans r1
  refine ⟨m1, ?_, ?_⟩
  · have := (r.exec nh).1; simpa [coreInit] using this
  · have := (r.exec nh).2; simpa [coreInit] using this

end HidVerif.Core
