import HidVerif.Proofs.CoreExec
/-!
# Core compiler proofs: whole programs

`core_correct`: for every core program, word size, stack size and build mode, the program
`coreProg` (which the `core` correspondence suite shows to be exactly what `hidc` emits) started
in its initial state performs exactly the output of the source semantics followed by the
terminal flag(s), ends in the `tnt` loop, and never halts — provided the stack is large enough
for the frame peak; in checked builds a stack that is too small leads to `stack_overflow`
before any output.
-/
namespace HidVerif.Core
open HidVerif HidVerif.PSys HidVerif.Sphinx HidVerif.Gen

theorem placedAt_toArray_append (w : Nat) (l1 l2 : List Instr) (cn : Mem) :
    PlacedAt ⟨w, (l1 ++ l2).toArray, cn⟩ 0 l1 ∧ PlacedAt ⟨w, (l1 ++ l2).toArray, cn⟩ l1.length l2 := by
  constructor
  · intro i hi
    simp [List.getElem?_append_left hi]
  · intro i hi
    simp [List.getElem?_append_right]

theorem funcCode_len (cx : Cx) (fa : FAddr) (base : Nat) (vd : Bool) (params : List String) (body : S) :
    (funcCode cx fa base vd params body).length = funcLen cx.checked vd body := by
  unfold funcCode funcLen prologueLen
  cases hc : cx.checked <;> simp [cS_len, hc] <;> omega

theorem funsCode_len (cx : Cx) (fa : FAddr) : ∀ (fds : List FDecl) (a : Nat),
    (funsCode cx fa a fds).length = funsLen cx.checked fds := by
  intro fds
  induction fds with
  | nil => intro a; rfl
  | cons fd fds ih => intro a; simp [funsCode, funsLen, funcCode_len, ih]

theorem progCode_len (cf : Config) (pr : CProg) : (progCode cf pr).length = progLen cf.checked pr := by
  simp only [progCode, progLen, List.length_append, funcCode_len, funsCode_len]; rfl

theorem stdlibCode_len (w B : Nat) : (stdlibCode w B).length = stdlibLength := by
  simp [stdlibCode, stdlibLength, code_all_is_win, code_all_is_broken, code_stack_overflow, code_division_by_zero,
    code_out_of_bounds, code_nonlocal_preempt, code_write_const_byte_array, code_write_string,
    code_write_state_byte_array, code_write_bool, code_write_int]

/-- the runtime library sits right behind the functions -/
theorem core_placed (cf : Config) (pr : CProg) (hw : 2 ≤ cf.w)
    (hB : progLen cf.checked pr + stdlibLength < 256 ^ cf.w) :
    Placed (coreProg cf pr) (progLen cf.checked pr) := by
  refine ⟨hw, ?_, hB⟩
  have := (placedAt_toArray_append cf.w (progCode cf pr) (stdlibCode cf.w (progLen cf.checked pr)) ⟨#[]⟩).2
  rw [progCode_len] at this
  exact this

/-- every function of the table is placed at the address the calls jump to -/
theorem funs_placed (p : Prog) (cx : Cx) (fa : FAddr) : ∀ (fds : List FDecl) (a : Nat),
    (fds.map (·.name)).Nodup → PlacedAt p a (funsCode cx fa a fds) →
    ∀ fd ∈ fds,
      PlacedAt p (faddr (layout cx.checked a fds) fd.name)
        (funcCode cx fa (faddr (layout cx.checked a fds) fd.name) fd.dfn fd.params fd.body) ∧
      faddr (layout cx.checked a fds) fd.name + funcLen cx.checked fd.dfn fd.body ≤ a + funsLen cx.checked fds := by
  intro fds
  induction fds with
  | nil => intro a _ _ fd hfd; simp at hfd
  | cons fd0 rest ih =>
    intro a hnd hpl fd hfd
    simp only [List.map_cons, List.nodup_cons] at hnd
    simp only [funsCode] at hpl
    obtain ⟨hpl1, hpl2⟩ := hpl.append
    rw [funcCode_len] at hpl2
    rcases List.mem_cons.1 hfd with rfl | hin
    · have : faddr (layout cx.checked a (fd :: rest)) fd.name = a := by
        simp [faddr, layout, List.lookup]
      rw [this]
      exact ⟨hpl1, by simp only [funsLen]; omega⟩
    · have hne : fd.name ≠ fd0.name := by
        intro e
        exact hnd.1 (by rw [← e]; exact List.mem_map.2 ⟨fd, hin, rfl⟩)
      have : faddr (layout cx.checked a (fd0 :: rest)) fd.name
          = faddr (layout cx.checked (a + funcLen cx.checked fd0.dfn fd0.body) rest) fd.name := by
        have hb : (fd.name == fd0.name) = false := by simpa using hne
        simp [faddr, layout, List.lookup, hb]
      rw [this]
      obtain ⟨h1, h2⟩ := ih (a + funcLen cx.checked fd0.dfn fd0.body) hnd.2 hpl2 fd hin
      exact ⟨h1, by simp only [funsLen]; omega⟩

/-! ## the initial state -/
theorem zsize (n : Nat) : (⟨Array.replicate n 0⟩ : Mem).size = n := by simp [Mem.size]

theorem writeArgs_size (w F : Nat) : ∀ (args : List Int) (m : Mem) (i : Nat), (writeArgs w F m i args).size = m.size := by
  intro args
  induction args with
  | nil => intro m i; rfl
  | cons a as ih => intro m i; simp only [writeArgs]; rw [ih]; simp

/-- `writeArgs` only touches the argument words -/
theorem writeArgs_other (w F : Nat) : ∀ (args : List Int) (m : Mem) (i x : Nat),
    (i + args.length + 1) * w ≤ F → (x < F - (i + args.length + 1) * w ∨ F - (i + 1) * w ≤ x) →
    (writeArgs w F m i args).rd x = m.rd x := by
  intro args
  induction args with
  | nil => intro m i x _ _; rfl
  | cons a as ih =>
    intro m i x hF hx
    simp only [writeArgs, List.length_cons] at hF hx ⊢
    have h1 := ih (m.writeLE (F - (i + 2) * w) w (wrapI (256 ^ w) a)) (i + 1) x
    simp only [Nat.add_mul, Nat.one_mul] at hF hx h1 ⊢
    rw [h1 (by omega) (by omega)]
    exact Mem.rd_writeLE_other _ _ _ _ _ (by omega)

/-- … and stores argument `j` in the word at offset `(i + j + 2)·w` below the frame pointer -/
theorem writeArgs_read (w F : Nat) (hw : 0 < w) : ∀ (args : List Int) (m : Mem) (i j : Nat) (hj : j < args.length),
    (i + args.length + 1) * w ≤ F → F ≤ m.size →
    (writeArgs w F m i args).readLE (F - (i + j + 2) * w) w = wrapI (256 ^ w) args[j] := by
  intro args
  induction args with
  | nil => intro m i j hj; simp at hj
  | cons a as ih =>
    intro m i j hj hF hsz
    simp only [writeArgs]
    simp only [List.length_cons] at hF hj
    have hM : 0 < 256 ^ w := Nat.pow_pos (by decide)
    cases j with
    | zero =>
      simp only [Nat.add_zero, List.getElem_cons_zero]
      have hoth := writeArgs_other w F as (m.writeLE (F - (i + 2) * w) w (wrapI (256 ^ w) a)) (i + 1)
      simp only [Nat.add_mul, Nat.one_mul] at hF hoth ⊢
      have : (writeArgs w F (m.writeLE (F - (i * w + 2 * w)) w (wrapI (256 ^ w) a)) (i + 1) as).readLE (F - (i * w + 2 * w)) w
          = (m.writeLE (F - (i * w + 2 * w)) w (wrapI (256 ^ w) a)).readLE (F - (i * w + 2 * w)) w :=
        Mem.readLE_congr _ _ _ _ (fun x h1 h2 => hoth x (by omega) (Or.inr (by omega)))
      rw [this, Mem.readLE_writeLE_same _ _ _ _ (by omega)]
      exact Nat.mod_eq_of_lt (wrapI_lt hM a)
    | succ j =>
      simp only [List.getElem_cons_succ]
      have := ih (m.writeLE (F - (i + 2) * w) w (wrapI (256 ^ w) a)) (i + 1) j (by omega)
        (by simp only [Nat.add_mul, Nat.one_mul] at hF ⊢; omega) (by simp; omega)
      rw [show i + 1 + j + 2 = i + (j + 1) + 2 from by omega] at this
      exact this

section init
variable (cf : Config) (args : List Int) (pr : CProg)

/-- address of the frame pointer of the entry point -/
abbrev F0 : Nat := 5 * cf.w + cf.stackWords * cf.w + args.length * cf.w + cf.w

/-- the words `try_fp` and `defeat` behind the entry frame, in programs with a `try/stop` -/
def regsLen (w : Nat) (pr : CProg) : Nat := if needsVD pr then 2 * w else 0

theorem F0_args : (0 + args.length + 1) * cf.w ≤ F0 cf args := by
  unfold F0; simp only [Nat.zero_add, Nat.add_mul, Nat.one_mul]; omega

theorem initBase_size : (initBase cf args.length pr).size = F0 cf args + regsLen cf.w pr := by
  unfold initBase regsLen
  split <;> simp only [Mem.size_writeLE, zsize]

theorem initMem_size : (initMem cf args pr).size = F0 cf args + regsLen cf.w pr := by
  unfold initMem; rw [writeArgs_size, initBase_size]

/-- below the words behind the entry frame the state is the one of a program without them -/
theorem initBase_low (x k : Nat) (hx : x + k ≤ F0 cf args) :
    (initBase cf args.length pr).readLE x k =
      ((((⟨Array.replicate (F0 cf args + regsLen cf.w pr) 0⟩ : Mem).writeLE 0 cf.w (5 * cf.w)).writeLE cf.w cf.w (F0 cf args)).writeLE (F0 cf args - cf.w) cf.w
        (progLen cf.checked pr + off_all_is_win)).readLE x k := by
  unfold initBase regsLen
  split
  · rw [Mem.readLE_writeLE_disj _ _ _ _ _ _ (by unfold F0 at hx; omega)]
  · rfl

theorem initMem_low (hw : 2 ≤ cf.w) (x k : Nat) (hx : x + k ≤ 5 * cf.w) :
    (initMem cf args pr).readLE x k =
      ((((⟨Array.replicate (F0 cf args + regsLen cf.w pr) 0⟩ : Mem).writeLE 0 cf.w (5 * cf.w)).writeLE cf.w cf.w (F0 cf args)).writeLE (F0 cf args - cf.w) cf.w
        (progLen cf.checked pr + off_all_is_win)).readLE x k := by
  rw [← initBase_low cf args pr x k (by unfold F0; omega)]
  unfold initMem
  exact Mem.readLE_congr _ _ _ _ (fun y h1 h2 => writeArgs_other cf.w _ args _ 0 y (F0_args cf args)
    (Or.inl (by
      have : (0 + args.length + 1) * cf.w = args.length * cf.w + cf.w := by simp only [Nat.zero_add, Nat.add_mul, Nat.one_mul]
      omega)))

theorem initMem_fp (hw : 2 ≤ cf.w) (hSE : F0 cf args < 256 ^ cf.w) :
    (initMem cf args pr).readLE cf.w cf.w = F0 cf args := by
  rw [initMem_low cf args pr hw cf.w cf.w (by omega)]
  rw [Mem.readLE_writeLE_disj _ _ _ _ _ _ (by unfold F0; omega),
    Mem.readLE_writeLE_same _ _ _ _ (by simp only [Mem.size_writeLE, zsize]; unfold F0; omega)]
  exact Nat.mod_eq_of_lt hSE

theorem initMem_ap (hw : 2 ≤ cf.w) : (initMem cf args pr).readLE 0 cf.w = 5 * cf.w := by
  rw [initMem_low cf args pr hw 0 cf.w (by omega)]
  rw [Mem.readLE_writeLE_disj _ _ _ _ _ _ (by unfold F0; omega), Mem.readLE_writeLE_disj _ _ _ _ _ _ (by omega),
    Mem.readLE_writeLE_same _ _ _ _ (by simp only [zsize]; unfold F0; omega)]
  exact Nat.mod_eq_of_lt (by have := mul_w_lt_pow cf.w hw; omega)

theorem initMem_ra (hw : 2 ≤ cf.w) (hB : progLen cf.checked pr + stdlibLength < 256 ^ cf.w) :
    (initMem cf args pr).readLE (F0 cf args - cf.w) cf.w = progLen cf.checked pr + off_all_is_win := by
  have : (initMem cf args pr).readLE (F0 cf args - cf.w) cf.w = (initBase cf args.length pr).readLE (F0 cf args - cf.w) cf.w := by
    unfold initMem
    exact Mem.readLE_congr _ _ _ _ (fun y h1 h2 => writeArgs_other cf.w _ args _ 0 y (F0_args cf args)
      (Or.inr (by simp only [Nat.zero_add, Nat.one_mul]; exact h1)))
  rw [this, initBase_low cf args pr _ _ (by unfold F0; omega),
    Mem.readLE_writeLE_same _ _ _ _ (by simp only [Mem.size_writeLE, zsize]; unfold F0; omega)]
  exact Nat.mod_eq_of_lt (by simp [off_all_is_win, stdlibLength] at *; omega)

theorem initMem_arg (hw : 2 ≤ cf.w) (j : Nat) (hj : j < args.length) :
    (initMem cf args pr).readLE (F0 cf args - (j + 2) * cf.w) cf.w = wrapI (256 ^ cf.w) args[j] := by
  unfold initMem
  have := writeArgs_read cf.w (F0 cf args) (by omega) args (initBase cf args.length pr) 0 j hj (F0_args cf args)
    (by rw [initBase_size]; omega)
  rw [Nat.zero_add] at this
  exact this

/-- programs with a `try/stop` start with `defeat = halt` -/
theorem initMem_defeat (hw : 2 ≤ cf.w) (hs : needsVD pr = true) (hB : progLen cf.checked pr + stdlibLength < 256 ^ cf.w) :
    (initMem cf args pr).readLE (F0 cf args + cf.w) cf.w = progLen cf.checked pr + off_halt := by
  have : (initMem cf args pr).readLE (F0 cf args + cf.w) cf.w = (initBase cf args.length pr).readLE (F0 cf args + cf.w) cf.w := by
    unfold initMem
    exact Mem.readLE_congr _ _ _ _ (fun y h1 h2 => writeArgs_other cf.w _ args _ 0 y (F0_args cf args)
      (Or.inr (by simp only [Nat.zero_add, Nat.one_mul, F0] at h1 ⊢; omega)))
  rw [this]
  unfold initBase
  simp only [hs, if_true]
  rw [Mem.readLE_writeLE_same _ _ _ _ (by simp only [Mem.size_writeLE, zsize, F0]; omega)]
  exact Nat.mod_eq_of_lt (by simp [off_halt, off_all_is_win, stdlibLength] at *; omega)
end init

/-! ## the entry frame: parameters bound to the arguments -/
theorem slots_of_reads (w : Nat) (m : Mem) (F : Nat) : ∀ (args : List Int) (i : Nat),
    (∀ j (hj : j < args.length), m.readLE (F - (i + j + 2) * w) w = wrapI (256 ^ w) args[j]) →
    SlotsAt w m F ((i + 2) * w) (args.map (wrapI (256 ^ w))) := by
  intro args
  induction args with
  | nil => intro i _; trivial
  | cons a as ih =>
    intro i h
    refine ⟨by
      have := h 0 (by simp)
      simp only [Nat.add_zero, List.getElem_cons_zero] at this
      exact this, ?_⟩
    have := ih (i + 1) (fun j hj => by
      have := h (j + 1) (by simp; omega)
      rw [show i + 1 + j + 2 = i + (j + 1) + 2 from by omega]
      simpa using this)
    rw [show (i + 2) * w + w = (i + 1 + 2) * w from by simp only [Nat.add_mul, Nat.one_mul]; omega]
    exact this

/-- the flags a run ends with -/
def terminalEvs : Res → List Ev
  | .div0 => [Ev.flag "division_by_zero", Ev.flag "error"]
  | .ovf => [Ev.flag "stack_overflow", Ev.flag "error"]
  | _ => [Ev.flag "win"]

/-- the static conditions of `wfProg`, as the proofs use them -/
theorem wfProg_parts {pr : CProg} (h : wfProg pr = true) :
    pr.params.Nodup ∧ wfS pr.funs false pr.params pr.body = true ∧ youLevel (needsVD pr) pr.funs pr.body = true ∧ noFall pr.body = true ∧
    escFree false pr.body = true ∧ (pr.funs.map (·.name)).Nodup ∧
    ∀ fd ∈ pr.funs, fd.params.Nodup ∧ wfS pr.funs fd.dfn fd.params fd.body = true ∧
      (fd.dfn = false → plain pr.funs fd.body = true) ∧ (fd.dfn = true → noTry fd.body = true) := by
  simp only [wfProg, Bool.and_eq_true, decide_eq_true_eq, List.all_eq_true] at h
  obtain ⟨⟨⟨⟨⟨⟨⟨⟨h1, h2⟩, h3⟩, h4⟩, h4'⟩, _⟩, _⟩, h5⟩, h6⟩ := h
  refine ⟨h1, h2, h3, h4, h4', h5, fun fd hfd => ⟨(h6 fd hfd).1.1.1, (h6 fd hfd).1.1.2, fun hd => ?_, fun hd => ?_⟩⟩
  · have := (h6 fd hfd).1.2; rw [hd] at this; simpa using this
  · have := (h6 fd hfd).1.2; rw [hd] at this; simpa using this

/-- the facts about the function table that `cS_ok` needs, for the program `coreProg` -/
theorem core_fnsOK (cf : Config) (pr : CProg) (hwf : wfProg pr = true) :
    FnsOK (coreProg cf pr) cf.checked (progLen cf.checked pr) (defeatAddr cf pr) (progFA cf.checked pr) pr.funs := by
  obtain ⟨_, _, _, _, _, hnames, hfd⟩ := wfProg_parts hwf
  have hall : PlacedAt (coreProg cf pr) 0 (progCode cf pr) :=
    (placedAt_toArray_append cf.w (progCode cf pr) (stdlibCode cf.w (progLen cf.checked pr)) ⟨#[]⟩).1
  unfold progCode at hall
  have h2 := hall.append.2
  rw [funcCode_len, Nat.zero_add] at h2
  have hp := funs_placed (coreProg cf pr) (mkCx cf pr) (progFA cf.checked pr) pr.funs (funcLen cf.checked false pr.body) hnames h2
  refine ⟨fun fd h => (hp fd h).1, fun fd h => ?_, fun fd h => (hfd fd h).1, fun fd h => (hfd fd h).2.1, fun fd h => (hfd fd h).2.2.1,
    fun fd h => (hfd fd h).2.2.2⟩
  have := (hp fd h).2
  rw [show funcCode (cxOf (coreProg cf pr) cf.checked (progLen cf.checked pr) (defeatAddr cf pr)) = funcCode (mkCx cf pr) from rfl,
    funcCode_len]
  exact this

/-- what the level of the you function knows about the word `defeat` at the start: in programs that have it, it
holds the address of `halt` -/
def youWord (cf : Config) (args : List Int) (pr : CProg) : Option (Nat × Nat) :=
  if needsVD pr then some (F0 cf args + cf.w, progLen cf.checked pr + off_halt) else none

/-- frame facts of the initial memory -/
theorem init_fr (cf : Config) (args : List Int) (pr : CProg) (hw : 2 ≤ cf.w) (hSE : F0 cf args < 256 ^ cf.w) :
    Fr (coreProg cf pr) (initMem cf args pr) (F0 cf args) (cf.stackWords * cf.w + args.length * cf.w + cf.w) := by
  have hF : F0 cf args = 5 * cf.w + cf.stackWords * cf.w + args.length * cf.w + cf.w := rfl
  exact ⟨initMem_fp cf args pr hw hSE, initMem_ap cf args pr hw, by rw [initMem_size]; omega, hSE,
    by show 5 * cf.w + _ = _; rw [hF]; omega⟩

theorem init_inv (cf : Config) (args : List Int) (pr : CProg) (hw : 2 ≤ cf.w)
    (hB : progLen cf.checked pr + stdlibLength < 256 ^ cf.w) (hSE : F0 cf args + regsLen cf.w pr < 256 ^ cf.w)
    (hnd : pr.params.Nodup) (hlen : args.length = pr.params.length) :
    SInv (coreProg cf pr) (.you (youWord cf args pr)) (paramGam cf.w (2 * cf.w) pr.params) (argEnv (256 ^ cf.w) pr.params args) (initMem cf args pr)
      (F0 cf args) (cf.stackWords * cf.w + args.length * cf.w + cf.w) (entryOff cf.w pr.params)
      (progLen cf.checked pr + off_all_is_win) := by
  refine ⟨init_fr cf args pr hw (by omega), ?_, initMem_ra cf args pr hw hB, ?_⟩
  · have hs := slots_of_reads cf.w (initMem cf args pr) (F0 cf args) args 0
      (fun j hj => by rw [Nat.zero_add]; exact initMem_arg cf args pr hw j hj)
    rw [Nat.zero_add] at hs
    have := vars_slots cf.w (initMem cf args pr) (F0 cf args) pr.params (args.map (wrapI (256 ^ cf.w))) (2 * cf.w) hnd
      (by simpa using hlen) (Nat.le_refl _) hs
    have heo : 2 * cf.w + pr.params.length * cf.w - cf.w = entryOff cf.w pr.params := by
      unfold entryOff; rw [Nat.add_mul, Nat.one_mul]; omega
    rw [heo] at this
    exact this
  · intro a v e
    cases hv : needsVD pr with
    | false => simp [Md.word, youWord, hv] at e
    | true =>
      have hr : regsLen cf.w pr = 2 * cf.w := by simp [regsLen, hv]
      simp only [Md.word, youWord, hv, if_true, Option.some.injEq, Prod.mk.injEq] at e
      obtain ⟨rfl, rfl⟩ := e
      refine ⟨Nat.le_refl _, by rw [initMem_size, hr]; show F0 cf args + cf.w + cf.w ≤ _; omega, by show F0 cf args + cf.w + cf.w < 256 ^ cf.w; omega,
        initMem_defeat cf args pr hw hv hB, ?_⟩
      show progLen cf.checked pr + off_halt < 256 ^ cf.w
      simp [off_halt, off_all_is_win, stdlibLength] at *; omega

/-- bytes between the bottom of the stack and the frame pointer of the entry point -/
abbrev roomOf (cf : Config) (args : List Int) : Nat := cf.stackWords * cf.w + args.length * cf.w + cf.w

/-- the source semantics of a whole program: the entry point applied to the argument vector, with the
functions of the program as the call table -/
abbrev srcRun (cf : Config) (fuel : Nat) (args : List Int) (pr : CProg) : Option (Env × List Ev × Res) :=
  exec (256 ^ cf.w) (8 * cf.w) pr.funs cf.w fuel (roomOf cf args) (entryOff cf.w pr.params)
    (argEnv (256 ^ cf.w) pr.params args) pr.body

theorem core_correct (cf : Config) (args : List Int) (pr : CProg) (hw : 2 ≤ cf.w)
    (hB : progLen cf.checked pr + stdlibLength < 256 ^ cf.w) (hSE : F0 cf args + regsLen cf.w pr < 256 ^ cf.w)
    (hwf : wfProg pr = true) (hlen : args.length = pr.params.length)
    (fuel : Nat) (env' : Env) (tr : List Ev) (res : Res)
    (hex : srcRun cf fuel args pr = some (env', tr, res))
    (hck : res = .div0 ∨ res = .ovf → cf.checked = true)
    (hpkF : res = .ovf → ∀ fd ∈ pr.funs, pkS cf.w (entryOff cf.w fd.params) fd.body < 256 ^ cf.w)
    (hroom : pkS cf.w (entryOff cf.w pr.params) pr.body ≤ roomOf cf args) :
    ∃ mEnd, Exec (sphinx (coreProg cf pr)) (coreInit cf args pr) (tr ++ terminalEvs res)
        ⟨tntPc (progLen cf.checked pr), mEnd⟩ ∧
      ¬ Halts (sphinx (coreProg cf pr)) (coreInit cf args pr) := by
  have lib := core_placed cf pr hw hB
  have fok := core_fnsOK cf pr hwf
  have hfo : FaultOK cf.checked pr.funs cf.w res := by
    cases res with
    | div0 => exact hck (Or.inl rfl)
    | ovf => exact ⟨hck (Or.inr rfl), hpkF rfl⟩
    | norm => trivial
    | returned => trivial
    | defeat => trivial
    | retv v => trivial
    | brk => trivial
    | cnt => trivial
  change pkS cf.w (entryOff cf.w pr.params) pr.body ≤ cf.stackWords * cf.w + args.length * cf.w + cf.w at hroom
  change exec (256 ^ cf.w) (8 * cf.w) pr.funs cf.w fuel (cf.stackWords * cf.w + args.length * cf.w + cf.w)
    (entryOff cf.w pr.params) (argEnv (256 ^ cf.w) pr.params args) pr.body = some (env', tr, res) at hex
  obtain ⟨hnd, hwfb, hyl, hnf, hesc, _, _⟩ := wfProg_parts hwf
  have hSE0 : F0 cf args < 256 ^ cf.w := by omega
  have hinv0 := init_inv cf args pr hw hB hSE hnd hlen
  have hdAe : defeatAddr cf pr = F0 cf args + cf.w := by unfold defeatAddr F0; rw [hlen]
  have hregs : needsVD pr = true → defeatAddr cf pr = F0 cf args + (coreProg cf pr).w ∧
      F0 cf args + 2 * (coreProg cf pr).w ≤ (initMem cf args pr).size ∧ F0 cf args + 2 * (coreProg cf pr).w < 256 ^ (coreProg cf pr).w ∧
      Md.you (youWord cf args pr) = .you (some (defeatAddr cf pr, progLen cf.checked pr + off_halt)) := by
    intro hs
    have hr : regsLen cf.w pr = 2 * cf.w := by simp [regsLen, hs]
    refine ⟨hdAe, by rw [initMem_size, hr]; exact Nat.le_refl _, ?_, by simp [youWord, hs, hdAe]⟩
    show F0 cf args + 2 * cf.w < 256 ^ cf.w; omega
  have hsf : needsVD pr = false → ∀ fd ∈ pr.funs, fd.dfn = false := by
    intro hs fd hfd
    simp only [needsVD, Bool.or_eq_false_iff, List.any_eq_false] at hs
    simpa using hs.2 fd hfd
  have h64 := mul_w_lt_pow cf.w hw
  have hM := pow_ge2 cf.w hw
  have hF : F0 cf args = 5 * cf.w + cf.stackWords * cf.w + args.length * cf.w + cf.w := rfl
  have heo : entryOff cf.w pr.params = pr.params.length * cf.w + cf.w := by
    unfold entryOff; simp only [Nat.add_mul, Nat.one_mul]
  -- the entry function
  have hall : PlacedAt (coreProg cf pr) 0 (progCode cf pr) :=
    (placedAt_toArray_append cf.w (progCode cf pr) (stdlibCode cf.w (progLen cf.checked pr)) ⟨#[]⟩).1
  unfold progCode at hall
  have hcodeP : PlacedAt (coreProg cf pr) 0
      (funcCode (cxOf (coreProg cf pr) cf.checked (progLen cf.checked pr) (defeatAddr cf pr)) (progFA cf.checked pr) 0 false pr.params pr.body) :=
    hall.append.1
  have hcodeLen : (funcCode (cxOf (coreProg cf pr) cf.checked (progLen cf.checked pr) (defeatAddr cf pr)) (progFA cf.checked pr) 0 false pr.params pr.body).length
      = funcLen cf.checked false pr.body := funcCode_len _ _ _ _ _ _
  have hfl : funcLen cf.checked false pr.body ≤ progLen cf.checked pr := by unfold progLen; omega
  have hpro := (prologue_ok (ck := cf.checked) lib (progFA cf.checked pr) 0 false pr.params pr.body (initMem cf args pr)
    (F0 cf args) (cf.stackWords * cf.w + args.length * cf.w + cf.w) hinv0.fr hcodeP (by rw [hcodeLen]; omega)
    (by show pkS cf.w (entryOff cf.w pr.params) pr.body < 256 ^ cf.w; rw [hF] at hSE0; omega)).1
    (by show pkS cf.w (entryOff cf.w pr.params) pr.body ≤ F0 cf args - 5 * cf.w; rw [hF]; omega)
  have hbodyP : PlacedAt (coreProg cf pr) (0 + prologueLen cf.checked)
      (cS (cxOf (coreProg cf pr) cf.checked (progLen cf.checked pr) (defeatAddr cf pr)) (progFA cf.checked pr) ⟨0, 0, false⟩
        (paramGam cf.w (2 * cf.w) pr.params) (0 + prologueLen cf.checked) (entryOff cf.w pr.params) pr.body) := by
    have := hcodeP
    unfold funcCode at this
    have h2 := this.append.2
    cases hc : cf.checked <;> simp [hc, prologueLen] at h2 ⊢ <;> exact h2
  generalize hp : coreProg cf pr = p at *
  have hpw : p.w = cf.w := by rw [← hp]; rfl
  generalize hBdef : progLen cf.checked pr = B at *
  have hbodyLen : 0 + prologueLen cf.checked +
      (cS (cxOf p cf.checked B (defeatAddr cf pr)) (progFA cf.checked pr) ⟨0, 0, false⟩ (paramGam cf.w (2 * cf.w) pr.params) (0 + prologueLen cf.checked)
        (entryOff cf.w pr.params) pr.body).length = funcLen cf.checked false pr.body := by
    rw [cS_len]; show 0 + prologueLen cf.checked + lenS cf.checked false pr.body = prologueLen cf.checked + lenS cf.checked false pr.body; omega
  have hbody := cS_ok (ck := cf.checked) lib fok fuel (F0 cf args) (cf.stackWords * cf.w + args.length * cf.w + cf.w)
    (B + off_all_is_win) (by rw [hpw]; simp [off_all_is_win, stdlibLength] at *; omega) ⟨0, 0, false⟩ ⟨by show 0 < 256 ^ p.w; rw [hpw]; omega, by show 0 < 256 ^ p.w; rw [hpw]; omega⟩ (.you (youWord cf args pr)) (needsVD pr) false
    pr.body (paramGam cf.w (2 * cf.w) pr.params) (argEnv (256 ^ cf.w) pr.params args) (0 + prologueLen cf.checked)
    (entryOff cf.w pr.params)
  rw [hpw] at hbody
  have hnd' : res ≠ .defeat := exec_no_defeat _ _ _ _ _ _ _ _ _ _ _ _ _ hyl hex
  have hnn : res ≠ .norm := exec_noFall _ _ _ _ _ _ _ _ _ _ _ _ hnf hex
  have hne := exec_noEsc _ _ _ _ _ _ _ _ _ _ _ _ hesc hex
  -- where the entry function can end: win, or the division_by_zero stub
  have hsafe : ∀ st', Post p B (B + off_all_is_win) ⟨0, 0, false⟩ (.you (youWord cf args pr)) (paramGam cf.w (2 * cf.w) pr.params) env' (F0 cf args)
      (cf.stackWords * cf.w + args.length * cf.w + cf.w) (entryOff cf.w pr.params)
      (0 + prologueLen cf.checked + (cS (cxOf p cf.checked B (defeatAddr cf pr)) (progFA cf.checked pr) ⟨0, 0, false⟩ (paramGam cf.w (2 * cf.w) pr.params)
        (0 + prologueLen cf.checked) (entryOff cf.w pr.params) pr.body).length) (initMem cf args pr) res st' →
      ¬ Halts (sphinx p) st' ∧ ∃ mEnd, Reach (sphinx p) st' (terminalEvs res) ⟨tntPc B, mEnd⟩ := by
    intro st' hp'
    obtain ⟨pc', m'⟩ := st'
    have tn := terminal_never_halts lib m'
    cases res with
    | norm => exact absurd rfl hnn
    | returned => simp only [Post] at hp'; obtain ⟨rfl, _⟩ := hp'; exact ⟨tn.1, m', all_is_win_reach lib m'⟩
    | retv v => simp only [Post] at hp'; obtain ⟨rfl, _⟩ := hp'; exact ⟨tn.1, m', all_is_win_reach lib m'⟩
    | div0 => simp only [Post] at hp'; subst hp'; exact ⟨tn.2.2.2.1, m', (error_stub_reach lib m').2.1⟩
    | ovf => simp only [Post] at hp'; subst hp'; exact ⟨tn.2.2.1, m', (error_stub_reach lib m').1⟩
    | defeat => exact absurd rfl hnd'
    | brk => exact absurd rfl hne.1
    | cnt => exact absurd rfl hne.2
  obtain ⟨st', r, hpost⟩ := (hbody (initMem cf args pr) env' tr res hbodyP (by omega) hinv0
    (disj_paramGam cf.w pr.params (2 * cf.w) hnd)
    (by rw [map_fst_paramGam]; exact hwfb) hroom (by rw [heo]; omega) hex hfo
    (Or.inr ⟨⟨rfl, rfl, hsf⟩, rfl, hyl, hregs, fun st' h => (hsafe st' h).1⟩)).2 (nd hnd')
  obtain ⟨mEnd, rend⟩ := (hsafe st' hpost).2
  have rall := (hpro.trans r).trans rend
  have nh := tnt_never_halts lib mEnd
  refine ⟨mEnd, ?_, ?_⟩
  · have := (rall.exec nh).1; simpa [coreInit] using this
  · have := (rall.exec nh).2; simpa [coreInit] using this

/-- checked build, stack smaller than the frame peak of the entry point: `stack_overflow` before anything
else happens -/
theorem core_overflow (cf : Config) (args : List Int) (pr : CProg) (hw : 2 ≤ cf.w)
    (hck : cf.checked = true)
    (hB : progLen cf.checked pr + stdlibLength < 256 ^ cf.w) (hSE : F0 cf args < 256 ^ cf.w)
    (hnd : pr.params.Nodup) (hlen : args.length = pr.params.length)
    (hsmall : roomOf cf args < pkS cf.w (entryOff cf.w pr.params) pr.body)
    (hpkM : pkS cf.w (entryOff cf.w pr.params) pr.body < 256 ^ cf.w) :
    ∃ mEnd, Exec (sphinx (coreProg cf pr)) (coreInit cf args pr) [Ev.flag "stack_overflow", Ev.flag "error"]
        ⟨tntPc (progLen cf.checked pr), mEnd⟩ ∧
      ¬ Halts (sphinx (coreProg cf pr)) (coreInit cf args pr) := by
  have lib := core_placed cf pr hw hB
  change cf.stackWords * cf.w + args.length * cf.w + cf.w < pkS cf.w (entryOff cf.w pr.params) pr.body at hsmall
  have hfr0 := init_fr cf args pr hw hSE
  have hF : F0 cf args = 5 * cf.w + cf.stackWords * cf.w + args.length * cf.w + cf.w := rfl
  have hall : PlacedAt (coreProg cf pr) 0 (progCode cf pr) :=
    (placedAt_toArray_append cf.w (progCode cf pr) (stdlibCode cf.w (progLen cf.checked pr)) ⟨#[]⟩).1
  unfold progCode at hall
  have hcodeP : PlacedAt (coreProg cf pr) 0
      (funcCode (cxOf (coreProg cf pr) cf.checked (progLen cf.checked pr) (defeatAddr cf pr)) (progFA cf.checked pr) 0 false pr.params pr.body) :=
    hall.append.1
  have hfl : funcLen cf.checked false pr.body ≤ progLen cf.checked pr := by unfold progLen; omega
  obtain ⟨m1, r1⟩ := (prologue_ok (ck := cf.checked) lib (progFA cf.checked pr) 0 false pr.params pr.body (initMem cf args pr)
    (F0 cf args) (cf.stackWords * cf.w + args.length * cf.w + cf.w) hfr0 hcodeP (by rw [funcCode_len]; show 0 + funcLen cf.checked false pr.body ≤ progLen cf.checked pr; omega)
    hpkM).2 hck (by show F0 cf args - 5 * cf.w < pkS cf.w (entryOff cf.w pr.params) pr.body; rw [hF]; omega)
  have r := r1.trans (error_stub_reach lib m1).1
  have nh := tnt_never_halts lib m1
  refine ⟨m1, ?_, ?_⟩
  · have := (r.exec nh).1; simpa [coreInit] using this
  · have := (r.exec nh).2; simpa [coreInit] using this

/-- a conclusive source run that is not a stack overflow stays the same at every larger stack size -/
theorem srcRun_stack_mono (w S S' : Nat) (ck : Bool) (hS : S ≤ S') (fuel : Nat) (args : List Int) (pr : CProg)
    (env' : Env) (tr : List Ev) (res : Res) (h : srcRun ⟨w, S, ck⟩ fuel args pr = some (env', tr, res)) (hno : res ≠ .ovf) :
    srcRun ⟨w, S', ck⟩ fuel args pr = some (env', tr, res) :=
  exec_room_mono _ _ _ _ _ _ _ _ _ _ _ _ _ (by
    show S * w + args.length * w + w ≤ S' * w + args.length * w + w
    have := Nat.mul_le_mul_right w hS; omega) h hno

/-- however a statement list without `try` is left — falling through, `return`, `return e` — after any
number of loop iterations and calls inside it, the frame pointer, `ap` and all memory at and above the
frame pointer are what they were when it was entered -/
theorem core_frame_restored {p : Prog} {ck : Bool} {B dA : Nat} {fa : FAddr} {fns : List FDecl}
    (lib : Placed p B) (fok : FnsOK p ck B dA fa fns) (fuel F D ra : Nat) (hra : ra < 256 ^ p.w)
    (lp : Jt) (hlp : lp.cont < 256 ^ p.w ∧ lp.brk < 256 ^ p.w) (hvd : lp.vd = false) (s : S) (Γ : Gam) (env : Env) (pc o : Nat) (m : Mem) (env' : Env) (tr : List Ev) (res : Res)
    (hpl : PlacedAt p pc (cS (cxOf p ck B dA) fa lp Γ pc o s))
    (hB : pc + (cS (cxOf p ck B dA) fa lp Γ pc o s).length ≤ B)
    (hinv : SInv p .plain Γ env m F D o ra) (hd : Disj p.w Γ) (hwf : wfS fns false (Γ.map Prod.fst) s = true)
    (hpk : pkS p.w o s ≤ D) (ho : p.w ≤ o) (hnt : noTry s = true)
    (hex : exec (256 ^ p.w) (8 * p.w) fns p.w fuel D o env s = some (env', tr, res))
    (hres : res = .norm ∨ res = .returned ∨ ∃ v, res = .retv v) :
    ∃ st', Reach (sphinx p) ⟨pc, m⟩ tr st' ∧ Keep p.w m st'.mem F ∧ st'.mem.readLE p.w p.w = F ∧
      (res = .norm → st'.pc = pc + (cS (cxOf p ck B dA) fa lp Γ pc o s).length) ∧ (res ≠ .norm → st'.pc = ra) := by
  have hc := cS_ok lib fok fuel F D ra hra lp hlp .plain false false s Γ env pc o m env' tr res hpl hB hinv hd hwf hpk ho hex
    (by rcases hres with h | h | ⟨v, h⟩ <;> subst h <;> trivial) (Or.inl ⟨rfl, ⟨(by intro h; rw [hvd] at h; cases h), (by intro h; cases h)⟩, hnt, Or.inl HaltW.plain⟩)
  obtain ⟨st', r, hp⟩ := hc.2 (nd (by rcases hres with h | h | ⟨v, h⟩ <;> subst h <;> simp))
  have hfp := hinv.fr.fp
  rcases hres with h | h | ⟨v, h⟩ <;> subst h <;> simp only [Post] at hp
  · exact ⟨st', r, hp.2.2, (by rw [hp.2.2.fp]; exact hfp), fun _ => hp.1, fun h => absurd rfl h⟩
  · exact ⟨st', r, hp.2, (by rw [hp.2.fp]; exact hfp), fun h => (by cases h), fun _ => hp.1⟩
  · exact ⟨st', r, hp.2.1, (by rw [hp.2.1.fp]; exact hfp), fun h => (by cases h), fun _ => hp.1⟩

end HidVerif.Core
