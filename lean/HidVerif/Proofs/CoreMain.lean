import HidVerif.Proofs.CoreExec
/-!
# Core compiler proofs: whole programs

`core_correct`: for every core program, word size, stack size and build mode, the program
`coreProg` (which the `core` correspondence suite shows to be exactly what `hidc` emits) started
in its initial state performs exactly the output of the source semantics followed by the
terminal flag(s), ends in the `tnt` loop, and never halts — provided the stack is large enough
for the frame peak; in checked builds a stack that is too small leads to `stack_overflow`
before any output.
-/
namespace HidVerif.Core
open HidVerif HidVerif.PSys HidVerif.Sphinx HidVerif.Gen

theorem placedAt_toArray_append (w : Nat) (l1 l2 : List Instr) (cn : Mem) :
    PlacedAt ⟨w, (l1 ++ l2).toArray, cn⟩ 0 l1 ∧ PlacedAt ⟨w, (l1 ++ l2).toArray, cn⟩ l1.length l2 := by
  constructor
  · intro i hi
    simp [List.getElem?_append_left hi]
  · intro i hi
    simp [List.getElem?_append_right]

theorem funcCode_len (cf : Config) (body : S) : (funcCode cf body).length = funcLen cf.checked body := by
  unfold funcCode funcLen prologueLen
  cases hc : cf.checked <;> simp [hc, cS_len, mkCx] <;> omega

theorem stdlibCode_len (w B : Nat) : (stdlibCode w B).length = stdlibLength := by
  simp [stdlibCode, stdlibLength, code_all_is_win, code_all_is_broken, code_stack_overflow, code_division_by_zero,
    code_out_of_bounds, code_nonlocal_preempt, code_write_const_byte_array, code_write_string,
    code_write_state_byte_array, code_write_bool, code_write_int]

/-- the runtime library sits right behind the function -/
theorem core_placed (cf : Config) (body : S) (hw : 2 ≤ cf.w)
    (hB : funcLen cf.checked body + stdlibLength < 256 ^ cf.w) :
    Placed (coreProg cf body) (funcLen cf.checked body) := by
  refine ⟨hw, ?_, hB⟩
  have := (placedAt_toArray_append cf.w (funcCode cf body) (stdlibCode cf.w (funcLen cf.checked body)) ⟨#[]⟩).2
  rw [funcCode_len] at this
  exact this

/-! ## the initial state -/
section init
variable (cf : Config) (body : S)

theorem zsize (n : Nat) : (⟨Array.replicate n 0⟩ : Mem).size = n := by simp [Mem.size]

theorem initMem_size : (initMem cf body).size = 5 * cf.w + cf.stackWords * cf.w + cf.w := by
  unfold initMem
  simp only [Mem.size_writeLE, zsize]

theorem initMem_fp (hw : 2 ≤ cf.w) (hSE : 5 * cf.w + cf.stackWords * cf.w + cf.w < 256 ^ cf.w) :
    (initMem cf body).readLE cf.w cf.w = 5 * cf.w + cf.stackWords * cf.w + cf.w := by
  unfold initMem
  simp only
  rw [Mem.readLE_writeLE_disj _ _ _ _ _ _ (by omega),
    Mem.readLE_writeLE_same _ _ _ _ (by simp only [Mem.size_writeLE, zsize]; omega)]
  exact Nat.mod_eq_of_lt hSE

theorem initMem_ap (hw : 2 ≤ cf.w) : (initMem cf body).readLE 0 cf.w = 5 * cf.w := by
  unfold initMem
  simp only
  rw [Mem.readLE_writeLE_disj _ _ _ _ _ _ (by omega), Mem.readLE_writeLE_disj _ _ _ _ _ _ (by omega),
    Mem.readLE_writeLE_same _ _ _ _ (by simp only [zsize]; omega)]
  exact Nat.mod_eq_of_lt (by have := mul_w_lt_pow cf.w hw; omega)

theorem initMem_ra (hw : 2 ≤ cf.w) (hB : funcLen cf.checked body + stdlibLength < 256 ^ cf.w) :
    (initMem cf body).readLE (5 * cf.w + cf.stackWords * cf.w + cf.w - cf.w) cf.w
      = funcLen cf.checked body + off_all_is_win := by
  unfold initMem
  simp only
  rw [Mem.readLE_writeLE_same _ _ _ _ (by simp only [Mem.size_writeLE, zsize]; omega)]
  exact Nat.mod_eq_of_lt (by simp [off_all_is_win, stdlibLength] at *; omega)
end init

/-- the flags a run ends with -/
def terminalEvs : Res → List Ev
  | .div0 => [Ev.flag "division_by_zero", Ev.flag "error"]
  | _ => [Ev.flag "win"]

theorem core_correct (cf : Config) (body : S) (hw : 2 ≤ cf.w)
    (hB : funcLen cf.checked body + stdlibLength < 256 ^ cf.w)
    (hSE : 5 * cf.w + cf.stackWords * cf.w + cf.w < 256 ^ cf.w)
    (hwf : wfS [] body = true) (hyl : youLevel body = true)
    (fuel : Nat) (env' : Env) (tr : List Ev) (res : Res)
    (hex : exec (256 ^ cf.w) (8 * cf.w) fuel (fun _ => 0) body = some (env', tr, res))
    (hck : res = .div0 → cf.checked = true)
    (hroom : pkS cf.w cf.w body ≤ (cf.stackWords + 1) * cf.w) :
    ∃ mEnd, Exec (sphinx (coreProg cf body)) (coreInit cf body) (tr ++ terminalEvs res)
        ⟨tntPc (funcLen cf.checked body), mEnd⟩ ∧
      ¬ Halts (sphinx (coreProg cf body)) (coreInit cf body) := by
  have lib := core_placed cf body hw hB
  have h64 := mul_w_lt_pow cf.w hw
  have hM := pow_ge2 cf.w hw
  generalize hp : coreProg cf body = p at *
  have hpw : p.w = cf.w := by rw [← hp]; rfl
  generalize hBdef : funcLen cf.checked body = B at *
  -- frame facts of the initial memory
  have hSEe : 5 * cf.w + cf.stackWords * cf.w + cf.w = 5 * cf.w + (cf.stackWords + 1) * cf.w := by
    rw [Nat.add_mul]; omega
  have fr0 : Fr p (initMem cf body) (5 * cf.w + cf.stackWords * cf.w + cf.w) ((cf.stackWords + 1) * cf.w) :=
    ⟨by rw [hpw]; exact initMem_fp cf body hw hSE, by rw [initMem_size]; exact Nat.le_refl _,
     by rw [hpw]; exact hSE, by rw [hpw]; omega⟩
  have hra0 : (initMem cf body).readLE (5 * cf.w + cf.stackWords * cf.w + cf.w - p.w) p.w = B + off_all_is_win := by
    rw [hpw, ← hBdef]; exact initMem_ra cf body hw (by rw [hBdef]; exact hB)
  have hinv0 : SInv p [] (fun _ => 0) (initMem cf body) (5 * cf.w + cf.stackWords * cf.w + cf.w)
      ((cf.stackWords + 1) * cf.w) cf.w (B + off_all_is_win) :=
    ⟨fr0, fun x hx => by simp at hx, hra0⟩
  -- the function body
  have hcodeP : PlacedAt p 0 (funcCode cf body) := by
    rw [← hp]; exact (placedAt_toArray_append cf.w (funcCode cf body) (stdlibCode cf.w (funcLen cf.checked body)) ⟨#[]⟩).1
  have hcx : mkCx cf body = cxOf p cf.checked B := by rw [← hp, ← hBdef]; rfl
  have hbodyP : PlacedAt p (prologueLen cf.checked) (cS (cxOf p cf.checked B) [] (prologueLen cf.checked) cf.w body) := by
    have := hcodeP
    unfold funcCode at this
    rw [hcx] at this
    have h2 := this.append.2
    cases hc : cf.checked <;> simp [hc, prologueLen] at h2 ⊢ <;> exact h2
  have hbodyLen : prologueLen cf.checked + (cS (cxOf p cf.checked B) [] (prologueLen cf.checked) cf.w body).length = B := by
    rw [cS_len, ← hBdef]; rfl
  have hbody := cS_ok (ck := cf.checked) lib (5 * cf.w + cf.stackWords * cf.w + cf.w) ((cf.stackWords + 1) * cf.w)
    (B + off_all_is_win) (by rw [hpw]; simp [off_all_is_win, stdlibLength] at *; omega)
    fuel body [] (fun _ => 0) (prologueLen cf.checked) cf.w
  rw [hpw] at hbody
  -- after the body: win or the division_by_zero stub
  have hfin : ∀ (m1 : Mem), Reach (sphinx p) ⟨prologueLen cf.checked, m1⟩ tr ⟨prologueLen cf.checked, m1⟩ → True := fun _ _ => trivial
  have hend : ∀ (m0 : Mem), SInv p [] (fun _ => 0) m0 (5 * cf.w + cf.stackWords * cf.w + cf.w)
        ((cf.stackWords + 1) * cf.w) cf.w (B + off_all_is_win) →
      ∃ mEnd, Reach (sphinx p) ⟨prologueLen cf.checked, m0⟩ (tr ++ terminalEvs res) ⟨tntPc B, mEnd⟩ := by
    intro m0 hi0
    have hnd : res ≠ .defeat := exec_no_defeat _ _ _ _ _ _ _ _ hyl hex
    have hsafe : ∀ st', Post p B (B + off_all_is_win) [] env' (5 * cf.w + cf.stackWords * cf.w + cf.w)
        ((cf.stackWords + 1) * cf.w) cf.w
        (prologueLen cf.checked + (cS (cxOf p cf.checked B) [] (prologueLen cf.checked) cf.w body).length) res st' →
        ¬ Halts (sphinx p) st' := by
      intro st' hp'
      obtain ⟨pc', m'⟩ := st'
      have tn := terminal_never_halts lib m'
      cases res with
      | norm =>
        simp only [Post] at hp'
        have hpc : pc' = B + off_all_is_win := by rw [hp'.1, hbodyLen]; simp [off_all_is_win]
        subst hpc; exact tn.1
      | returned => simp only [Post] at hp'; subst hp'; exact tn.1
      | div0 => simp only [Post] at hp'; subst hp'; exact tn.2.2.2.1
      | defeat => exact absurd rfl hnd
    obtain ⟨st', r, hpost⟩ := (hbody m0 env' tr res hbodyP (by omega) hi0 (fun _ _ h => by simp at h) hwf hroom
      (Nat.le_refl _) hex hck (Or.inr ⟨hyl, hsafe⟩)).2 hnd
    obtain ⟨pc', m'⟩ := st'
    cases res with
    | norm =>
      simp only [Post] at hpost
      have hpc : pc' = B + off_all_is_win := by rw [hpost.1, hbodyLen]; simp [off_all_is_win]
      subst hpc
      exact ⟨m', r.trans (all_is_win_reach lib m')⟩
    | returned =>
      simp only [Post] at hpost
      subst hpost
      exact ⟨m', r.trans (all_is_win_reach lib m')⟩
    | div0 =>
      simp only [Post] at hpost
      subst hpost
      exact ⟨m', r.trans (error_stub_reach lib m').2.1⟩
    | defeat => exact absurd rfl hnd
  -- the prologue
  have hreach : ∃ mEnd, Reach (sphinx p) (coreInit cf body) (tr ++ terminalEvs res) ⟨tntPc B, mEnd⟩ := by
    cases hc : cf.checked with
    | false =>
      rw [hc] at hend
      simpa [coreInit, prologueLen] using hend (initMem cf body) hinv0
    | true =>
      rw [hc] at hend
      have hpro := hcodeP
      unfold funcCode at hpro
      rw [hcx, hc] at hpro
      simp only [if_true] at hpro
      have hpro1 := hpro.append.1
      have c0 := hpro1 0 (by simp); have c1 := hpro1 1 (by simp); have c2 := hpro1 2 (by simp)
      simp only [List.getElem_cons_succ, List.getElem_cons_zero, Nat.add_zero, Nat.zero_add] at c0 c1 c2
      have s0 := step_j (m := initMem cf body) c0 (ev_imm 5)
      rw [show 5 % p.M = 5 from Nat.mod_eq_of_lt (by unfold Prog.M; rw [hpw]; omega)] at s0
      have hfp : evalArg p ⟨0 + 1, initMem cf body⟩ (.st (cxOf p true B).fp) = some (5 * cf.w + cf.stackWords * cf.w + cf.w) := by
        show evalArg p _ (.st p.w) = _
        rw [ev_st (by unfold Prog.M; rw [hpw]; omega) (by rw [hpw, initMem_size]; omega), fr0.fp]
      have hap : evalArg p ⟨0 + 1, initMem cf body⟩ (.st 0) = some (5 * cf.w) := by
        rw [ev_st (by unfold Prog.M; rw [hpw]; omega) (by rw [hpw, initMem_size]; omega), hpw, initMem_ap cf body hw]
      have s1 := step_alu (m := initMem cf body) c1 hfp hap alu_sub
        (by show 3 * p.w < p.M; unfold Prog.M; rw [hpw]; omega) (by show 3 * p.w + p.w ≤ _; rw [hpw, initMem_size]; omega)
      rw [show (5 * cf.w + cf.stackWords * cf.w + cf.w + p.M - 5 * cf.w % p.M) % p.M = (cf.stackWords + 1) * cf.w from by
        unfold Prog.M; rw [hpw, sub_mod_small (by omega) hSE]; rw [Nat.add_mul]; omega] at s1
      generalize hm1 : (initMem cf body).writeLE (cxOf p true B).r1 p.w ((cf.stackWords + 1) * cf.w) = m1 at *
      have hr1 : evalArg p ⟨0 + 1 + 1, m1⟩ (.st (cxOf p true B).r1) = some ((cf.stackWords + 1) * cf.w) := by
        show evalArg p _ (.st (3 * p.w)) = _
        rw [ev_st (by unfold Prog.M; rw [hpw]; omega) (by rw [← hm1]; simp; rw [hpw, initMem_size]; omega), ← hm1]
        show some (((initMem cf body).writeLE (3 * p.w) p.w _).readLE (3 * p.w) p.w) = _
        rw [Mem.readLE_writeLE_same _ _ _ _ (by rw [hpw, initMem_size]; omega)]
        rw [Nat.mod_eq_of_lt (by rw [hpw]; omega)]
      have s2 := step_hcond (m := m1) c2 hr1 (ev_imm _)
      have hmax : pkS cf.w cf.w body % (cxOf p true B).M % p.M = pkS cf.w cf.w body := by
        show pkS cf.w cf.w body % 256 ^ p.w % p.M = _
        unfold Prog.M; rw [Nat.mod_mod, hpw]; exact Nat.mod_eq_of_lt (by omega)
      rw [hmax] at s2
      simp only [haltCond, ge_iff_le, hroom, decide_true, if_true] at s2
      have hh : Halts (sphinx p) ⟨0 + 1, initMem cf body⟩ :=
        Halts.next (sys := sphinx p) s1 (Halts.halt (sys := sphinx p) s2)
      have j := Reach.jump_taken' (sys := sphinx p) s0 hh
      have k0 : Keep p.w (initMem cf body) (initMem cf body) 0 := Keep.refl _ _ _
      obtain ⟨mEnd, r⟩ := hend (initMem cf body) hinv0
      exact ⟨mEnd, by simpa [coreInit, prologueLen] using j.trans r⟩
  obtain ⟨mEnd, r⟩ := hreach
  have nh := tnt_never_halts lib mEnd
  exact ⟨mEnd, (r.exec nh).1, (r.exec nh).2⟩

/-- checked build, stack smaller than the frame peak: `stack_overflow` before anything else happens -/
theorem core_overflow (cf : Config) (body : S) (hw : 2 ≤ cf.w) (hck : cf.checked = true)
    (hB : funcLen cf.checked body + stdlibLength < 256 ^ cf.w)
    (hSE : 5 * cf.w + cf.stackWords * cf.w + cf.w < 256 ^ cf.w)
    (hsmall : (cf.stackWords + 1) * cf.w < pkS cf.w cf.w body) (hpkM : pkS cf.w cf.w body < 256 ^ cf.w) :
    ∃ mEnd, Exec (sphinx (coreProg cf body)) (coreInit cf body) [Ev.flag "stack_overflow", Ev.flag "error"]
        ⟨tntPc (funcLen cf.checked body), mEnd⟩ ∧
      ¬ Halts (sphinx (coreProg cf body)) (coreInit cf body) := by
  have lib := core_placed cf body hw hB
  have h64 := mul_w_lt_pow cf.w hw
  have hM := pow_ge2 cf.w hw
  generalize hp : coreProg cf body = p at *
  have hpw : p.w = cf.w := by rw [← hp]; rfl
  generalize hBdef : funcLen cf.checked body = B at *
  have hcodeP : PlacedAt p 0 (funcCode cf body) := by
    rw [← hp]; exact (placedAt_toArray_append cf.w (funcCode cf body) (stdlibCode cf.w (funcLen cf.checked body)) ⟨#[]⟩).1
  have hcx : mkCx cf body = cxOf p cf.checked B := by rw [← hp, ← hBdef]; rfl
  have hpro := hcodeP
  unfold funcCode at hpro
  rw [hcx, hck] at hpro
  simp only [if_true] at hpro
  have hpro1 := hpro.append.1
  have c0 := hpro1 0 (by simp); have c1 := hpro1 1 (by simp); have c2 := hpro1 2 (by simp)
  have c3 := hpro1 3 (by simp); have c4 := hpro1 4 (by simp)
  simp only [List.getElem_cons_succ, List.getElem_cons_zero, Nat.add_zero, Nat.zero_add] at c0 c1 c2 c3 c4
  have hfpv : (initMem cf body).readLE p.w p.w = 5 * cf.w + cf.stackWords * cf.w + cf.w := by
    rw [hpw]; exact initMem_fp cf body hw hSE
  have s0 := step_j (m := initMem cf body) c0 (ev_imm 5)
  rw [show 5 % p.M = 5 from Nat.mod_eq_of_lt (by unfold Prog.M; rw [hpw]; omega)] at s0
  have hfp : evalArg p ⟨0 + 1, initMem cf body⟩ (.st (cxOf p true B).fp) = some (5 * cf.w + cf.stackWords * cf.w + cf.w) := by
    show evalArg p _ (.st p.w) = _
    rw [ev_st (by unfold Prog.M; rw [hpw]; omega) (by rw [hpw, initMem_size]; omega), hfpv]
  have hap : evalArg p ⟨0 + 1, initMem cf body⟩ (.st 0) = some (5 * cf.w) := by
    rw [ev_st (by unfold Prog.M; rw [hpw]; omega) (by rw [hpw, initMem_size]; omega), hpw, initMem_ap cf body hw]
  have s1 := step_alu (m := initMem cf body) c1 hfp hap alu_sub
    (by show 3 * p.w < p.M; unfold Prog.M; rw [hpw]; omega) (by show 3 * p.w + p.w ≤ _; rw [hpw, initMem_size]; omega)
  rw [show (5 * cf.w + cf.stackWords * cf.w + cf.w + p.M - 5 * cf.w % p.M) % p.M = (cf.stackWords + 1) * cf.w from by
    unfold Prog.M; rw [hpw, sub_mod_small (by omega) hSE]; rw [Nat.add_mul]; omega] at s1
  generalize hm1 : (initMem cf body).writeLE (cxOf p true B).r1 p.w ((cf.stackWords + 1) * cf.w) = m1 at *
  have hr1 : evalArg p ⟨0 + 1 + 1, m1⟩ (.st (cxOf p true B).r1) = some ((cf.stackWords + 1) * cf.w) := by
    show evalArg p _ (.st (3 * p.w)) = _
    rw [ev_st (by unfold Prog.M; rw [hpw]; omega) (by rw [← hm1]; simp; rw [hpw, initMem_size]; omega), ← hm1]
    show some (((initMem cf body).writeLE (3 * p.w) p.w _).readLE (3 * p.w) p.w) = _
    rw [Mem.readLE_writeLE_same _ _ _ _ (by rw [hpw, initMem_size]; omega)]
    rw [Nat.mod_eq_of_lt (by rw [hpw]; have : (cf.stackWords + 1) * cf.w = cf.stackWords * cf.w + cf.w := by rw [Nat.add_mul]; omega
                             omega)]
  have s2 := step_hcond (m := m1) c2 hr1 (ev_imm _)
  have hmax : pkS cf.w cf.w body % (cxOf p true B).M % p.M = pkS cf.w cf.w body := by
    show pkS cf.w cf.w body % 256 ^ p.w % p.M = _
    unfold Prog.M; rw [Nat.mod_mod, hpw]; exact Nat.mod_eq_of_lt hpkM
  rw [hmax] at s2
  have hnot : ¬ (pkS cf.w cf.w body ≤ (cf.stackWords + 1) * cf.w) := by omega
  simp only [haltCond, ge_iff_le, hnot, decide_false, Bool.false_eq_true, if_false] at s2
  have s3 := step_j (m := m1) c3 (ev_imm (B + off_stack_overflow))
  rw [show (B + off_stack_overflow) % p.M = B + off_stack_overflow from
    Nat.mod_eq_of_lt (by unfold Prog.M; rw [hpw]; simp [off_stack_overflow, stdlibLength] at *; omega)] at s3
  have s4 := step_halt (m := m1) c4
  have j3 := Reach.jump_taken (sys := sphinx p) s3 s4
  have rso := (error_stub_reach lib m1).1
  have r1 : Reach (sphinx p) ⟨0 + 1, initMem cf body⟩ [Ev.flag "stack_overflow", Ev.flag "error"] ⟨tntPc B, m1⟩ := by
    have := (Reach.of_next (sys := sphinx p) s1).trans ((Reach.of_next (sys := sphinx p) s2).trans (j3.trans rso))
    simpa [evl] using this
  have nh := tnt_never_halts lib m1
  have nh1 : ¬ Halts (sphinx p) ⟨0 + 1, initMem cf body⟩ := (r1.exec nh).2
  have r0 := Reach.jump_not_taken (sys := sphinx p) s0 (fun hh => absurd hh nh1)
  have r := r0.trans r1
  refine ⟨m1, ?_, ?_⟩
  · have := (r.exec nh).1; simpa [coreInit] using this
  · have := (r.exec nh).2; simpa [coreInit] using this

end HidVerif.Core
