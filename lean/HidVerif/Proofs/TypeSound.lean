import HidVerif.Hid.TypeRules
/-!
# Type soundness of the typechecker model: accepted programs have well-typed trees
-/
namespace HidVerif.Hid.TC
open HidVerif.Hid HidVerif.Hid.Lex HidVerif.Hid.Parse HidVerif.Gen

theorem bind_ok {α β : Type} {x : R α} {f : α → R β} {b : β} (h : (x >>= f) = .ok b) :
    ∃ a, x = .ok a ∧ f a = .ok b := by
  cases x with
  | error e => simp [bind, Except.bind] at h
  | ok a => exact ⟨a, rfl, h⟩

theorem pure_ok {α : Type} {a b : α} (h : (pure a : R α) = .ok b) : a = b := by
  simpa [pure, Except.pure] using h

theorem throw_ok {α : Type} {e : TErr} {b : α} (h : (MonadExcept.throw e : R α) = .ok b) : False := by
  simp [MonadExcept.throw, throwThe, MonadExceptOf.throw] at h

theorem genericCast_ok {fs : List FuncSig} {e : TE} {t new : Ty} {e' : TE} (hw : wtE fs e = true) (ht : typeOf e = t)
    (h : genericCast e t new = .ok e') : wtE fs e' = true ∧ typeOf e' = new := by
  unfold genericCast at h
  split at h
  · rename_i heq
    have := pure_ok h; subst this
    exact ⟨hw, by rw [ht]; simpa using heq⟩
  · split at h <;>
      first
      | (exact (throw_ok h).elim)
      | (have := pure_ok h; subst this; simp_all [wtE, typeOf, castSrcOK, castTarget, isArr])
      | (split at h
         · have := pure_ok h; subst this; simp_all [wtE, typeOf, castSrcOK, castTarget, isArr]
         · exact (throw_ok h).elim)

theorem scalar_ne_empty {t : Ty} (h : scalarTy t = true) : (t == Ty.empty) = false := by
  cases t <;> simp_all [scalarTy]

mutual
theorem cast_ok (fs : List FuncSig) : ∀ (e : TE) (new : Ty) (impl : Bool) (e' : TE), wtE fs e = true → tgtOK new = true →
    cast e new impl = .ok e' → wtE fs e' = true ∧ typeOf e' = new
  | .intv v b sh, new, impl, e', hw, hn, h => by
    unfold cast at h
    split at h
    · have := pure_ok h; subst this; simp [wtE, typeOf]
    · have := pure_ok h; subst this; simp [wtE, typeOf]
    · have := pure_ok h; subst this; simp [wtE, typeOf]
    · exact genericCast_ok hw rfl h
  | .boolv b, new, impl, e', hw, hn, h => by
    unfold cast at h
    split at h
    · have := pure_ok h; subst this; simp [wtE, typeOf]
    · have := pure_ok h; subst this; simp [wtE, typeOf]
    · exact genericCast_ok hw (by simp [typeOf]) h
  | .strv bs, new, impl, e', hw, hn, h => by
    unfold cast at h
    split at h
    · have := pure_ok h; subst this; simp [wtE, typeOf]
    · exact genericCast_ok hw (by simp [typeOf]) h
  | .arrlit vals ty lk, new, impl, e', hw, hn, h => by
    unfold cast at h
    split at h
    · rename_i nel c
      obtain ⟨vs, hvs, h⟩ := bind_ok h
      have := pure_ok h; subst this
      have hwv : wtEs fs vals = true := by
        simp only [wtE, Bool.and_eq_true] at hw; exact hw.1
      have hsc : scalarTy nel = true := by simpa [tgtOK] using hn
      obtain ⟨h1, h2⟩ := castAll_ok fs vals nel vs hwv hsc hvs
      simp [wtE, typeOf, h1, h2, hsc, scalar_ne_empty hsc]
    · exact genericCast_ok hw (by simp [typeOf]) h
  | .cast k inner, new, impl, e', hw, hn, h => by
    cases k with
    | vol =>
      unfold cast at h
      have hwi : wtE fs inner = true := by
        simp only [wtE, Bool.and_eq_true] at hw; exact hw.1
      exact cast_ok fs inner new false e' hwi hn h
    | b2i => unfold cast at h; exact genericCast_ok hw rfl h
    | i2b => unfold cast at h; exact genericCast_ok hw rfl h
    | i2bool => unfold cast at h; exact genericCast_ok hw rfl h
    | bool2b => unfold cast at h; exact genericCast_ok hw rfl h
    | s2a => unfold cast at h; exact genericCast_ok hw rfl h
  | .var n t c, new, impl, e', hw, hn, h => by unfold cast at h; exact genericCast_ok hw rfl h
  | .index a i, new, impl, e', hw, hn, h => by unfold cast at h; exact genericCast_ok hw rfl h
  | .len a, new, impl, e', hw, hn, h => by unfold cast at h; exact genericCast_ok hw rfl h
  | .call n fl args ptys r, new, impl, e', hw, hn, h => by unfold cast at h; exact genericCast_ok hw rfl h
  | .arrinit el l, new, impl, e', hw, hn, h => by unfold cast at h; exact genericCast_ok hw rfl h
  | .arith op l r sh, new, impl, e', hw, hn, h => by unfold cast at h; exact genericCast_ok hw rfl h
  | .unarith op a sh, new, impl, e', hw, hn, h => by unfold cast at h; exact genericCast_ok hw rfl h
  | .boolop op l r, new, impl, e', hw, hn, h => by unfold cast at h; exact genericCast_ok hw rfl h
  | .notop a, new, impl, e', hw, hn, h => by unfold cast at h; exact genericCast_ok hw rfl h
  | .spec l r, new, impl, e', hw, hn, h => by unfold cast at h; exact genericCast_ok hw rfl h
  | .param t, new, impl, e', hw, hn, h => by unfold cast at h; exact genericCast_ok hw rfl h

theorem castAll_ok (fs : List FuncSig) : ∀ (es : List TE) (new : Ty) (es' : List TE), wtEs fs es = true → scalarTy new = true →
    castAll es new = .ok es' → wtEs fs es' = true ∧ allTy es' new = true
  | [], new, es', _, _, h => by
    unfold castAll at h
    have := pure_ok h; subst this; simp [wtEs, allTy]
  | e :: rest, new, es', hw, hn, h => by
    unfold castAll at h
    obtain ⟨c, hc, h⟩ := bind_ok h
    obtain ⟨cs, hcs, h⟩ := bind_ok h
    have := pure_ok h; subst this
    simp only [wtEs, Bool.and_eq_true] at hw
    have hn' : tgtOK new = true := by cases new <;> simp_all [tgtOK, scalarTy]
    obtain ⟨h1, h2⟩ := cast_ok fs e new false c hw.1 hn' hc
    obtain ⟨h3, h4⟩ := castAll_ok fs rest new cs hw.2 hn hcs
    simp [wtEs, allTy, h1, h2, h3, h4]
end

theorem coerce_ok {fs : List FuncSig} {e : TE} {new : Ty} {e' : TE} (hw : wtE fs e = true) (hn : tgtOK new = true)
    (h : coerce e new = .ok e') : wtE fs e' = true ∧ typeOf e' = new := by
  unfold coerce at h
  split at h
  · split at h <;> exact cast_ok fs _ _ _ _ hw hn h
  · exact (throw_ok h).elim

theorem throw_bind_ok {α β : Type} {e : TErr} {f : α → R β} {b : β} (h : ((MonadExcept.throw e : R α) >>= f) = .ok b) : False := by
  simp [MonadExcept.throw, throwThe, MonadExceptOf.throw, bind, Except.bind] at h

theorem of_not_not {b : Bool} (h : ¬ ((!b) = true)) : b = true := by cases b <;> simp_all

theorem guard_ok {c : Bool} {e : TErr} {u : PUnit} (h : (if c = true then (MonadExcept.throw e : R PUnit) else pure PUnit.unit) = .ok u) :
    c = false := by
  cases c <;> simp_all [MonadExcept.throw, throwThe, MonadExceptOf.throw]

theorem coerceArgs_ok (fs : List FuncSig) : ∀ (as : List TE) (ts : List Ty) (cs : List TE), wtEs fs as = true →
    (∀ t ∈ ts, tgtOK t = true) → as.length = ts.length → coerceArgs as ts = .ok cs →
    wtEs fs cs = true ∧ cs.map typeOf = ts
  | [], [], cs, _, _, _, h => by
    unfold coerceArgs at h
    have := pure_ok h; subst this; simp [wtEs]
  | [], _ :: _, cs, _, _, hl, _ => by simp at hl
  | _ :: _, [], cs, _, _, hl, _ => by simp at hl
  | a :: as, t :: ts, cs, hw, ht, hl, h => by
    unfold coerceArgs at h
    obtain ⟨c, hc, h⟩ := bind_ok h
    obtain ⟨cs', hcs, h⟩ := bind_ok h
    have := pure_ok h; subst this
    simp only [wtEs, Bool.and_eq_true] at hw
    obtain ⟨h1, h2⟩ := coerce_ok hw.1 (ht t (by simp)) hc
    obtain ⟨h3, h4⟩ := coerceArgs_ok fs as ts cs' hw.2 (fun t' ht' => ht t' (by simp [ht'])) (by simpa using hl) hcs
    simp [wtEs, h1, h2, h3, h4]

theorem resolve_mem {cands : List FuncSig} {args : List TE} {f : FuncSig} (h : resolveCall cands args = some f) :
    f ∈ cands ∧ f.ptys.length = args.length := by
  unfold resolveCall at h
  cases he : cands.find? (fun f => f.ptys == args.map typeOf) with
  | some g =>
    simp [he] at h; subst h
    have := List.find?_some he
    refine ⟨List.mem_of_find?_eq_some he, ?_⟩
    have : g.ptys = args.map typeOf := by simpa using this
    simp [this]
  | none =>
    simp only [he] at h
    have hm := List.mem_of_find?_eq_some h
    have hp := List.find?_some h
    simp at hp
    exact ⟨hm, hp.1⟩

/-- what the proofs need of an environment: declared types are proper, parameter types are castable targets -/
structure EnvOK (env : Env) : Prop where
  decls : ∀ sc ∈ env.scopes, ∀ d ∈ sc, declOK env.funcs d = true
  ptys : ∀ f ∈ env.funcs, ∀ t ∈ f.ptys, tgtOK t = true
  rets : ∀ f ∈ env.funcs, noNest f.ret = true
  ret : ∀ r, env.retTy = some r → tgtOK r = true

theorem lookup_mem {env : Env} {n : List CP} {d : VarDecl} (h : env.lookup n = some d) : ∃ sc ∈ env.scopes, d ∈ sc := by
  unfold Env.lookup at h
  obtain ⟨sc, hsc, hd⟩ := List.exists_of_findSome?_eq_some h
  exact ⟨sc, hsc, List.mem_of_find?_eq_some hd⟩

theorem not_arr_not_empty {t : Ty} (h1 : isArr t = false) (h2 : (t == Ty.empty) = false) : scalarTy t = true := by
  cases t <;> simp_all [isArr, scalarTy]

theorem pickElemTy_ok (fs : List FuncSig) (vs : List TE) (hvs : wtEs fs vs = true) : ∀ (tys : List Ty) (te : TE),
    pickElemTy vs tys = .ok te → wtE fs te = true
  | [], te, h => by unfold pickElemTy at h; exact (throw_ok h).elim
  | t :: rest, te, h => by
    unfold pickElemTy at h
    split at h
    · exact (throw_ok h).elim
    · split at h
      · exact (throw_ok h).elim
      · split at h
        · rename_i h1 h2 h3
          have := pure_ok h; subst this
          have hs := not_arr_not_empty (by simpa using h1) (by simpa using h2)
          simp [wtE, hvs, hs, scalar_ne_empty hs, h3]
        · exact pickElemTy_ok fs vs hvs rest te h

theorem arithOpOf_ok {op : String} {a : BinOp} (h : arithOpOf op = some a) : isArithOp a = true := by
  unfold arithOpOf at h; split at h <;> simp_all [isArithOp] <;> subst h <;> rfl

theorem logicOpOf_ok {op : String} {a : BinOp} (h : logicOpOf op = some a) : a = .and ∨ a = .or := by
  unfold logicOpOf at h; split at h <;> simp_all
theorem cmpOpOf_ok {op : String} {a : BinOp} (h : cmpOpOf op = some a) : a = .lt ∨ a = .gt ∨ a = .le ∨ a = .ge := by
  unfold cmpOpOf at h; split at h <;> simp_all
theorem eqOpOf_ok {op : String} {a : BinOp} (h : eqOpOf op = some a) : a = .eq ∨ a = .ne := by
  unfold eqOpOf at h; split at h <;> simp_all

theorem tgtOK_int : tgtOK .int = true := rfl
theorem tgtOK_bool : tgtOK .bool = true := rfl

/-- folding two primitives or keeping the node: both results are well typed when the node is -/
theorem fold_or_keep {fs : List FuncSig} {a b : TE} {op : BinOp} {te : TE}
    (hk : wtE fs (.boolop op a b) = true)
    (h : (if (isPrimitive a && isPrimitive b) = true then
            (match primData a, primData b with
             | some x, some y => (pure (TE.boolv (cmpOperate op x y)) : R TE)
             | _, _ => pure (.boolop op a b))
          else pure (.boolop op a b)) = .ok te) : wtE fs te = true := by
  split at h
  · split at h
    · have := pure_ok h; subst this; simp [wtE]
    · have := pure_ok h; subst this; exact hk
  · have := pure_ok h; subst this; exact hk

mutual
theorem tcExpr_wt (env : Env) (henv : EnvOK env) : ∀ (e : PExpr) (te : TE), ptyE e = true → tcExpr env e = .ok te →
    wtE env.funcs te = true
  | .int v, te, _, h => by unfold tcExpr at h; have := pure_ok h; subst this; simp [wtE]
  | .char b, te, _, h => by unfold tcExpr at h; have := pure_ok h; subst this; simp [wtE]
  | .str bs, te, _, h => by unfold tcExpr at h; have := pure_ok h; subst this; simp [wtE]
  | .bool b, te, _, h => by unfold tcExpr at h; have := pure_ok h; subst this; simp [wtE]
  | .var n, te, _, h => by
    unfold tcExpr at h
    split at h
    · exact (throw_ok h).elim
    · rename_i d hd
      split at h
      · rename_i hc
        have := pure_ok h; subst this
        have hp : isPrimitive d.init = true := by simp at hc; exact hc.2
        cases hi : d.init <;> simp_all [isPrimitive, atSpan, wtE]
      · have := pure_ok h; subst this
        obtain ⟨sc, hsc, hm⟩ := lookup_mem hd
        have := henv.decls sc hsc d hm
        simp only [declOK, Bool.and_eq_true] at this
        simpa [wtE] using this.1.1
  | .index s i, te, hp, h => by
    simp only [ptyE, Bool.and_eq_true] at hp
    unfold tcExpr at h
    obtain ⟨src, hsrc, h⟩ := bind_ok h
    have hws := tcExpr_wt env henv s src hp.1 hsrc
    dsimp only at h
    split at h
    · exact (throw_bind_ok h).elim
    rename_i hst
    have hst := of_not_not hst
    have tail : ∀ src' : TE, wtE env.funcs src' = true → typeOf src' = typeOf src →
        (do let idx ← tcExpr env i
            let idx ← coerce idx Ty.int
            pure (src'.index idx) : R TE) = .ok te → wtE env.funcs te = true := by
      intro src' hw' ht' h
      obtain ⟨idx, hidx, h⟩ := bind_ok h
      have hwi := tcExpr_wt env henv i idx hp.2 hidx
      obtain ⟨idx', hidx', h⟩ := bind_ok h
      obtain ⟨hwi', hti⟩ := coerce_ok hwi tgtOK_int hidx'
      have := pure_ok h; subst this
      simp only [wtE, Bool.and_eq_true]
      refine ⟨⟨⟨hw', hwi'⟩, by simp [hti]⟩, ?_⟩
      rw [ht']; exact hst
    split at h
    · exact (throw_bind_ok h).elim
    · rename_i vals t lk hne _
      obtain ⟨src', hsrc', h⟩ := bind_ok h
      have htg : tgtOK t = true := by
        simp only [wtE, Bool.and_eq_true] at hws
        have h2 := hws.2
        cases t with
        | arr el c =>
          by_cases hel : el = .empty
          · subst hel; exact absurd rfl (hne c)
          · have : (el == Ty.empty) = false := by simpa using hel
            simp [this] at h2
            simpa [tgtOK] using h2.1
        | _ => simp at h2
      have := coerce_ok hws htg hsrc'
      exact tail src' this.1 (by simp [this.2, typeOf]) h
    · simp only [pure_bind] at h
      exact tail src hws rfl h
  | .len s, te, hp, h => by
    simp only [ptyE] at hp
    unfold tcExpr at h
    obtain ⟨src, hsrc, h⟩ := bind_ok h
    have hws := tcExpr_wt env henv s src hp hsrc
    dsimp only at h
    split at h
    · exact (throw_bind_ok h).elim
    rename_i hst
    have := pure_ok h; subst this
    simp only [wtE, Bool.and_eq_true]
    exact ⟨hws, of_not_not hst⟩
  | .call n fl args, te, hp, h => by
    simp only [ptyE] at hp
    unfold tcExpr at h
    obtain ⟨as, has, h⟩ := bind_ok h
    have hwa := tcExprs_wt env henv args as hp has
    dsimp only at h
    split at h
    · exact (throw_ok h).elim
    · rename_i f hf
      obtain ⟨cs, hcs, h⟩ := bind_ok h
      have := pure_ok h; subst this
      obtain ⟨hfm, hfl⟩ := resolve_mem hf
      have hfm' := List.mem_filter.1 hfm
      obtain ⟨h1, h2⟩ := coerceArgs_ok env.funcs as f.ptys cs hwa (henv.ptys f hfm'.1) hfl.symm hcs
      simp only [wtE, Bool.and_eq_true]
      refine ⟨⟨h1, by simp [h2]⟩, ?_⟩
      rw [List.any_eq_true]
      refine ⟨f, hfm'.1, ?_⟩
      have := hfm'.2
      simp only [Bool.and_eq_true] at this
      simp [this.1, this.2]
  | .arrlit items, te, hp, h => by
    simp only [ptyE] at hp
    unfold tcExpr at h
    split at h
    · have := pure_ok h; subst this; simp [wtE, wtEs]
    · obtain ⟨vs, hvs, h⟩ := bind_ok h
      have hwv := tcExprs_wt env henv items vs hp hvs
      exact pickElemTy_ok env.funcs vs hwv _ te h
  | .un op e, te, hp, h => by
    simp only [ptyE] at hp
    unfold tcExpr at h
    obtain ⟨a, ha, h⟩ := bind_ok h
    have hwa := tcExpr_wt env henv e a hp ha
    split at h
    · obtain ⟨b, hb, h⟩ := bind_ok h
      obtain ⟨hwb, htb⟩ := cast_ok env.funcs a .bool false b hwa tgtOK_bool hb
      split at h <;> (have := pure_ok h; subst this) <;> simp_all [wtE]
    · obtain ⟨ai, hai, h⟩ := bind_ok h
      obtain ⟨hwi, hti⟩ := coerce_ok hwa tgtOK_int hai
      split at h <;> (have := pure_ok h; subst this)
      · simp [wtE]
      · simp only [wtE, Bool.and_eq_true]
        refine ⟨⟨hwi, by simp [hti]⟩, ?_⟩
        split <;> simp
  | .is_ e t, te, hp, h => by
    simp only [ptyE, Bool.and_eq_true] at hp
    unfold tcExpr at h
    obtain ⟨a, ha, h⟩ := bind_ok h
    have hwa := tcExpr_wt env henv e a hp.1 ha
    exact (cast_ok env.funcs a t false te hwa hp.2 h).1
  | .bin op l r, te, hp, h => by
    simp only [ptyE, Bool.and_eq_true] at hp
    unfold tcExpr at h
    split at h
    · rename_i aop haop
      obtain ⟨a, ha, h⟩ := bind_ok h
      have hwa := tcExpr_wt env henv l a hp.1 ha
      obtain ⟨b, hb, h⟩ := bind_ok h
      have hwb := tcExpr_wt env henv r b hp.2 hb
      obtain ⟨ai, hai, h⟩ := bind_ok h
      obtain ⟨hwai, htai⟩ := coerce_ok hwa tgtOK_int hai
      obtain ⟨bi, hbi, h⟩ := bind_ok h
      obtain ⟨hwbi, htbi⟩ := coerce_ok hwb tgtOK_int hbi
      split at h
      · obtain ⟨v, _, h⟩ := bind_ok h
        have := pure_ok h; subst this; simp [wtE]
      · have := pure_ok h; subst this
        simp [wtE, hwai, hwbi, htai, htbi, arithOpOf_ok haop]
    · split at h
      · rename_i lop hlop
        obtain ⟨a, ha, h⟩ := bind_ok h
        have hwa := tcExpr_wt env henv l a hp.1 ha
        obtain ⟨a', ha', h⟩ := bind_ok h
        obtain ⟨hwa', hta'⟩ := cast_ok env.funcs a .bool false a' hwa tgtOK_bool ha'
        obtain ⟨b, hb, h⟩ := bind_ok h
        have hwb := tcExpr_wt env henv r b hp.2 hb
        obtain ⟨b', hb', h⟩ := bind_ok h
        obtain ⟨hwb', htb'⟩ := cast_ok env.funcs b .bool false b' hwb tgtOK_bool hb'
        refine fold_or_keep ?_ h
        rcases logicOpOf_ok hlop with rfl | rfl <;> simp [wtE, hwa', hwb', hta', htb', boolopOK]
      · split at h
        · rename_i cop hcop
          obtain ⟨a, ha, h⟩ := bind_ok h
          have hwa := tcExpr_wt env henv l a hp.1 ha
          obtain ⟨a', ha', h⟩ := bind_ok h
          obtain ⟨hwa', hta'⟩ := coerce_ok hwa tgtOK_int ha'
          obtain ⟨b, hb, h⟩ := bind_ok h
          have hwb := tcExpr_wt env henv r b hp.2 hb
          obtain ⟨b', hb', h⟩ := bind_ok h
          obtain ⟨hwb', htb'⟩ := coerce_ok hwb tgtOK_int hb'
          split at h
          · have := pure_ok h; subst this; simp [wtE]
          · have := pure_ok h; subst this
            rcases cmpOpOf_ok hcop with rfl | rfl | rfl | rfl <;> simp [wtE, hwa', hwb', hta', htb', boolopOK]
        · split at h
          · rename_i eop heop
            obtain ⟨a, ha, h⟩ := bind_ok h
            have hwa := tcExpr_wt env henv l a hp.1 ha
            obtain ⟨b, hb, h⟩ := bind_ok h
            have hwb := tcExpr_wt env henv r b hp.2 hb
            dsimp only at h
            split at h
            · rename_i hbb
              simp only [pure_bind] at h
              simp only [Bool.and_eq_true, beq_iff_eq] at hbb
              refine fold_or_keep ?_ h
              rcases eqOpOf_ok heop with rfl | rfl <;> simp [wtE, hwa, hwb, hbb.1, hbb.2, boolopOK]
            · obtain ⟨a2, ha2, h⟩ := bind_ok h
              obtain ⟨b2, hb2, h⟩ := bind_ok h
              simp only [pure_bind] at h
              obtain ⟨h1, h2⟩ := coerce_ok hwa tgtOK_int ha2
              obtain ⟨h3, h4⟩ := coerce_ok hwb tgtOK_int hb2
              refine fold_or_keep ?_ h
              rcases eqOpOf_ok heop with rfl | rfl <;> simp [wtE, h1, h2, h3, h4, boolopOK]
          · exact (throw_ok h).elim
  | .spec l r, te, hp, h => by
    simp only [ptyE, Bool.and_eq_true] at hp
    unfold tcExpr at h
    obtain ⟨a, ha, h⟩ := bind_ok h
    have hwa := tcExpr_wt env henv l a hp.1 ha
    dsimp only at h
    split at h
    · exact (throw_bind_ok h).elim
    rename_i hst
    obtain ⟨b, hb, h⟩ := bind_ok h
    have hwb := tcExpr_wt env henv r b hp.2 hb
    obtain ⟨b', hb', h⟩ := bind_ok h
    have htg : tgtOK (typeOf a) = true := by
      cases hta : typeOf a <;> simp_all [tgtOK]
    obtain ⟨hwb', htb'⟩ := coerce_ok hwb htg hb'
    split at h
    · have := pure_ok h; subst this; exact hwa
    · have := pure_ok h; subst this
      simp only [wtE, Bool.and_eq_true]
      exact ⟨⟨⟨hwa, hwb'⟩, by simp [htb']⟩, of_not_not hst⟩

theorem tcExprs_wt (env : Env) (henv : EnvOK env) : ∀ (es : List PExpr) (ts : List TE), ptyEs es = true → tcExprs env es = .ok ts →
    wtEs env.funcs ts = true
  | [], ts, _, h => by unfold tcExprs at h; have := pure_ok h; subst this; simp [wtEs]
  | e :: rest, ts, hp, h => by
    simp only [ptyEs, Bool.and_eq_true] at hp
    unfold tcExprs at h
    obtain ⟨t, ht, h⟩ := bind_ok h
    obtain ⟨ts', hts, h⟩ := bind_ok h
    have := pure_ok h; subst this
    simp [wtEs, tcExpr_wt env henv e t hp.1 ht, tcExprs_wt env henv rest ts' hp.2 hts]
end

end HidVerif.Hid.TC
