import HidVerif.Proofs.NoInternalModes
import HidVerif.Proofs.ExitModes
/-!
# The exit modes the typechecker model writes into its tree are the analysis of `Hid/ExitModes.lean`

`skelOf` forgets everything of a typed statement but its control skeleton; `tcStmt_link` shows that every block
the typechecker builds is annotated with `Exit.blockGo` of the skeletons of the statements it kept, so the abstract
soundness theorem (`Exit.exits_sound`) applies to the trees of accepted programs:
a function the typechecker accepts cannot complete its body normally.
-/
namespace HidVerif.Hid.TC
open HidVerif.Hid HidVerif.Hid.Lex HidVerif.Hid.Parse HidVerif.Gen
open HidVerif.Hid.Exit (Skel Exits Out)

def skelOfE : TE → Skel
  | .call n fl args _ _ =>
    if fl == .defeat && n == cps "is_defeat" && args.isEmpty then .defeat
    else if fl == .none && (n == cps "all_is_win" || n == cps "all_is_broken") && args.isEmpty then .term
    else if fl == .defeat then .defcall
    else .other
  | _ => .other

mutual
def skelOf : TS → Skel
  | .expr e => skelOfE e
  | .decl _ _ _ _ => .other
  | .assign _ _ => .other
  | .incassign _ _ _ _ => .other
  | .ret _ => .ret
  | .brk => .brk
  | .cont => .cont
  | .block ss _ => .block (skelOfs ss)
  | .ifb _ t e => .ifb (skelOf t) (skelOf e)
  | .loop c b k => .loop (match c with | .boolv true => true | _ => false) (skelOf b) (skelOf k)
  | .tryb b _ h => .tryb (skelOf b) (skelOf h)
  | .preempt b => .preempt (skelOf b)
def skelOfs : List TS → List Skel
  | [] => []
  | t :: r => skelOf t :: skelOfs r
end

theorem skelOfs_append : ∀ (a b : List TS), skelOfs (a ++ b) = skelOfs a ++ skelOfs b
  | [], b => by simp [skelOfs]
  | x :: a, b => by simp [skelOfs, skelOfs_append a b]

mutual
/-- every block of the tree carries the mode the analysis computes for the statements in it -/
def annOK : TS → Bool
  | .block ss m => annOKs ss && m == Exit.blockGo (skelOfs ss) Exit.NONE false
  | .ifb _ t e => annOK t && annOK e
  | .loop _ b k => annOK b && annOK k
  | .tryb b _ h => annOK b && annOK h
  | .preempt b => annOK b
  | _ => true
def annOKs : List TS → Bool
  | [] => true
  | t :: r => annOK t && annOKs r
end

theorem exit_consts : Exit.NONE = 1 ∧ Exit.BREAK = 2 ∧ Exit.LOOP = 4 ∧ Exit.DEFEAT = 8 ∧ Exit.RETURN = 16 := by decide

theorem emHas_eq_has (m : Nat) : emHas m "NONE" = Exit.has m 1 ∧ emHas m "BREAK" = Exit.has m 2 := by
  simp [emHas, em_vals.1, em_vals.2.1, Exit.has]

theorem replace_eq (m o n : Nat) : emReplace m o n = Exit.replace m o n := rfl

theorem modes_eq : ∀ t : TS, annOK t = true → exitModesOf t = Exit.modes (skelOf t)
  | .block ss m, h => by
    simp only [annOK, Bool.and_eq_true, beq_iff_eq] at h
    simp [exitModesOf, skelOf, Exit.modes, h.2]
  | .ifb c t e, h => by
    simp only [annOK, Bool.and_eq_true] at h
    simp [exitModesOf, skelOf, Exit.modes, modes_eq t h.1, modes_eq e h.2]
  | .loop c b k, h => by
    simp only [annOK, Bool.and_eq_true] at h
    simp only [exitModesOf, skelOf, Exit.modes, modes_eq b h.1, (emHas_eq_has _).2, em_vals.1, em_vals.2.1, em_vals.2.2.1,
      exit_consts.1, exit_consts.2.1, exit_consts.2.2.1, replace_eq]
    cases c with
    | boolv bb => cases bb <;> rfl
    | _ => rfl
  | .tryb b k hd, h => by
    simp only [annOK, Bool.and_eq_true] at h
    simp [exitModesOf, skelOf, Exit.modes, modes_eq b h.1, modes_eq hd h.2, em_vals.2.2.2.1, exit_consts.2.2.2.1, replace_eq]
  | .preempt b, h => by
    simp only [annOK] at h
    simp [exitModesOf, skelOf, Exit.modes, modes_eq b h, em_vals.1, exit_consts.1]
  | .expr e, _ => by
    simp only [exitModesOf, skelOf]
    unfold skelOfE
    split
    · split
      · simp [Exit.modes]
      · split
        · simp [Exit.modes]
        · split <;> simp [Exit.modes]
    · simp [Exit.modes]
  | .decl _ _ _ _, _ => by simp [exitModesOf, skelOf, Exit.modes]
  | .assign _ _, _ => by simp [exitModesOf, skelOf, Exit.modes]
  | .incassign _ _ _ _, _ => by simp [exitModesOf, skelOf, Exit.modes]
  | .ret _, _ => by simp [exitModesOf, skelOf, Exit.modes]
  | .brk, _ => by simp [exitModesOf, skelOf, Exit.modes]
  | .cont, _ => by simp [exitModesOf, skelOf, Exit.modes]

theorem skelOfE_leaf (e : TE) : Exit.wf (skelOfE e) = true ∧ Exit.blockish (skelOfE e) = false := by
  unfold skelOfE
  split
  · split
    · simp [Exit.wf, Exit.blockish]
    · split
      · simp [Exit.wf, Exit.blockish]
      · split <;> simp [Exit.wf, Exit.blockish]
  · simp [Exit.wf, Exit.blockish]

/-- one step of the typechecker's block loop is one step of the analysis -/
theorem step_link (t : TS) (hann : annOK t = true) (R : List Skel) (mode : Nat) (hn : emHas mode "NONE" = true) :
    Exit.blockGo (skelOf t :: R) mode false = Exit.blockGo R (stepMode mode t).1 (stepMode mode t).2 := by
  have h1 : Exit.has mode 1 = true := by rw [← (emHas_eq_has mode).1]; exact hn
  have hm := modes_eq t hann
  cases t with
  | expr e =>
    cases e with
    | call n fl args ptys r =>
      simp only [skelOf, skelOfE, stepMode]
      split
      · rw [Exit.blockGo]; simp [h1, em_vals.1, em_vals.2.2.2.1, exit_consts.1, exit_consts.2.2.2.1, replace_eq]
      · split
        · rw [Exit.blockGo]; simp [h1, em_vals.1, em_vals.2.2.1, exit_consts.1, exit_consts.2.2.1, replace_eq]
        · split
          · rw [Exit.blockGo]; simp [h1, em_vals.2.2.2.1, exit_consts.1, exit_consts.2.2.2.1]
          · rw [Exit.blockGo]; simp [h1, exit_consts.1]
    | _ => simp only [skelOf, skelOfE, stepMode]; rw [Exit.blockGo]; simp [h1, exit_consts.1]
  | decl n ty c i => simp only [skelOf, stepMode]; rw [Exit.blockGo]; simp [h1, exit_consts.1]
  | assign l r => simp only [skelOf, stepMode]; rw [Exit.blockGo]; simp [h1, exit_consts.1]
  | incassign l r op ty => simp only [skelOf, stepMode]; rw [Exit.blockGo]; simp [h1, exit_consts.1]
  | ret e =>
    simp only [skelOf, stepMode]; rw [Exit.blockGo]
    simp [h1, em_vals.1, em_vals.2.2.2.2, exit_consts.1, exit_consts.2.2.2.2, replace_eq]
  | brk =>
    simp only [skelOf, stepMode]; rw [Exit.blockGo]
    simp [h1, em_vals.1, em_vals.2.1, exit_consts.1, exit_consts.2.1, replace_eq]
  | cont => simp only [skelOf, stepMode]; rw [Exit.blockGo]; simp [h1, exit_consts.1]
  | block ss m =>
    simp only [skelOf] at hm ⊢
    simp only [stepMode]; rw [Exit.blockGo]
    · simp [h1, hm, em_vals.1, exit_consts.1, replace_eq]
    all_goals (intro h; cases h)
  | ifb c a b =>
    simp only [skelOf] at hm ⊢
    simp only [stepMode]; rw [Exit.blockGo]
    · simp [h1, hm, em_vals.1, exit_consts.1, replace_eq]
    all_goals (intro h; cases h)
  | loop c a b =>
    simp only [skelOf] at hm ⊢
    simp only [stepMode]; rw [Exit.blockGo]
    · simp [h1, hm, em_vals.1, exit_consts.1, replace_eq]
    all_goals (intro h; cases h)
  | tryb a k b =>
    simp only [skelOf] at hm ⊢
    simp only [stepMode]; rw [Exit.blockGo]
    · simp [h1, hm, em_vals.1, exit_consts.1, replace_eq]
    all_goals (intro h; cases h)
  | preempt a =>
    simp only [skelOf] at hm ⊢
    simp only [stepMode]; rw [Exit.blockGo]
    · simp [h1, hm, em_vals.1, exit_consts.1, replace_eq]
    all_goals (intro h; cases h)

mutual
/-- the parts of control statements are blocks (what the parser builds) -/
def shapeP : PStmt → Bool
  | .block ss _ => shapePs ss
  | .ifb _ t e => blockishP t && blockishP e && shapeP t && shapeP e
  | .loop _ b k => blockishP b && blockishP k && shapeP b && shapeP k
  | .tryb b _ h => blockishP b && blockishP h && shapeP b && shapeP h
  | .preempt b => blockishP b && shapeP b
  | _ => true
def shapePs : List PStmt → Bool
  | [] => true
  | s :: r => shapeP s && shapePs r
end

theorem annOKs_append : ∀ (a b : List TS), annOKs a = true → annOKs b = true → annOKs (a ++ b) = true
  | [], b, _, hb => by simpa using hb
  | x :: a, b, ha, hb => by
    simp only [annOKs, Bool.and_eq_true] at ha
    simp only [List.cons_append, annOKs, Bool.and_eq_true]
    exact ⟨ha.1, annOKs_append a b ha.2 hb⟩

theorem wfAll_append : ∀ (a b : List Skel), Exit.wfAll a = true → Exit.wfAll b = true → Exit.wfAll (a ++ b) = true
  | [], b, _, hb => by simpa using hb
  | x :: a, b, ha, hb => by
    simp only [Exit.wfAll, Bool.and_eq_true] at ha
    simp only [List.cons_append, Exit.wfAll, Bool.and_eq_true]
    exact ⟨ha.1, wfAll_append a b ha.2 hb⟩

/-- what the link carries for one typed statement -/
def LinkOK (s : PStmt) (t : TS) : Prop :=
  annOK t = true ∧ Exit.wf (skelOf t) = true ∧ (blockishP s = true → Exit.blockish (skelOf t) = true)

theorem LinkOK.leaf {s : PStmt} {t : TS} (ha : annOK t = true) (hw : Exit.wf (skelOf t) = true) (hb : blockishP s = false) :
    LinkOK s t := ⟨ha, hw, fun h => by rw [hb] at h; cases h⟩

mutual
theorem tcStmt_link : ∀ (s : PStmt) (env env' : Env) (t : TS), shapeP s = true → tcStmt env s = .ok (env', t) → LinkOK s t
  | .expr e, env, env', t, _, h => by
    unfold tcStmt at h
    obtain ⟨te, _, h⟩ := bind_ok h
    have := pure_ok h
    simp only [Prod.mk.injEq] at this
    obtain ⟨_, rfl⟩ := this
    exact LinkOK.leaf (by simp [annOK]) (by simpa [skelOf] using (skelOfE_leaf te).1) rfl
  | .decl n ty c init, env, env', t, _, h => by
    unfold tcStmt at h
    obtain ⟨_, _, h⟩ := bind_ok h
    obtain ⟨i, _, h⟩ := bind_ok h
    unfold tcDecl at h
    obtain ⟨_, _, h⟩ := bind_ok h
    obtain ⟨i', _, h⟩ := bind_ok h
    split at h
    · exact (throw_ok h).elim
    · have := pure_ok h
      simp only [Prod.mk.injEq] at this
      obtain ⟨_, rfl⟩ := this
      exact LinkOK.leaf (by simp [annOK]) (by simp [skelOf, Exit.wf]) rfl
  | .vla n el c len, env, env', t, _, h => by
    unfold tcStmt at h
    obtain ⟨_, _, h⟩ := bind_ok h
    obtain ⟨l, _, h⟩ := bind_ok h
    obtain ⟨l', _, h⟩ := bind_ok h
    unfold tcDecl at h
    obtain ⟨_, _, h⟩ := bind_ok h
    obtain ⟨i', _, h⟩ := bind_ok h
    split at h
    · exact (throw_ok h).elim
    · have := pure_ok h
      simp only [Prod.mk.injEq] at this
      obtain ⟨_, rfl⟩ := this
      exact LinkOK.leaf (by simp [annOK]) (by simp [skelOf, Exit.wf]) rfl
  | .assign l r, env, env', t, _, h => by
    unfold tcStmt at h
    obtain ⟨lk, e, rfl⟩ := tcAssign_shape h
    exact LinkOK.leaf (by simp [annOK]) (by simp [skelOf, Exit.wf]) rfl
  | .incassign l r op, env, env', t, _, h => by
    unfold tcStmt at h
    split at h
    · exact (throw_ok h).elim
    · obtain ⟨pr, hpr, h⟩ := bind_ok h
      obtain ⟨env1, eq⟩ := pr
      obtain ⟨lk0, e0, rfl⟩ := tcAssign_shape hpr
      dsimp only at h
      obtain ⟨lk, _, h⟩ := bind_ok h
      obtain ⟨e, _, h⟩ := bind_ok h
      have := pure_ok h
      simp only [Prod.mk.injEq] at this
      obtain ⟨_, rfl⟩ := this
      exact LinkOK.leaf (by simp [annOK]) (by simp [skelOf, Exit.wf]) rfl
  | .ret e, env, env', t, _, h => by
    unfold tcStmt at h
    split at h
    · exact (throw_ok h).elim
    · split at h
      · split at h
        · exact (throw_ok h).elim
        · obtain ⟨te, _, h⟩ := bind_ok h
          obtain ⟨te', _, h⟩ := bind_ok h
          have := pure_ok h
          simp only [Prod.mk.injEq] at this
          obtain ⟨_, rfl⟩ := this
          exact LinkOK.leaf (by simp [annOK]) (by simp [skelOf, Exit.wf]) rfl
      · split at h
        · exact (throw_ok h).elim
        · have := pure_ok h
          simp only [Prod.mk.injEq] at this
          obtain ⟨_, rfl⟩ := this
          exact LinkOK.leaf (by simp [annOK]) (by simp [skelOf, Exit.wf]) rfl
  | .brk, env, env', t, _, h => by
    unfold tcStmt at h
    have := pure_ok h
    simp only [Prod.mk.injEq] at this
    obtain ⟨_, rfl⟩ := this
    exact LinkOK.leaf (by simp [annOK]) (by simp [skelOf, Exit.wf]) rfl
  | .cont, env, env', t, _, h => by
    unfold tcStmt at h
    have := pure_ok h
    simp only [Prod.mk.injEq] at this
    obtain ⟨_, rfl⟩ := this
    exact LinkOK.leaf (by simp [annOK]) (by simp [skelOf, Exit.wf]) rfl
  | .block ss pre, env, env', t, hs, h => by
    simp only [shapeP] at hs
    unfold tcStmt at h
    obtain ⟨b, hb, h⟩ := bind_ok h
    have := pure_ok h
    simp only [Prod.mk.injEq] at this
    obtain ⟨_, rfl⟩ := this
    obtain ⟨ts, m, rfl, h1, h2⟩ := tcBlockGo_link ss env.child [] _ _ b hs (by simp [annOKs]) (by simp [skelOfs, Exit.wfAll])
      (fun R => by simp [skelOfs, exit_consts.1, em_vals.1]) hb
    exact ⟨h1, by simpa [skelOf, Exit.wf] using h2, fun _ => by simp [skelOf, Exit.blockish]⟩
  | .ifb c a b, env, env', t, hs, h => by
    simp only [shapeP, Bool.and_eq_true] at hs
    unfold tcStmt at h
    obtain ⟨ta, hta, h⟩ := bind_ok h
    obtain ⟨cc, _, h⟩ := bind_ok h
    obtain ⟨cc', _, h⟩ := bind_ok h
    obtain ⟨tb, htb, h⟩ := bind_ok h
    have := pure_ok h
    simp only [Prod.mk.injEq] at this
    obtain ⟨_, rfl⟩ := this
    obtain ⟨a1, a2, a3⟩ := tcStmt_link a env ta.1 ta.2 hs.1.2 hta
    obtain ⟨b1, b2, b3⟩ := tcStmt_link b env tb.1 tb.2 hs.2 htb
    exact ⟨by simp [annOK, a1, b1], by simp [skelOf, Exit.wf, a2, b2, a3 hs.1.1.1, b3 hs.1.1.2], fun _ => by simp [skelOf, Exit.blockish]⟩
  | .loop c a b, env, env', t, hs, h => by
    simp only [shapeP, Bool.and_eq_true] at hs
    unfold tcStmt at h
    obtain ⟨ta, hta, h⟩ := bind_ok h
    obtain ⟨cc, _, h⟩ := bind_ok h
    obtain ⟨cc', _, h⟩ := bind_ok h
    obtain ⟨tb, htb, h⟩ := bind_ok h
    have := pure_ok h
    simp only [Prod.mk.injEq] at this
    obtain ⟨_, rfl⟩ := this
    obtain ⟨a1, a2, a3⟩ := tcStmt_link a env ta.1 ta.2 hs.1.2 hta
    obtain ⟨b1, b2, b3⟩ := tcStmt_link b env tb.1 tb.2 hs.2 htb
    exact ⟨by simp [annOK, a1, b1], by simp [skelOf, Exit.wf, a2, b2, a3 hs.1.1.1, b3 hs.1.1.2], fun _ => by simp [skelOf, Exit.blockish]⟩
  | .tryb a k b, env, env', t, hs, h => by
    simp only [shapeP, Bool.and_eq_true] at hs
    unfold tcStmt at h
    obtain ⟨ta, hta, h⟩ := bind_ok h
    obtain ⟨tb, htb, h⟩ := bind_ok h
    have := pure_ok h
    simp only [Prod.mk.injEq] at this
    obtain ⟨_, rfl⟩ := this
    obtain ⟨a1, a2, a3⟩ := tcStmt_link a env ta.1 ta.2 hs.1.2 hta
    obtain ⟨b1, b2, b3⟩ := tcStmt_link b env tb.1 tb.2 hs.2 htb
    exact ⟨by simp [annOK, a1, b1], by simp [skelOf, Exit.wf, a2, b2, a3 hs.1.1.1, b3 hs.1.1.2], fun _ => by simp [skelOf, Exit.blockish]⟩
  | .preempt a, env, env', t, hs, h => by
    simp only [shapeP, Bool.and_eq_true] at hs
    unfold tcStmt at h
    obtain ⟨ta, hta, h⟩ := bind_ok h
    have := pure_ok h
    simp only [Prod.mk.injEq] at this
    obtain ⟨_, rfl⟩ := this
    obtain ⟨a1, a2, a3⟩ := tcStmt_link a env ta.1 ta.2 hs.2 hta
    exact ⟨by simp [annOK, a1], by simp [skelOf, Exit.wf, a2, a3 hs.1], fun _ => by simp [skelOf, Exit.blockish]⟩

theorem tcBlockGo_link : ∀ (ss : List PStmt) (env : Env) (acc : List TS) (mode : Nat) (fc : Bool) (t : TS), shapePs ss = true →
    annOKs acc.reverse = true → Exit.wfAll (skelOfs acc.reverse) = true →
    (∀ R, Exit.blockGo (skelOfs acc.reverse ++ R) Exit.NONE false = Exit.blockGo R mode fc) →
    tcBlockGo env ss acc mode fc = .ok t →
    ∃ ts m, t = .block ts m ∧ annOK (.block ts m) = true ∧ Exit.wfAll (skelOfs ts) = true
  | [], env, acc, mode, fc, t, _, ha, hw, hJ, h => by
    unfold tcBlockGo at h
    have := pure_ok h; subst this
    refine ⟨_, _, rfl, ?_, hw⟩
    have := hJ []
    simp only [List.append_nil] at this
    simp [annOK, ha, this, Exit.blockGo]
  | s :: rest, env, acc, mode, fc, t, hs, ha, hw, hJ, h => by
    simp only [shapePs, Bool.and_eq_true] at hs
    unfold tcBlockGo at h
    split at h
    · rename_i hstop
      split at h
      · exact (throw_ok h).elim
      · have := pure_ok h; subst this
        refine ⟨_, _, rfl, ?_, hw⟩
        have hJ' := hJ []
        simp only [List.append_nil] at hJ'
        simp [annOK, ha, hJ', Exit.blockGo]
    · rename_i hgo
      obtain ⟨pr, hpr, h⟩ := bind_ok h
      obtain ⟨env1, t1⟩ := pr
      dsimp only at h
      obtain ⟨l1, l2, _⟩ := tcStmt_link s env env1 t1 hs.1 hpr
      have hgo' : emHas mode "NONE" = true ∧ fc = false := by
        cases hn : emHas mode "NONE" <;> cases fc <;> simp_all
      obtain ⟨hn, rfl⟩ := hgo'
      refine tcBlockGo_link rest env1 (t1 :: acc) _ _ t hs.2 ?_ ?_ ?_ h
      · simp only [List.reverse_cons]
        exact annOKs_append _ _ ha (by simp [annOKs, l1])
      · simp only [List.reverse_cons, skelOfs_append]
        exact wfAll_append _ _ hw (by simp [skelOfs, Exit.wfAll, l2])
      · intro R
        simp only [List.reverse_cons, skelOfs_append, List.append_assoc]
        rw [hJ]
        simp only [skelOfs, List.cons_append, List.nil_append, Bool.false_or]
        exact step_link t1 l1 R mode hn
end

/-! ## functions and programs -/
theorem no_normal_after_ret : ∀ ss : List Skel, ¬ Exits (.block (ss ++ [.ret])) .normal
  | [], h => by
    cases h with
    | blockStop _ hne => exact hne rfl
    | blockNext h1 _ => cases h1
  | s :: rest, h => by
    cases h with
    | blockStop _ hne => exact hne rfl
    | blockNext _ h2 => exact no_normal_after_ret rest h2

theorem bodyStmts_shape {s : PStmt} (h : shapeP s = true) : shapePs (bodyStmts s) = true := by
  cases s <;> simp_all [bodyStmts, shapeP, shapePs]

/-- **an accepted function cannot complete its body normally**: every way its control skeleton can end is a `return`
(one was appended if the function is `empty` and the analysis saw a way through), a defeat, or never -/
theorem tcFunc_link {env : Env} {f : PFunc} {tf : TFunc} (hs : shapeP f.body = true) (h : tcFunc env f = .ok tf) :
    ¬ Exits (skelOf tf.body) .normal := by
  unfold tcFunc at h
  obtain ⟨env1, _, h⟩ := bind_ok h
  obtain ⟨body, hb, h⟩ := bind_ok h
  obtain ⟨body', hb', h⟩ := bind_ok h
  have := pure_ok h; subst this
  obtain ⟨ts, m, rfl, hann, hwf⟩ := tcBlockGo_link _ _ [] _ _ body (bodyStmts_shape hs) (by simp [annOKs]) (by simp [skelOfs, Exit.wfAll])
    (fun R => by simp [skelOfs, exit_consts.1, em_vals.1]) hb
  dsimp only
  have hm := modes_eq _ hann
  simp only [exitModesOf] at hm hb'
  unfold finishBody at hb'
  split at hb'
  · exact (throw_ok hb').elim
  split at hb'
  · exact (throw_ok hb').elim
  split at hb'
  · split at hb'
    · exact (throw_ok hb').elim
    · have := pure_ok hb'; subst this
      simp only [skelOf, skelOfs_append, skelOfs]
      exact no_normal_after_ret _
  · rename_i hnn
    have := pure_ok hb'; subst this
    apply Exit.no_none_no_fallthrough (skelOf (.block ts m)) (by simp [skelOf, Exit.blockish]) (by simpa [skelOf, Exit.wf] using hwf)
    rw [← hm, exit_consts.1, ← (emHas_eq_has m).1]
    simpa using hnn

theorem shapePs_of_all : ∀ (l : List PStmt), (∀ a ∈ l, shapeP a = true) → shapePs l = true
  | [], _ => by simp [shapePs]
  | a :: l, h => by
    simp only [shapePs, Bool.and_eq_true]
    exact ⟨h a (by simp), shapePs_of_all l (fun b hb => h b (by simp [hb]))⟩

theorem shapeP_of_ok {c : Nat} {s : PStmt} (h : OkS c s) : shapeP s = true := by
  induction h with
  | expr _ => simp [shapeP]
  | decl _ _ => simp [shapeP]
  | vla _ _ => simp [shapeP]
  | assign _ _ => simp [shapeP]
  | incassign _ _ _ => simp [shapeP]
  | ret _ => simp [shapeP]
  | brk _ => simp [shapeP]
  | cont _ => simp [shapeP]
  | block _ ih => simp only [shapeP]; exact shapePs_of_all _ ih
  | ifb _ _ _ h1 h2 ih1 ih2 => simp [shapeP, h1, h2, ih1, ih2]
  | loop _ _ _ h1 h2 ih1 ih2 => simp [shapeP, h1, h2, ih1, ih2]
  | tryb _ _ _ h1 h2 ih1 ih2 => simp [shapeP, h1, h2, ih1, ih2]
  | preempt _ _ h1 ih => simp [shapeP, h1, ih]

theorem tcProgram_link {lint : Bool} {p : PProgram} {tp : TProgram} (hs : ∀ f ∈ p.funcs, shapeP f.body = true)
    (h : tcProgram lint p = .ok tp) : ∀ tf ∈ tp.funcs, ¬ Exits (skelOf tf.body) .normal := by
  unfold tcProgram at h
  obtain ⟨funcs, _, h⟩ := bind_ok h
  dsimp only at h
  obtain ⟨env, _, h⟩ := bind_ok h
  obtain ⟨fs, hfsm, h⟩ := bind_ok h
  have := pure_ok h; subst this
  have hall := mapM_ok (tcFunc env) p.funcs fs hfsm
  have key : ∀ (l : List PFunc) (r : List TFunc), All2 (fun a b => tcFunc env a = .ok b) l r → (∀ g ∈ l, shapeP g.body = true) →
      ∀ tf ∈ r, ¬ Exits (skelOf tf.body) .normal := by
    intro l r hlr
    induction hlr with
    | nil => intro _ tf htf; simp at htf
    | cons hab _ ih =>
      intro hg tf htf
      simp only [List.mem_cons] at htf
      rcases htf with rfl | htf
      · exact tcFunc_link (hg _ (by simp)) hab
      · exact ih (fun g hg' => hg g (by simp [hg'])) tf htf
  exact key p.funcs fs hall hs

/-- **C16, front end, for every source text**: in every accepted program no function body can complete normally -/
theorem accepted_never_falls_off (lint : Bool) (src : List Line) (p : PProgram) (tp : TProgram)
    (hparse : parse src = .ok p) (htc : tcProgram lint p = .ok tp) : ∀ tf ∈ tp.funcs, ¬ Exits (skelOf tf.body) .normal :=
  tcProgram_link (fun f hf => shapeP_of_ok ((parse_sound src p hparse).funcs f hf)) htc

end HidVerif.Hid.TC
