import HidVerif.Proofs.CoreCond
import HidVerif.Proofs.DigitsBound
/-!
# Core compiler proofs: statements

`cS_ok`: running the code of a statement list from a state that matches the source
environment produces exactly the events of the source semantics `exec` and ends
* at the end of the code in a matching state (normal completion),
* at the return address (after `return`), or
* in the `division_by_zero` stub (checked builds, when the source semantics faults).
-/
namespace HidVerif.Core
open HidVerif HidVerif.PSys HidVerif.Sphinx HidVerif.Gen

section
variable {p : Prog} {ck : Bool} {B : Nat} {dA : Nat}

/-- `get_expr_value(r, e)` -/
theorem gV_ok (lib : Placed p B) (Γ : Gam) (env : Env) (F D : Nat) (e : E) (pc o r : Nat) (m : Mem)
    (hpl : PlacedAt p pc (gV (cxOf p ck B dA) Γ pc o r e).1)
    (hB : pc + (gV (cxOf p ck B dA) Γ pc o r e).1.length ≤ B)
    (hr : r = 2 * p.w ∨ r = 3 * p.w) (fr : Fr p m F D) (hvars : VarsOK p.w Γ env m F o)
    (hb : boundE (Γ.map Prod.fst) e = true) (hpk : pkE p.w o e false ≤ D) (ho : p.w ≤ o) :
    (∀ v, evalE (256 ^ p.w) (8 * p.w) env e = some v →
      ∃ m', Reach (sphinx p) ⟨pc, m⟩ [] ⟨pc + (gV (cxOf p ck B dA) Γ pc o r e).1.length, m'⟩ ∧
        Keep p.w m m' (F - o) ∧ IsArg p.w (gV (cxOf p ck B dA) Γ pc o r e).2 ∧
        valOf p.w m' F (gV (cxOf p ck B dA) Γ pc o r e).2 = v) ∧
    (evalE (256 ^ p.w) (8 * p.w) env e = none → ck = true →
      ∃ m', Reach (sphinx p) ⟨pc, m⟩ [] ⟨B + off_division_by_zero, m'⟩) := by
  have hw := lib.hw
  have hroom := fr.room; have htop := fr.top
  have hoD : o ≤ D := by have := pkE_ge p.w e o false; omega
  rcases hce : cE (cxOf p ck B dA) Γ pc o r e false with ⟨c, v0, p0⟩
  rcases hg : getOp (cxOf p ck B dA) r v0 with ⟨c', v'⟩
  have hcode : gV (cxOf p ck B dA) Γ pc o r e = (c ++ c', v') := by simp only [gV, hce, hg]
  rw [hcode] at hpl hB ⊢
  simp only at hpl hB ⊢
  obtain ⟨hpl1, hpl2⟩ := hpl.append
  have hlen : (c ++ c').length = c.length + c'.length := by simp
  have ih := cE_ok (ck := ck) (dA := dA) lib Γ env F D e pc o r false m (by rw [hce]; exact hpl1)
    (by rw [hce]; show pc + c.length ≤ B; omega) hr fr hvars hb hpk ho
  have hloc := cE_loc (cxOf p ck B dA) Γ env m F D e pc o r false hvars hb hpk ho
  rw [hce] at ih hloc
  simp only at ih hloc
  obtain ⟨hp0, hloc0, _⟩ := hloc
  simp only [Bool.false_and] at hp0
  subst hp0
  simp only [Bool.false_eq_true, if_false] at hloc0
  refine ⟨fun v hv => ?_, fun hn hck => ih.2 hn hck⟩
  obtain ⟨m1, r1, k1, hv1, _⟩ := ih.1 v hv
  have fr1 := fr.keep k1
  have hgo := getOp_ok (ck := ck) (dA := dA) (B := B) (pc := pc + c.length) hw fr1 r v0 (by omega)
    (hloc0.gettable (by omega)) (by rw [hg]; exact hpl2)
  rw [hg] at hgo
  obtain ⟨m2, r2, k2, hv2, _, harg⟩ := hgo
  simp only at r2 hv2 harg
  refine ⟨m2, ?_, k1.trans' (k2.mono (by omega)), harg, by rw [hv2, hv1]⟩
  rw [hlen, ← Nat.add_assoc]
  simpa using r1.trans r2

/-- `push_expr(r1, e)`: the value ends up in the slot at offset `o + w` -/
theorem pushE_ok (lib : Placed p B) (Γ : Gam) (env : Env) (F D : Nat) (e : E) (pc o : Nat) (m : Mem)
    (hpl : PlacedAt p pc (pushE (cxOf p ck B dA) Γ pc o e))
    (hB : pc + (pushE (cxOf p ck B dA) Γ pc o e).length ≤ B)
    (fr : Fr p m F D) (hvars : VarsOK p.w Γ env m F o)
    (hb : boundE (Γ.map Prod.fst) e = true) (hpk : pkPush p.w o e ≤ D) (ho : p.w ≤ o) :
    (∀ v, evalE (256 ^ p.w) (8 * p.w) env e = some v →
      ∃ m', Reach (sphinx p) ⟨pc, m⟩ [] ⟨pc + (pushE (cxOf p ck B dA) Γ pc o e).length, m'⟩ ∧
        Keep p.w m m' (F - o) ∧ m'.readLE (F - (o + p.w)) p.w = v) ∧
    (evalE (256 ^ p.w) (8 * p.w) env e = none → ck = true →
      ∃ m', Reach (sphinx p) ⟨pc, m⟩ [] ⟨B + off_division_by_zero, m'⟩) := by
  have hw := lib.hw
  have hroom := fr.room; have htop := fr.top
  have hpk1 : pkE p.w o e true ≤ D := by unfold pkPush at hpk; omega
  have hoD : o + p.w ≤ D := by unfold pkPush at hpk; omega
  rcases hce : cE (cxOf p ck B dA) Γ pc o (cxOf p ck B dA).r1 e true with ⟨c, v0, p0⟩
  have ih := cE_ok (ck := ck) (dA := dA) lib Γ env F D e pc o (cxOf p ck B dA).r1 true m
  have hloc := cE_loc (cxOf p ck B dA) Γ env m F D e pc o (cxOf p ck B dA).r1 true hvars hb hpk1 ho
  rw [hce] at ih hloc
  simp only at ih hloc
  obtain ⟨hp0, hloc0, _⟩ := hloc
  cases hs : isSafe e with
  | false =>
    -- compound: `cE` already pushed the result
    simp only [hs, Bool.not_false, Bool.and_true] at hp0
    subst hp0
    have hcode : pushE (cxOf p ck B dA) Γ pc o e = c := by simp only [pushE, hce]; simp
    rw [hcode] at hpl hB ⊢
    have ih' := ih hpl hB (Or.inr rfl) fr hvars hb hpk1 ho
    have hv0 : v0 = .slot (o + p.w) := by
      have := cE_shape (cxOf p ck B dA) Γ e pc o (cxOf p ck B dA).r1 true
      rw [hce] at this
      cases e <;> simp [isSafe] at hs <;> simp [shape] at this <;> exact this
    subst hv0
    refine ⟨fun v hv => ?_, fun hn hck => ih'.2 hn hck⟩
    obtain ⟨m1, r1, k1, hv1, _⟩ := ih'.1 v hv
    exact ⟨m1, r1, k1, by simpa [valOf] using hv1⟩
  | true =>
    simp only [hs, Bool.not_true, Bool.and_false] at hp0
    subst hp0
    simp only [Bool.false_eq_true, if_false] at hloc0
    rcases hg : getOp (cxOf p ck B dA) (cxOf p ck B dA).r1 v0 with ⟨c', v'⟩
    have hcode : pushE (cxOf p ck B dA) Γ pc o e = c ++ c' ++ [stSlot (cxOf p ck B dA) (o + p.w) (v'.arg (cxOf p ck B dA))] := by
      simp only [pushE, hce, hg]; simp
    rw [hcode] at hpl hB ⊢
    obtain ⟨hpl12, hpl3⟩ := hpl.append
    obtain ⟨hpl1, hpl2⟩ := hpl12.append
    have hlen : (c ++ c' ++ [stSlot (cxOf p ck B dA) (o + p.w) (v'.arg (cxOf p ck B dA))]).length = c.length + c'.length + 1 := by
      simp only [List.length_append, List.length_cons, List.length_nil]
    have hlen2 : (c ++ c').length = c.length + c'.length := by simp
    have ih' := ih hpl1 (by omega) (Or.inr rfl) fr hvars hb hpk1 ho
    refine ⟨fun v hv => ?_, fun hn hck => ih'.2 hn hck⟩
    obtain ⟨m1, r1, k1, hv1, _⟩ := ih'.1 v hv
    have fr1 := fr.keep k1
    have hgo := getOp_ok (ck := ck) (dA := dA) (B := B) (pc := pc + c.length) hw fr1 (cxOf p ck B dA).r1 v0
      (by show 2 * p.w ≤ 3 * p.w ∧ 3 * p.w + p.w ≤ 5 * p.w; omega)
      (hloc0.gettable (by show 3 * p.w + p.w ≤ 5 * p.w; omega)) (by rw [hg]; exact hpl2)
    rw [hg] at hgo
    obtain ⟨m2, r2, k2, hv2, _, harg⟩ := hgo
    simp only at r2 hv2 harg
    have fr2 := fr1.keep k2
    have ev := ev_arg_any (ck := ck) (dA := dA) (B := B) hw fr2 (pc + (c ++ c').length) v' harg
    rw [hv2, hv1] at ev
    have st := st_reach (ck := ck) (dA := dA) (B := B) hw fr2 (o + p.w) _ v hpl3 ev (by omega) hoD
    have hvM : v < 256 ^ p.w := by
      rw [← hv1]; cases v0 with
      | imm i => exact wrapI_lt (by have := pow_ge2 p.w hw; omega) i
      | reg a => exact Mem.readLE_lt _ _ _
      | slot s => exact Mem.readLE_lt _ _ _
    refine ⟨m2.writeLE (F - (o + p.w)) p.w v, ?_, ?_, ?_⟩
    · rw [hlen]
      have r2' : Reach (sphinx p) ⟨pc + c.length, m1⟩ [] ⟨pc + (c ++ c').length, m2⟩ := by
        rw [hlen2, ← Nat.add_assoc]; exact r2
      have := r1.trans (r2'.trans st)
      rw [hlen2] at this
      simpa [Nat.add_assoc] using this
    · exact (k1.trans' (k2.mono (by omega))).trans' (Keep.write _ _ _ _ _ _ (by omega) (by omega))
    · rw [Mem.readLE_writeLE_same _ _ _ _ (by rw [k2.size, k1.size]; omega)]
      exact Nat.mod_eq_of_lt hvM

theorem wiExcess_ge (w : Nat) (hw : 1 ≤ w) (k : Nat) (hk : k ≤ (8 * w - 1) * 30103 / 100000 + 1) :
    k ≤ w + wiExcess w := by
  unfold wiExcess; omega

/-- the call `write(e)` with an `int` argument: pushes the return address and the argument,
moves the frame pointer, runs `write_int` (`write_int_spec`) and restores the frame pointer -/
theorem cWrite_ok (lib : Placed p B) (Γ : Gam) (env : Env) (F D : Nat) (e : E) (pc o : Nat) (m : Mem)
    (hpl : PlacedAt p pc (cWrite (cxOf p ck B dA) Γ pc o e))
    (hB : pc + (cWrite (cxOf p ck B dA) Γ pc o e).length ≤ B)
    (fr : Fr p m F D) (hvars : VarsOK p.w Γ env m F o)
    (hb : boundE (Γ.map Prod.fst) e = true) (hpk : pkWrite p.w o e ≤ D) (ho : p.w ≤ o) :
    (∀ v, evalE (256 ^ p.w) (8 * p.w) env e = some v →
      ∃ m', Reach (sphinx p) ⟨pc, m⟩ (outs (decimalW (256 ^ p.w) v))
          ⟨pc + (cWrite (cxOf p ck B dA) Γ pc o e).length, m'⟩ ∧ Keep p.w m m' (F - o)) ∧
    (evalE (256 ^ p.w) (8 * p.w) env e = none → ck = true →
      ∃ m', Reach (sphinx p) ⟨pc, m⟩ [] ⟨B + off_division_by_zero, m'⟩) := by
  have hw := lib.hw
  have h64 := mul_w_lt_pow p.w hw
  have hM := pow_ge2 p.w hw
  have hBM := lib.hB
  have hroom := fr.room; have htop := fr.top; have hFM := fr.lt
  have hpkP : pkPush p.w (o + p.w) e ≤ D := by unfold pkWrite at hpk; omega
  have hpkX : o + 2 * p.w + wiExcess p.w ≤ D := by unfold pkWrite at hpk; omega
  generalize hpush : pushE (cxOf p ck B dA) Γ (pc + 1) (o + p.w) e = push at *
  have hcode : cWrite (cxOf p ck B dA) Γ pc o e =
      [stSlot (cxOf p ck B dA) (o + p.w) (.imm (pc + 1 + push.length + 3))] ++ push ++
        [.alu .add p.w (.st p.w) ((cxOf p ck B dA).negImm o), .j (.imm (B + off_write_int)), .halt,
         .alu .add p.w (.st p.w) (.imm (wrapI (256 ^ p.w) o))] := by
    simp only [cWrite, hpush]; rfl
  rw [hcode] at hpl hB ⊢
  have hlen : ([stSlot (cxOf p ck B dA) (o + p.w) (.imm (pc + 1 + push.length + 3))] ++ push ++
        [Instr.alu .add p.w (.st p.w) ((cxOf p ck B dA).negImm o), .j (.imm (B + off_write_int)), .halt,
         .alu .add p.w (.st p.w) (.imm (wrapI (256 ^ p.w) o))]).length = 1 + push.length + 4 := by
    simp only [List.length_append, List.length_cons, List.length_nil]
  rw [hlen] at hB ⊢
  obtain ⟨hpl12, hpl3⟩ := hpl.append
  obtain ⟨hpl1, hpl2⟩ := hpl12.append
  simp only [List.length_append, List.length_cons, List.length_nil, Nat.zero_add] at hpl2 hpl3
  -- 0: the return address
  have hend : pc + 1 + push.length + 3 < 256 ^ p.w := by simp [stdlibLength] at hBM; omega
  have s0 := st_reach (ck := ck) (dA := dA) (B := B) hw fr (o + p.w) (.imm (pc + 1 + push.length + 3)) (pc + 1 + push.length + 3) hpl1
    (by rw [ev_imm]; congr 1; exact Nat.mod_eq_of_lt (by unfold Prog.M; exact hend)) (by omega) (by omega)
  have k0 : Keep p.w m (m.writeLE (F - (o + p.w)) p.w (pc + 1 + push.length + 3)) (F - o) :=
    Keep.write _ _ _ _ _ _ (by omega) (by omega)
  generalize hm1 : m.writeLE (F - (o + p.w)) p.w (pc + 1 + push.length + 3) = m1 at *
  have fr1 := fr.keep k0
  have hra1 : m1.readLE (F - (o + p.w)) p.w = pc + 1 + push.length + 3 := by
    rw [← hm1, Mem.readLE_writeLE_same _ _ _ _ (by omega)]; exact Nat.mod_eq_of_lt hend
  -- the argument
  have hp := pushE_ok (ck := ck) (dA := dA) lib Γ env F D e (pc + 1) (o + p.w) m1 (by rw [hpush]; exact hpl2)
    (by rw [hpush]; omega) fr1 (hvars.keep k0 (Nat.le_refl _) (by omega)) hb hpkP (by omega)
  rw [hpush] at hp
  refine ⟨fun v hv => ?_, fun hn hck => ?_⟩
  · obtain ⟨m2, r2, k2, harg⟩ := hp.1 v hv
    have fr2 := fr1.keep k2
    have hra2 : m2.readLE (F - (o + p.w)) p.w = pc + 1 + push.length + 3 := by
      rw [k2.read _ _ (Nat.le_refl _)]; exact hra1
    have c0 := hpl3 0 (by simp); have c1 := hpl3 1 (by simp); have c2 := hpl3 2 (by simp); have c3 := hpl3 3 (by simp)
    simp only [List.getElem_cons_succ, List.getElem_cons_zero, Nat.add_zero] at c0 c1 c2 c3
    have hvM : v < 256 ^ p.w := by rw [← harg]; exact Mem.readLE_lt _ _ _
    -- fp := fp - o
    have efp : evalArg p ⟨pc + (1 + push.length), m2⟩ (.st p.w) = some F := by
      rw [ev_st (by unfold Prog.M; omega) (by have := fr2.top; omega), fr2.fp]
    have e1 : (F + (256 ^ p.w - o) % p.M) % p.M = F - o := by
      unfold Prog.M; exact add_neg_mod (by omega) (by omega) hFM
    have s3 := step_alu (m := m2) c0 efp (ev_negImm ck B o (by omega) (by omega)) alu_add
      (by unfold Prog.M; omega) (by have := fr2.top; omega)
    rw [e1] at s3
    generalize hm3 : m2.writeLE p.w p.w (F - o) = m3 at *
    have hsz3 : m3.size = m2.size := by rw [← hm3]; simp
    have hfp3 : m3.readLE p.w p.w = F - o := by
      rw [← hm3, Mem.readLE_writeLE_same _ _ _ _ (by have := fr2.top; omega)]; exact Nat.mod_eq_of_lt (by omega)
    have hrd3 : ∀ x, 2 * p.w ≤ x → m3.rd x = m2.rd x := fun x hx => by
      rw [← hm3]; exact Mem.rd_writeLE_other _ _ _ _ _ (by omega)
    -- call
    have s4 := step_j (m := m3) c1 (ev_imm (B + off_write_int))
    rw [show (B + off_write_int) % p.M = B + off_write_int from
      Nat.mod_eq_of_lt (by unfold Prog.M; simp [off_write_int, stdlibLength] at *; omega)] at s4
    have s5 := step_halt (m := m3) c2
    have jcall := Reach.jump_taken (sys := sphinx p) s4 s5
    have hk := wiExcess_ge p.w (by omega) _ (digits_absW_le p.w (by omega) v hvM)
    have hspec := write_int_spec p B lib m3 (F - o) v (pc + 1 + push.length + 3)
      (m3.readLE (2 * p.w) p.w) (m3.readLE (3 * p.w) p.w) (m3.readLE (4 * p.w) p.w)
      hvM (by omega) (by rw [hsz3]; have := fr2.top; omega) (by omega) (by omega)
      ⟨by rw [hsz3]; have := fr2.top; omega, hfp3, rfl, rfl, rfl⟩
      (by rw [show F - o - 2 * p.w = F - (o + p.w + p.w) by omega, ← harg]
          exact Mem.readLE_congr _ _ _ _ (fun x h1 _ => hrd3 x (by omega)))
      (by rw [show F - o - p.w = F - (o + p.w) by omega, ← hra2]
          exact Mem.readLE_congr _ _ _ _ (fun x h1 _ => hrd3 x (by omega)))
    obtain ⟨m4, rcall, hsame⟩ := hspec
    -- fp := fp + o
    have hsz4 : m4.size = m3.size := hsame.1
    have hfp4 : m4.readLE p.w p.w = F - o := by
      rw [← hfp3]; exact Mem.readLE_congr _ _ _ _ (fun x h1 h2 => hsame.2 x (Or.inl (by omega)) (Or.inl (by omega)))
    have efp4 : evalArg p ⟨pc + (1 + push.length) + 1 + 1 + 1, m4⟩ (.st p.w) = some (F - o) := by
      rw [ev_st (by unfold Prog.M; omega) (by rw [hsz4, hsz3]; have := fr2.top; omega), hfp4]
    have eo : evalArg p ⟨pc + (1 + push.length) + 1 + 1 + 1, m4⟩ (.imm (wrapI (256 ^ p.w) o)) = some o := by
      rw [ev_imm, wrapI_nat (by omega)]; congr 1; exact Nat.mod_eq_of_lt (by unfold Prog.M; omega)
    have s6 := step_alu (m := m4) c3 efp4 eo alu_add (by unfold Prog.M; omega) (by rw [hsz4, hsz3]; have := fr2.top; omega)
    rw [show (F - o + o) % p.M = F from by unfold Prog.M; rw [Nat.sub_add_cancel (by omega)]; exact Nat.mod_eq_of_lt hFM] at s6
    refine ⟨m4.writeLE p.w p.w F, ?_, ?_⟩
    · have e : pc + 1 + push.length + 3 = pc + (1 + push.length) + 1 + 1 + 1 := by omega
      rw [e] at rcall
      have r3 := Reach.of_next (sys := sphinx p) s3
      have r6 := Reach.of_next (sys := sphinx p) s6
      have r2' : Reach (sphinx p) ⟨pc + 1, m1⟩ [] ⟨pc + (1 + push.length), m2⟩ := by simpa [Nat.add_assoc] using r2
      have := s0.trans (r2'.trans (r3.trans (jcall.trans (rcall.trans r6))))
      simpa [evl, Nat.add_assoc] using this
    · -- net effect on memory
      have k25 : Keep p.w m2 (m4.writeLE p.w p.w F) (F - (o + p.w)) := by
        refine ⟨by simp [hsz4, hsz3], ?_, ?_, fun x hx => ?_⟩
        · rw [Mem.readLE_writeLE_same _ _ _ _ (by rw [hsz4, hsz3]; have := fr2.top; omega), fr2.fp]
          exact Nat.mod_eq_of_lt hFM
        · rw [Mem.readLE_writeLE_disj _ _ _ _ _ _ (by omega)]
          have h43 : m4.readLE 0 p.w = m3.readLE 0 p.w :=
            Mem.readLE_congr _ _ _ _ (fun x h1 h2 => hsame.2 x (Or.inl (by omega)) (Or.inl (by omega)))
          have h32 : m3.readLE 0 p.w = m2.readLE 0 p.w := by
            rw [← hm3]; exact Mem.readLE_writeLE_disj _ _ _ _ _ _ (by omega)
          rw [h43, h32]
        · rw [Mem.rd_writeLE_other _ _ _ _ _ (by omega), hsame.2 x (Or.inr (by omega)) (Or.inr (by omega)),
            hrd3 x (by omega)]
      exact (k0.trans' (k2.mono (by omega))).trans' (k25.mono (by omega))
  · obtain ⟨m', rd⟩ := hp.2 hn hck
    exact ⟨m', by simpa [evl] using s0.trans rd⟩


/-- distinct variables occupy disjoint words of the frame -/
def Disj (w : Nat) (Γ : Gam) : Prop :=
  ∀ x y, (Γ.map Prod.fst).contains x = true → (Γ.map Prod.fst).contains y = true → x ≠ y →
    look Γ x + w ≤ look Γ y ∨ look Γ y + w ≤ look Γ x

/-- the three situations in which a statement list is compiled and run -/
inductive Md
  /-- function bodies, bodies of `try/undo`, handlers: the words `try_fp` and `defeat` are not touched -/
  | plain
  /-- bodies of `try/stop`: `defeat` (at address `a`) holds the handler address `v`, `try_fp` the frame pointer -/
  | stop (a v : Nat)
  /-- the level of the you function: `try/stop` blocks rewrite `try_fp` and `defeat`; between them, in programs
  that have these words, `defeat` (at `w.1`) holds the address `w.2` of a `halt` -/
  | you (w : Option (Nat × Nat))

/-- the word `defeat` and its value, where the situation knows them -/
def Md.word : Md → Option (Nat × Nat)
  | .stop a v => some (a, v)
  | .you w => w
  | .plain => none

def Md.isYou : Md → Bool
  | .you _ => true
  | _ => false

/-- the lowest address at and above which a statement list leaves the memory alone -/
def Md.kb : Md → (F w : Nat) → Nat
  | .you _, F, w => F + 2 * w
  | _, F, _ => F

theorem Md.kb_ge (md : Md) (F w : Nat) : F ≤ md.kb F w := by cases md <;> simp [Md.kb]

/-- where defeat calls go through the word `defeat` (bodies of `try/stop`, defeat functions), that word lies
above the frame and holds the handler address -/
def DReg (p : Prog) (md : Md) (m : Mem) (F : Nat) : Prop :=
  ∀ a v, md.word = some (a, v) → F + p.w ≤ a ∧ a + p.w ≤ m.size ∧ a + p.w < 256 ^ p.w ∧ m.readLE a p.w = v ∧ v < 256 ^ p.w

theorem DReg.word {md md' : Md} {m : Mem} {F : Nat} (h : DReg p md m F) (e : md'.word = md.word) : DReg p md' m F :=
  fun a v e' => h a v (by rw [← e]; exact e')

theorem DReg.none {md : Md} {m : Mem} {F : Nat} (e : md.word = none) : DReg p md m F :=
  fun a v e' => by rw [e] at e'; cases e'

theorem DReg.keep {md : Md} {m m' : Mem} {F a : Nat} (h : DReg p md m F) (k : Keep p.w m m' a) (ha : a ≤ F) :
    DReg p md m' F := by
  intro x v e
  obtain ⟨h1, h2, h3, h4, h5⟩ := h x v e
  exact ⟨h1, by rw [k.size]; exact h2, h3, by rw [k.read _ _ (by omega)]; exact h4, h5⟩

/-- `Keep` without the frame pointer: what is known when a defeat call inside a callee has taken the machine to
the handler (the callee's `fp` is still in place) -/
structure KeepD (w : Nat) (m m' : Mem) (a : Nat) : Prop where
  size : m'.size = m.size
  ap : m'.readLE 0 w = m.readLE 0 w
  hi : ∀ x, a ≤ x → m'.rd x = m.rd x

theorem Keep.toD {w : Nat} {m m' : Mem} {a : Nat} (k : Keep w m m' a) : KeepD w m m' a := ⟨k.size, k.ap, k.hi⟩

theorem KeepD.mono {w : Nat} {m m' : Mem} {a b : Nat} (h : KeepD w m m' a) (hab : a ≤ b) : KeepD w m m' b :=
  ⟨h.size, h.ap, fun x hx => h.hi x (by omega)⟩

theorem Keep.transD {w : Nat} {m m1 m2 : Mem} {a : Nat} (h1 : Keep w m m1 a) (h2 : KeepD w m1 m2 a) : KeepD w m m2 a :=
  ⟨h2.size.trans h1.size, h2.ap.trans h1.ap, fun x hx => (h2.hi x hx).trans (h1.hi x hx)⟩

theorem KeepD.read {w : Nat} {m m' : Mem} {a : Nat} (h : KeepD w m m' a) (x k : Nat) (hx : a ≤ x) :
    m'.readLE x k = m.readLE x k :=
  Mem.readLE_congr _ _ _ _ (fun y h1 _ => h.hi y (by omega))

variable {md : Md}

/-- the machine state matches the source environment -/
structure SInv (p : Prog) (md : Md) (Γ : Gam) (env : Env) (m : Mem) (F D o ra : Nat) : Prop where
  fr : Fr p m F D
  vars : VarsOK p.w Γ env m F o
  ra : m.readLE (F - p.w) p.w = ra
  dreg : DReg p md m F

theorem SInv.keep {Γ : Gam} {env : Env} {m m' : Mem} {F D o ra : Nat} (h : SInv p md Γ env m F D o ra)
    (k : Keep p.w m m' (F - o)) (ho : p.w ≤ o) : SInv p md Γ env m' F D o ra :=
  ⟨h.fr.keep k, h.vars.keep k (Nat.le_refl _) (Nat.le_refl _), by rw [k.read _ _ (by omega)]; exact h.ra,
   h.dreg.keep k (by omega)⟩

/-- the same state seen from a situation that asks nothing of `try_fp` and `defeat` -/
theorem SInv.toMd {md' : Md} {Γ : Gam} {env : Env} {m : Mem} {F D o ra : Nat} (h : SInv p md Γ env m F D o ra)
    (hm : md'.word = none) : SInv p md' Γ env m F D o ra :=
  ⟨h.fr, h.vars, h.ra, DReg.none hm⟩

/-- … or from one that knows the same about the word `defeat` -/
theorem SInv.reMd {md' : Md} {Γ : Gam} {env : Env} {m : Mem} {F D o ra : Nat} (h : SInv p md Γ env m F D o ra)
    (e : md'.word = md.word) : SInv p md' Γ env m F D o ra :=
  ⟨h.fr, h.vars, h.ra, h.dreg.word e⟩

/-- `SInv` without the frame pointer (see `KeepD`) -/
structure SInvD (p : Prog) (md : Md) (Γ : Gam) (env : Env) (m : Mem) (F D o ra : Nat) : Prop where
  ap : m.readLE 0 p.w = 5 * p.w
  top : F ≤ m.size
  lt : F < 256 ^ p.w
  room : 5 * p.w + D = F
  vars : VarsOK p.w Γ env m F o
  ra : m.readLE (F - p.w) p.w = ra
  dreg : DReg p md m F

theorem SInv.toD {Γ : Gam} {env : Env} {m : Mem} {F D o ra : Nat} (h : SInv p md Γ env m F D o ra) : SInvD p md Γ env m F D o ra :=
  ⟨h.fr.ap, h.fr.top, h.fr.lt, h.fr.room, h.vars, h.ra, h.dreg⟩

/-- from the state at a defeat to a state in which `fp` and `ap` are (again) those of the frame `F` -/
theorem SInvD.same {md' : Md} {Γ : Gam} {env : Env} {m m' : Mem} {F D o ra : Nat} (h : SInvD p md Γ env m F D o ra)
    (ho : p.w ≤ o) (hoD : o ≤ D)
    (hsize : m'.size = m.size) (hfp : m'.readLE p.w p.w = F) (hap : m'.readLE 0 p.w = 5 * p.w)
    (hlo : ∀ x, 5 * p.w ≤ x → x < F → m'.rd x = m.rd x) (hd : DReg p md' m' F) : SInv p md' Γ env m' F D o ra := by
  have hroom := h.room
  refine ⟨⟨hfp, hap, by rw [hsize]; exact h.top, h.lt, h.room⟩, ?_, ?_, hd⟩
  · intro x hx
    obtain ⟨h1, h2, h3⟩ := h.vars x hx
    refine ⟨h1, h2, ?_⟩
    rw [← h3]; exact Mem.readLE_congr _ _ _ _ (fun y hy1 hy2 => hlo y (by omega) (by omega))
  · rw [← h.ra]; exact Mem.readLE_congr _ _ _ _ (fun y hy1 hy2 => hlo y (by omega) (by omega))

/-- a memory with the same frame (below `F`), the same `fp` and `ap`, seen from any situation whose
demands on the words behind the frame it meets -/
theorem SInv.same {md' : Md} {Γ : Gam} {env : Env} {m m' : Mem} {F D o ra : Nat} (h : SInv p md Γ env m F D o ra)
    (ho : p.w ≤ o) (hoD : o ≤ D)
    (hsize : m'.size = m.size) (hfp : m'.readLE p.w p.w = F) (hap : m'.readLE 0 p.w = 5 * p.w)
    (hlo : ∀ x, 5 * p.w ≤ x → x < F → m'.rd x = m.rd x) (hd : DReg p md' m' F) : SInv p md' Γ env m' F D o ra := by
  have hroom := h.fr.room
  refine ⟨⟨hfp, hap, by rw [hsize]; exact h.fr.top, h.fr.lt, h.fr.room⟩, ?_, ?_, hd⟩
  · intro x hx
    obtain ⟨h1, h2, h3⟩ := h.vars x hx
    refine ⟨h1, h2, ?_⟩
    rw [← h3]; exact Mem.readLE_congr _ _ _ _ (fun y hy1 hy2 => hlo y (by omega) (by omega))
  · rw [← h.ra]; exact Mem.readLE_congr _ _ _ _ (fun y hy1 hy2 => hlo y (by omega) (by omega))

/-- where control is and what holds after a statement list that started in memory `m0`: in every
case the memory at and above the frame pointer, `fp` and `ap` are what they were (`Keep … F`; at the
level of the you function the words `try_fp` and `defeat` behind the frame are excepted).  A defeat
inside a `try/stop` body leaves the machine at the handler (possibly with the frame pointer of a callee). -/
def Post (p : Prog) (B ra : Nat) (lp : Jt) (md : Md) (Γ : Gam) (env' : Env) (F D o pcEnd : Nat) (m0 : Mem) (res : Res) (st : St) : Prop :=
  match res with
  | .norm => st.pc = pcEnd ∧ SInv p md Γ env' st.mem F D o ra ∧ Keep p.w m0 st.mem (md.kb F p.w)
  | .returned => st.pc = ra ∧ Keep p.w m0 st.mem (md.kb F p.w)
  | .retv v => st.pc = ra ∧ Keep p.w m0 st.mem (md.kb F p.w) ∧ st.mem.readLE (F - p.w) p.w = v
  | .div0 => st.pc = B + off_division_by_zero
  | .ovf => st.pc = B + off_stack_overflow
  | .defeat => ∃ a v, md = .stop a v ∧ st.pc = v ∧ SInvD p md Γ env' st.mem F D o ra ∧ KeepD p.w m0 st.mem (md.kb F p.w)
  | .brk => st.pc = lp.brk ∧ SInv p md Γ env' st.mem F D o ra ∧ Keep p.w m0 st.mem (md.kb F p.w)
  | .cnt => st.pc = lp.cont ∧ SInv p md Γ env' st.mem F D o ra ∧ Keep p.w m0 st.mem (md.kb F p.w)

/-- the same facts relative to an earlier memory -/
theorem Post.rebase {B ra : Nat} {lp : Jt} {Γ : Gam} {env' : Env} {F D o e : Nat} {m m1 : Mem} {res : Res} {st : St}
    (k : Keep p.w m m1 (md.kb F p.w)) (h : Post p B ra lp md Γ env' F D o e m1 res st) : Post p B ra lp md Γ env' F D o e m res st := by
  cases res with
  | norm => exact ⟨h.1, h.2.1, k.trans' h.2.2⟩
  | returned => exact ⟨h.1, k.trans' h.2⟩
  | retv v => exact ⟨h.1, k.trans' h.2.1, h.2.2⟩
  | div0 => exact h
  | ovf => exact h
  | defeat => obtain ⟨a, v, h1, h2, h3, h4⟩ := h; exact ⟨a, v, h1, h2, h3, k.transD h4⟩
  | brk => exact ⟨h.1, h.2.1, k.trans' h.2.2⟩
  | cnt => exact ⟨h.1, h.2.1, k.trans' h.2.2⟩

/-- what holds of a list that leaves `try_fp` and `defeat` alone holds at the level of the you function (the word
`defeat` is what it was at the start) -/
theorem Post.toYou {B ra : Nat} {lp : Jt} {md1 : Md} {w : Option (Nat × Nat)} {Γ : Gam} {env' : Env} {F D o e : Nat} {m : Mem} {res : Res} {st : St}
    (hkb : md1.kb F p.w = F) (hd : DReg p (.you w) m F) (hres : res ≠ .defeat)
    (h : Post p B ra lp md1 Γ env' F D o e m res st) : Post p B ra lp (.you w) Γ env' F D o e m res st := by
  have hk : ∀ {m m' : Mem}, Keep p.w m m' (md1.kb F p.w) → Keep p.w m m' ((Md.you w).kb F p.w) :=
    fun k => k.mono (by rw [hkb]; simp [Md.kb])
  have hi : ∀ {m' : Mem}, SInv p md1 Γ env' m' F D o ra → Keep p.w m m' (md1.kb F p.w) → SInv p (.you w) Γ env' m' F D o ra :=
    fun h k => ⟨h.fr, h.vars, h.ra, hd.keep k (by rw [hkb]; exact Nat.le_refl _)⟩
  cases res with
  | norm => exact ⟨h.1, hi h.2.1 h.2.2, hk h.2.2⟩
  | returned => exact ⟨h.1, hk h.2⟩
  | retv v => exact ⟨h.1, hk h.2.1, h.2.2⟩
  | div0 => exact h
  | ovf => exact h
  | defeat => exact absurd rfl hres
  | brk => exact ⟨h.1, hi h.2.1 h.2.2, hk h.2.2⟩
  | cnt => exact ⟨h.1, hi h.2.1 h.2.2, hk h.2.2⟩

/-- a step that respects the frame respects it in every situation -/
theorem Keep.kb {m m' : Mem} {F : Nat} (k : Keep p.w m m' F) : Keep p.w m m' (md.kb F p.w) := k.mono (md.kb_ge _ _)

theorem look_cons_same (Γ : Gam) (x : String) (a : Nat) : look ((x, a) :: Γ) x = a := by
  simp [look, List.lookup]

theorem look_cons_other (Γ : Gam) (x y : String) (a : Nat) (h : y ≠ x) : look ((x, a) :: Γ) y = look Γ y := by
  simp only [look, List.lookup]
  have : (y == x) = false := by simpa using h
  rw [this]

theorem upd_same (env : Env) (x : String) (v : Nat) : upd env x v x = v := by simp [upd]
theorem upd_other (env : Env) (x y : String) (v : Nat) (h : y ≠ x) : upd env x v y = env y := by simp [upd, h]


theorem contains_cons_fst (Γ : Gam) (x y : String) (a : Nat) :
    (((x, a) :: Γ).map Prod.fst).contains y = (y == x || (Γ.map Prod.fst).contains y) := by
  simp [List.contains_cons]

/-- entering the scope of a new variable whose value was just pushed -/
theorem decl_inv {Γ : Gam} {env : Env} {m m1 : Mem} {F D o ra : Nat} (h : SInv p md Γ env m F D o ra)
    (hd : Disj p.w Γ) (x : String) (v : Nat) (k : Keep p.w m m1 (F - o))
    (hval : m1.readLE (F - (o + p.w)) p.w = v) (hx : (Γ.map Prod.fst).contains x = false) (ho : p.w ≤ o) :
    SInv p md ((x, o + p.w) :: Γ) (upd env x v) m1 F D (o + p.w) ra ∧ Disj p.w ((x, o + p.w) :: Γ) := by
  refine ⟨⟨h.fr.keep k, ?_, by rw [k.read _ _ (by omega)]; exact h.ra, h.dreg.keep k (by omega)⟩, ?_⟩
  · intro y hy
    rw [contains_cons_fst] at hy
    by_cases hyx : y = x
    · subst hyx
      rw [look_cons_same, upd_same]; exact ⟨by omega, Nat.le_refl _, hval⟩
    · have hy' : (Γ.map Prod.fst).contains y = true := by
        have : (y == x) = false := by simpa using hyx
        simpa [this] using hy
      obtain ⟨h1, h2, h3⟩ := h.vars y hy'
      rw [look_cons_other _ _ _ _ hyx, upd_other _ _ _ _ hyx]
      exact ⟨h1, by omega, by rw [k.read _ _ (by omega)]; exact h3⟩
  · intro y z hy hz hyz
    rw [contains_cons_fst] at hy hz
    by_cases hyx : y = x
    · subst hyx
      have hzx : z ≠ y := fun e => hyz e.symm
      have hz' : (Γ.map Prod.fst).contains z = true := by
        have : (z == y) = false := by simpa using hzx
        simpa [this] using hz
      rw [look_cons_same, look_cons_other _ _ _ _ hzx]
      have := (h.vars z hz').2.1; omega
    · have hy' : (Γ.map Prod.fst).contains y = true := by
        have : (y == x) = false := by simpa using hyx
        simpa [this] using hy
      rw [look_cons_other _ _ _ _ hyx]
      by_cases hzx : z = x
      · subst hzx
        rw [look_cons_same]
        have := (h.vars y hy').2.1; omega
      · have hz' : (Γ.map Prod.fst).contains z = true := by
          have : (z == x) = false := by simpa using hzx
          simpa [this] using hz
        rw [look_cons_other _ _ _ _ hzx]
        exact hd y z hy' hz' hyz

/-- leaving the scope again -/
theorem decl_back {Γ : Gam} {env env' : Env} {m m' : Mem} {F D o ra : Nat} (h0 : SInv p md Γ env m F D o ra)
    (x : String) (h : SInv p md ((x, o + p.w) :: Γ) env' m' F D (o + p.w) ra)
    (hx : (Γ.map Prod.fst).contains x = false) : SInv p md Γ env' m' F D o ra := by
  refine ⟨h.fr, ?_, h.ra, h.dreg⟩
  intro y hy
  have hyx : y ≠ x := by intro e; subst e; rw [hx] at hy; exact absurd hy (by simp)
  have := h.vars y (by rw [contains_cons_fst, hy]; simp)
  rw [look_cons_other _ _ _ _ hyx] at this
  exact ⟨this.1, (h0.vars y hy).2.1, this.2.2⟩

theorem decl_backD {Γ : Gam} {env env' : Env} {m m' : Mem} {F D o ra : Nat} (h0 : SInv p md Γ env m F D o ra)
    (x : String) (h : SInvD p md ((x, o + p.w) :: Γ) env' m' F D (o + p.w) ra)
    (hx : (Γ.map Prod.fst).contains x = false) : SInvD p md Γ env' m' F D o ra := by
  refine ⟨h.ap, h.top, h.lt, h.room, ?_, h.ra, h.dreg⟩
  intro y hy
  have hyx : y ≠ x := by intro e; subst e; rw [hx] at hy; exact absurd hy (by simp)
  have := h.vars y (by rw [contains_cons_fst, hy]; simp)
  rw [look_cons_other _ _ _ _ hyx] at this
  exact ⟨this.1, (h0.vars y hy).2.1, this.2.2⟩

/-- assignment to a variable in scope -/
theorem assign_inv (hw : 2 ≤ p.w) {Γ : Gam} {env : Env} {m : Mem} {F D o ra : Nat} (h : SInv p md Γ env m F D o ra)
    (hd : Disj p.w Γ) (x : String) (v : Nat) (hv : v < 256 ^ p.w) (hx : (Γ.map Prod.fst).contains x = true)
    (hoD : o ≤ D) :
    SInv p md Γ (upd env x v) (m.writeLE (F - look Γ x) p.w v) F D o ra := by
  obtain ⟨hx1, hx2, _⟩ := h.vars x hx
  have hroom := h.fr.room; have htop := h.fr.top
  have k : Keep p.w m (m.writeLE (F - look Γ x) p.w v) (F - look Γ x + p.w) :=
    Keep.write _ _ _ _ _ _ (by omega) (Nat.le_refl _)
  refine ⟨h.fr.keep k, ?_, by rw [Mem.readLE_writeLE_disj _ _ _ _ _ _ (by omega)]; exact h.ra, h.dreg.keep k (by omega)⟩
  intro y hy
  obtain ⟨h1, h2, h3⟩ := h.vars y hy
  by_cases hyx : y = x
  · subst hyx
    rw [upd_same]
    exact ⟨h1, h2, by rw [Mem.readLE_writeLE_same _ _ _ _ (by omega)]; exact Nat.mod_eq_of_lt hv⟩
  · rw [upd_other _ _ _ _ hyx]
    have := hd y x hy hx hyx
    exact ⟨h1, h2, by rw [Mem.readLE_writeLE_disj _ _ _ _ _ _ (by omega)]; exact h3⟩


theorem pkS_ge (w : Nat) (s : S) : ∀ o, o ≤ pkS w o s := by
  induction s with
  | nil => intro o; simp [pkS]
  | ret => intro o; simp [pkS]
  | brk => intro o; simp [pkS]
  | cnt => intro o; simp [pkS]
  | decl x e k ih => intro o; have := ih (o + w); simp only [pkS]; omega
  | assign x e k ih => intro o; have := ih o; simp only [pkS]; omega
  | write e k ih => intro o; have := ih o; simp only [pkS]; omega
  | writeln e k ih => intro o; have := ih o; cases e <;> simp only [pkS] <;> omega
  | putc c k ih => intro o; simpa [pkS] using ih o
  | block b k _ ih => intro o; have := ih o; simp only [pkS]; omega
  | ifb c t e k _ _ ih => intro o; have := ih o; simp only [pkS]; omega
  | loop c b ct k _ _ ih => intro o; have := ih o; simp only [pkS]; omega
  | defeat k ih => intro o; simpa [pkS] using ih o
  | defeatIf c k ih => intro o; have := ih o; simp only [pkS]; omega
  | tryUndo b h k _ _ ih => intro o; have := ih o; simp only [pkS]; omega
  | tryStop b h k _ _ ih => intro o; have := ih o; simp only [pkS]; omega
  | retE e => intro o; simpa [pkS] using pkE_ge w e o false
  | callS g args k ih => intro o; have := ih o; simp only [pkS]; omega
  | declCall x g args k ih => intro o; have := ih (o + w); simp only [pkS, pkCall]; omega
  | assignCall x g args k ih => intro o; have := ih o; simp only [pkS]; omega

theorem yld_reach (pc v : Nat) (m : Mem) (h : p.code[pc]? = some (.yld (.imm v))) :
    Reach (sphinx p) ⟨pc, m⟩ [Ev.out (v % p.M % 256)] ⟨pc + 1, m⟩ := by
  simpa [evl] using Reach.of_next (sys := sphinx p) (step_yld (m := m) h (ev_imm v))

theorem goto_reach (lib : Placed p B) (pc t : Nat) (m : Mem) (h : PlacedAt p pc (goto t)) (ht : t < 256 ^ p.w) :
    Reach (sphinx p) ⟨pc, m⟩ [] ⟨t, m⟩ := by
  simpa using br_reach lib pc m (some t) h (fun x hx => by simp at hx; omega)


end

/-! ## levels: where `try` and defeat calls may occur -/
theorem plain_noTry (fns : List FDecl) (s : S) : plain fns s = true → noTry s = true := by
  induction s with
  | nil => intro; rfl
  | ret => intro; rfl
  | brk => intro; rfl
  | cnt => intro; rfl
  | decl x e k ih => simpa [plain, noTry] using ih
  | assign x e k ih => simpa [plain, noTry] using ih
  | write e k ih => simpa [plain, noTry] using ih
  | writeln e k ih => simpa [plain, noTry] using ih
  | putc c k ih => simpa [plain, noTry] using ih
  | block b k ihb ihk => simp only [plain, noTry, Bool.and_eq_true]; exact fun h => ⟨ihb h.1, ihk h.2⟩
  | ifb c t e k iht ihe ihk =>
    simp only [plain, noTry, Bool.and_eq_true]; exact fun h => ⟨⟨iht h.1.1, ihe h.1.2⟩, ihk h.2⟩
  | loop c b ct k ihb ihc ihk =>
    simp only [plain, noTry, Bool.and_eq_true]; exact fun h => ⟨⟨ihb h.1.1, ihc h.1.2⟩, ihk h.2⟩
  | defeat k _ => simp [plain]
  | defeatIf c k _ => simp [plain]
  | tryUndo b h k _ _ _ => simp [plain]
  | tryStop b h k _ _ _ => simp [plain]
  | retE e => intro; rfl
  | callS g args k ih => simp only [plain, noTry, Bool.and_eq_true]; exact fun h => ih h.2
  | declCall x g args k ih => simp only [plain, noTry, Bool.and_eq_true]; exact fun h => ih h.2
  | assignCall x g args k ih => simp only [plain, noTry, Bool.and_eq_true]; exact fun h => ih h.2

theorem plain_youLevel (st : Bool) (fns : List FDecl) (s : S) : plain fns s = true → youLevel st fns s = true := by
  induction s with
  | nil => intro; rfl
  | ret => intro; rfl
  | brk => intro; rfl
  | cnt => intro; rfl
  | decl x e k ih => simpa [plain, youLevel] using ih
  | assign x e k ih => simpa [plain, youLevel] using ih
  | write e k ih => simpa [plain, youLevel] using ih
  | writeln e k ih => simpa [plain, youLevel] using ih
  | putc c k ih => simpa [plain, youLevel] using ih
  | block b k ihb ihk => simp only [plain, youLevel, Bool.and_eq_true]; exact fun h => ⟨ihb h.1, ihk h.2⟩
  | ifb c t e k iht ihe ihk =>
    simp only [plain, youLevel, Bool.and_eq_true]; exact fun h => ⟨⟨iht h.1.1, ihe h.1.2⟩, ihk h.2⟩
  | loop c b ct k ihb ihc ihk =>
    simp only [plain, youLevel, Bool.and_eq_true]; exact fun h => ⟨⟨ihb h.1.1, ihc h.1.2⟩, ihk h.2⟩
  | defeat k _ => simp [plain]
  | defeatIf c k _ => simp [plain]
  | tryUndo b h k _ _ _ => simp [plain]
  | tryStop b h k _ _ _ => simp [plain]
  | retE e => intro; rfl
  | callS g args k ih => simp only [plain, youLevel, Bool.and_eq_true]; exact fun h => ⟨h.1, ih h.2⟩
  | declCall x g args k ih => simp only [plain, youLevel, Bool.and_eq_true]; exact fun h => ⟨h.1, ih h.2⟩
  | assignCall x g args k ih => simp only [plain, youLevel, Bool.and_eq_true]; exact fun h => ⟨h.1, ih h.2⟩

/-- the only ways a call can end the run: a fault, or a defeat inside a defeat function -/
theorem callWith_fault {M n : Nat} {fns : List FDecl} {w : Nat} {ex : (room o : Nat) → Env → S → Option (Env × List Ev × Res)}
    {room o : Nat} {env : Env} {g : String} {args : List E} {trc : List Ev} {r : Res} {rv : Option Nat}
    (h : callWith M n fns w ex room o env g args = some (trc, some r, rv)) :
    r = .div0 ∨ r = .ovf ∨ (r = .defeat ∧ isDfn fns g = true) := by
  unfold callWith at h
  cases hev : evalArgs M n env args with
  | none => simp only [hev, Option.some.injEq, Prod.mk.injEq] at h; exact Or.inl h.2.1.symm
  | some vs =>
    simp only [hev] at h
    cases hfind : fns.find? (fun fd => fd.name == g) with
    | none => simp [hfind] at h
    | some fd =>
      simp only [hfind] at h
      split at h
      · simp at h
      · split at h
        · simp only [Option.some.injEq, Prod.mk.injEq] at h; exact Or.inr (Or.inl h.2.1.symm)
        · cases hr : ex (room - o) (entryOff w fd.params) (bindEnv fd.params vs) fd.body with
          | none => simp [hr] at h
          | some t =>
            obtain ⟨e1, t1, r1⟩ := t
            cases r1 with
            | norm => simp [hr] at h
            | returned => simp [hr] at h
            | retv v => simp [hr] at h
            | brk => simp [hr] at h
            | cnt => simp [hr] at h
            | div0 => simp only [hr, Option.some.injEq, Prod.mk.injEq] at h; exact Or.inl h.2.1.symm
            | ovf => simp only [hr, Option.some.injEq, Prod.mk.injEq] at h; exact Or.inr (Or.inl h.2.1.symm)
            | defeat =>
              simp only [hr] at h
              cases hd : fd.dfn with
              | false => simp [hd] at h
              | true =>
                simp only [hd, if_true, Option.some.injEq, Prod.mk.injEq] at h
                exact Or.inr (Or.inr ⟨h.2.1.symm, by simp [isDfn, hfind, hd]⟩)

/-- at the level of the you function a defeat never escapes: every defeat call sits in a `try` -/
theorem exec_no_defeat (M n : Nat) (fns : List FDecl) (w : Nat) (st : Bool) : ∀ (fuel : Nat) (s : S) (room o : Nat) (env env' : Env) (tr : List Ev) (res : Res),
    youLevel st fns s = true → exec M n fns w fuel room o env s = some (env', tr, res) → res ≠ .defeat := by
  intro fuel
  induction fuel with
  | zero => intro s room o env env' tr res _ h; simp [exec] at h
  | succ f ih =>
    intro s room o env env' tr res hy hex
    cases s with
    | nil => simp only [exec, Option.some.injEq, Prod.mk.injEq] at hex; rw [← hex.2.2]; decide
    | ret => simp only [exec, Option.some.injEq, Prod.mk.injEq] at hex; rw [← hex.2.2]; decide
    | brk => simp only [exec, Option.some.injEq, Prod.mk.injEq] at hex; rw [← hex.2.2]; decide
    | cnt => simp only [exec, Option.some.injEq, Prod.mk.injEq] at hex; rw [← hex.2.2]; decide
    | decl x e k =>
      simp only [youLevel] at hy
      simp only [exec] at hex
      cases hev : evalE M n env e with
      | none => simp only [hev, Option.some.injEq, Prod.mk.injEq] at hex; rw [← hex.2.2]; decide
      | some v => simp only [hev] at hex; exact ih k _ _ _ _ _ _ hy hex
    | assign x e k =>
      simp only [youLevel] at hy
      simp only [exec] at hex
      cases hev : evalE M n env e with
      | none => simp only [hev, Option.some.injEq, Prod.mk.injEq] at hex; rw [← hex.2.2]; decide
      | some v => simp only [hev] at hex; exact ih k _ _ _ _ _ _ hy hex
    | write e k =>
      simp only [youLevel] at hy
      simp only [exec] at hex
      cases hev : evalE M n env e with
      | none => simp only [hev, Option.some.injEq, Prod.mk.injEq] at hex; rw [← hex.2.2]; decide
      | some v =>
        simp only [hev] at hex
        cases hk : exec M n fns w f room o env k with
        | none => simp [hk] at hex
        | some rk =>
          obtain ⟨e1, t1, r1⟩ := rk
          simp only [hk, Option.bind_eq_bind, Option.bind_some, Option.pure_def, Option.some.injEq, Prod.mk.injEq] at hex
          rw [← hex.2.2]; exact ih k _ _ _ _ _ _ hy hk
    | writeln e k =>
      simp only [youLevel] at hy
      cases e with
      | none =>
        simp only [exec] at hex
        cases hk : exec M n fns w f room o env k with
        | none => simp [hk] at hex
        | some rk =>
          obtain ⟨e1, t1, r1⟩ := rk
          simp only [hk, Option.bind_eq_bind, Option.bind_some, Option.pure_def, Option.some.injEq, Prod.mk.injEq] at hex
          rw [← hex.2.2]; exact ih k _ _ _ _ _ _ hy hk
      | some e =>
        simp only [exec] at hex
        cases hev : evalE M n env e with
        | none => simp only [hev, Option.some.injEq, Prod.mk.injEq] at hex; rw [← hex.2.2]; decide
        | some v =>
          simp only [hev] at hex
          cases hk : exec M n fns w f room o env k with
          | none => simp [hk] at hex
          | some rk =>
            obtain ⟨e1, t1, r1⟩ := rk
            simp only [hk, Option.bind_eq_bind, Option.bind_some, Option.pure_def, Option.some.injEq, Prod.mk.injEq] at hex
            rw [← hex.2.2]; exact ih k _ _ _ _ _ _ hy hk
    | putc c k =>
      simp only [youLevel] at hy
      simp only [exec] at hex
      cases hk : exec M n fns w f room o env k with
      | none => simp [hk] at hex
      | some rk =>
        obtain ⟨e1, t1, r1⟩ := rk
        simp only [hk, Option.bind_eq_bind, Option.bind_some, Option.pure_def, Option.some.injEq, Prod.mk.injEq] at hex
        rw [← hex.2.2]; exact ih k _ _ _ _ _ _ hy hk
    | block b k =>
      simp only [youLevel, Bool.and_eq_true] at hy
      simp only [exec] at hex
      cases hb : exec M n fns w f room o env b with
      | none => simp [hb] at hex
      | some rb =>
        obtain ⟨e1, t1, r1⟩ := rb
        simp only [hb, Option.bind_eq_bind, Option.bind_some] at hex
        have h1 := ih b _ _ _ _ _ _ hy.1 hb
        by_cases hn : r1 = .norm
        · subst hn
          simp only [if_true] at hex
          cases hk : exec M n fns w f room o e1 k with
          | none => simp [hk] at hex
          | some rk =>
            obtain ⟨e2, t2, r2⟩ := rk
            simp only [hk, Option.bind_some, Option.pure_def, Option.some.injEq, Prod.mk.injEq] at hex
            rw [← hex.2.2]; exact ih k _ _ _ _ _ _ hy.2 hk
        · simp only [hn, if_false, Option.pure_def, Option.some.injEq, Prod.mk.injEq] at hex
          rw [← hex.2.2]; exact h1
    | ifb c t e k =>
      simp only [youLevel, Bool.and_eq_true] at hy
      simp only [exec] at hex
      cases hev : evalB M n env c with
      | none => simp only [hev, Option.some.injEq, Prod.mk.injEq] at hex; rw [← hex.2.2]; decide
      | some cv =>
        simp only [hev] at hex
        cases hb : exec M n fns w f room o env (if cv = true then t else e) with
        | none => simp [hb] at hex
        | some rb =>
          obtain ⟨e1, t1, r1⟩ := rb
          simp only [hb, Option.bind_eq_bind, Option.bind_some] at hex
          have h1 : r1 ≠ .defeat := ih _ _ _ _ _ _ _ (by cases cv <;> simp [hy.1.1, hy.1.2]) hb
          by_cases hn : r1 = .norm
          · subst hn
            simp only [if_true] at hex
            cases hk : exec M n fns w f room o e1 k with
            | none => simp [hk] at hex
            | some rk =>
              obtain ⟨e2, t2, r2⟩ := rk
              simp only [hk, Option.bind_some, Option.pure_def, Option.some.injEq, Prod.mk.injEq] at hex
              rw [← hex.2.2]; exact ih k _ _ _ _ _ _ hy.2 hk
          · simp only [hn, if_false, Option.pure_def, Option.some.injEq, Prod.mk.injEq] at hex
            rw [← hex.2.2]; exact h1
    | loop c body cont k =>
      have hy0 := hy
      simp only [youLevel, Bool.and_eq_true] at hy
      simp only [exec] at hex
      cases hev : evalB M n env c with
      | none => simp only [hev, Option.some.injEq, Prod.mk.injEq] at hex; rw [← hex.2.2]; decide
      | some cv =>
        cases cv with
        | false => simp only [hev] at hex; exact ih k _ _ _ _ _ _ hy.2 hex
        | true =>
          simp only [hev] at hex
          cases hb : exec M n fns w f room o env body with
          | none => simp [hb] at hex
          | some rb =>
            obtain ⟨e1, t1, r1⟩ := rb
            simp only [hb, Option.bind_eq_bind, Option.bind_some] at hex
            have h1 := ih body _ _ _ _ _ _ hy.1.1 hb
            by_cases hn : r1 = .norm ∨ r1 = .cnt
            · rw [if_pos hn] at hex
              cases hc : exec M n fns w f room o e1 cont with
              | none => simp [hc] at hex
              | some rc =>
                obtain ⟨e2, t2, r2⟩ := rc
                simp only [hc, Option.bind_some] at hex
                have h2 := ih cont _ _ _ _ _ _ hy.1.2 hc
                by_cases hn2 : r2 = .norm
                · subst hn2
                  simp only [if_true] at hex
                  cases hl : exec M n fns w f room o e2 (.loop c body cont k) with
                  | none => simp [hl] at hex
                  | some rl =>
                    obtain ⟨e3, t3, r3⟩ := rl
                    simp only [hl, Option.bind_some, Option.pure_def, Option.some.injEq, Prod.mk.injEq] at hex
                    rw [← hex.2.2]; exact ih _ _ _ _ _ _ _ hy0 hl
                · simp only [hn2, if_false, Option.pure_def, Option.some.injEq, Prod.mk.injEq] at hex
                  rw [← hex.2.2]; exact h2
            · rw [if_neg hn] at hex
              by_cases hbk : r1 = .brk
              · rw [if_pos hbk] at hex
                cases hk : exec M n fns w f room o e1 k with
                | none => simp [hk] at hex
                | some rk =>
                  obtain ⟨e3, t3, r3⟩ := rk
                  simp only [hk, Option.bind_some, Option.pure_def, Option.some.injEq, Prod.mk.injEq] at hex
                  rw [← hex.2.2]; exact ih k _ _ _ _ _ _ hy.2 hk
              · rw [if_neg hbk] at hex
                simp only [Option.pure_def, Option.some.injEq, Prod.mk.injEq] at hex
                rw [← hex.2.2]; exact h1
    | defeat k => simp [youLevel] at hy
    | defeatIf c k => simp [youLevel] at hy
    | tryUndo body handler k =>
      simp only [youLevel, Bool.and_eq_true] at hy
      simp only [exec] at hex
      cases hb : exec M n fns w f room o env body with
      | none => simp [hb] at hex
      | some rb =>
        obtain ⟨e1, t1, r1⟩ := rb
        simp only [hb, Option.bind_eq_bind, Option.bind_some] at hex
        by_cases hd : r1 = .defeat
        · subst hd
          simp only [if_true] at hex
          cases hh : exec M n fns w f room o env handler with
          | none => simp [hh] at hex
          | some rh =>
            obtain ⟨e2, t2, r2⟩ := rh
            simp only [hh, Option.bind_some] at hex
            have h2 := ih handler _ _ _ _ _ _ (plain_youLevel _ _ _ hy.1.2) hh
            by_cases hn2 : r2 = .norm
            · subst hn2
              simp only [if_true] at hex
              cases hk : exec M n fns w f room o e2 k with
              | none => simp [hk] at hex
              | some rk =>
                obtain ⟨e3, t3, r3⟩ := rk
                simp only [hk, Option.bind_some, Option.pure_def, Option.some.injEq, Prod.mk.injEq] at hex
                rw [← hex.2.2]; exact ih k _ _ _ _ _ _ hy.2 hk
            · simp only [hn2, if_false, Option.pure_def, Option.some.injEq, Prod.mk.injEq] at hex
              rw [← hex.2.2]; exact h2
        · simp only [hd, if_false] at hex
          by_cases hn : r1 = .norm
          · subst hn
            simp only [if_true] at hex
            cases hk : exec M n fns w f room o e1 k with
            | none => simp [hk] at hex
            | some rk =>
              obtain ⟨e3, t3, r3⟩ := rk
              simp only [hk, Option.bind_some, Option.pure_def, Option.some.injEq, Prod.mk.injEq] at hex
              rw [← hex.2.2]; exact ih k _ _ _ _ _ _ hy.2 hk
          · simp only [hn, if_false, Option.pure_def, Option.some.injEq, Prod.mk.injEq] at hex
            rw [← hex.2.2]; exact hd

    | tryStop body handler k =>
      simp only [youLevel, Bool.and_eq_true] at hy
      simp only [exec] at hex
      cases hb : exec M n fns w f room (o + w) (upd env "%ap" (5 * w)) body with
      | none => simp [hb] at hex
      | some rb =>
        obtain ⟨e1, t1, r1⟩ := rb
        simp only [hb, Option.bind_eq_bind, Option.bind_some] at hex
        by_cases hd : r1 = .defeat
        · subst hd
          simp only [if_true] at hex
          by_cases hap : e1 "%ap" = 5 * w
          case neg => simp [hap] at hex
          simp only [hap, ne_eq, not_true_eq_false, if_false] at hex
          cases hh : exec M n fns w f room o e1 handler with
          | none => simp [hh] at hex
          | some rh =>
            obtain ⟨e2, t2, r2⟩ := rh
            simp only [hh, Option.bind_some] at hex
            have h2 := ih handler _ _ _ _ _ _ (plain_youLevel _ _ _ hy.1.2) hh
            by_cases hn2 : r2 = .norm
            · subst hn2
              simp only [if_true] at hex
              cases hk : exec M n fns w f room o e2 k with
              | none => simp [hk] at hex
              | some rk =>
                obtain ⟨e3, t3, r3⟩ := rk
                simp only [hk, Option.bind_some, Option.pure_def, Option.some.injEq, Prod.mk.injEq] at hex
                rw [← hex.2.2]; exact ih k _ _ _ _ _ _ hy.2 hk
            · simp only [hn2, if_false, Option.pure_def, Option.some.injEq, Prod.mk.injEq] at hex
              rw [← hex.2.2]; exact h2
        · simp only [hd, if_false] at hex
          by_cases hn : r1 = .norm
          · subst hn
            simp only [if_true] at hex
            cases hk : exec M n fns w f room o e1 k with
            | none => simp [hk] at hex
            | some rk =>
              obtain ⟨e3, t3, r3⟩ := rk
              simp only [hk, Option.bind_some, Option.pure_def, Option.some.injEq, Prod.mk.injEq] at hex
              rw [← hex.2.2]; exact ih k _ _ _ _ _ _ hy.2 hk
          · simp only [hn, if_false, Option.pure_def, Option.some.injEq, Prod.mk.injEq] at hex
            rw [← hex.2.2]; exact hd

    | retE e =>
      simp only [exec] at hex
      cases hev : evalE M n env e with
      | none => simp only [hev, Option.some.injEq, Prod.mk.injEq] at hex; rw [← hex.2.2]; decide
      | some v => simp only [hev, Option.some.injEq, Prod.mk.injEq] at hex; rw [← hex.2.2]; simp
    | callS g args k =>
      simp only [youLevel] at hy
      simp only [exec] at hex
      cases hc : callWith M n fns w (exec M n fns w f) room o env g args with
      | none => simp [hc] at hex
      | some rc =>
        obtain ⟨trc, flag, rv⟩ := rc
        cases flag with
        | some rf =>
          simp only [hc, Option.some.injEq, Prod.mk.injEq] at hex; rw [← hex.2.2]
          rcases callWith_fault hc with h | h | ⟨_, hdf⟩
          · rw [h]; decide
          · rw [h]; decide
          · simp only [Bool.and_eq_true, Bool.not_eq_true'] at hy; rw [hy.1] at hdf; cases hdf
        | none =>
          simp only [hc] at hex
          cases hk : exec M n fns w f room o env k with
          | none => simp [hk] at hex
          | some rk =>
            obtain ⟨e1, t1, r1⟩ := rk
            simp only [hk, Option.bind_eq_bind, Option.bind_some, Option.pure_def, Option.some.injEq, Prod.mk.injEq] at hex
            rw [← hex.2.2]; exact ih k _ _ _ _ _ _ (by simp only [Bool.and_eq_true] at hy; exact hy.2) hk
    | declCall x g args k =>
      simp only [youLevel] at hy
      simp only [exec] at hex
      cases hc : callWith M n fns w (exec M n fns w f) room o env g args with
      | none => simp [hc] at hex
      | some rc =>
        obtain ⟨trc, flag, rv⟩ := rc
        cases flag with
        | some rf =>
          simp only [hc, Option.some.injEq, Prod.mk.injEq] at hex; rw [← hex.2.2]
          rcases callWith_fault hc with h | h | ⟨_, hdf⟩
          · rw [h]; decide
          · rw [h]; decide
          · simp only [Bool.and_eq_true, Bool.not_eq_true'] at hy; rw [hy.1] at hdf; cases hdf
        | none =>
          cases rv with
          | none => simp [hc] at hex
          | some v =>
            simp only [hc] at hex
            cases hk : exec M n fns w f room (o + w) (upd env x v) k with
            | none => simp [hk] at hex
            | some rk =>
              obtain ⟨e1, t1, r1⟩ := rk
              simp only [hk, Option.bind_eq_bind, Option.bind_some, Option.pure_def, Option.some.injEq, Prod.mk.injEq] at hex
              rw [← hex.2.2]; exact ih k _ _ _ _ _ _ (by simp only [Bool.and_eq_true] at hy; exact hy.2) hk
    | assignCall x g args k =>
      simp only [youLevel] at hy
      simp only [exec] at hex
      cases hc : callWith M n fns w (exec M n fns w f) room o env g args with
      | none => simp [hc] at hex
      | some rc =>
        obtain ⟨trc, flag, rv⟩ := rc
        cases flag with
        | some rf =>
          simp only [hc, Option.some.injEq, Prod.mk.injEq] at hex; rw [← hex.2.2]
          rcases callWith_fault hc with h | h | ⟨_, hdf⟩
          · rw [h]; decide
          · rw [h]; decide
          · simp only [Bool.and_eq_true, Bool.not_eq_true'] at hy; rw [hy.1] at hdf; cases hdf
        | none =>
          cases rv with
          | none => simp [hc] at hex
          | some v =>
            simp only [hc] at hex
            cases hk : exec M n fns w f room o (upd env x v) k with
            | none => simp [hk] at hex
            | some rk =>
              obtain ⟨e1, t1, r1⟩ := rk
              simp only [hk, Option.bind_eq_bind, Option.bind_some, Option.pure_def, Option.some.injEq, Prod.mk.injEq] at hex
              rw [← hex.2.2]; exact ih k _ _ _ _ _ _ (by simp only [Bool.and_eq_true] at hy; exact hy.2) hk

/-- a list that cannot fall off its end never finishes normally -/
theorem exec_noFall (M n : Nat) (fns : List FDecl) (w : Nat) : ∀ (fuel : Nat) (s : S) (room o : Nat) (env env' : Env) (tr : List Ev) (res : Res),
    noFall s = true → exec M n fns w fuel room o env s = some (env', tr, res) → res ≠ .norm := by
  intro fuel
  induction fuel with
  | zero => intro s room o env env' tr res _ h; simp [exec] at h
  | succ f ih =>
    intro s room o env env' tr res hy hex
    cases s with
    | nil => simp [noFall] at hy
    | ret => simp only [exec, Option.some.injEq, Prod.mk.injEq] at hex; rw [← hex.2.2]; decide
    | brk => simp only [exec, Option.some.injEq, Prod.mk.injEq] at hex; rw [← hex.2.2]; decide
    | cnt => simp only [exec, Option.some.injEq, Prod.mk.injEq] at hex; rw [← hex.2.2]; decide
    | decl x e k =>
      simp only [noFall] at hy
      simp only [exec] at hex
      cases hev : evalE M n env e with
      | none => simp only [hev, Option.some.injEq, Prod.mk.injEq] at hex; rw [← hex.2.2]; decide
      | some v => simp only [hev] at hex; exact ih k _ _ _ _ _ _ hy hex
    | assign x e k =>
      simp only [noFall] at hy
      simp only [exec] at hex
      cases hev : evalE M n env e with
      | none => simp only [hev, Option.some.injEq, Prod.mk.injEq] at hex; rw [← hex.2.2]; decide
      | some v => simp only [hev] at hex; exact ih k _ _ _ _ _ _ hy hex
    | write e k =>
      simp only [noFall] at hy
      simp only [exec] at hex
      cases hev : evalE M n env e with
      | none => simp only [hev, Option.some.injEq, Prod.mk.injEq] at hex; rw [← hex.2.2]; decide
      | some v =>
        simp only [hev] at hex
        cases hk : exec M n fns w f room o env k with
        | none => simp [hk] at hex
        | some rk =>
          obtain ⟨e1, t1, r1⟩ := rk
          simp only [hk, Option.bind_eq_bind, Option.bind_some, Option.pure_def, Option.some.injEq, Prod.mk.injEq] at hex
          rw [← hex.2.2]; exact ih k _ _ _ _ _ _ hy hk
    | writeln e k =>
      simp only [noFall] at hy
      cases e with
      | none =>
        simp only [exec] at hex
        cases hk : exec M n fns w f room o env k with
        | none => simp [hk] at hex
        | some rk =>
          obtain ⟨e1, t1, r1⟩ := rk
          simp only [hk, Option.bind_eq_bind, Option.bind_some, Option.pure_def, Option.some.injEq, Prod.mk.injEq] at hex
          rw [← hex.2.2]; exact ih k _ _ _ _ _ _ hy hk
      | some e =>
        simp only [exec] at hex
        cases hev : evalE M n env e with
        | none => simp only [hev, Option.some.injEq, Prod.mk.injEq] at hex; rw [← hex.2.2]; decide
        | some v =>
          simp only [hev] at hex
          cases hk : exec M n fns w f room o env k with
          | none => simp [hk] at hex
          | some rk =>
            obtain ⟨e1, t1, r1⟩ := rk
            simp only [hk, Option.bind_eq_bind, Option.bind_some, Option.pure_def, Option.some.injEq, Prod.mk.injEq] at hex
            rw [← hex.2.2]; exact ih k _ _ _ _ _ _ hy hk
    | putc c k =>
      simp only [noFall] at hy
      simp only [exec] at hex
      cases hk : exec M n fns w f room o env k with
      | none => simp [hk] at hex
      | some rk =>
        obtain ⟨e1, t1, r1⟩ := rk
        simp only [hk, Option.bind_eq_bind, Option.bind_some, Option.pure_def, Option.some.injEq, Prod.mk.injEq] at hex
        rw [← hex.2.2]; exact ih k _ _ _ _ _ _ hy hk
    | block b k =>
      simp only [noFall, Bool.or_eq_true] at hy
      simp only [exec] at hex
      cases hb : exec M n fns w f room o env b with
      | none => simp [hb] at hex
      | some rb =>
        obtain ⟨e1, t1, r1⟩ := rb
        simp only [hb, Option.bind_eq_bind, Option.bind_some] at hex
        by_cases hn : r1 = .norm
        · subst hn
          simp only [if_true] at hex
          cases hk : exec M n fns w f room o e1 k with
          | none => simp [hk] at hex
          | some rk =>
            obtain ⟨e2, t2, r2⟩ := rk
            simp only [hk, Option.bind_some, Option.pure_def, Option.some.injEq, Prod.mk.injEq] at hex
            rw [← hex.2.2]
            rcases hy with hy | hy
            · exact absurd rfl (ih b _ _ _ _ _ _ hy hb)
            · exact ih k _ _ _ _ _ _ hy hk
        · simp only [hn, if_false, Option.pure_def, Option.some.injEq, Prod.mk.injEq] at hex
          rw [← hex.2.2]; exact hn
    | ifb c t e k =>
      simp only [noFall, Bool.or_eq_true, Bool.and_eq_true] at hy
      simp only [exec] at hex
      cases hev : evalB M n env c with
      | none => simp only [hev, Option.some.injEq, Prod.mk.injEq] at hex; rw [← hex.2.2]; decide
      | some cv =>
        simp only [hev] at hex
        cases hb : exec M n fns w f room o env (if cv = true then t else e) with
        | none => simp [hb] at hex
        | some rb =>
          obtain ⟨e1, t1, r1⟩ := rb
          simp only [hb, Option.bind_eq_bind, Option.bind_some] at hex
          by_cases hn : r1 = .norm
          · subst hn
            simp only [if_true] at hex
            cases hk : exec M n fns w f room o e1 k with
            | none => simp [hk] at hex
            | some rk =>
              obtain ⟨e2, t2, r2⟩ := rk
              simp only [hk, Option.bind_some, Option.pure_def, Option.some.injEq, Prod.mk.injEq] at hex
              rw [← hex.2.2]
              rcases hy with hy | hy
              · exact absurd rfl (ih _ _ _ _ _ _ _ (by cases cv <;> simp [hy.1, hy.2]) hb)
              · exact ih k _ _ _ _ _ _ hy hk
          · simp only [hn, if_false, Option.pure_def, Option.some.injEq, Prod.mk.injEq] at hex
            rw [← hex.2.2]; exact hn
    | loop c body cont k =>
      have hy0 := hy
      simp only [noFall] at hy
      simp only [exec] at hex
      cases hev : evalB M n env c with
      | none => simp only [hev, Option.some.injEq, Prod.mk.injEq] at hex; rw [← hex.2.2]; decide
      | some cv =>
        cases cv with
        | false => simp only [hev] at hex; exact ih k _ _ _ _ _ _ hy hex
        | true =>
          simp only [hev] at hex
          cases hb : exec M n fns w f room o env body with
          | none => simp [hb] at hex
          | some rb =>
            obtain ⟨e1, t1, r1⟩ := rb
            simp only [hb, Option.bind_eq_bind, Option.bind_some] at hex
            by_cases hn : r1 = .norm ∨ r1 = .cnt
            · rw [if_pos hn] at hex
              cases hc : exec M n fns w f room o e1 cont with
              | none => simp [hc] at hex
              | some rc =>
                obtain ⟨e2, t2, r2⟩ := rc
                simp only [hc, Option.bind_some] at hex
                by_cases hn2 : r2 = .norm
                · subst hn2
                  simp only [if_true] at hex
                  cases hl : exec M n fns w f room o e2 (.loop c body cont k) with
                  | none => simp [hl] at hex
                  | some rl =>
                    obtain ⟨e3, t3, r3⟩ := rl
                    simp only [hl, Option.bind_some, Option.pure_def, Option.some.injEq, Prod.mk.injEq] at hex
                    rw [← hex.2.2]; exact ih _ _ _ _ _ _ _ hy0 hl
                · simp only [hn2, if_false, Option.pure_def, Option.some.injEq, Prod.mk.injEq] at hex
                  rw [← hex.2.2]; exact hn2
            · rw [if_neg hn] at hex
              by_cases hbk : r1 = .brk
              · rw [if_pos hbk] at hex
                cases hk : exec M n fns w f room o e1 k with
                | none => simp [hk] at hex
                | some rk =>
                  obtain ⟨e3, t3, r3⟩ := rk
                  simp only [hk, Option.bind_some, Option.pure_def, Option.some.injEq, Prod.mk.injEq] at hex
                  rw [← hex.2.2]; exact ih k _ _ _ _ _ _ hy hk
              · rw [if_neg hbk] at hex
                simp only [Option.pure_def, Option.some.injEq, Prod.mk.injEq] at hex
                rw [← hex.2.2]; exact fun h => hn (Or.inl h)
    | defeat k => simp only [exec, Option.some.injEq, Prod.mk.injEq] at hex; rw [← hex.2.2]; decide
    | defeatIf c k =>
      simp only [noFall] at hy
      simp only [exec] at hex
      cases hev : evalB M n env c with
      | none => simp only [hev, Option.some.injEq, Prod.mk.injEq] at hex; rw [← hex.2.2]; decide
      | some cv =>
        cases cv with
        | true => simp only [hev, Option.some.injEq, Prod.mk.injEq] at hex; rw [← hex.2.2]; decide
        | false => simp only [hev] at hex; exact ih k _ _ _ _ _ _ hy hex
    | tryUndo body handler k =>
      simp only [noFall, Bool.or_eq_true, Bool.and_eq_true] at hy
      simp only [exec] at hex
      cases hb : exec M n fns w f room o env body with
      | none => simp [hb] at hex
      | some rb =>
        obtain ⟨e1, t1, r1⟩ := rb
        simp only [hb, Option.bind_eq_bind, Option.bind_some] at hex
        by_cases hd : r1 = .defeat
        · subst hd
          simp only [if_true] at hex
          cases hh : exec M n fns w f room o env handler with
          | none => simp [hh] at hex
          | some rh =>
            obtain ⟨e2, t2, r2⟩ := rh
            simp only [hh, Option.bind_some] at hex
            by_cases hn2 : r2 = .norm
            · subst hn2
              simp only [if_true] at hex
              cases hk : exec M n fns w f room o e2 k with
              | none => simp [hk] at hex
              | some rk =>
                obtain ⟨e3, t3, r3⟩ := rk
                simp only [hk, Option.bind_some, Option.pure_def, Option.some.injEq, Prod.mk.injEq] at hex
                rw [← hex.2.2]
                rcases hy with hy | hy
                · exact absurd rfl (ih handler _ _ _ _ _ _ hy.2 hh)
                · exact ih k _ _ _ _ _ _ hy hk
            · simp only [hn2, if_false, Option.pure_def, Option.some.injEq, Prod.mk.injEq] at hex
              rw [← hex.2.2]; exact hn2
        · simp only [hd, if_false] at hex
          by_cases hn : r1 = .norm
          · subst hn
            simp only [if_true] at hex
            cases hk : exec M n fns w f room o e1 k with
            | none => simp [hk] at hex
            | some rk =>
              obtain ⟨e3, t3, r3⟩ := rk
              simp only [hk, Option.bind_some, Option.pure_def, Option.some.injEq, Prod.mk.injEq] at hex
              rw [← hex.2.2]
              rcases hy with hy | hy
              · exact absurd rfl (ih body _ _ _ _ _ _ hy.1 hb)
              · exact ih k _ _ _ _ _ _ hy hk
          · simp only [hn, if_false, Option.pure_def, Option.some.injEq, Prod.mk.injEq] at hex
            rw [← hex.2.2]; exact hn
    | tryStop body handler k =>
      simp only [noFall, Bool.or_eq_true, Bool.and_eq_true] at hy
      simp only [exec] at hex
      cases hb : exec M n fns w f room (o + w) (upd env "%ap" (5 * w)) body with
      | none => simp [hb] at hex
      | some rb =>
        obtain ⟨e1, t1, r1⟩ := rb
        simp only [hb, Option.bind_eq_bind, Option.bind_some] at hex
        by_cases hd : r1 = .defeat
        · subst hd
          simp only [if_true] at hex
          by_cases hap : e1 "%ap" = 5 * w
          case neg => simp [hap] at hex
          simp only [hap, ne_eq, not_true_eq_false, if_false] at hex
          cases hh : exec M n fns w f room o e1 handler with
          | none => simp [hh] at hex
          | some rh =>
            obtain ⟨e2, t2, r2⟩ := rh
            simp only [hh, Option.bind_some] at hex
            by_cases hn2 : r2 = .norm
            · subst hn2
              simp only [if_true] at hex
              cases hk : exec M n fns w f room o e2 k with
              | none => simp [hk] at hex
              | some rk =>
                obtain ⟨e3, t3, r3⟩ := rk
                simp only [hk, Option.bind_some, Option.pure_def, Option.some.injEq, Prod.mk.injEq] at hex
                rw [← hex.2.2]
                rcases hy with hy | hy
                · exact absurd rfl (ih handler _ _ _ _ _ _ hy.2 hh)
                · exact ih k _ _ _ _ _ _ hy hk
            · simp only [hn2, if_false, Option.pure_def, Option.some.injEq, Prod.mk.injEq] at hex
              rw [← hex.2.2]; exact hn2
        · simp only [hd, if_false] at hex
          by_cases hn : r1 = .norm
          · subst hn
            simp only [if_true] at hex
            cases hk : exec M n fns w f room o e1 k with
            | none => simp [hk] at hex
            | some rk =>
              obtain ⟨e3, t3, r3⟩ := rk
              simp only [hk, Option.bind_some, Option.pure_def, Option.some.injEq, Prod.mk.injEq] at hex
              rw [← hex.2.2]
              rcases hy with hy | hy
              · exact absurd rfl (ih body _ _ _ _ _ _ hy.1 hb)
              · exact ih k _ _ _ _ _ _ hy hk
          · simp only [hn, if_false, Option.pure_def, Option.some.injEq, Prod.mk.injEq] at hex
            rw [← hex.2.2]; exact hn
    | retE e =>
      simp only [exec] at hex
      cases hev : evalE M n env e with
      | none => simp only [hev, Option.some.injEq, Prod.mk.injEq] at hex; rw [← hex.2.2]; decide
      | some v => simp only [hev, Option.some.injEq, Prod.mk.injEq] at hex; rw [← hex.2.2]; simp
    | callS g args k =>
      simp only [noFall] at hy
      simp only [exec] at hex
      cases hc : callWith M n fns w (exec M n fns w f) room o env g args with
      | none => simp [hc] at hex
      | some rc =>
        obtain ⟨trc, flag, rv⟩ := rc
        cases flag with
        | some rf =>
          simp only [hc, Option.some.injEq, Prod.mk.injEq] at hex; rw [← hex.2.2]
          rcases callWith_fault hc with h | h | ⟨h, _⟩ <;> rw [h] <;> decide
        | none =>
          simp only [hc] at hex
          cases hk : exec M n fns w f room o env k with
          | none => simp [hk] at hex
          | some rk =>
            obtain ⟨e1, t1, r1⟩ := rk
            simp only [hk, Option.bind_eq_bind, Option.bind_some, Option.pure_def, Option.some.injEq, Prod.mk.injEq] at hex
            rw [← hex.2.2]; exact ih k _ _ _ _ _ _ hy hk
    | declCall x g args k =>
      simp only [noFall] at hy
      simp only [exec] at hex
      cases hc : callWith M n fns w (exec M n fns w f) room o env g args with
      | none => simp [hc] at hex
      | some rc =>
        obtain ⟨trc, flag, rv⟩ := rc
        cases flag with
        | some rf =>
          simp only [hc, Option.some.injEq, Prod.mk.injEq] at hex; rw [← hex.2.2]
          rcases callWith_fault hc with h | h | ⟨h, _⟩ <;> rw [h] <;> decide
        | none =>
          cases rv with
          | none => simp [hc] at hex
          | some v =>
            simp only [hc] at hex
            cases hk : exec M n fns w f room (o + w) (upd env x v) k with
            | none => simp [hk] at hex
            | some rk =>
              obtain ⟨e1, t1, r1⟩ := rk
              simp only [hk, Option.bind_eq_bind, Option.bind_some, Option.pure_def, Option.some.injEq, Prod.mk.injEq] at hex
              rw [← hex.2.2]; exact ih k _ _ _ _ _ _ hy hk
    | assignCall x g args k =>
      simp only [noFall] at hy
      simp only [exec] at hex
      cases hc : callWith M n fns w (exec M n fns w f) room o env g args with
      | none => simp [hc] at hex
      | some rc =>
        obtain ⟨trc, flag, rv⟩ := rc
        cases flag with
        | some rf =>
          simp only [hc, Option.some.injEq, Prod.mk.injEq] at hex; rw [← hex.2.2]
          rcases callWith_fault hc with h | h | ⟨h, _⟩ <;> rw [h] <;> decide
        | none =>
          cases rv with
          | none => simp [hc] at hex
          | some v =>
            simp only [hc] at hex
            cases hk : exec M n fns w f room o (upd env x v) k with
            | none => simp [hk] at hex
            | some rk =>
              obtain ⟨e1, t1, r1⟩ := rk
              simp only [hk, Option.bind_eq_bind, Option.bind_some, Option.pure_def, Option.some.injEq, Prod.mk.injEq] at hex
              rw [← hex.2.2]; exact ih k _ _ _ _ _ _ hy hk

/-- the source semantics only ever uses `room` to decide whether a callee's frame fits: more room
never changes a conclusive result that is not a stack overflow -/
theorem exec_room_mono (M n : Nat) (fns : List FDecl) (w : Nat) : ∀ (fuel : Nat) (s : S) (room room' o : Nat) (env env' : Env)
    (tr : List Ev) (res : Res), room ≤ room' →
    exec M n fns w fuel room o env s = some (env', tr, res) → res ≠ .ovf →
    exec M n fns w fuel room' o env s = some (env', tr, res) := by
  intro fuel
  induction fuel with
  | zero => intro s room room' o env env' tr res _ h; simp [exec] at h
  | succ f ih =>
    intro s room room' o env env' tr res hle hex hno
    have hcw : ∀ (o : Nat) (env : Env) (g : String) (args : List E) (trc : List Ev) (fl : Option Res) (rv : Option Nat),
        callWith M n fns w (exec M n fns w f) room o env g args = some (trc, fl, rv) → fl ≠ some .ovf →
        callWith M n fns w (exec M n fns w f) room' o env g args = some (trc, fl, rv) := by
      intro o env g args trc fl rv h hfl
      unfold callWith at h ⊢
      cases hev : evalArgs M n env args with
      | none => simpa [hev] using h
      | some vs =>
        simp only [hev] at h ⊢
        cases hfind : fns.find? (fun fd => fd.name == g) with
        | none => simp [hfind] at h
        | some fd =>
          simp only [hfind] at h ⊢
          by_cases hc : vs.length ≠ fd.params.length ∨ room < o
          · simp [hc] at h
          · rw [if_neg hc] at h
            have hc' : ¬ (vs.length ≠ fd.params.length ∨ room' < o) := by omega
            rw [if_neg hc']
            by_cases hp : room - o < pkS w (entryOff w fd.params) fd.body
            · rw [if_pos hp] at h
              simp only [Option.some.injEq, Prod.mk.injEq] at h
              exact absurd h.2.1.symm hfl
            · rw [if_neg hp] at h
              have hp' : ¬ (room' - o < pkS w (entryOff w fd.params) fd.body) := by omega
              rw [if_neg hp']
              cases hb : exec M n fns w f (room - o) (entryOff w fd.params) (bindEnv fd.params vs) fd.body with
              | none => simp [hb] at h
              | some rb =>
                obtain ⟨eb, tb, rb⟩ := rb
                rw [hb] at h
                have hrb : rb ≠ .ovf := by
                  intro e; subst e
                  simp only [Option.some.injEq, Prod.mk.injEq] at h
                  exact hfl h.2.1.symm
                rw [ih _ _ _ _ _ _ _ _ (by omega) hb hrb]
                exact h
    cases s with
    | nil => simpa [exec] using hex
    | ret => simpa [exec] using hex
    | retE e => simpa [exec] using hex
    | defeat k => simpa [exec] using hex
    | brk => simpa [exec] using hex
    | cnt => simpa [exec] using hex
    | decl x e k =>
      simp only [exec] at hex ⊢
      cases hev : evalE M n env e with
      | none => simpa [hev] using hex
      | some v => simp only [hev] at hex ⊢; exact ih _ _ _ _ _ _ _ _ hle hex hno
    | assign x e k =>
      simp only [exec] at hex ⊢
      cases hev : evalE M n env e with
      | none => simpa [hev] using hex
      | some v => simp only [hev] at hex ⊢; exact ih _ _ _ _ _ _ _ _ hle hex hno
    | write e k =>
      simp only [exec] at hex ⊢
      cases hev : evalE M n env e with
      | none => simpa [hev] using hex
      | some v =>
        simp only [hev] at hex ⊢
        cases hk : exec M n fns w f room o env k with
        | none => simp [hk] at hex
        | some rk =>
          obtain ⟨e1, t1, r1⟩ := rk
          simp only [hk, Option.bind_eq_bind, Option.bind_some, Option.pure_def, Option.some.injEq, Prod.mk.injEq] at hex
          obtain ⟨rfl, rfl, rfl⟩ := hex
          rw [ih _ _ _ _ _ _ _ _ hle hk hno]; rfl
    | writeln e k =>
      cases e with
      | none =>
        simp only [exec] at hex ⊢
        cases hk : exec M n fns w f room o env k with
        | none => simp [hk] at hex
        | some rk =>
          obtain ⟨e1, t1, r1⟩ := rk
          simp only [hk, Option.bind_eq_bind, Option.bind_some, Option.pure_def, Option.some.injEq, Prod.mk.injEq] at hex
          obtain ⟨rfl, rfl, rfl⟩ := hex
          rw [ih _ _ _ _ _ _ _ _ hle hk hno]; rfl
      | some e =>
        simp only [exec] at hex ⊢
        cases hev : evalE M n env e with
        | none => simpa [hev] using hex
        | some v =>
          simp only [hev] at hex ⊢
          cases hk : exec M n fns w f room o env k with
          | none => simp [hk] at hex
          | some rk =>
            obtain ⟨e1, t1, r1⟩ := rk
            simp only [hk, Option.bind_eq_bind, Option.bind_some, Option.pure_def, Option.some.injEq, Prod.mk.injEq] at hex
            obtain ⟨rfl, rfl, rfl⟩ := hex
            rw [ih _ _ _ _ _ _ _ _ hle hk hno]; rfl
    | putc c k =>
      simp only [exec] at hex ⊢
      cases hk : exec M n fns w f room o env k with
      | none => simp [hk] at hex
      | some rk =>
        obtain ⟨e1, t1, r1⟩ := rk
        simp only [hk, Option.bind_eq_bind, Option.bind_some, Option.pure_def, Option.some.injEq, Prod.mk.injEq] at hex
        obtain ⟨rfl, rfl, rfl⟩ := hex
        rw [ih _ _ _ _ _ _ _ _ hle hk hno]; rfl
    | block b k =>
      simp only [exec] at hex ⊢
      cases hb : exec M n fns w f room o env b with
      | none => simp [hb] at hex
      | some rb =>
        obtain ⟨e1, t1, r1⟩ := rb
        simp only [hb, Option.bind_eq_bind, Option.bind_some] at hex
        by_cases hn : r1 = .norm
        · subst hn
          rw [ih _ _ _ _ _ _ _ _ hle hb (by decide)]
          simp only [if_true, Option.bind_eq_bind, Option.bind_some] at hex ⊢
          cases hk : exec M n fns w f room o e1 k with
          | none => simp [hk] at hex
          | some rk =>
            obtain ⟨e2, t2, r2⟩ := rk
            simp only [hk, Option.bind_some, Option.pure_def, Option.some.injEq, Prod.mk.injEq] at hex
            obtain ⟨rfl, rfl, rfl⟩ := hex
            rw [ih _ _ _ _ _ _ _ _ hle hk hno]; rfl
        · simp only [hn, if_false, Option.pure_def, Option.some.injEq, Prod.mk.injEq] at hex
          obtain ⟨rfl, rfl, rfl⟩ := hex
          rw [ih _ _ _ _ _ _ _ _ hle hb hno]
          simp [hn]
    | ifb c t e k =>
      simp only [exec] at hex ⊢
      cases hev : evalB M n env c with
      | none => simpa [hev] using hex
      | some cv =>
        simp only [hev] at hex ⊢
        cases hb : exec M n fns w f room o env (if cv = true then t else e) with
        | none => simp [hb] at hex
        | some rb =>
          obtain ⟨e1, t1, r1⟩ := rb
          simp only [hb, Option.bind_eq_bind, Option.bind_some] at hex
          by_cases hn : r1 = .norm
          · subst hn
            rw [ih _ _ _ _ _ _ _ _ hle hb (by decide)]
            simp only [if_true, Option.bind_eq_bind, Option.bind_some] at hex ⊢
            cases hk : exec M n fns w f room o e1 k with
            | none => simp [hk] at hex
            | some rk =>
              obtain ⟨e2, t2, r2⟩ := rk
              simp only [hk, Option.bind_some, Option.pure_def, Option.some.injEq, Prod.mk.injEq] at hex
              obtain ⟨rfl, rfl, rfl⟩ := hex
              rw [ih _ _ _ _ _ _ _ _ hle hk hno]; rfl
          · simp only [hn, if_false, Option.pure_def, Option.some.injEq, Prod.mk.injEq] at hex
            obtain ⟨rfl, rfl, rfl⟩ := hex
            rw [ih _ _ _ _ _ _ _ _ hle hb hno]
            simp [hn]
    | loop c body cont k =>
      simp only [exec] at hex ⊢
      cases hev : evalB M n env c with
      | none => simpa [hev] using hex
      | some cv =>
        cases cv with
        | false => simp only [hev] at hex ⊢; exact ih _ _ _ _ _ _ _ _ hle hex hno
        | true =>
          simp only [hev] at hex ⊢
          cases hb : exec M n fns w f room o env body with
          | none => simp [hb] at hex
          | some rb =>
            obtain ⟨e1, t1, r1⟩ := rb
            simp only [hb, Option.bind_eq_bind, Option.bind_some] at hex
            by_cases hn : r1 = .norm ∨ r1 = .cnt
            · rw [ih _ _ _ _ _ _ _ _ hle hb (by rcases hn with h | h <;> rw [h] <;> decide)]
              rw [if_pos hn] at hex
              simp only [Option.bind_eq_bind, Option.bind_some]
              rw [if_pos hn]
              cases hc : exec M n fns w f room o e1 cont with
              | none => simp [hc] at hex
              | some rc =>
                obtain ⟨e2, t2, r2⟩ := rc
                simp only [hc, Option.bind_some] at hex
                by_cases hn2 : r2 = .norm
                · subst hn2
                  rw [ih _ _ _ _ _ _ _ _ hle hc (by decide)]
                  simp only [if_true, Option.bind_some] at hex ⊢
                  cases hl : exec M n fns w f room o e2 (.loop c body cont k) with
                  | none => simp [hl] at hex
                  | some rl =>
                    obtain ⟨e3, t3, r3⟩ := rl
                    simp only [hl, Option.bind_some, Option.pure_def, Option.some.injEq, Prod.mk.injEq] at hex
                    obtain ⟨rfl, rfl, rfl⟩ := hex
                    rw [ih _ _ _ _ _ _ _ _ hle hl hno]; rfl
                · simp only [hn2, if_false, Option.pure_def, Option.some.injEq, Prod.mk.injEq] at hex
                  obtain ⟨rfl, rfl, rfl⟩ := hex
                  rw [ih _ _ _ _ _ _ _ _ hle hc hno]
                  simp [hn2]
            · rw [if_neg hn] at hex
              by_cases hbk : r1 = .brk
              · subst hbk
                rw [ih _ _ _ _ _ _ _ _ hle hb (by decide)]
                simp only [if_true, Option.bind_eq_bind, Option.bind_some] at hex ⊢
                rw [if_neg (by decide)]
                cases hk : exec M n fns w f room o e1 k with
                | none => simp [hk] at hex
                | some rk =>
                  obtain ⟨e3, t3, r3⟩ := rk
                  simp only [hk, Option.bind_some, Option.pure_def, Option.some.injEq, Prod.mk.injEq] at hex
                  obtain ⟨rfl, rfl, rfl⟩ := hex
                  rw [ih _ _ _ _ _ _ _ _ hle hk hno]; rfl
              · rw [if_neg hbk] at hex
                simp only [Option.pure_def, Option.some.injEq, Prod.mk.injEq] at hex
                obtain ⟨rfl, rfl, rfl⟩ := hex
                rw [ih _ _ _ _ _ _ _ _ hle hb hno]
                simp [hn, hbk]
    | defeatIf c k =>
      simp only [exec] at hex ⊢
      cases hev : evalB M n env c with
      | none => simpa [hev] using hex
      | some cv =>
        cases cv with
        | true => simpa [hev] using hex
        | false => simp only [hev] at hex ⊢; exact ih _ _ _ _ _ _ _ _ hle hex hno
    | tryUndo body handler k =>
      simp only [exec] at hex ⊢
      cases hb : exec M n fns w f room o env body with
      | none => simp [hb] at hex
      | some rb =>
        obtain ⟨e1, t1, r1⟩ := rb
        simp only [hb, Option.bind_eq_bind, Option.bind_some] at hex
        by_cases hd : r1 = .defeat
        · subst hd
          rw [ih _ _ _ _ _ _ _ _ hle hb (by decide)]
          simp only [if_true, Option.bind_eq_bind, Option.bind_some] at hex ⊢
          cases hh : exec M n fns w f room o env handler with
          | none => simp [hh] at hex
          | some rh =>
            obtain ⟨e2, t2, r2⟩ := rh
            simp only [hh, Option.bind_some] at hex
            by_cases hn2 : r2 = .norm
            · subst hn2
              rw [ih _ _ _ _ _ _ _ _ hle hh (by decide)]
              simp only [if_true, Option.bind_some] at hex ⊢
              cases hk : exec M n fns w f room o e2 k with
              | none => simp [hk] at hex
              | some rk =>
                obtain ⟨e3, t3, r3⟩ := rk
                simp only [hk, Option.bind_some, Option.pure_def, Option.some.injEq, Prod.mk.injEq] at hex
                obtain ⟨rfl, rfl, rfl⟩ := hex
                rw [ih _ _ _ _ _ _ _ _ hle hk hno]; rfl
            · simp only [hn2, if_false, Option.pure_def, Option.some.injEq, Prod.mk.injEq] at hex
              obtain ⟨rfl, rfl, rfl⟩ := hex
              rw [ih _ _ _ _ _ _ _ _ hle hh hno]
              simp [hn2]
        · simp only [hd, if_false] at hex
          by_cases hn : r1 = .norm
          · subst hn
            rw [ih _ _ _ _ _ _ _ _ hle hb (by decide)]
            simp only [if_true, Option.bind_eq_bind, Option.bind_some] at hex ⊢
            cases hk : exec M n fns w f room o e1 k with
            | none => simp [hk] at hex
            | some rk =>
              obtain ⟨e3, t3, r3⟩ := rk
              simp only [hk, Option.bind_some, Option.pure_def, Option.some.injEq, Prod.mk.injEq] at hex
              obtain ⟨rfl, rfl, rfl⟩ := hex
              simp only [reduceCtorEq, if_false]
              rw [ih _ _ _ _ _ _ _ _ hle hk hno]; rfl
          · simp only [hn, if_false, Option.pure_def, Option.some.injEq, Prod.mk.injEq] at hex
            obtain ⟨rfl, rfl, rfl⟩ := hex
            rw [ih _ _ _ _ _ _ _ _ hle hb hno]
            simp [hn, hd]
    | tryStop body handler k =>
      simp only [exec] at hex ⊢
      cases hb : exec M n fns w f room (o + w) (upd env "%ap" (5 * w)) body with
      | none => simp [hb] at hex
      | some rb =>
        obtain ⟨e1, t1, r1⟩ := rb
        simp only [hb, Option.bind_eq_bind, Option.bind_some] at hex
        by_cases hd : r1 = .defeat
        · subst hd
          rw [ih _ _ _ _ _ _ _ _ hle hb (by decide)]
          simp only [if_true, Option.bind_eq_bind, Option.bind_some] at hex ⊢
          by_cases hap : e1 "%ap" = 5 * w
          case neg => simp [hap] at hex
          simp only [hap, ne_eq, not_true_eq_false, if_false] at hex ⊢
          cases hh : exec M n fns w f room o e1 handler with
          | none => simp [hh] at hex
          | some rh =>
            obtain ⟨e2, t2, r2⟩ := rh
            simp only [hh, Option.bind_some] at hex
            by_cases hn2 : r2 = .norm
            · subst hn2
              rw [ih _ _ _ _ _ _ _ _ hle hh (by decide)]
              simp only [if_true, Option.bind_some] at hex ⊢
              cases hk : exec M n fns w f room o e2 k with
              | none => simp [hk] at hex
              | some rk =>
                obtain ⟨e3, t3, r3⟩ := rk
                simp only [hk, Option.bind_some, Option.pure_def, Option.some.injEq, Prod.mk.injEq] at hex
                obtain ⟨rfl, rfl, rfl⟩ := hex
                rw [ih _ _ _ _ _ _ _ _ hle hk hno]; rfl
            · simp only [hn2, if_false, Option.pure_def, Option.some.injEq, Prod.mk.injEq] at hex
              obtain ⟨rfl, rfl, rfl⟩ := hex
              rw [ih _ _ _ _ _ _ _ _ hle hh hno]
              simp [hn2]
        · simp only [hd, if_false] at hex
          by_cases hn : r1 = .norm
          · subst hn
            rw [ih _ _ _ _ _ _ _ _ hle hb (by decide)]
            simp only [if_true, Option.bind_eq_bind, Option.bind_some] at hex ⊢
            cases hk : exec M n fns w f room o e1 k with
            | none => simp [hk] at hex
            | some rk =>
              obtain ⟨e3, t3, r3⟩ := rk
              simp only [hk, Option.bind_some, Option.pure_def, Option.some.injEq, Prod.mk.injEq] at hex
              obtain ⟨rfl, rfl, rfl⟩ := hex
              simp only [reduceCtorEq, if_false]
              rw [ih _ _ _ _ _ _ _ _ hle hk hno]; rfl
          · simp only [hn, if_false, Option.pure_def, Option.some.injEq, Prod.mk.injEq] at hex
            obtain ⟨rfl, rfl, rfl⟩ := hex
            rw [ih _ _ _ _ _ _ _ _ hle hb hno]
            simp [hn, hd]
    | callS g args k =>
      simp only [exec] at hex ⊢
      cases hc : callWith M n fns w (exec M n fns w f) room o env g args with
      | none => simp [hc] at hex
      | some rc =>
        obtain ⟨trc, flag, rv⟩ := rc
        cases flag with
        | some rf =>
          simp only [hc, Option.some.injEq, Prod.mk.injEq] at hex
          obtain ⟨rfl, rfl, rfl⟩ := hex
          rw [hcw _ _ _ _ _ _ _ hc (by simpa using hno)]
        | none =>
          rw [hcw _ _ _ _ _ _ _ hc (by simp)]
          simp only [hc] at hex ⊢
          cases hk : exec M n fns w f room o env k with
          | none => simp [hk] at hex
          | some rk =>
            obtain ⟨e1, t1, r1⟩ := rk
            simp only [hk, Option.bind_eq_bind, Option.bind_some, Option.pure_def, Option.some.injEq, Prod.mk.injEq] at hex
            obtain ⟨rfl, rfl, rfl⟩ := hex
            rw [ih _ _ _ _ _ _ _ _ hle hk hno]; rfl
    | declCall x g args k =>
      simp only [exec] at hex ⊢
      cases hc : callWith M n fns w (exec M n fns w f) room o env g args with
      | none => simp [hc] at hex
      | some rc =>
        obtain ⟨trc, flag, rv⟩ := rc
        cases flag with
        | some rf =>
          simp only [hc, Option.some.injEq, Prod.mk.injEq] at hex
          obtain ⟨rfl, rfl, rfl⟩ := hex
          rw [hcw _ _ _ _ _ _ _ hc (by simpa using hno)]
        | none =>
          rw [hcw _ _ _ _ _ _ _ hc (by simp)]
          cases rv with
          | none => simp [hc] at hex
          | some v =>
            simp only [hc] at hex ⊢
            cases hk : exec M n fns w f room (o + w) (upd env x v) k with
            | none => simp [hk] at hex
            | some rk =>
              obtain ⟨e1, t1, r1⟩ := rk
              simp only [hk, Option.bind_eq_bind, Option.bind_some, Option.pure_def, Option.some.injEq, Prod.mk.injEq] at hex
              obtain ⟨rfl, rfl, rfl⟩ := hex
              rw [ih _ _ _ _ _ _ _ _ hle hk hno]; rfl
    | assignCall x g args k =>
      simp only [exec] at hex ⊢
      cases hc : callWith M n fns w (exec M n fns w f) room o env g args with
      | none => simp [hc] at hex
      | some rc =>
        obtain ⟨trc, flag, rv⟩ := rc
        cases flag with
        | some rf =>
          simp only [hc, Option.some.injEq, Prod.mk.injEq] at hex
          obtain ⟨rfl, rfl, rfl⟩ := hex
          rw [hcw _ _ _ _ _ _ _ hc (by simpa using hno)]
        | none =>
          rw [hcw _ _ _ _ _ _ _ hc (by simp)]
          cases rv with
          | none => simp [hc] at hex
          | some v =>
            simp only [hc] at hex ⊢
            cases hk : exec M n fns w f room o (upd env x v) k with
            | none => simp [hk] at hex
            | some rk =>
              obtain ⟨e1, t1, r1⟩ := rk
              simp only [hk, Option.bind_eq_bind, Option.bind_some, Option.pure_def, Option.some.injEq, Prod.mk.injEq] at hex
              obtain ⟨rfl, rfl, rfl⟩ := hex
              rw [ih _ _ _ _ _ _ _ _ hle hk hno]; rfl

/-- outside loops a list without stray `break`/`continue` never ends in one -/
theorem exec_noEsc (M n : Nat) (fns : List FDecl) (w : Nat) : ∀ (fuel : Nat) (s : S) (room o : Nat) (env env' : Env) (tr : List Ev) (res : Res),
    escFree false s = true → exec M n fns w fuel room o env s = some (env', tr, res) → res ≠ .brk ∧ res ≠ .cnt := by
  intro fuel
  induction fuel with
  | zero => intro s room o env env' tr res _ h; simp [exec] at h
  | succ f ih =>
    intro s room o env env' tr res hy hex
    cases s with
    | nil => simp only [exec, Option.some.injEq, Prod.mk.injEq] at hex; rw [← hex.2.2]; decide
    | ret => simp only [exec, Option.some.injEq, Prod.mk.injEq] at hex; rw [← hex.2.2]; decide
    | brk => simp [escFree] at hy
    | cnt => simp [escFree] at hy
    | defeat k => simp only [exec, Option.some.injEq, Prod.mk.injEq] at hex; rw [← hex.2.2]; decide
    | retE e =>
      simp only [exec] at hex
      cases hev : evalE M n env e with
      | none => simp only [hev, Option.some.injEq, Prod.mk.injEq] at hex; rw [← hex.2.2]; decide
      | some v => simp only [hev, Option.some.injEq, Prod.mk.injEq] at hex; rw [← hex.2.2]; simp
    | decl x e k =>
      simp only [escFree] at hy
      simp only [exec] at hex
      cases hev : evalE M n env e with
      | none => simp only [hev, Option.some.injEq, Prod.mk.injEq] at hex; rw [← hex.2.2]; decide
      | some v => simp only [hev] at hex; exact ih k _ _ _ _ _ _ hy hex
    | assign x e k =>
      simp only [escFree] at hy
      simp only [exec] at hex
      cases hev : evalE M n env e with
      | none => simp only [hev, Option.some.injEq, Prod.mk.injEq] at hex; rw [← hex.2.2]; decide
      | some v => simp only [hev] at hex; exact ih k _ _ _ _ _ _ hy hex
    | write e k =>
      simp only [escFree] at hy
      simp only [exec] at hex
      cases hev : evalE M n env e with
      | none => simp only [hev, Option.some.injEq, Prod.mk.injEq] at hex; rw [← hex.2.2]; decide
      | some v =>
        simp only [hev] at hex
        cases hk : exec M n fns w f room o env k with
        | none => simp [hk] at hex
        | some rk =>
          obtain ⟨e1, t1, r1⟩ := rk
          simp only [hk, Option.bind_eq_bind, Option.bind_some, Option.pure_def, Option.some.injEq, Prod.mk.injEq] at hex
          rw [← hex.2.2]; exact ih k _ _ _ _ _ _ hy hk
    | writeln e k =>
      simp only [escFree] at hy
      cases e with
      | none =>
        simp only [exec] at hex
        cases hk : exec M n fns w f room o env k with
        | none => simp [hk] at hex
        | some rk =>
          obtain ⟨e1, t1, r1⟩ := rk
          simp only [hk, Option.bind_eq_bind, Option.bind_some, Option.pure_def, Option.some.injEq, Prod.mk.injEq] at hex
          rw [← hex.2.2]; exact ih k _ _ _ _ _ _ hy hk
      | some e =>
        simp only [exec] at hex
        cases hev : evalE M n env e with
        | none => simp only [hev, Option.some.injEq, Prod.mk.injEq] at hex; rw [← hex.2.2]; decide
        | some v =>
          simp only [hev] at hex
          cases hk : exec M n fns w f room o env k with
          | none => simp [hk] at hex
          | some rk =>
            obtain ⟨e1, t1, r1⟩ := rk
            simp only [hk, Option.bind_eq_bind, Option.bind_some, Option.pure_def, Option.some.injEq, Prod.mk.injEq] at hex
            rw [← hex.2.2]; exact ih k _ _ _ _ _ _ hy hk
    | putc c k =>
      simp only [escFree] at hy
      simp only [exec] at hex
      cases hk : exec M n fns w f room o env k with
      | none => simp [hk] at hex
      | some rk =>
        obtain ⟨e1, t1, r1⟩ := rk
        simp only [hk, Option.bind_eq_bind, Option.bind_some, Option.pure_def, Option.some.injEq, Prod.mk.injEq] at hex
        rw [← hex.2.2]; exact ih k _ _ _ _ _ _ hy hk
    | block b k =>
      simp only [escFree, Bool.and_eq_true] at hy
      simp only [exec] at hex
      cases hb : exec M n fns w f room o env b with
      | none => simp [hb] at hex
      | some rb =>
        obtain ⟨e1, t1, r1⟩ := rb
        simp only [hb, Option.bind_eq_bind, Option.bind_some] at hex
        by_cases hn : r1 = .norm
        · subst hn
          simp only [if_true] at hex
          cases hk : exec M n fns w f room o e1 k with
          | none => simp [hk] at hex
          | some rk =>
            obtain ⟨e2, t2, r2⟩ := rk
            simp only [hk, Option.bind_some, Option.pure_def, Option.some.injEq, Prod.mk.injEq] at hex
            rw [← hex.2.2]; exact ih k _ _ _ _ _ _ hy.2 hk
        · simp only [hn, if_false, Option.pure_def, Option.some.injEq, Prod.mk.injEq] at hex
          rw [← hex.2.2]; exact ih b _ _ _ _ _ _ hy.1 hb
    | ifb c t e k =>
      simp only [escFree, Bool.and_eq_true] at hy
      simp only [exec] at hex
      cases hev : evalB M n env c with
      | none => simp only [hev, Option.some.injEq, Prod.mk.injEq] at hex; rw [← hex.2.2]; decide
      | some cv =>
        simp only [hev] at hex
        cases hb : exec M n fns w f room o env (if cv = true then t else e) with
        | none => simp [hb] at hex
        | some rb =>
          obtain ⟨e1, t1, r1⟩ := rb
          simp only [hb, Option.bind_eq_bind, Option.bind_some] at hex
          have h1 := ih _ _ _ _ _ _ _ (by cases cv <;> simp [hy.1.1, hy.1.2]) hb
          by_cases hn : r1 = .norm
          · subst hn
            simp only [if_true] at hex
            cases hk : exec M n fns w f room o e1 k with
            | none => simp [hk] at hex
            | some rk =>
              obtain ⟨e2, t2, r2⟩ := rk
              simp only [hk, Option.bind_some, Option.pure_def, Option.some.injEq, Prod.mk.injEq] at hex
              rw [← hex.2.2]; exact ih k _ _ _ _ _ _ hy.2 hk
          · simp only [hn, if_false, Option.pure_def, Option.some.injEq, Prod.mk.injEq] at hex
            rw [← hex.2.2]; exact h1
    | loop c body cont k =>
      have hy0 := hy
      simp only [escFree, Bool.and_eq_true] at hy
      simp only [exec] at hex
      cases hev : evalB M n env c with
      | none => simp only [hev, Option.some.injEq, Prod.mk.injEq] at hex; rw [← hex.2.2]; decide
      | some cv =>
        cases cv with
        | false => simp only [hev] at hex; exact ih k _ _ _ _ _ _ hy.2 hex
        | true =>
          simp only [hev] at hex
          cases hb : exec M n fns w f room o env body with
          | none => simp [hb] at hex
          | some rb =>
            obtain ⟨e1, t1, r1⟩ := rb
            simp only [hb, Option.bind_eq_bind, Option.bind_some] at hex
            by_cases hn : r1 = .norm ∨ r1 = .cnt
            · rw [if_pos hn] at hex
              cases hc : exec M n fns w f room o e1 cont with
              | none => simp [hc] at hex
              | some rc =>
                obtain ⟨e2, t2, r2⟩ := rc
                simp only [hc, Option.bind_some] at hex
                by_cases hn2 : r2 = .norm
                · subst hn2
                  simp only [if_true] at hex
                  cases hl : exec M n fns w f room o e2 (.loop c body cont k) with
                  | none => simp [hl] at hex
                  | some rl =>
                    obtain ⟨e3, t3, r3⟩ := rl
                    simp only [hl, Option.bind_some, Option.pure_def, Option.some.injEq, Prod.mk.injEq] at hex
                    rw [← hex.2.2]; exact ih _ _ _ _ _ _ _ hy0 hl
                · simp only [hn2, if_false, Option.pure_def, Option.some.injEq, Prod.mk.injEq] at hex
                  rw [← hex.2.2]; exact ih cont _ _ _ _ _ _ hy.1.2 hc
            · rw [if_neg hn] at hex
              by_cases hbk : r1 = .brk
              · rw [if_pos hbk] at hex
                cases hk : exec M n fns w f room o e1 k with
                | none => simp [hk] at hex
                | some rk =>
                  obtain ⟨e3, t3, r3⟩ := rk
                  simp only [hk, Option.bind_some, Option.pure_def, Option.some.injEq, Prod.mk.injEq] at hex
                  rw [← hex.2.2]; exact ih k _ _ _ _ _ _ hy.2 hk
              · rw [if_neg hbk] at hex
                simp only [Option.pure_def, Option.some.injEq, Prod.mk.injEq] at hex
                rw [← hex.2.2]; exact ⟨hbk, fun h => hn (Or.inr h)⟩
    | defeatIf c k =>
      simp only [escFree] at hy
      simp only [exec] at hex
      cases hev : evalB M n env c with
      | none => simp only [hev, Option.some.injEq, Prod.mk.injEq] at hex; rw [← hex.2.2]; decide
      | some cv =>
        cases cv with
        | true => simp only [hev, Option.some.injEq, Prod.mk.injEq] at hex; rw [← hex.2.2]; decide
        | false => simp only [hev] at hex; exact ih k _ _ _ _ _ _ hy hex
    | tryUndo body handler k =>
      simp only [escFree, Bool.and_eq_true] at hy
      simp only [exec] at hex
      cases hb : exec M n fns w f room o env body with
      | none => simp [hb] at hex
      | some rb =>
        obtain ⟨e1, t1, r1⟩ := rb
        simp only [hb, Option.bind_eq_bind, Option.bind_some] at hex
        by_cases hd : r1 = .defeat
        · subst hd
          simp only [if_true] at hex
          cases hh : exec M n fns w f room o env handler with
          | none => simp [hh] at hex
          | some rh =>
            obtain ⟨e2, t2, r2⟩ := rh
            simp only [hh, Option.bind_some] at hex
            by_cases hn2 : r2 = .norm
            · subst hn2
              simp only [if_true] at hex
              cases hk : exec M n fns w f room o e2 k with
              | none => simp [hk] at hex
              | some rk =>
                obtain ⟨e3, t3, r3⟩ := rk
                simp only [hk, Option.bind_some, Option.pure_def, Option.some.injEq, Prod.mk.injEq] at hex
                rw [← hex.2.2]; exact ih k _ _ _ _ _ _ hy.2 hk
            · simp only [hn2, if_false, Option.pure_def, Option.some.injEq, Prod.mk.injEq] at hex
              rw [← hex.2.2]; exact ih handler _ _ _ _ _ _ hy.1.2 hh
        · simp only [hd, if_false] at hex
          by_cases hn : r1 = .norm
          · subst hn
            simp only [if_true] at hex
            cases hk : exec M n fns w f room o e1 k with
            | none => simp [hk] at hex
            | some rk =>
              obtain ⟨e3, t3, r3⟩ := rk
              simp only [hk, Option.bind_some, Option.pure_def, Option.some.injEq, Prod.mk.injEq] at hex
              rw [← hex.2.2]; exact ih k _ _ _ _ _ _ hy.2 hk
          · simp only [hn, if_false, Option.pure_def, Option.some.injEq, Prod.mk.injEq] at hex
            rw [← hex.2.2]; exact ih body _ _ _ _ _ _ hy.1.1 hb
    | tryStop body handler k =>
      simp only [escFree, Bool.and_eq_true] at hy
      simp only [exec] at hex
      cases hb : exec M n fns w f room (o + w) (upd env "%ap" (5 * w)) body with
      | none => simp [hb] at hex
      | some rb =>
        obtain ⟨e1, t1, r1⟩ := rb
        simp only [hb, Option.bind_eq_bind, Option.bind_some] at hex
        by_cases hd : r1 = .defeat
        · subst hd
          simp only [if_true] at hex
          by_cases hap : e1 "%ap" = 5 * w
          case neg => simp [hap] at hex
          simp only [hap, ne_eq, not_true_eq_false, if_false] at hex
          cases hh : exec M n fns w f room o e1 handler with
          | none => simp [hh] at hex
          | some rh =>
            obtain ⟨e2, t2, r2⟩ := rh
            simp only [hh, Option.bind_some] at hex
            by_cases hn2 : r2 = .norm
            · subst hn2
              simp only [if_true] at hex
              cases hk : exec M n fns w f room o e2 k with
              | none => simp [hk] at hex
              | some rk =>
                obtain ⟨e3, t3, r3⟩ := rk
                simp only [hk, Option.bind_some, Option.pure_def, Option.some.injEq, Prod.mk.injEq] at hex
                rw [← hex.2.2]; exact ih k _ _ _ _ _ _ hy.2 hk
            · simp only [hn2, if_false, Option.pure_def, Option.some.injEq, Prod.mk.injEq] at hex
              rw [← hex.2.2]; exact ih handler _ _ _ _ _ _ hy.1.2 hh
        · simp only [hd, if_false] at hex
          by_cases hn : r1 = .norm
          · subst hn
            simp only [if_true] at hex
            cases hk : exec M n fns w f room o e1 k with
            | none => simp [hk] at hex
            | some rk =>
              obtain ⟨e3, t3, r3⟩ := rk
              simp only [hk, Option.bind_some, Option.pure_def, Option.some.injEq, Prod.mk.injEq] at hex
              rw [← hex.2.2]; exact ih k _ _ _ _ _ _ hy.2 hk
          · simp only [hn, if_false, Option.pure_def, Option.some.injEq, Prod.mk.injEq] at hex
            rw [← hex.2.2]; exact ih body _ _ _ _ _ _ hy.1.1 hb
    | callS g args k =>
      simp only [escFree] at hy
      simp only [exec] at hex
      cases hc : callWith M n fns w (exec M n fns w f) room o env g args with
      | none => simp [hc] at hex
      | some rc =>
        obtain ⟨trc, flag, rv⟩ := rc
        cases flag with
        | some rf =>
          simp only [hc, Option.some.injEq, Prod.mk.injEq] at hex; rw [← hex.2.2]
          rcases callWith_fault hc with h | h | ⟨h, _⟩ <;> rw [h] <;> decide
        | none =>
          simp only [hc] at hex
          cases hk : exec M n fns w f room o env k with
          | none => simp [hk] at hex
          | some rk =>
            obtain ⟨e1, t1, r1⟩ := rk
            simp only [hk, Option.bind_eq_bind, Option.bind_some, Option.pure_def, Option.some.injEq, Prod.mk.injEq] at hex
            rw [← hex.2.2]; exact ih k _ _ _ _ _ _ hy hk
    | declCall x g args k =>
      simp only [escFree] at hy
      simp only [exec] at hex
      cases hc : callWith M n fns w (exec M n fns w f) room o env g args with
      | none => simp [hc] at hex
      | some rc =>
        obtain ⟨trc, flag, rv⟩ := rc
        cases flag with
        | some rf =>
          simp only [hc, Option.some.injEq, Prod.mk.injEq] at hex; rw [← hex.2.2]
          rcases callWith_fault hc with h | h | ⟨h, _⟩ <;> rw [h] <;> decide
        | none =>
          cases rv with
          | none => simp [hc] at hex
          | some v =>
            simp only [hc] at hex
            cases hk : exec M n fns w f room (o + w) (upd env x v) k with
            | none => simp [hk] at hex
            | some rk =>
              obtain ⟨e1, t1, r1⟩ := rk
              simp only [hk, Option.bind_eq_bind, Option.bind_some, Option.pure_def, Option.some.injEq, Prod.mk.injEq] at hex
              rw [← hex.2.2]; exact ih k _ _ _ _ _ _ hy hk
    | assignCall x g args k =>
      simp only [escFree] at hy
      simp only [exec] at hex
      cases hc : callWith M n fns w (exec M n fns w f) room o env g args with
      | none => simp [hc] at hex
      | some rc =>
        obtain ⟨trc, flag, rv⟩ := rc
        cases flag with
        | some rf =>
          simp only [hc, Option.some.injEq, Prod.mk.injEq] at hex; rw [← hex.2.2]
          rcases callWith_fault hc with h | h | ⟨h, _⟩ <;> rw [h] <;> decide
        | none =>
          cases rv with
          | none => simp [hc] at hex
          | some v =>
            simp only [hc] at hex
            cases hk : exec M n fns w f room o (upd env x v) k with
            | none => simp [hk] at hex
            | some rk =>
              obtain ⟨e1, t1, r1⟩ := rk
              simp only [hk, Option.bind_eq_bind, Option.bind_some, Option.pure_def, Option.some.injEq, Prod.mk.injEq] at hex
              rw [← hex.2.2]; exact ih k _ _ _ _ _ _ hy hk

end HidVerif.Core
