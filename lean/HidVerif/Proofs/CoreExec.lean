import HidVerif.Proofs.CoreStmt
/-!
# Core compiler proofs: statement lists (`cS_ok`) by induction on the fuel of `exec`
-/
namespace HidVerif.Core
open HidVerif HidVerif.PSys HidVerif.Sphinx HidVerif.Gen

section
variable {p : Prog} {ck : Bool} {B : Nat}

theorem cS_ok (lib : Placed p B) (F D ra : Nat) (hra : ra < 256 ^ p.w) :
    ∀ (fuel : Nat) (s : S) (Γ : Gam) (env : Env) (pc o : Nat) (m : Mem) (env' : Env) (tr : List Ev) (res : Res),
      PlacedAt p pc (cS (cxOf p ck B) Γ pc o s) →
      pc + (cS (cxOf p ck B) Γ pc o s).length ≤ B →
      SInv p Γ env m F D o ra → Disj p.w Γ → wfS (Γ.map Prod.fst) s = true →
      pkS p.w o s ≤ D → p.w ≤ o →
      exec (256 ^ p.w) (8 * p.w) fuel env s = some (env', tr, res) → (res = .div0 → ck = true) →
      ∃ st', Reach (sphinx p) ⟨pc, m⟩ tr st' ∧
        Post p B ra Γ env' F D o (pc + (cS (cxOf p ck B) Γ pc o s).length) res st' := by
  have hw := lib.hw
  have h64 := mul_w_lt_pow p.w hw
  have hM := pow_ge2 p.w hw
  have hBM := lib.hB
  intro fuel
  induction fuel with
  | zero => intro s Γ env pc o m env' tr res _ _ _ _ _ _ _ hex; simp [exec] at hex
  | succ f ih =>
    intro s Γ env pc o m env' tr res hpl hB hinv hd hwf hpk ho hex hck
    have hroom := hinv.fr.room; have htop := hinv.fr.top; have hFM := hinv.fr.lt
    have hoD : o ≤ D := by have := pkS_ge p.w s o; omega
    cases s with
    | nil =>
      simp only [exec, Option.some.injEq, Prod.mk.injEq] at hex
      obtain ⟨rfl, rfl, rfl⟩ := hex
      exact ⟨⟨pc, m⟩, by simpa using Reach.refl, by simp [Post, cS]; exact hinv⟩
    | ret =>
      simp only [exec, Option.some.injEq, Prod.mk.injEq] at hex
      obtain ⟨rfl, rfl, rfl⟩ := hex
      simp only [cS] at hpl hB
      have c0 := hpl 0 (by simp); have c1 := hpl 1 (by simp); have c2 := hpl 2 (by simp)
      simp only [List.getElem_cons_succ, List.getElem_cons_zero, Nat.add_zero] at c0 c1 c2
      rw [show (cxOf p ck B).r1 = 3 * p.w from rfl] at c0 c1
      have s0 := step_ldSlot ck B (3 * p.w) p.w hw hinv.fr c0 (Nat.le_refl _) (by omega) (by omega)
      rw [hinv.ra] at s0
      have hsz : 5 * p.w ≤ (m.writeLE (3 * p.w) p.w ra).size := by simp; omega
      have s1 := step_j (m := m.writeLE (3 * p.w) p.w ra) c1
        (by rw [ev_st (by unfold Prog.M; omega) (by omega), Mem.readLE_writeLE_same _ _ _ _ (by omega)])
      rw [Nat.mod_eq_of_lt hra] at s1
      have s2 := step_halt (m := m.writeLE (3 * p.w) p.w ra) c2
      refine ⟨⟨ra, m.writeLE (3 * p.w) p.w ra⟩, ?_, by simp [Post]⟩
      have := (Reach.of_next (sys := sphinx p) s0).trans (Reach.jump_taken (sys := sphinx p) s1 s2)
      simpa [evl] using this
    | decl x e k =>
      simp only [wfS, Bool.and_eq_true, Bool.not_eq_true'] at hwf
      obtain ⟨⟨hbe, hxn⟩, hwk⟩ := hwf
      simp only [pkS] at hpk
      simp only [cS] at hpl hB ⊢
      obtain ⟨hpl1, hpl2⟩ := hpl.append
      rw [List.length_append] at hB ⊢
      have hp := pushE_ok (ck := ck) lib Γ env F D e pc o m hpl1 (by omega) hinv.fr hinv.vars hbe (by omega) ho
      cases hev : evalE (256 ^ p.w) (8 * p.w) env e with
      | none =>
        simp only [exec, hev, Option.some.injEq, Prod.mk.injEq] at hex
        obtain ⟨rfl, rfl, rfl⟩ := hex
        obtain ⟨m', r⟩ := hp.2 hev (hck rfl)
        exact ⟨⟨_, m'⟩, r, by simp [Post]⟩
      | some v =>
        simp only [exec, hev] at hex
        obtain ⟨m1, r1, k1, hval⟩ := hp.1 v hev
        obtain ⟨hinv1, hd1⟩ := decl_inv hinv hd x v k1 hval hxn ho
        obtain ⟨st', r2, hpost⟩ := ih k ((x, o + p.w) :: Γ) (upd env x v) _ (o + p.w) m1 env' tr res hpl2 (by omega)
          hinv1 hd1 (by simpa using hwk) (by omega) (by omega) hex hck
        refine ⟨st', by simpa using r1.trans r2, ?_⟩
        cases res with
        | norm =>
          simp only [Post] at hpost ⊢
          exact ⟨by rw [hpost.1]; omega, decl_back hinv x hpost.2 hxn⟩
        | returned => simpa [Post] using hpost
        | div0 => simpa [Post] using hpost
    | assign x e k =>
      simp only [wfS, Bool.and_eq_true] at hwf
      obtain ⟨⟨hxin, hbe⟩, hwk⟩ := hwf
      simp only [pkS] at hpk
      have hg := gV_ok (ck := ck) lib Γ env F D e pc o (3 * p.w) m
      rcases hgv : gV (cxOf p ck B) Γ pc o (cxOf p ck B).r1 e with ⟨c, v'⟩
      rw [show (cxOf p ck B).r1 = 3 * p.w from rfl] at hgv
      rw [hgv] at hg
      simp only at hg
      have hcode : cS (cxOf p ck B) Γ pc o (.assign x e k)
          = (c ++ [stSlot (cxOf p ck B) (look Γ x) (v'.arg (cxOf p ck B))]) ++
              cS (cxOf p ck B) Γ (pc + (c ++ [stSlot (cxOf p ck B) (look Γ x) (v'.arg (cxOf p ck B))]).length) o k := by
        simp only [cS]; rw [show (cxOf p ck B).r1 = 3 * p.w from rfl, hgv]
      rw [hcode] at hpl hB ⊢
      obtain ⟨hpl12, hpl3⟩ := hpl.append
      obtain ⟨hpl1, hpl2⟩ := hpl12.append
      simp only [List.length_append, List.length_cons, List.length_nil] at hB hpl3 ⊢
      have hg' := hg hpl1 (by omega) (Or.inr trivial) hinv.fr hinv.vars hbe (by omega) ho
      cases hev : evalE (256 ^ p.w) (8 * p.w) env e with
      | none =>
        simp only [exec, hev, Option.some.injEq, Prod.mk.injEq] at hex
        obtain ⟨rfl, rfl, rfl⟩ := hex
        obtain ⟨m', r⟩ := hg'.2 hev (hck rfl)
        exact ⟨⟨_, m'⟩, r, by simp [Post]⟩
      | some v =>
        simp only [exec, hev] at hex
        obtain ⟨m1, r1, k1, harg, hval⟩ := hg'.1 v hev
        have hinv1 := hinv.keep k1 ho
        obtain ⟨hx1, hx2, _⟩ := hinv.vars x hxin
        have ev := ev_arg_any (ck := ck) (B := B) hw hinv1.fr (pc + c.length) v' harg
        rw [hval] at ev
        have st := st_reach (ck := ck) (B := B) hw hinv1.fr (look Γ x) _ v hpl2 ev (by omega) (by omega)
        have hvM : v < 256 ^ p.w := by
          rw [← hval]; cases v' with
          | imm i => exact wrapI_lt (by omega) i
          | reg a => exact Mem.readLE_lt _ _ _
          | slot s => exact Mem.readLE_lt _ _ _
        have hinv2 := assign_inv hw hinv1 hd x v hvM hxin hoD
        obtain ⟨st', r2, hpost⟩ := ih k Γ (upd env x v) _ o _ env' tr res hpl3 (by omega)
          hinv2 hd hwk (by omega) ho hex hck
        refine ⟨st', by simpa [Nat.add_assoc] using r1.trans (st.trans r2), ?_⟩
        cases res with
        | norm =>
          simp only [Post] at hpost ⊢
          exact ⟨by rw [hpost.1]; omega, hpost.2⟩
        | returned => simpa [Post] using hpost
        | div0 => simpa [Post] using hpost
    | write e k =>
      simp only [wfS, Bool.and_eq_true] at hwf
      obtain ⟨hbe, hwk⟩ := hwf
      simp only [pkS] at hpk
      simp only [cS] at hpl hB ⊢
      obtain ⟨hpl1, hpl2⟩ := hpl.append
      rw [List.length_append] at hB ⊢
      have hwr := cWrite_ok (ck := ck) lib Γ env F D e pc o m hpl1 (by omega) hinv.fr hinv.vars hbe (by omega) ho
      cases hev : evalE (256 ^ p.w) (8 * p.w) env e with
      | none =>
        simp only [exec, hev, Option.some.injEq, Prod.mk.injEq] at hex
        obtain ⟨rfl, rfl, rfl⟩ := hex
        obtain ⟨m', r⟩ := hwr.2 hev (hck rfl)
        exact ⟨⟨_, m'⟩, r, by simp [Post]⟩
      | some v =>
        simp only [exec, hev] at hex
        cases hk : exec (256 ^ p.w) (8 * p.w) f env k with
        | none => simp [hk] at hex
        | some rk =>
          obtain ⟨envk, trk, resk⟩ := rk
          simp only [hk, Option.bind_eq_bind, Option.bind_some, Option.pure_def, Option.some.injEq, Prod.mk.injEq] at hex
          obtain ⟨rfl, rfl, rfl⟩ := hex
          obtain ⟨m1, r1, k1⟩ := hwr.1 v hev
          obtain ⟨st', r2, hpost⟩ := ih k Γ env _ o m1 envk trk resk hpl2 (by omega)
            (hinv.keep k1 ho) hd hwk (by omega) ho hk hck
          refine ⟨st', r1.trans r2, ?_⟩
          cases resk with
          | norm =>
            simp only [Post] at hpost ⊢
            exact ⟨by rw [hpost.1]; omega, hpost.2⟩
          | returned => simpa [Post] using hpost
          | div0 => simpa [Post] using hpost
    | writeln e k =>
      cases e with
      | none =>
        simp only [wfS] at hwf
        simp only [pkS] at hpk
        simp only [cS] at hpl hB ⊢
        have c0 := hpl 0 (by simp)
        simp only [List.getElem_cons_zero, Nat.add_zero] at c0
        have hpl2 : PlacedAt p (pc + 1) (cS (cxOf p ck B) Γ (pc + 1) o k) := by
          have := (hpl.append (l₁ := [Instr.yld (.imm 10)])).2; simpa using this
        simp only [List.length_cons] at hB ⊢
        simp only [exec] at hex
        cases hk : exec (256 ^ p.w) (8 * p.w) f env k with
        | none => simp [hk] at hex
        | some rk =>
          obtain ⟨envk, trk, resk⟩ := rk
          simp only [hk, Option.bind_eq_bind, Option.bind_some, Option.pure_def, Option.some.injEq, Prod.mk.injEq] at hex
          obtain ⟨rfl, rfl, rfl⟩ := hex
          have y := yld_reach (p := p) pc 10 m c0
          rw [show 10 % p.M % 256 = 10 from by unfold Prog.M; rw [Nat.mod_eq_of_lt (show 10 < 256 ^ p.w by omega)]] at y
          obtain ⟨st', r2, hpost⟩ := ih k Γ env _ o m envk trk resk hpl2 (by omega) hinv hd hwf hpk ho hk hck
          refine ⟨st', by simpa using y.trans r2, ?_⟩
          cases resk with
          | norm =>
            simp only [Post] at hpost ⊢
            exact ⟨by rw [hpost.1]; omega, hpost.2⟩
          | returned => simpa [Post] using hpost
          | div0 => simpa [Post] using hpost
      | some e =>
        simp only [wfS, Bool.and_eq_true] at hwf
        obtain ⟨hbe, hwk⟩ := hwf
        simp only [pkS] at hpk
        simp only [cS] at hpl hB ⊢
        obtain ⟨hpl12, hpl3⟩ := hpl.append
        obtain ⟨hpl1, hpl2⟩ := hpl12.append
        simp only [List.length_append, List.length_cons, List.length_nil] at hB hpl3 ⊢
        have hwr := cWrite_ok (ck := ck) lib Γ env F D e pc o m hpl1 (by omega) hinv.fr hinv.vars hbe (by omega) ho
        cases hev : evalE (256 ^ p.w) (8 * p.w) env e with
        | none =>
          simp only [exec, hev, Option.some.injEq, Prod.mk.injEq] at hex
          obtain ⟨rfl, rfl, rfl⟩ := hex
          obtain ⟨m', r⟩ := hwr.2 hev (hck rfl)
          exact ⟨⟨_, m'⟩, r, by simp [Post]⟩
        | some v =>
          simp only [exec, hev] at hex
          cases hk : exec (256 ^ p.w) (8 * p.w) f env k with
          | none => simp [hk] at hex
          | some rk =>
            obtain ⟨envk, trk, resk⟩ := rk
            simp only [hk, Option.bind_eq_bind, Option.bind_some, Option.pure_def, Option.some.injEq, Prod.mk.injEq] at hex
            obtain ⟨rfl, rfl, rfl⟩ := hex
            obtain ⟨m1, r1, k1⟩ := hwr.1 v hev
            have y := yld_reach (p := p) (pc + (cWrite (cxOf p ck B) Γ pc o e).length) 10 m1 (placed_one hpl2)
            rw [show 10 % p.M % 256 = 10 from by unfold Prog.M; rw [Nat.mod_eq_of_lt (show 10 < 256 ^ p.w by omega)]] at y
            obtain ⟨st', r2, hpost⟩ := ih k Γ env _ o m1 envk trk resk hpl3 (by omega)
              (hinv.keep k1 ho) hd hwk (by omega) ho hk hck
            refine ⟨st', by simpa [Nat.add_assoc] using r1.trans (y.trans r2), ?_⟩
            cases resk with
            | norm =>
              simp only [Post] at hpost ⊢
              exact ⟨by rw [hpost.1]; omega, hpost.2⟩
            | returned => simpa [Post] using hpost
            | div0 => simpa [Post] using hpost
    | putc c k =>
      simp only [wfS] at hwf
      simp only [pkS] at hpk
      simp only [cS] at hpl hB ⊢
      have c0 := hpl 0 (by simp)
      simp only [List.getElem_cons_zero, Nat.add_zero] at c0
      have hpl2 : PlacedAt p (pc + 1) (cS (cxOf p ck B) Γ (pc + 1) o k) := by
        have := (hpl.append (l₁ := [Instr.yld (.imm (c % (cxOf p ck B).M))])).2; simpa using this
      simp only [List.length_cons] at hB ⊢
      simp only [exec] at hex
      cases hk : exec (256 ^ p.w) (8 * p.w) f env k with
      | none => simp [hk] at hex
      | some rk =>
        obtain ⟨envk, trk, resk⟩ := rk
        simp only [hk, Option.bind_eq_bind, Option.bind_some, Option.pure_def, Option.some.injEq, Prod.mk.injEq] at hex
        obtain ⟨rfl, rfl, rfl⟩ := hex
        have y := yld_reach (p := p) pc _ m c0
        rw [show c % (cxOf p ck B).M % p.M % 256 = c % 256 ^ p.w % 256 from by
          unfold Prog.M; show c % 256 ^ p.w % 256 ^ p.w % 256 = _; rw [Nat.mod_mod]] at y
        obtain ⟨st', r2, hpost⟩ := ih k Γ env _ o m envk trk resk hpl2 (by omega) hinv hd hwf hpk ho hk hck
        refine ⟨st', by simpa using y.trans r2, ?_⟩
        cases resk with
        | norm =>
          simp only [Post] at hpost ⊢
          exact ⟨by rw [hpost.1]; omega, hpost.2⟩
        | returned => simpa [Post] using hpost
        | div0 => simpa [Post] using hpost
    | block b k =>
      simp only [wfS, Bool.and_eq_true] at hwf
      simp only [pkS] at hpk
      simp only [cS] at hpl hB ⊢
      obtain ⟨hpl1, hpl2⟩ := hpl.append
      rw [List.length_append] at hB ⊢
      simp only [exec] at hex
      cases hb1 : exec (256 ^ p.w) (8 * p.w) f env b with
      | none => simp [hb1] at hex
      | some rb =>
        obtain ⟨env1, tr1, res1⟩ := rb
        simp only [hb1, Option.bind_eq_bind, Option.bind_some] at hex
        by_cases hn : res1 = .norm
        · subst hn
          simp only [if_true] at hex
          cases hk : exec (256 ^ p.w) (8 * p.w) f env1 k with
          | none => simp [hk] at hex
          | some rk =>
            obtain ⟨envk, trk, resk⟩ := rk
            simp only [hk, Option.bind_some, Option.pure_def, Option.some.injEq, Prod.mk.injEq] at hex
            obtain ⟨rfl, rfl, rfl⟩ := hex
            obtain ⟨st1, r1, hpost1⟩ := ih b Γ env pc o m env1 tr1 .norm hpl1 (by omega) hinv hd hwf.1 (by omega) ho hb1 (by simp)
            simp only [Post] at hpost1
            obtain ⟨pc1, m1⟩ := st1
            simp only at hpost1
            obtain ⟨hpc1, hinv1⟩ := hpost1
            subst hpc1
            obtain ⟨st', r2, hpost⟩ := ih k Γ env1 _ o m1 envk trk resk hpl2 (by omega) hinv1 hd hwf.2 (by omega) ho hk hck
            refine ⟨st', r1.trans r2, ?_⟩
            cases resk with
            | norm =>
              simp only [Post] at hpost ⊢
              exact ⟨by rw [hpost.1]; omega, hpost.2⟩
            | returned => simpa [Post] using hpost
            | div0 => simpa [Post] using hpost
        · simp only [hn, if_false, Option.pure_def, Option.some.injEq, Prod.mk.injEq] at hex
          obtain ⟨rfl, rfl, rfl⟩ := hex
          obtain ⟨st1, r1, hpost1⟩ := ih b Γ env pc o m env1 tr1 res1 hpl1 (by omega) hinv hd hwf.1 (by omega) ho hb1 hck
          refine ⟨st1, r1, ?_⟩
          cases res1 with
          | norm => exact absurd rfl hn
          | returned => simpa [Post] using hpost1
          | div0 => simpa [Post] using hpost1
    | ifb c t e k =>
      simp only [wfS, Bool.and_eq_true] at hwf
      obtain ⟨⟨⟨hbc, hwt⟩, hwe⟩, hwk⟩ := hwf
      simp only [pkS] at hpk
      simp only [cS] at hpl hB ⊢
      have hlenA : (cB (cxOf p ck B) Γ pc o c [] (goto (pc + lenB ck c 0 2 false true + lenS ck t + 2))).length
          = lenB ck c 0 2 false true := by rw [cB_len]; simp
      generalize hnC : lenB ck c 0 2 false true = nC at *
      have hlenT : (cS (cxOf p ck B) Γ (pc + nC) o t).length = lenS ck t := cS_len _ _ _ _ _
      have hlenE : (cS (cxOf p ck B) Γ (pc + nC + lenS ck t + 2) o e).length = lenS ck e := cS_len _ _ _ _ _
      generalize hnT : lenS ck t = nT at *
      generalize hnE : lenS ck e = nE at *
      obtain ⟨hpl1234, hplK⟩ := hpl.append
      obtain ⟨hpl123, hplE⟩ := hpl1234.append
      obtain ⟨hpl12, hplG⟩ := hpl123.append
      obtain ⟨hplA, hplT⟩ := hpl12.append
      simp only [List.length_append, hlenA, hlenT, hlenE, goto_len, ← Nat.add_assoc] at hB hplK hplE hplG hplT ⊢
      have hendM : pc + nC + nT + 2 + nE < 256 ^ p.w := by simp [stdlibLength] at hBM; omega
      have hc := cB_ok (ck := ck) lib Γ env F D c pc o none (some (pc + nC + nT + 2)) m hplA (by rw [brCode, brCode, hlenA]; omega)
        (fun x hx => by simp at hx) (fun x hx => by simp at hx; omega) hinv.fr hinv.vars hbc (by omega) ho
      rw [show (cB (cxOf p ck B) Γ pc o c (brCode none) (brCode (some (pc + nC + nT + 2)))).length = nC from hlenA] at hc
      cases hev : evalB (256 ^ p.w) (8 * p.w) env c with
      | none =>
        simp only [exec, hev, Option.some.injEq, Prod.mk.injEq] at hex
        obtain ⟨rfl, rfl, rfl⟩ := hex
        obtain ⟨m', r⟩ := hc.2 hev (hck rfl)
        exact ⟨⟨_, m'⟩, r, by simp [Post]⟩
      | some cv =>
        simp only [exec, hev] at hex
        obtain ⟨m0, r0, k0⟩ := hc.1 cv hev
        have hinv0 := hinv.keep k0 ho
        cases hb1 : exec (256 ^ p.w) (8 * p.w) f env (if cv = true then t else e) with
        | none => simp [hb1] at hex
        | some rb =>
          obtain ⟨env1, tr1, res1⟩ := rb
          simp only [hb1, Option.bind_eq_bind, Option.bind_some] at hex
          -- the chosen branch, and where it ends
          have hbr : ∃ st1, Reach (sphinx p) ⟨pc, m⟩ tr1 st1 ∧
              Post p B ra Γ env1 F D o (pc + nC + nT + 2 + nE) res1 st1 := by
            cases cv with
            | true =>
              simp only [if_true] at hb1
              simp only [if_true, Option.getD_none] at r0
              obtain ⟨st1, r1, hp1⟩ := ih t Γ env (pc + nC) o m0 env1 tr1 res1 hplT (by rw [hlenT]; omega) hinv0 hd hwt (by omega) ho hb1
                (fun h => hck (by
                  subst h
                  simp only [show ¬ (Res.div0 = Res.norm) by decide, if_false, Option.pure_def, Option.some.injEq, Prod.mk.injEq] at hex
                  exact hex.2.2.symm))
              rw [hlenT] at hp1
              cases res1 with
              | norm =>
                simp only [Post] at hp1
                obtain ⟨pc1, m1⟩ := st1
                simp only at hp1
                obtain ⟨hpc1, hi1⟩ := hp1
                subst hpc1
                have g := goto_reach lib (pc + nC + nT) (pc + nC + nT + 2 + nE) m1 hplG hendM
                exact ⟨⟨_, m1⟩, by simpa using r0.trans (r1.trans g), by simp [Post]; exact hi1⟩
              | returned => exact ⟨st1, by simpa using r0.trans r1, by simpa [Post] using hp1⟩
              | div0 => exact ⟨st1, by simpa using r0.trans r1, by simpa [Post] using hp1⟩
            | false =>
              simp only [Bool.false_eq_true, if_false] at hb1
              simp only [Bool.false_eq_true, if_false, Option.getD_some] at r0
              obtain ⟨st1, r1, hp1⟩ := ih e Γ env (pc + nC + nT + 2) o m0 env1 tr1 res1 hplE (by rw [hlenE]; omega) hinv0 hd hwe (by omega) ho hb1
                (fun h => hck (by
                  subst h
                  simp only [show ¬ (Res.div0 = Res.norm) by decide, if_false, Option.pure_def, Option.some.injEq, Prod.mk.injEq] at hex
                  exact hex.2.2.symm))
              rw [hlenE] at hp1
              exact ⟨st1, by simpa using r0.trans r1, hp1⟩
          obtain ⟨st1, r1, hp1⟩ := hbr
          by_cases hn : res1 = .norm
          · subst hn
            simp only [if_true] at hex
            cases hk : exec (256 ^ p.w) (8 * p.w) f env1 k with
            | none => simp [hk] at hex
            | some rk =>
              obtain ⟨envk, trk, resk⟩ := rk
              simp only [hk, Option.bind_some, Option.pure_def, Option.some.injEq, Prod.mk.injEq] at hex
              obtain ⟨rfl, rfl, rfl⟩ := hex
              simp only [Post] at hp1
              obtain ⟨pc1, m1⟩ := st1
              simp only at hp1
              obtain ⟨hpc1, hi1⟩ := hp1
              subst hpc1
              obtain ⟨st', r2, hpost⟩ := ih k Γ env1 (pc + nC + nT + 2 + nE) o m1 envk trk resk hplK (by omega) hi1 hd hwk (by omega) ho hk hck
              refine ⟨st', r1.trans r2, ?_⟩
              cases resk with
              | norm =>
                simp only [Post] at hpost ⊢
                exact ⟨by have := hpost.1; omega, hpost.2⟩
              | returned => simpa [Post] using hpost
              | div0 => simpa [Post] using hpost
          · simp only [hn, if_false, Option.pure_def, Option.some.injEq, Prod.mk.injEq] at hex
            obtain ⟨rfl, rfl, rfl⟩ := hex
            refine ⟨st1, r1, ?_⟩
            cases res1 with
            | norm => exact absurd rfl hn
            | returned => simpa [Post] using hp1
            | div0 => simpa [Post] using hp1
    | loop c body cont k =>
      have hwf0 := hwf
      have hpk0 := hpk
      have hpl0 := hpl
      have hB0 := hB
      simp only [wfS, Bool.and_eq_true] at hwf
      obtain ⟨⟨⟨hbc, hwb⟩, hwc⟩, hwk⟩ := hwf
      simp only [pkS] at hpk
      simp only [cS] at hpl hB ⊢
      have hlenA : (cB (cxOf p ck B) Γ pc o c [] (goto (pc + lenB ck c 0 2 false true + lenS ck body + lenS ck cont + 2))).length
          = lenB ck c 0 2 false true := by rw [cB_len]; simp
      generalize hnC : lenB ck c 0 2 false true = nC at *
      have hlenT : (cS (cxOf p ck B) Γ (pc + nC) o body).length = lenS ck body := cS_len _ _ _ _ _
      have hlenE : (cS (cxOf p ck B) Γ (pc + nC + lenS ck body) o cont).length = lenS ck cont := cS_len _ _ _ _ _
      generalize hnT : lenS ck body = nT at *
      generalize hnE : lenS ck cont = nE at *
      obtain ⟨hpl1234, hplK⟩ := hpl.append
      obtain ⟨hpl123, hplG⟩ := hpl1234.append
      obtain ⟨hpl12, hplE⟩ := hpl123.append
      obtain ⟨hplA, hplT⟩ := hpl12.append
      simp only [List.length_append, hlenA, hlenT, hlenE, goto_len, ← Nat.add_assoc] at hB hplK hplE hplG hplT ⊢
      have hendM : pc + nC + nT + nE + 2 < 256 ^ p.w := by simp [stdlibLength] at hBM; omega
      have hc := cB_ok (ck := ck) lib Γ env F D c pc o none (some (pc + nC + nT + nE + 2)) m hplA (by rw [brCode, brCode, hlenA]; omega)
        (fun x hx => by simp at hx) (fun x hx => by simp at hx; omega) hinv.fr hinv.vars hbc (by omega) ho
      rw [show (cB (cxOf p ck B) Γ pc o c (brCode none) (brCode (some (pc + nC + nT + nE + 2)))).length = nC from hlenA] at hc
      cases hev : evalB (256 ^ p.w) (8 * p.w) env c with
      | none =>
        simp only [exec, hev, Option.some.injEq, Prod.mk.injEq] at hex
        obtain ⟨rfl, rfl, rfl⟩ := hex
        obtain ⟨m', r⟩ := hc.2 hev (hck rfl)
        exact ⟨⟨_, m'⟩, r, by simp [Post]⟩
      | some cv =>
        obtain ⟨m0, r0, k0⟩ := hc.1 cv hev
        have hinv0 := hinv.keep k0 ho
        cases cv with
        | false =>
          simp only [exec, hev] at hex
          simp only [Bool.false_eq_true, if_false, Option.getD_some] at r0
          obtain ⟨st', r2, hpost⟩ := ih k Γ env (pc + nC + nT + nE + 2) o m0 env' tr res hplK (by omega) hinv0 hd hwk (by omega) ho hex hck
          refine ⟨st', by simpa using r0.trans r2, ?_⟩
          cases res with
          | norm =>
            simp only [Post] at hpost ⊢
            exact ⟨by have := hpost.1; omega, hpost.2⟩
          | returned => simpa [Post] using hpost
          | div0 => simpa [Post] using hpost
        | true =>
          simp only [exec, hev] at hex
          simp only [if_true, Option.getD_none] at r0
          cases hb1 : exec (256 ^ p.w) (8 * p.w) f env body with
          | none => simp [hb1] at hex
          | some rb =>
            obtain ⟨env1, tr1, res1⟩ := rb
            simp only [hb1, Option.bind_eq_bind, Option.bind_some] at hex
            by_cases hn1 : res1 = .norm
            · subst hn1
              simp only [if_true] at hex
              obtain ⟨st1, r1, hp1⟩ := ih body Γ env (pc + nC) o m0 env1 tr1 .norm hplT (by rw [hlenT]; omega) hinv0 hd hwb (by omega) ho hb1 (by simp)
              rw [hlenT] at hp1
              simp only [Post] at hp1
              obtain ⟨pc1, m1⟩ := st1
              simp only at hp1
              obtain ⟨hpc1, hi1⟩ := hp1
              subst hpc1
              cases hb2 : exec (256 ^ p.w) (8 * p.w) f env1 cont with
              | none => simp [hb2] at hex
              | some rc =>
                obtain ⟨env2, tr2, res2⟩ := rc
                simp only [hb2, Option.bind_some] at hex
                by_cases hn2 : res2 = .norm
                · subst hn2
                  simp only [if_true] at hex
                  obtain ⟨st2, r2, hp2⟩ := ih cont Γ env1 (pc + nC + nT) o m1 env2 tr2 .norm hplE (by rw [hlenE]; omega) hi1 hd hwc (by omega) ho hb2 (by simp)
                  rw [hlenE] at hp2
                  simp only [Post] at hp2
                  obtain ⟨pc2, m2⟩ := st2
                  simp only at hp2
                  obtain ⟨hpc2, hi2⟩ := hp2
                  subst hpc2
                  have g := goto_reach lib (pc + nC + nT + nE) pc m2 hplG (by omega)
                  cases hb3 : exec (256 ^ p.w) (8 * p.w) f env2 (.loop c body cont k) with
                  | none => simp [hb3] at hex
                  | some rl =>
                    obtain ⟨env3, tr3, res3⟩ := rl
                    simp only [hb3, Option.bind_some, Option.pure_def, Option.some.injEq, Prod.mk.injEq] at hex
                    obtain ⟨rfl, rfl, rfl⟩ := hex
                    obtain ⟨st', r3, hpost⟩ := ih (.loop c body cont k) Γ env2 pc o m2 env3 tr3 res3 hpl0 hB0 hi2 hd hwf0 hpk0 ho hb3 hck
                    refine ⟨st', by simpa [List.append_assoc] using r0.trans (r1.trans (r2.trans (g.trans r3))), ?_⟩
                    have e : pc + (cS (cxOf p ck B) Γ pc o (.loop c body cont k)).length
                        = pc + nC + nT + nE + 2 + (cS (cxOf p ck B) Γ (pc + nC + nT + nE + 2) o k).length := by
                      simp only [cS, hnC, hnT, hnE, List.length_append, hlenA, hlenT, hlenE, goto_len]; omega
                    rw [e] at hpost; exact hpost
                · simp only [hn2, if_false, Option.pure_def, Option.some.injEq, Prod.mk.injEq] at hex
                  obtain ⟨rfl, rfl, rfl⟩ := hex
                  obtain ⟨st2, r2, hp2⟩ := ih cont Γ env1 (pc + nC + nT) o m1 env2 tr2 res2 hplE (by rw [hlenE]; omega) hi1 hd hwc (by omega) ho hb2 hck
                  refine ⟨st2, by simpa using r0.trans (r1.trans r2), ?_⟩
                  cases res2 with
                  | norm => exact absurd rfl hn2
                  | returned => simpa [Post] using hp2
                  | div0 => simpa [Post] using hp2
            · simp only [hn1, if_false, Option.pure_def, Option.some.injEq, Prod.mk.injEq] at hex
              obtain ⟨rfl, rfl, rfl⟩ := hex
              obtain ⟨st1, r1, hp1⟩ := ih body Γ env (pc + nC) o m0 env1 tr1 res1 hplT (by rw [hlenT]; omega) hinv0 hd hwb (by omega) ho hb1 hck
              refine ⟨st1, by simpa using r0.trans r1, ?_⟩
              cases res1 with
              | norm => exact absurd rfl hn1
              | returned => simpa [Post] using hp1
              | div0 => simpa [Post] using hp1
end

end HidVerif.Core
