import HidVerif.Proofs.CoreStop
import HidVerif.Proofs.CoreCall
/-!
# Core compiler proofs: statement lists (`cS_ok`) by induction on the fuel of `exec`

Two kinds of statement lists are covered by one theorem:
* lists without `try` (bodies of `try` blocks: they may contain defeat calls) — the conclusion
  is a `Reach`, or `Halts` of the start state when the source semantics says *defeat* (inside the
  body of a `try/stop`: a `Reach` to the handler);
* lists at the level of the you function (`youLevel`: `try` allowed, defeat calls only inside
  `try` bodies) — these additionally need to know that the states in which the whole list can
  end never halt, because a Turing jump looks at the whole future (`Safe`).
-/
namespace HidVerif.Core
open HidVerif HidVerif.PSys HidVerif.Sphinx HidVerif.Gen

section
variable {p : Prog} {ck : Bool} {B : Nat} {dA : Nat} {fa : FAddr} {fns : List FDecl}

theorem cS_ok (lib : Placed p B) (fok : FnsOK p ck B dA fa fns) :
    ∀ (fuel : Nat) (F D ra : Nat) (hra : ra < 256 ^ p.w) (lp : Jt) (hlp : lp.cont < 256 ^ p.w ∧ lp.brk < 256 ^ p.w) (md : Md) (sb dc : Bool)
      (s : S) (Γ : Gam) (env : Env) (pc o : Nat) (m : Mem) (env' : Env) (tr : List Ev) (res : Res),
      PlacedAt p pc (cS (cxOf p ck B dA) fa lp Γ pc o s) →
      pc + (cS (cxOf p ck B dA) fa lp Γ pc o s).length ≤ B →
      SInv p md Γ env m F D o ra → Disj p.w Γ → wfS fns dc (Γ.map Prod.fst) s = true →
      pkS p.w o s ≤ D → p.w ≤ o →
      exec (256 ^ p.w) (8 * p.w) fns p.w fuel D o env s = some (env', tr, res) → FaultOK ck fns p.w res →
      Safe p B dA ra lp md sb dc fns Γ env' F D o (pc + (cS (cxOf p ck B dA) fa lp Γ pc o s).length) m res s →
      Concl p B ra lp md Γ env' F D o pc (pc + (cS (cxOf p ck B dA) fa lp Γ pc o s).length) m tr res := by
  have hw := lib.hw
  have h64 := mul_w_lt_pow p.w hw
  have hM := pow_ge2 p.w hw
  have hBM := lib.hB
  intro fuel
  induction fuel with
  | zero => intro F D ra hra lp hlp md sb dc s Γ env pc o m env' tr res _ _ _ _ _ _ _ hex; simp [exec] at hex
  | succ f ih =>
    intro F D ra hra lp hlp md sb dc s Γ env pc o m env' tr res hpl hB hinv hd hwf hpk ho hex hck hs
    have hroom := hinv.fr.room; have htop := hinv.fr.top; have hFM := hinv.fr.lt
    have hoD : o ≤ D := by have := pkS_ge p.w s o; omega
    -- a fault exit: the machine is in the `division_by_zero` stub
    have fault : ∀ (pc0 : Nat) (e0 : Nat) (env0 : Env) (m0 m' : Mem) (t : List Ev),
        Reach (sphinx p) ⟨pc0, m0⟩ t ⟨B + off_division_by_zero, m'⟩ →
        Concl p B ra lp md Γ env0 F D o pc0 e0 m0 t .div0 :=
      fun _ _ _ _ m' _ r => ⟨fun h => absurd h (by decide), fun _ => ⟨⟨_, m'⟩, r, by simp [Post]⟩⟩
    -- the same for a stack overflow in a callee
    have faultO : ∀ (pc0 : Nat) (e0 : Nat) (env0 : Env) (m0 m' : Mem) (t : List Ev),
        Reach (sphinx p) ⟨pc0, m0⟩ t ⟨B + off_stack_overflow, m'⟩ →
        Concl p B ra lp md Γ env0 F D o pc0 e0 m0 t .ovf :=
      fun _ _ _ _ m' _ r => ⟨fun h => absurd h (by decide), fun _ => ⟨⟨_, m'⟩, r, by simp [Post]⟩⟩
    -- a call `g(args)` at the start of the list: the callee's body by the induction hypothesis (`call_ok`)
    have hcall := call_ok lib fok f ih F D ra hra md Γ env pc o m hinv ho
    cases s with
    | nil =>
      simp only [exec, Option.some.injEq, Prod.mk.injEq] at hex
      obtain ⟨rfl, rfl, rfl⟩ := hex
      exact ⟨fun h => absurd h (by decide), fun _ => ⟨⟨pc, m⟩, by simpa using Reach.refl, by simp [Post, cS]; exact ⟨hinv, Keep.refl _ _ _⟩⟩⟩
    | ret =>
      simp only [exec, Option.some.injEq, Prod.mk.injEq] at hex
      obtain ⟨rfl, rfl, rfl⟩ := hex
      simp only [cS] at hpl hB
      have c0 := hpl 0 (by simp); have c1 := hpl 1 (by simp); have c2 := hpl 2 (by simp)
      simp only [List.getElem_cons_succ, List.getElem_cons_zero, Nat.add_zero] at c0 c1 c2
      rw [show (cxOf p ck B dA).r1 = 3 * p.w from rfl] at c0 c1
      have s0 := step_ldSlot ck B (3 * p.w) p.w hw hinv.fr c0 (Nat.le_refl _) (by omega) (by omega)
      rw [hinv.ra] at s0
      have hsz : 5 * p.w ≤ (m.writeLE (3 * p.w) p.w ra).size := by simp; omega
      have s1 := step_j (m := m.writeLE (3 * p.w) p.w ra) c1
        (by rw [ev_st (by unfold Prog.M; omega) (by omega), Mem.readLE_writeLE_same _ _ _ _ (by omega)])
      rw [Nat.mod_eq_of_lt hra] at s1
      have s2 := step_halt (m := m.writeLE (3 * p.w) p.w ra) c2
      refine ⟨fun h => absurd h (by decide), fun _ => ⟨⟨ra, m.writeLE (3 * p.w) p.w ra⟩, ?_,
        by simp [Post]; exact (Keep.write _ _ _ _ _ F (by omega) (by omega)).kb⟩⟩
      have := (Reach.of_next (sys := sphinx p) s0).trans (Reach.jump_taken (sys := sphinx p) s1 s2)
      simpa [evl] using this
    | decl x e k =>
      simp only [wfS, Bool.and_eq_true, Bool.not_eq_true'] at hwf
      obtain ⟨⟨hbe, hxn⟩, hwk⟩ := hwf
      simp only [pkS] at hpk
      simp only [cS] at hpl hB hs ⊢
      obtain ⟨hpl1, hpl2⟩ := hpl.append
      rw [List.length_append] at hB hs ⊢
      have hp := pushE_ok (ck := ck) (dA := dA) lib Γ env F D e pc o m hpl1 (by omega) hinv.fr hinv.vars hbe (by omega) ho
      cases hev : evalE (256 ^ p.w) (8 * p.w) env e with
      | none =>
        simp only [exec, hev, Option.some.injEq, Prod.mk.injEq] at hex
        obtain ⟨rfl, rfl, rfl⟩ := hex
        obtain ⟨m', r⟩ := hp.2 hev hck
        exact fault _ _ _ _ m' _ r
      | some v =>
        simp only [exec, hev] at hex
        obtain ⟨m1, r1, k1, hval⟩ := hp.1 v hev
        obtain ⟨hinv1, hd1⟩ := decl_inv hinv hd x v k1 hval hxn ho
        have conv : ∀ (e1 e2 : Nat), e1 = e2 → ∀ st', Post p B ra lp md ((x, o + p.w) :: Γ) env' F D (o + p.w) e1 m res st' →
            Post p B ra lp md Γ env' F D o e2 m res st' := by
          intro e1 e2 he st' hpost
          subst he
          cases res with
          | norm =>
            simp only [Post] at hpost ⊢
            exact ⟨hpost.1, decl_back hinv x hpost.2.1 hxn, hpost.2.2⟩
          | returned => simpa [Post] using hpost
          | div0 => simpa [Post] using hpost
          | ovf => simpa [Post] using hpost
          | defeat =>
            simp only [Post] at hpost ⊢
            obtain ⟨a, v, h1, h2, h3, h4⟩ := hpost
            exact ⟨a, v, h1, h2, decl_backD hinv x h3 hxn, h4⟩
          | retv v => simpa [Post] using hpost
          | brk =>
            simp only [Post] at hpost ⊢
            exact ⟨hpost.1, decl_back hinv x hpost.2.1 hxn, hpost.2.2⟩
          | cnt =>
            simp only [Post] at hpost ⊢
            exact ⟨hpost.1, decl_back hinv x hpost.2.1 hxn, hpost.2.2⟩
        have hk := ih F D ra hra lp hlp md sb dc k ((x, o + p.w) :: Γ) (upd env x v) _ (o + p.w) m1 env' tr res hpl2 (by omega)
          hinv1 hd1 (by simpa using hwk) (by omega) (by omega) hex hck
          (hs.sub (by simp [noTry]) (by simp [youLevel]) (k1.mono (by omega)) (conv _ _ (by omega)))
        simpa using Concl.pre r1 (k1.mono (by omega)) hk (conv _ _ (by omega))
    | assign x e k =>
      simp only [wfS, Bool.and_eq_true] at hwf
      obtain ⟨⟨hxin, hbe⟩, hwk⟩ := hwf
      simp only [pkS] at hpk
      have hg := gV_ok (ck := ck) (dA := dA) lib Γ env F D e pc o (3 * p.w) m
      rcases hgv : gV (cxOf p ck B dA) Γ pc o (cxOf p ck B dA).r1 e with ⟨c, v'⟩
      rw [show (cxOf p ck B dA).r1 = 3 * p.w from rfl] at hgv
      rw [hgv] at hg
      simp only at hg
      have hcode : cS (cxOf p ck B dA) fa lp Γ pc o (.assign x e k)
          = (c ++ [stSlot (cxOf p ck B dA) (look Γ x) (v'.arg (cxOf p ck B dA))]) ++
              cS (cxOf p ck B dA) fa lp Γ (pc + (c ++ [stSlot (cxOf p ck B dA) (look Γ x) (v'.arg (cxOf p ck B dA))]).length) o k := by
        simp only [cS]; rw [show (cxOf p ck B dA).r1 = 3 * p.w from rfl, hgv]
      rw [hcode] at hpl hB hs ⊢
      obtain ⟨hpl12, hpl3⟩ := hpl.append
      obtain ⟨hpl1, hpl2⟩ := hpl12.append
      simp only [List.length_append, List.length_cons, List.length_nil, Nat.zero_add] at hB hpl3 hs ⊢
      have hg' := hg hpl1 (by omega) (Or.inr trivial) hinv.fr hinv.vars hbe (by omega) ho
      cases hev : evalE (256 ^ p.w) (8 * p.w) env e with
      | none =>
        simp only [exec, hev, Option.some.injEq, Prod.mk.injEq] at hex
        obtain ⟨rfl, rfl, rfl⟩ := hex
        obtain ⟨m', r⟩ := hg'.2 hev hck
        exact fault _ _ _ _ m' _ r
      | some v =>
        simp only [exec, hev] at hex
        obtain ⟨m1, r1, k1, harg, hval⟩ := hg'.1 v hev
        have hinv1 := hinv.keep k1 ho
        obtain ⟨hx1, hx2, _⟩ := hinv.vars x hxin
        have ev := ev_arg_any (ck := ck) (dA := dA) (B := B) hw hinv1.fr (pc + c.length) v' harg
        rw [hval] at ev
        have st := st_reach (ck := ck) (dA := dA) (B := B) hw hinv1.fr (look Γ x) _ v hpl2 ev (by omega) (by omega)
        have hvM : v < 256 ^ p.w := by
          rw [← hval]; cases v' with
          | imm i => exact wrapI_lt (by omega) i
          | reg a => exact Mem.readLE_lt _ _ _
          | slot s => exact Mem.readLE_lt _ _ _
        have hinv2 := assign_inv hw hinv1 hd x v hvM hxin hoD
        have km2 : Keep p.w m (m1.writeLE (F - look Γ x) p.w v) F :=
          (k1.mono (by omega)).trans' (Keep.write _ _ _ _ _ _ (by omega) (by omega))
        have hk := ih F D ra hra lp hlp md sb dc k Γ (upd env x v) _ o _ env' tr res hpl3 (by omega)
          hinv2 hd hwk (by omega) ho hex hck (hs.sub (by simp [noTry]) (by simp [youLevel]) km2 (post_conv (by omega)))
        have r01 : Reach (sphinx p) ⟨pc, m⟩ [] ⟨pc + (c.length + 1), m1.writeLE (F - look Γ x) p.w v⟩ := by
          simpa [Nat.add_assoc] using r1.trans st
        simpa using Concl.pre r01 km2 hk (post_conv (by omega))
    | write e k =>
      simp only [wfS, Bool.and_eq_true] at hwf
      obtain ⟨hbe, hwk⟩ := hwf
      simp only [pkS] at hpk
      simp only [cS] at hpl hB hs ⊢
      obtain ⟨hpl1, hpl2⟩ := hpl.append
      rw [List.length_append] at hB hs ⊢
      have hwr := cWrite_ok (ck := ck) (dA := dA) lib Γ env F D e pc o m hpl1 (by omega) hinv.fr hinv.vars hbe (by omega) ho
      cases hev : evalE (256 ^ p.w) (8 * p.w) env e with
      | none =>
        simp only [exec, hev, Option.some.injEq, Prod.mk.injEq] at hex
        obtain ⟨rfl, rfl, rfl⟩ := hex
        obtain ⟨m', r⟩ := hwr.2 hev hck
        exact fault _ _ _ _ m' _ r
      | some v =>
        simp only [exec, hev] at hex
        cases hk : exec (256 ^ p.w) (8 * p.w) fns p.w f D o env k with
        | none => simp [hk] at hex
        | some rk =>
          obtain ⟨envk, trk, resk⟩ := rk
          simp only [hk, Option.bind_eq_bind, Option.bind_some, Option.pure_def, Option.some.injEq, Prod.mk.injEq] at hex
          obtain ⟨rfl, rfl, rfl⟩ := hex
          obtain ⟨m1, r1, k1⟩ := hwr.1 v hev
          have hkk := ih F D ra hra lp hlp md sb dc k Γ env _ o m1 envk trk resk hpl2 (by omega)
            (hinv.keep k1 ho) hd hwk (by omega) ho hk hck (hs.sub (by simp [noTry]) (by simp [youLevel]) (k1.mono (by omega)) (post_conv (by omega)))
          exact Concl.pre r1 (k1.mono (by omega)) hkk (post_conv (by omega))
    | writeln e k =>
      cases e with
      | none =>
        simp only [wfS] at hwf
        simp only [pkS] at hpk
        simp only [cS] at hpl hB hs ⊢
        have c0 := hpl 0 (by simp)
        simp only [List.getElem_cons_zero, Nat.add_zero] at c0
        have hpl2 : PlacedAt p (pc + 1) (cS (cxOf p ck B dA) fa lp Γ (pc + 1) o k) := by
          have := (hpl.append (l₁ := [Instr.yld (.imm 10)])).2; simpa using this
        simp only [List.length_cons] at hB hs ⊢
        simp only [exec] at hex
        cases hk : exec (256 ^ p.w) (8 * p.w) fns p.w f D o env k with
        | none => simp [hk] at hex
        | some rk =>
          obtain ⟨envk, trk, resk⟩ := rk
          simp only [hk, Option.bind_eq_bind, Option.bind_some, Option.pure_def, Option.some.injEq, Prod.mk.injEq] at hex
          obtain ⟨rfl, rfl, rfl⟩ := hex
          have y := yld_reach (p := p) pc 10 m c0
          rw [show 10 % p.M % 256 = 10 from by unfold Prog.M; rw [Nat.mod_eq_of_lt (show 10 < 256 ^ p.w by omega)]] at y
          have hkk := ih F D ra hra lp hlp md sb dc k Γ env _ o m envk trk resk hpl2 (by omega) hinv hd hwf hpk ho hk hck
            (hs.sub (by simp [noTry]) (by simp [youLevel]) (Keep.refl _ _ _) (post_conv (by omega)))
          simpa using Concl.pre y (Keep.refl _ _ _) hkk (post_conv (by omega))
      | some e =>
        simp only [wfS, Bool.and_eq_true] at hwf
        obtain ⟨hbe, hwk⟩ := hwf
        simp only [pkS] at hpk
        simp only [cS] at hpl hB hs ⊢
        obtain ⟨hpl12, hpl3⟩ := hpl.append
        obtain ⟨hpl1, hpl2⟩ := hpl12.append
        simp only [List.length_append, List.length_cons, List.length_nil, Nat.zero_add] at hB hpl3 hs ⊢
        have hwr := cWrite_ok (ck := ck) (dA := dA) lib Γ env F D e pc o m hpl1 (by omega) hinv.fr hinv.vars hbe (by omega) ho
        cases hev : evalE (256 ^ p.w) (8 * p.w) env e with
        | none =>
          simp only [exec, hev, Option.some.injEq, Prod.mk.injEq] at hex
          obtain ⟨rfl, rfl, rfl⟩ := hex
          obtain ⟨m', r⟩ := hwr.2 hev hck
          exact fault _ _ _ _ m' _ r
        | some v =>
          simp only [exec, hev] at hex
          cases hk : exec (256 ^ p.w) (8 * p.w) fns p.w f D o env k with
          | none => simp [hk] at hex
          | some rk =>
            obtain ⟨envk, trk, resk⟩ := rk
            simp only [hk, Option.bind_eq_bind, Option.bind_some, Option.pure_def, Option.some.injEq, Prod.mk.injEq] at hex
            obtain ⟨rfl, rfl, rfl⟩ := hex
            obtain ⟨m1, r1, k1⟩ := hwr.1 v hev
            have y := yld_reach (p := p) (pc + (cWrite (cxOf p ck B dA) Γ pc o e).length) 10 m1 (placed_one hpl2)
            rw [show 10 % p.M % 256 = 10 from by unfold Prog.M; rw [Nat.mod_eq_of_lt (show 10 < 256 ^ p.w by omega)]] at y
            have hkk := ih F D ra hra lp hlp md sb dc k Γ env _ o m1 envk trk resk hpl3 (by omega)
              (hinv.keep k1 ho) hd hwk (by omega) ho hk hck (hs.sub (by simp [noTry]) (by simp [youLevel]) (k1.mono (by omega)) (post_conv (by omega)))
            have r01 : Reach (sphinx p) ⟨pc, m⟩ (outs (decimalW (256 ^ p.w) v) ++ [Ev.out 10])
                ⟨pc + ((cWrite (cxOf p ck B dA) Γ pc o e).length + 1), m1⟩ := by
              simpa [Nat.add_assoc] using r1.trans y
            simpa [List.append_assoc] using Concl.pre r01 (k1.mono (by omega)) hkk (post_conv (by omega))
    | putc c k =>
      simp only [wfS] at hwf
      simp only [pkS] at hpk
      simp only [cS] at hpl hB hs ⊢
      have c0 := hpl 0 (by simp)
      simp only [List.getElem_cons_zero, Nat.add_zero] at c0
      have hpl2 : PlacedAt p (pc + 1) (cS (cxOf p ck B dA) fa lp Γ (pc + 1) o k) := by
        have := (hpl.append (l₁ := [Instr.yld (.imm (c % (cxOf p ck B dA).M))])).2; simpa using this
      simp only [List.length_cons] at hB hs ⊢
      simp only [exec] at hex
      cases hk : exec (256 ^ p.w) (8 * p.w) fns p.w f D o env k with
      | none => simp [hk] at hex
      | some rk =>
        obtain ⟨envk, trk, resk⟩ := rk
        simp only [hk, Option.bind_eq_bind, Option.bind_some, Option.pure_def, Option.some.injEq, Prod.mk.injEq] at hex
        obtain ⟨rfl, rfl, rfl⟩ := hex
        have y := yld_reach (p := p) pc _ m c0
        rw [show c % (cxOf p ck B dA).M % p.M % 256 = c % 256 ^ p.w % 256 from by
          unfold Prog.M; show c % 256 ^ p.w % 256 ^ p.w % 256 = _; rw [Nat.mod_mod]] at y
        have hkk := ih F D ra hra lp hlp md sb dc k Γ env _ o m envk trk resk hpl2 (by omega) hinv hd hwf hpk ho hk hck
          (hs.sub (by simp [noTry]) (by simp [youLevel]) (Keep.refl _ _ _) (post_conv (by omega)))
        simpa using Concl.pre y (Keep.refl _ _ _) hkk (post_conv (by omega))
    | block b k =>
      simp only [wfS, Bool.and_eq_true] at hwf
      simp only [pkS] at hpk
      simp only [cS] at hpl hB hs ⊢
      obtain ⟨hpl1, hpl2⟩ := hpl.append
      rw [List.length_append] at hB hs ⊢
      simp only [exec] at hex
      cases hb1 : exec (256 ^ p.w) (8 * p.w) fns p.w f D o env b with
      | none => simp [hb1] at hex
      | some rb =>
        obtain ⟨env1, tr1, res1⟩ := rb
        simp only [hb1, Option.bind_eq_bind, Option.bind_some] at hex
        by_cases hn : res1 = .norm
        · subst hn
          simp only [if_true] at hex
          cases hk : exec (256 ^ p.w) (8 * p.w) fns p.w f D o env1 k with
          | none => simp [hk] at hex
          | some rk =>
            obtain ⟨envk, trk, resk⟩ := rk
            simp only [hk, Option.bind_some, Option.pure_def, Option.some.injEq, Prod.mk.injEq] at hex
            obtain ⟨rfl, rfl, rfl⟩ := hex
            -- the rest, from any state matching env1 at the end of `b` that is reachable from `m`
            have contK : ∀ m1, SInv p md Γ env1 m1 F D o ra → Keep p.w m m1 (md.kb F p.w) →
                Concl p B ra lp md Γ envk F D o (pc + (cS (cxOf p ck B dA) fa lp Γ pc o b).length)
                  (pc + (cS (cxOf p ck B dA) fa lp Γ pc o b).length +
                    (cS (cxOf p ck B dA) fa lp Γ (pc + (cS (cxOf p ck B dA) fa lp Γ pc o b).length) o k).length) m1 trk resk :=
              fun m1 hi1 km1 => ih F D ra hra lp hlp md sb dc k Γ env1 (pc + (cS (cxOf p ck B dA) fa lp Γ pc o b).length) o m1 envk trk resk hpl2 (by omega)
                hi1 hd hwf.2 (by omega) ho hk hck
                (hs.sub' (k := k) (by simp only [noTry, Bool.and_eq_true]; exact fun h => h.2)
                  (by simp only [youLevel, Bool.and_eq_true]; exact fun h => h.2) km1 (post_conv (by omega)))
            -- if no end of the whole list halts, no end of `b` does
            have fin : (resk = .defeat → lp.vd = true) →
                (∀ st', Post p B ra lp md Γ envk F D o (pc + ((cS (cxOf p ck B dA) fa lp Γ pc o b).length +
                  (cS (cxOf p ck B dA) fa lp Γ (pc + (cS (cxOf p ck B dA) fa lp Γ pc o b).length) o k).length)) m resk st' → ¬ Halts (sphinx p) st') →
                ∀ st1, Post p B ra lp md Γ env1 F D o (pc + (cS (cxOf p ck B dA) fa lp Γ pc o b).length) m .norm st1 → ¬ Halts (sphinx p) st1 := by
              intro hprem h2 st1 hp1
              obtain ⟨pc1, m1⟩ := st1
              simp only [Post] at hp1
              obtain ⟨hpc1, hi1, km1⟩ := hp1
              subst hpc1
              obtain ⟨st', r2, hp2⟩ := (contK m1 hi1 km1).2 hprem
              exact (r2.exec (h2 st' (by refine post_conv ?_ st' (hp2.rebase km1); omega))).2
            have hsb : Safe p B dA ra lp md sb dc fns Γ env1 F D o (pc + (cS (cxOf p ck B dA) fa lp Γ pc o b).length) m .norm b := by
              rcases hs with ⟨hmd, hvd, h, hw⟩ | ⟨hmd, hvd, h1, hst, h2⟩
              · left; simp only [noTry, Bool.and_eq_true] at h
                exact ⟨hmd, hvd, h.1, hw.imp id (fun hf => ⟨hf.1, fin (fun _ => hf.1) hf.2⟩)⟩
              · right
                simp only [youLevel, Bool.and_eq_true] at h1
                exact ⟨hmd, hvd, h1.1, hst, fin (nd (exec_no_defeat _ _ _ _ _ _ _ _ _ _ _ _ _ h1.2 hk)) h2⟩
            have hbb := ih F D ra hra lp hlp md sb dc b Γ env pc o m env1 tr1 .norm hpl1 (by omega) hinv hd hwf.1 (by omega) ho hb1 trivial hsb
            obtain ⟨st1, r1, hp1⟩ := hbb.2 (nd (by decide))
            obtain ⟨pc1, m1⟩ := st1
            simp only [Post] at hp1
            obtain ⟨hpc1, hi1, km1⟩ := hp1
            subst hpc1
            exact Concl.pre' r1 km1 (contK m1 hi1 km1) (post_conv (by omega))
        · simp only [hn, if_false, Option.pure_def, Option.some.injEq, Prod.mk.injEq] at hex
          obtain ⟨rfl, rfl, rfl⟩ := hex
          have convb : ∀ (e1 e2 : Nat) st', Post p B ra lp md Γ env1 F D o e1 m res1 st' → Post p B ra lp md Γ env1 F D o e2 m res1 st' := by
            intro e1 e2 st' h
            cases res1 with
            | norm => exact absurd rfl hn
            | returned => simpa [Post] using h
            | div0 => simpa [Post] using h
            | ovf => simpa [Post] using h
            | defeat => simpa [Post] using h
            | retv v => simpa [Post] using h
            | brk => simpa [Post] using h
            | cnt => simpa [Post] using h
          have hbb := ih F D ra hra lp hlp md sb dc b Γ env pc o m env1 tr1 res1 hpl1 (by omega) hinv hd hwf.1 (by omega) ho hb1 hck
            (hs.sub (by simp only [noTry, Bool.and_eq_true]; exact fun h => h.1)
              (by simp only [youLevel, Bool.and_eq_true]; exact fun h => h.1) (Keep.refl _ _ _) (convb _ _))
          exact ⟨hbb.1, fun hnd => by obtain ⟨st1, r1, hp1⟩ := hbb.2 hnd; exact ⟨st1, r1, convb _ _ st1 hp1⟩⟩
    | defeat k =>
      simp only [exec, Option.some.injEq, Prod.mk.injEq] at hex
      obtain ⟨rfl, rfl, rfl⟩ := hex
      cases hv : lp.vd with
      | false =>
        simp only [cS, hv] at hpl
        have c0 := hpl 0 (by simp)
        simp only [Bool.false_eq_true, if_false, List.getElem_cons_zero, Nat.add_zero] at c0
        exact ⟨fun _ _ => Halts.halt (sys := sphinx p) (step_halt (m := m) c0), fun h => absurd (hv.symm.trans (h rfl)) (by decide)⟩
      | true =>
        -- inside a `try/stop` body: `j [defeat]; halt` goes to the handler
        rcases hs with ⟨_, hvd, _⟩ | ⟨_, hvd, _⟩
        · obtain ⟨v, rfl⟩ := hvd.1 hv
          obtain ⟨h1, h2, h3, h4, h6⟩ := hinv.dreg dA v rfl
          simp only [cS, hv] at hpl
          have c0 := hpl 0 (by simp); have c1 := hpl 1 (by simp)
          simp only [if_true, List.cons_append, List.nil_append, List.getElem_cons_succ, List.getElem_cons_zero, Nat.add_zero] at c0 c1
          have s0 := step_j (m := m) c0 (ev_st (by unfold Prog.M; omega) (by omega))
          rw [h4] at s0
          have s1 := step_halt (m := m) c1
          exact ⟨fun _ hf => absurd (hv.symm.trans hf) (by decide), fun _ => ⟨⟨v, m⟩, Reach.jump_taken (sys := sphinx p) s0 s1,
            ⟨dA, v, rfl, rfl, hinv.toD, (Keep.refl _ _ _).toD⟩⟩⟩
        · rw [hvd] at hv; cases hv
    | defeatIf c k =>
      simp only [wfS, Bool.and_eq_true] at hwf
      obtain ⟨⟨hbc, hdc⟩, hwk⟩ := hwf
      simp only [pkS] at hpk
      simp only [cS] at hpl hB hs ⊢
      obtain ⟨hpl1, hpl2⟩ := hpl.append
      rw [List.length_append] at hB hs ⊢
      cases hv : lp.vd with
      | false =>
        rw [hv] at hpl1 hpl2 hB hs
        have hcd := cD_ok (ck := ck) (dA := dA) lib Γ env F D c pc o m hdc hpl1 (by omega) hinv.fr hinv.vars hbc (by omega) ho
        cases hev : evalB (256 ^ p.w) (8 * p.w) env c with
        | none =>
          simp only [exec, hev, Option.some.injEq, Prod.mk.injEq] at hex
          obtain ⟨rfl, rfl, rfl⟩ := hex
          obtain ⟨m', r⟩ := hcd.2.2 hev hck
          exact fault _ _ _ _ m' _ r
        | some cv =>
          cases cv with
          | true =>
            simp only [exec, hev, Option.some.injEq, Prod.mk.injEq] at hex
            obtain ⟨rfl, rfl, rfl⟩ := hex
            exact ⟨fun _ _ => hcd.2.1 hev, fun h => absurd (hv.symm.trans (h rfl)) (by decide)⟩
          | false =>
            simp only [exec, hev] at hex
            obtain ⟨m1, r1, k1⟩ := hcd.1 hev
            have hkk := ih F D ra hra lp hlp md sb dc k Γ env _ o m1 env' tr res hpl2 (by omega) (hinv.keep k1 ho) hd hwk (by omega) ho hex hck
              (hs.sub (by simp [noTry]) (by simp [youLevel]) (k1.mono (by omega)) (post_conv (by omega)))
            simpa using Concl.pre r1 (k1.mono (by omega)) hkk (post_conv (by omega))
      | true =>
        -- inside a `try/stop` body: each conditional halt is preceded by `j [defeat]`
        rw [hv] at hpl1 hpl2 hB hs
        rcases hs with ⟨hmd, hvd, hnt, hwld⟩ | ⟨_, hvd, _⟩
        · obtain ⟨v, rfl⟩ := hvd.1 hv
          obtain ⟨e1, e2, e3, e4, e6⟩ := hinv.dreg dA v rfl
          have hdw : DWord p dA v m F := ⟨by omega, e2, e3, e4, e6⟩
          have hpost : ∀ m', Keep p.w m m' (F - o) → Post p B ra lp (.stop dA v) Γ env F D o
              (pc + ((cD (cxOf p ck B dA) true Γ pc o c).length + (cS (cxOf p ck B dA) fa lp Γ (pc + (cD (cxOf p ck B dA) true Γ pc o c).length) o k).length))
              m .defeat ⟨v, m'⟩ :=
            fun m' k' => ⟨dA, v, rfl, rfl, (hinv.keep k' ho).toD, (k'.mono (by omega)).kb.toD⟩
          cases hev : evalB (256 ^ p.w) (8 * p.w) env c with
          | none =>
            simp only [exec, hev, Option.some.injEq, Prod.mk.injEq] at hex
            obtain ⟨rfl, rfl, rfl⟩ := hex
            have hcd := cD_ok_vd (ck := ck) (dA := dA) lib Γ env F D v c pc o m hdc hpl1 (by omega) hinv.fr hinv.vars hbc (by omega) ho hdw
              (Or.inr (fun m' _ => ⟨fun h => (by rw [hev] at h; cases h), fun h => (by rw [hev] at h; cases h)⟩))
            obtain ⟨m', r⟩ := hcd.2.2 hev hck
            exact fault _ _ _ _ m' _ r
          | some cv =>
            cases cv with
            | true =>
              simp only [exec, hev, Option.some.injEq, Prod.mk.injEq] at hex
              obtain ⟨rfl, rfl, rfl⟩ := hex
              have hcd := cD_ok_vd (ck := ck) (dA := dA) lib Γ env F D v c pc o m hdc hpl1 (by omega) hinv.fr hinv.vars hbc (by omega) ho hdw
                (hwld.imp (fun h => h dA v rfl) (fun hf m' k' => ⟨fun h => (by rw [hev] at h; cases h), fun _ => hf.2 _ (hpost m' k')⟩))
              obtain ⟨m', r, k'⟩ := hcd.2.1 hev
              exact ⟨fun _ hf => absurd (hv.symm.trans hf) (by decide), fun _ => ⟨⟨v, m'⟩, r, hpost m' k'⟩⟩
            | false =>
              simp only [exec, hev] at hex
              have hkk : ∀ m1, Keep p.w m m1 (F - o) → _ := fun m1 k1 =>
                ih F D ra hra lp hlp (.stop dA v) sb dc k Γ env _ o m1 env' tr res hpl2 (by omega) (hinv.keep k1 ho) hd hwk (by omega) ho hex hck
                  (Safe.sub (Or.inl ⟨hmd, hvd, hnt, hwld⟩) (by simp [noTry]) (by simp [youLevel]) (k1.mono (by omega)) (post_conv (by omega)))
              have hcd := cD_ok_vd (ck := ck) (dA := dA) lib Γ env F D v c pc o m hdc hpl1 (by omega) hinv.fr hinv.vars hbc (by omega) ho hdw
                (hwld.imp (fun h => h dA v rfl) (fun hf m' k' => ⟨fun _ => (by
                  obtain ⟨st', r2, hp2⟩ := (hkk m' k').2 (fun _ => hv)
                  exact (r2.exec (hf.2 st' (post_conv (by omega) st' (hp2.rebase (k'.mono (by omega)).kb)))).2),
                  fun h => (by rw [hev] at h; cases h)⟩))
              obtain ⟨m1, r1, k1⟩ := hcd.1 hev
              simpa using Concl.pre r1 (k1.mono (by omega)) (hkk m1 k1) (post_conv (by omega))
        · rw [hvd] at hv; cases hv
    | ifb c t e k =>
      simp only [wfS, Bool.and_eq_true] at hwf
      obtain ⟨⟨⟨hbc, hwt⟩, hwe⟩, hwk⟩ := hwf
      simp only [pkS] at hpk
      simp only [cS] at hpl hB hs ⊢
      have hlenA : (cB (cxOf p ck B dA) Γ pc o c [] (goto (pc + lenB ck c 0 2 false true + lenS ck lp.vd t + 2))).length
          = lenB ck c 0 2 false true := by rw [cB_len]; simp
      generalize hnC : lenB ck c 0 2 false true = nC at *
      have hlenT : (cS (cxOf p ck B dA) fa lp Γ (pc + nC) o t).length = lenS ck lp.vd t := cS_len _ _ _ _ _ _ _
      have hlenE : (cS (cxOf p ck B dA) fa lp Γ (pc + nC + lenS ck lp.vd t + 2) o e).length = lenS ck lp.vd e := cS_len _ _ _ _ _ _ _
      generalize hnT : lenS ck lp.vd t = nT at *
      generalize hnE : lenS ck lp.vd e = nE at *
      obtain ⟨hpl1234, hplK⟩ := hpl.append
      obtain ⟨hpl123, hplE⟩ := hpl1234.append
      obtain ⟨hpl12, hplG⟩ := hpl123.append
      obtain ⟨hplA, hplT⟩ := hpl12.append
      simp only [List.length_append, hlenA, hlenT, hlenE, goto_len, ← Nat.add_assoc] at hB hplK hplE hplG hplT hs ⊢
      have hendM : pc + nC + nT + 2 + nE < 256 ^ p.w := by simp [stdlibLength] at hBM; omega
      have hc := cB_ok (ck := ck) (dA := dA) lib Γ env F D c pc o none (some (pc + nC + nT + 2)) m hplA (by rw [brCode, brCode, hlenA]; omega)
        (fun x hx => by simp at hx) (fun x hx => by simp at hx; omega) hinv.fr hinv.vars hbc (by omega) ho
      rw [show (cB (cxOf p ck B dA) Γ pc o c (brCode none) (brCode (some (pc + nC + nT + 2)))).length = nC from hlenA] at hc
      cases hev : evalB (256 ^ p.w) (8 * p.w) env c with
      | none =>
        simp only [exec, hev, Option.some.injEq, Prod.mk.injEq] at hex
        obtain ⟨rfl, rfl, rfl⟩ := hex
        obtain ⟨m', r⟩ := hc.2 hev hck
        exact fault _ _ _ _ m' _ r
      | some cv =>
        simp only [exec, hev] at hex
        obtain ⟨m0, r0, k0⟩ := hc.1 cv hev
        have hinv0 := hinv.keep k0 ho
        have km0 : Keep p.w m m0 F := k0.mono (by omega)
        have convN : ∀ (envx : Env) (resx : Res), resx ≠ .norm → ∀ (e1 e2 : Nat) st',
            Post p B ra lp md Γ envx F D o e1 m resx st' → Post p B ra lp md Γ envx F D o e2 m resx st' := by
          intro envx resx hx e1 e2 st' h
          cases resx with
          | norm => exact absurd rfl hx
          | returned => simpa [Post] using h
          | div0 => simpa [Post] using h
          | ovf => simpa [Post] using h
          | defeat => simpa [Post] using h
          | retv v => simpa [Post] using h
          | brk => simpa [Post] using h
          | cnt => simpa [Post] using h
        -- the branch taken, its code address and the address where it ends
        have hbranch : ∀ (X : S) (pcX nX : Nat), (cS (cxOf p ck B dA) fa lp Γ pcX o X).length = nX →
            PlacedAt p pcX (cS (cxOf p ck B dA) fa lp Γ pcX o X) → pcX + nX ≤ B → wfS fns dc (Γ.map Prod.fst) X = true → pkS p.w o X ≤ D →
            (noTry (.ifb c t e k) = true → noTry X = true) → (youLevel sb fns (.ifb c t e k) = true → youLevel sb fns X = true) →
            Reach (sphinx p) ⟨pc, m⟩ [] ⟨pcX, m0⟩ →
            (∀ m1, Reach (sphinx p) ⟨pcX + nX, m1⟩ [] ⟨pc + nC + nT + 2 + nE, m1⟩) →
            ∀ (env1 : Env) (tr1 : List Ev) (res1 : Res),
              exec (256 ^ p.w) (8 * p.w) fns p.w f D o env X = some (env1, tr1, res1) →
              (do let (env1, tr1, r1) ← some (env1, tr1, res1)
                  if r1 = .norm then
                    let (env2, tr2, r2) ← exec (256 ^ p.w) (8 * p.w) fns p.w f D o env1 k
                    pure (env2, tr1 ++ tr2, r2)
                  else pure (env1, tr1, r1)) = some (env', tr, res) →
              Concl p B ra lp md Γ env' F D o pc (pc + nC + nT + 2 + nE + (cS (cxOf p ck B dA) fa lp Γ (pc + nC + nT + 2 + nE) o k).length) m tr res := by
          intro X pcX nX hlenX hplX hBX hwX hpkX hntX hylX rX gX env1 tr1 res1 hb1 hex
          simp only [Option.bind_eq_bind, Option.bind_some] at hex
          by_cases hn : res1 = .norm
          · subst hn
            simp only [if_true] at hex
            cases hk : exec (256 ^ p.w) (8 * p.w) fns p.w f D o env1 k with
            | none => simp [hk] at hex
            | some rk =>
              obtain ⟨envk, trk, resk⟩ := rk
              simp only [hk, Option.bind_some, Option.pure_def, Option.some.injEq, Prod.mk.injEq] at hex
              obtain ⟨rfl, rfl, rfl⟩ := hex
              have contK : ∀ m1, SInv p md Γ env1 m1 F D o ra → Keep p.w m m1 (md.kb F p.w) →
                  Concl p B ra lp md Γ envk F D o (pc + nC + nT + 2 + nE)
                    (pc + nC + nT + 2 + nE + (cS (cxOf p ck B dA) fa lp Γ (pc + nC + nT + 2 + nE) o k).length) m1 trk resk :=
                fun m1 hi1 km1 => ih F D ra hra lp hlp md sb dc k Γ env1 _ o m1 envk trk resk hplK (by omega) hi1 hd hwk (by omega) ho hk hck
                  (hs.sub' (k := k) (by simp only [noTry, Bool.and_eq_true]; exact fun h => h.2)
                    (by simp only [youLevel, Bool.and_eq_true]; exact fun h => h.2) km1 (post_conv rfl))
              -- if no end of the whole list halts, no end of the branch does
              have fin : (resk = .defeat → lp.vd = true) →
                  (∀ st', Post p B ra lp md Γ envk F D o
                    (pc + nC + nT + 2 + nE + (cS (cxOf p ck B dA) fa lp Γ (pc + nC + nT + 2 + nE) o k).length) m resk st' → ¬ Halts (sphinx p) st') →
                  ∀ st1, Post p B ra lp md Γ env1 F D o (pcX + nX) m0 .norm st1 → ¬ Halts (sphinx p) st1 := by
                intro hprem h2 st1 hp1
                obtain ⟨pc1, m1⟩ := st1
                simp only [Post] at hp1
                obtain ⟨hpc1, hi1, km1⟩ := hp1
                subst hpc1
                have km := km0.kb.trans' km1
                obtain ⟨st', r2, hp2⟩ := (contK m1 hi1 km).2 hprem
                exact (((gX m1).trans r2).exec (h2 st' (hp2.rebase km))).2
              have hsX : Safe p B dA ra lp md sb dc fns Γ env1 F D o (pcX + nX) m0 .norm X := by
                rcases hs with ⟨hmd, hvd, h, hw⟩ | ⟨hmd, hvd, h1, hst, h2⟩
                · left; exact ⟨hmd, hvd, hntX (by simpa [cS] using h), hw.imp id (fun hf => ⟨hf.1, fin (fun _ => hf.1) hf.2⟩)⟩
                · right
                  have h1y : youLevel sb fns (.ifb c t e k) = true := h1
                  simp only [youLevel, Bool.and_eq_true] at h1
                  exact ⟨hmd, hvd, hylX h1y, fun e => by rw [km0.size]; exact hst e,
                    fin (nd (exec_no_defeat _ _ _ _ _ _ _ _ _ _ _ _ _ h1.2 hk)) h2⟩
              have hxx := ih F D ra hra lp hlp md sb dc X Γ env pcX o m0 env1 tr1 .norm hplX (by rw [hlenX]; omega) hinv0 hd hwX hpkX ho hb1 trivial
                (by rw [hlenX]; exact hsX)
              rw [hlenX] at hxx
              obtain ⟨st1, r1, hp1⟩ := hxx.2 (nd (by decide))
              obtain ⟨pc1, m1⟩ := st1
              simp only [Post] at hp1
              obtain ⟨hpc1, hi1, km1⟩ := hp1
              subst hpc1
              have km := km0.kb.trans' km1
              have r01 : Reach (sphinx p) ⟨pc, m⟩ tr1 ⟨pc + nC + nT + 2 + nE, m1⟩ := by
                simpa using rX.trans (r1.trans (gX m1))
              exact Concl.pre' r01 km (contK m1 hi1 km) (post_conv rfl)
          · simp only [hn, if_false, Option.pure_def, Option.some.injEq, Prod.mk.injEq] at hex
            obtain ⟨rfl, rfl, rfl⟩ := hex
            have hsX : Safe p B dA ra lp md sb dc fns Γ env1 F D o (pcX + nX) m0 res1 X :=
              hs.sub (by intro h; exact hntX (by simpa [cS] using h)) (by intro h; exact hylX h) km0 (convN env1 res1 hn _ _)
            have hxx := ih F D ra hra lp hlp md sb dc X Γ env pcX o m0 env1 tr1 res1 hplX (by rw [hlenX]; omega) hinv0 hd hwX hpkX ho hb1 hck
              (by rw [hlenX]; exact hsX)
            rw [hlenX] at hxx
            simpa using Concl.pre rX km0 hxx (convN env1 res1 hn _ _)
        cases cv with
        | true =>
          simp only [if_true, Option.getD_none] at r0
          simp only [if_true] at hex
          cases hb1 : exec (256 ^ p.w) (8 * p.w) fns p.w f D o env t with
          | none => simp [hb1] at hex
          | some rb =>
            obtain ⟨env1, tr1, res1⟩ := rb
            rw [hb1] at hex
            exact hbranch t (pc + nC) nT hlenT hplT (by omega) hwt (by omega)
              (by simp only [noTry, Bool.and_eq_true]; exact fun h => h.1.1)
              (by simp only [youLevel, Bool.and_eq_true]; exact fun h => h.1.1) r0
              (fun m1 => goto_reach lib (pc + nC + nT) (pc + nC + nT + 2 + nE) m1 hplG hendM) env1 tr1 res1 hb1 hex
        | false =>
          simp only [Bool.false_eq_true, if_false, Option.getD_some] at r0
          simp only [Bool.false_eq_true, if_false] at hex
          cases hb1 : exec (256 ^ p.w) (8 * p.w) fns p.w f D o env e with
          | none => simp [hb1] at hex
          | some rb =>
            obtain ⟨env1, tr1, res1⟩ := rb
            rw [hb1] at hex
            exact hbranch e (pc + nC + nT + 2) nE hlenE hplE (by omega) hwe (by omega)
              (by simp only [noTry, Bool.and_eq_true]; exact fun h => h.1.2)
              (by simp only [youLevel, Bool.and_eq_true]; exact fun h => h.1.2) r0
              (fun m1 => by simpa using (Reach.refl (sys := sphinx p) (s := ⟨pc + nC + nT + 2 + nE, m1⟩))) env1 tr1 res1 hb1 hex
    | loop c body cont k =>
      have hwf0 := hwf
      have hpk0 := hpk
      have hpl0 := hpl
      have hB0 := hB
      have hs0 := hs
      simp only [wfS, Bool.and_eq_true] at hwf
      obtain ⟨⟨⟨hbc, hwb⟩, hwc⟩, hwk⟩ := hwf
      simp only [pkS] at hpk
      simp only [cS] at hpl hB hs ⊢
      have hlenA : (cB (cxOf p ck B dA) Γ pc o c [] (goto (pc + lenB ck c 0 2 false true + lenS ck lp.vd body + lenS ck lp.vd cont + 2))).length
          = lenB ck c 0 2 false true := by rw [cB_len]; simp
      generalize hnC : lenB ck c 0 2 false true = nC at *
      have hlenT : ∀ a b, (cS (cxOf p ck B dA) fa ⟨a, b, lp.vd⟩ Γ (pc + nC) o body).length = lenS ck lp.vd body := fun _ _ => cS_len _ _ _ _ _ _ _
      have hlenE : (cS (cxOf p ck B dA) fa lp Γ (pc + nC + lenS ck lp.vd body) o cont).length = lenS ck lp.vd cont := cS_len _ _ _ _ _ _ _
      generalize hnT : lenS ck lp.vd body = nT at *
      generalize hnE : lenS ck lp.vd cont = nE at *
      obtain ⟨hpl1234, hplK⟩ := hpl.append
      obtain ⟨hpl123, hplG⟩ := hpl1234.append
      obtain ⟨hpl12, hplE⟩ := hpl123.append
      obtain ⟨hplA, hplT⟩ := hpl12.append
      simp only [List.length_append, hlenA, hlenT, hlenE, goto_len, ← Nat.add_assoc] at hB hplK hplE hplG hplT hs ⊢
      have hendM : pc + nC + nT + nE + 2 < 256 ^ p.w := by simp [stdlibLength] at hBM; omega
      have etot : pc + (cS (cxOf p ck B dA) fa lp Γ pc o (.loop c body cont k)).length
          = pc + nC + nT + nE + 2 + (cS (cxOf p ck B dA) fa lp Γ (pc + nC + nT + nE + 2) o k).length := by
        simp only [cS, hnC, hnT, hnE, List.length_append, hlenA, hlenT, hlenE, goto_len]; omega
      rw [etot] at hs0
      have hc := cB_ok (ck := ck) (dA := dA) lib Γ env F D c pc o none (some (pc + nC + nT + nE + 2)) m hplA (by rw [brCode, brCode, hlenA]; omega)
        (fun x hx => by simp at hx) (fun x hx => by simp at hx; omega) hinv.fr hinv.vars hbc (by omega) ho
      rw [show (cB (cxOf p ck B dA) Γ pc o c (brCode none) (brCode (some (pc + nC + nT + nE + 2)))).length = nC from hlenA] at hc
      cases hev : evalB (256 ^ p.w) (8 * p.w) env c with
      | none =>
        simp only [exec, hev, Option.some.injEq, Prod.mk.injEq] at hex
        obtain ⟨rfl, rfl, rfl⟩ := hex
        obtain ⟨m', r⟩ := hc.2 hev hck
        exact fault _ _ _ _ m' _ r
      | some cv =>
        obtain ⟨m0, r0, k0⟩ := hc.1 cv hev
        have hinv0 := hinv.keep k0 ho
        have km0 : Keep p.w m m0 F := k0.mono (by omega)
        cases cv with
        | false =>
          simp only [exec, hev] at hex
          simp only [Bool.false_eq_true, if_false, Option.getD_some] at r0
          have hkk := ih F D ra hra lp hlp md sb dc k Γ env (pc + nC + nT + nE + 2) o m0 env' tr res hplK (by omega) hinv0 hd hwk (by omega) ho hex hck
            (hs.sub (by simp only [noTry, Bool.and_eq_true]; exact fun h => h.2)
              (by simp only [youLevel, Bool.and_eq_true]; exact fun h => h.2) km0 (post_conv rfl))
          simpa using Concl.pre r0 km0 hkk (post_conv rfl)
        | true =>
          simp only [exec, hev] at hex
          simp only [if_true, Option.getD_none] at r0
          have hlpB : pc + nC + nT < 256 ^ p.w ∧ pc + nC + nT + nE + 2 < 256 ^ p.w := ⟨by omega, hendM⟩
          cases hb1 : exec (256 ^ p.w) (8 * p.w) fns p.w f D o env body with
          | none => simp [hb1] at hex
          | some rb =>
            obtain ⟨env1, tr1, res1⟩ := rb
            simp only [hb1, Option.bind_eq_bind, Option.bind_some] at hex
            -- non-normal exits of the `continue` part are exits of the whole loop
            have convN : ∀ (envx : Env) (resx : Res), resx ≠ .norm → ∀ (e1 e2 : Nat) st',
                Post p B ra lp md Γ envx F D o e1 m resx st' → Post p B ra lp md Γ envx F D o e2 m resx st' := by
              intro envx resx hx e1 e2 st' h
              cases resx with
              | norm => exact absurd rfl hx
              | returned => simpa [Post] using h
              | div0 => simpa [Post] using h
              | ovf => simpa [Post] using h
              | defeat => simpa [Post] using h
              | retv v => simpa [Post] using h
              | brk => simpa [Post] using h
              | cnt => simpa [Post] using h
            -- exits of the body other than normal completion, `continue` and `break` are exits of the whole loop
            have convB : ∀ (envx : Env) (resx : Res), resx ≠ .norm → resx ≠ .cnt → resx ≠ .brk → ∀ (e1 e2 : Nat) (mx : Mem) st',
                Post p B ra ⟨pc + nC + nT, pc + nC + nT + nE + 2, lp.vd⟩ md Γ envx F D o e1 mx resx st' → Post p B ra lp md Γ envx F D o e2 mx resx st' := by
              intro envx resx hx hx2 hx3 e1 e2 mx st' h
              cases resx with
              | norm => exact absurd rfl hx
              | returned => simpa [Post] using h
              | div0 => simpa [Post] using h
              | ovf => simpa [Post] using h
              | defeat => simpa [Post] using h
              | retv v => simpa [Post] using h
              | brk => exact absurd rfl hx3
              | cnt => exact absurd rfl hx2
            by_cases hn1 : res1 = .norm ∨ res1 = .cnt
            · rw [if_pos hn1] at hex
              have hfo1 : FaultOK ck fns p.w res1 := by rcases hn1 with h | h <;> rw [h] <;> trivial
              have hnd1 : res1 ≠ .defeat := by rcases hn1 with h | h <;> rw [h] <;> decide
              -- at the end of the body, or at a `continue`: the `continue` label
              have postNC : ∀ (mx : Mem) st, Post p B ra ⟨pc + nC + nT, pc + nC + nT + nE + 2, lp.vd⟩ md Γ env1 F D o (pc + nC + nT) mx res1 st →
                  st.pc = pc + nC + nT ∧ SInv p md Γ env1 st.mem F D o ra ∧ Keep p.w mx st.mem (md.kb F p.w) := by
                intro mx st h
                rcases hn1 with h1 | h1 <;> subst h1 <;> simpa [Post] using h
              cases hb2 : exec (256 ^ p.w) (8 * p.w) fns p.w f D o env1 cont with
              | none => simp [hb2] at hex
              | some rc =>
                obtain ⟨env2, tr2, res2⟩ := rc
                simp only [hb2, Option.bind_some] at hex
                by_cases hn2 : res2 = .norm
                · subst hn2
                  simp only [if_true] at hex
                  cases hb3 : exec (256 ^ p.w) (8 * p.w) fns p.w f D o env2 (.loop c body cont k) with
                  | none => simp [hb3] at hex
                  | some rl =>
                    obtain ⟨env3, tr3, res3⟩ := rl
                    simp only [hb3, Option.bind_some, Option.pure_def, Option.some.injEq, Prod.mk.injEq] at hex
                    obtain ⟨rfl, rfl, rfl⟩ := hex
                    -- the next round, from any state matching env2 that is reachable from m
                    have L : ∀ m2, SInv p md Γ env2 m2 F D o ra → Keep p.w m m2 (md.kb F p.w) →
                        Concl p B ra lp md Γ env3 F D o pc (pc + nC + nT + nE + 2 + (cS (cxOf p ck B dA) fa lp Γ (pc + nC + nT + nE + 2) o k).length) m2 tr3 res3 := by
                      intro m2 hi2 km2
                      have := ih F D ra hra lp hlp md sb dc (.loop c body cont k) Γ env2 pc o m2 env3 tr3 res3 hpl0 hB0 hi2 hd hwf0 hpk0 ho hb3 hck
                        (by rw [etot]; exact hs0.sub' (fun h => h) (fun h => h) km2 (post_conv rfl))
                      rw [etot] at this; exact this
                    have hsc : ∀ m1, Keep p.w m m1 (md.kb F p.w) → Safe p B dA ra lp md sb dc fns Γ env2 F D o (pc + nC + nT + nE) m1 .norm cont := by
                      intro m1 km1
                      rcases hs0 with ⟨hmd, hvd, h, hw⟩ | ⟨hmd, hvd, h1, hst, h2⟩
                      · left; simp only [noTry, Bool.and_eq_true] at h
                        refine ⟨hmd, hvd, h.1.2, hw.imp id (fun hf => ⟨hf.1, fun st2 hp2 => ?_⟩)⟩
                        obtain ⟨pc2, m2⟩ := st2
                        simp only [Post] at hp2
                        obtain ⟨hpc2, hi2, k12⟩ := hp2
                        subst hpc2
                        have km2 := km1.trans' k12
                        have g := goto_reach lib (pc + nC + nT + nE) pc m2 hplG (by omega)
                        obtain ⟨st', r3, hp3⟩ := (L m2 hi2 km2).2 (fun _ => hf.1)
                        exact ((g.trans r3).exec (hf.2 st' (hp3.rebase km2))).2
                      · right
                        have h1' := h1
                        simp only [youLevel, Bool.and_eq_true] at h1
                        refine ⟨hmd, hvd, h1.1.2, fun e => by rw [km1.size]; exact hst e, fun st2 hp2 => ?_⟩
                        obtain ⟨pc2, m2⟩ := st2
                        simp only [Post] at hp2
                        obtain ⟨hpc2, hi2, k12⟩ := hp2
                        subst hpc2
                        have km2 := km1.trans' k12
                        have g := goto_reach lib (pc + nC + nT + nE) pc m2 hplG (by omega)
                        obtain ⟨st', r3, hp3⟩ := (L m2 hi2 km2).2 (nd (exec_no_defeat _ _ _ _ _ _ _ _ _ _ _ _ _ h1' hb3))
                        exact ((g.trans r3).exec (h2 st' (hp3.rebase km2))).2
                    have hsbd : Safe p B dA ra ⟨pc + nC + nT, pc + nC + nT + nE + 2, lp.vd⟩ md sb dc fns Γ env1 F D o (pc + nC + nT) m0 res1 body := by
                      rcases hs0 with ⟨hmd, hvd, h, hw⟩ | ⟨hmd, hvd, h1, hst, h2⟩
                      · left; simp only [noTry, Bool.and_eq_true] at h
                        refine ⟨hmd, hvd, h.1.1, hw.imp id (fun hf => ⟨hf.1, fun st1 hp1 => ?_⟩)⟩
                        obtain ⟨pc1, m1⟩ := st1
                        obtain ⟨hpc1, hi1, k01⟩ := postNC m0 _ hp1
                        dsimp only at hpc1 hi1 k01
                        subst hpc1
                        have km1 := km0.kb.trans' k01
                        have hcc := ih F D ra hra lp hlp md sb dc cont Γ env1 (pc + nC + nT) o m1 env2 tr2 .norm hplE (by rw [hlenE]; omega) hi1 hd hwc (by omega) ho hb2 trivial
                          (by rw [hlenE]; exact hsc m1 km1)
                        rw [hlenE] at hcc
                        obtain ⟨st2, r2, hp2⟩ := hcc.2 (nd (by decide))
                        obtain ⟨pc2, m2⟩ := st2
                        simp only [Post] at hp2
                        obtain ⟨hpc2, hi2, k12⟩ := hp2
                        subst hpc2
                        have km2 := km1.trans' k12
                        have g := goto_reach lib (pc + nC + nT + nE) pc m2 hplG (by omega)
                        obtain ⟨st', r3, hp3⟩ := (L m2 hi2 km2).2 (fun _ => hf.1)
                        exact ((r2.trans (g.trans r3)).exec (hf.2 st' (hp3.rebase km2))).2
                      · right
                        have h1' := h1
                        simp only [youLevel, Bool.and_eq_true] at h1
                        refine ⟨hmd, hvd, h1.1.1, fun e => by rw [km0.size]; exact hst e, fun st1 hp1 => ?_⟩
                        obtain ⟨pc1, m1⟩ := st1
                        obtain ⟨hpc1, hi1, k01⟩ := postNC m0 _ hp1
                        dsimp only at hpc1 hi1 k01
                        subst hpc1
                        have km1 := km0.kb.trans' k01
                        have hcc := ih F D ra hra lp hlp md sb dc cont Γ env1 (pc + nC + nT) o m1 env2 tr2 .norm hplE (by rw [hlenE]; omega) hi1 hd hwc (by omega) ho hb2 trivial
                          (by rw [hlenE]; exact hsc m1 km1)
                        rw [hlenE] at hcc
                        obtain ⟨st2, r2, hp2⟩ := hcc.2 (nd (by decide))
                        obtain ⟨pc2, m2⟩ := st2
                        simp only [Post] at hp2
                        obtain ⟨hpc2, hi2, k12⟩ := hp2
                        subst hpc2
                        have km2 := km1.trans' k12
                        have g := goto_reach lib (pc + nC + nT + nE) pc m2 hplG (by omega)
                        obtain ⟨st', r3, hp3⟩ := (L m2 hi2 km2).2 (nd (exec_no_defeat _ _ _ _ _ _ _ _ _ _ _ _ _ h1' hb3))
                        exact ((r2.trans (g.trans r3)).exec (h2 st' (hp3.rebase km2))).2
                    have hbb := ih F D ra hra ⟨pc + nC + nT, pc + nC + nT + nE + 2, lp.vd⟩ hlpB md sb dc body Γ env (pc + nC) o m0 env1 tr1 res1 hplT (by rw [hlenT]; omega) hinv0 hd hwb (by omega) ho hb1 hfo1
                      (by rw [hlenT]; exact hsbd)
                    rw [hlenT] at hbb
                    obtain ⟨st1, r1, hp1⟩ := hbb.2 (nd hnd1)
                    obtain ⟨pc1, m1⟩ := st1
                    obtain ⟨hpc1, hi1, k01⟩ := postNC m0 _ hp1
                    dsimp only at hpc1 hi1 k01
                    subst hpc1
                    have km1 := km0.kb.trans' k01
                    have hcc := ih F D ra hra lp hlp md sb dc cont Γ env1 (pc + nC + nT) o m1 env2 tr2 .norm hplE (by rw [hlenE]; omega) hi1 hd hwc (by omega) ho hb2 trivial
                      (by rw [hlenE]; exact hsc m1 km1)
                    rw [hlenE] at hcc
                    obtain ⟨st2, r2, hp2⟩ := hcc.2 (nd (by decide))
                    obtain ⟨pc2, m2⟩ := st2
                    simp only [Post] at hp2
                    obtain ⟨hpc2, hi2, k12⟩ := hp2
                    subst hpc2
                    have km2 := km1.trans' k12
                    have g := goto_reach lib (pc + nC + nT + nE) pc m2 hplG (by omega)
                    have r02 : Reach (sphinx p) ⟨pc, m⟩ (tr1 ++ tr2) ⟨pc, m2⟩ := by
                      simpa using r0.trans (r1.trans (r2.trans g))
                    exact Concl.pre' r02 km2 (L m2 hi2 km2) (post_conv rfl)
                · simp only [hn2, if_false, Option.pure_def, Option.some.injEq, Prod.mk.injEq] at hex
                  obtain ⟨rfl, rfl, rfl⟩ := hex
                  have hsc : ∀ m1, Keep p.w m m1 (md.kb F p.w) → Safe p B dA ra lp md sb dc fns Γ env2 F D o (pc + nC + nT + nE) m1 res2 cont := fun m1 km1 =>
                    hs.sub' (by simp only [noTry, Bool.and_eq_true]; exact fun h => h.1.2)
                      (by simp only [youLevel, Bool.and_eq_true]; exact fun h => h.1.2) km1 (convN env2 res2 hn2 _ _)
                  have hsbd : Safe p B dA ra ⟨pc + nC + nT, pc + nC + nT + nE + 2, lp.vd⟩ md sb dc fns Γ env1 F D o (pc + nC + nT) m0 res1 body := by
                    rcases hs with ⟨hmd, hvd, h, hw⟩ | ⟨hmd, hvd, h1, hst, h2⟩
                    · left; simp only [noTry, Bool.and_eq_true] at h
                      refine ⟨hmd, hvd, h.1.1, hw.imp id (fun hf => ⟨hf.1, fun st1 hp1 => ?_⟩)⟩
                      obtain ⟨pc1, m1⟩ := st1
                      obtain ⟨hpc1, hi1, k01⟩ := postNC m0 _ hp1
                      dsimp only at hpc1 hi1 k01
                      subst hpc1
                      have km1 := km0.kb.trans' k01
                      have hcc := ih F D ra hra lp hlp md sb dc cont Γ env1 (pc + nC + nT) o m1 env2 tr2 res2 hplE (by rw [hlenE]; omega) hi1 hd hwc (by omega) ho hb2 hck
                        (by rw [hlenE]; exact hsc m1 km1)
                      rw [hlenE] at hcc
                      obtain ⟨st2, r2, hp2⟩ := hcc.2 (fun _ => hf.1)
                      exact (r2.exec (hf.2 st2 (convN env2 res2 hn2 _ _ st2 (hp2.rebase km1)))).2
                    · right
                      simp only [youLevel, Bool.and_eq_true] at h1
                      refine ⟨hmd, hvd, h1.1.1, fun e => by rw [km0.size]; exact hst e, fun st1 hp1 => ?_⟩
                      obtain ⟨pc1, m1⟩ := st1
                      obtain ⟨hpc1, hi1, k01⟩ := postNC m0 _ hp1
                      dsimp only at hpc1 hi1 k01
                      subst hpc1
                      have km1 := km0.kb.trans' k01
                      have hcc := ih F D ra hra lp hlp md sb dc cont Γ env1 (pc + nC + nT) o m1 env2 tr2 res2 hplE (by rw [hlenE]; omega) hi1 hd hwc (by omega) ho hb2 hck
                        (by rw [hlenE]; exact hsc m1 km1)
                      rw [hlenE] at hcc
                      obtain ⟨st2, r2, hp2⟩ := hcc.2 (nd (exec_no_defeat _ _ _ _ _ _ _ _ _ _ _ _ _ h1.1.2 hb2))
                      exact (r2.exec (h2 st2 (convN env2 res2 hn2 _ _ st2 (hp2.rebase km1)))).2
                  have hbb := ih F D ra hra ⟨pc + nC + nT, pc + nC + nT + nE + 2, lp.vd⟩ hlpB md sb dc body Γ env (pc + nC) o m0 env1 tr1 res1 hplT (by rw [hlenT]; omega) hinv0 hd hwb (by omega) ho hb1 hfo1
                    (by rw [hlenT]; exact hsbd)
                  rw [hlenT] at hbb
                  obtain ⟨st1, r1, hp1⟩ := hbb.2 (nd hnd1)
                  obtain ⟨pc1, m1⟩ := st1
                  obtain ⟨hpc1, hi1, k01⟩ := postNC m0 _ hp1
                  dsimp only at hpc1 hi1 k01
                  subst hpc1
                  have km1 := km0.kb.trans' k01
                  have hcc := ih F D ra hra lp hlp md sb dc cont Γ env1 (pc + nC + nT) o m1 env2 tr2 res2 hplE (by rw [hlenE]; omega) hi1 hd hwc (by omega) ho hb2 hck
                    (by rw [hlenE]; exact hsc m1 km1)
                  rw [hlenE] at hcc
                  have r01 : Reach (sphinx p) ⟨pc, m⟩ tr1 ⟨pc + nC + nT, m1⟩ := by simpa using r0.trans r1
                  exact Concl.pre' r01 km1 hcc (convN env2 res2 hn2 _ _)
            · rw [if_neg hn1] at hex
              by_cases hbk : res1 = .brk
              · -- `break`: the rest of the list, from the `break` label
                subst hbk
                simp only [if_true] at hex
                cases hk : exec (256 ^ p.w) (8 * p.w) fns p.w f D o env1 k with
                | none => simp [hk] at hex
                | some rk =>
                  obtain ⟨env3, tr3, res3⟩ := rk
                  simp only [hk, Option.bind_some, Option.pure_def, Option.some.injEq, Prod.mk.injEq] at hex
                  obtain ⟨rfl, rfl, rfl⟩ := hex
                  have contK : ∀ m1, SInv p md Γ env1 m1 F D o ra → Keep p.w m m1 (md.kb F p.w) →
                      Concl p B ra lp md Γ env3 F D o (pc + nC + nT + nE + 2)
                        (pc + nC + nT + nE + 2 + (cS (cxOf p ck B dA) fa lp Γ (pc + nC + nT + nE + 2) o k).length) m1 tr3 res3 :=
                    fun m1 hi1 km1 => ih F D ra hra lp hlp md sb dc k Γ env1 (pc + nC + nT + nE + 2) o m1 env3 tr3 res3 hplK (by omega) hi1 hd hwk (by omega) ho hk hck
                      (hs.sub' (by simp only [noTry, Bool.and_eq_true]; exact fun h => h.2)
                        (by simp only [youLevel, Bool.and_eq_true]; exact fun h => h.2) km1 (post_conv rfl))
                  have hsbd : Safe p B dA ra ⟨pc + nC + nT, pc + nC + nT + nE + 2, lp.vd⟩ md sb dc fns Γ env1 F D o (pc + nC + nT) m0 .brk body := by
                    rcases hs with ⟨hmd, hvd, h, hw⟩ | ⟨hmd, hvd, h1, hst, h2⟩
                    · left; simp only [noTry, Bool.and_eq_true] at h
                      refine ⟨hmd, hvd, h.1.1, hw.imp id (fun hf => ⟨hf.1, fun st1 hp1 => ?_⟩)⟩
                      obtain ⟨pc1, m1⟩ := st1
                      simp only [Post] at hp1
                      obtain ⟨hpc1, hi1, k01⟩ := hp1
                      subst hpc1
                      have km1 := km0.kb.trans' k01
                      obtain ⟨st', r2, hp2⟩ := (contK m1 hi1 km1).2 (fun _ => hf.1)
                      exact (r2.exec (hf.2 st' (hp2.rebase km1))).2
                    · right
                      have h1' := h1
                      simp only [youLevel, Bool.and_eq_true] at h1
                      refine ⟨hmd, hvd, h1.1.1, fun e => by rw [km0.size]; exact hst e, fun st1 hp1 => ?_⟩
                      obtain ⟨pc1, m1⟩ := st1
                      simp only [Post] at hp1
                      obtain ⟨hpc1, hi1, k01⟩ := hp1
                      subst hpc1
                      have km1 := km0.kb.trans' k01
                      obtain ⟨st', r2, hp2⟩ := (contK m1 hi1 km1).2 (nd (exec_no_defeat _ _ _ _ _ _ _ _ _ _ _ _ _ h1.2 hk))
                      exact (r2.exec (h2 st' (hp2.rebase km1))).2
                  have hbb := ih F D ra hra ⟨pc + nC + nT, pc + nC + nT + nE + 2, lp.vd⟩ hlpB md sb dc body Γ env (pc + nC) o m0 env1 tr1 .brk hplT (by rw [hlenT]; omega) hinv0 hd hwb (by omega) ho hb1 trivial
                    (by rw [hlenT]; exact hsbd)
                  obtain ⟨st1, r1, hp1⟩ := hbb.2 (nd (by decide))
                  obtain ⟨pc1, m1⟩ := st1
                  simp only [Post] at hp1
                  obtain ⟨hpc1, hi1, k01⟩ := hp1
                  subst hpc1
                  have km1 := km0.kb.trans' k01
                  have r01 : Reach (sphinx p) ⟨pc, m⟩ tr1 ⟨pc + nC + nT + nE + 2, m1⟩ := by simpa using r0.trans r1
                  exact Concl.pre' r01 km1 (contK m1 hi1 km1) (post_conv rfl)
              · rw [if_neg hbk] at hex
                simp only [Option.pure_def, Option.some.injEq, Prod.mk.injEq] at hex
                obtain ⟨rfl, rfl, rfl⟩ := hex
                have hnn : res1 ≠ .norm := fun h => hn1 (Or.inl h)
                have hnc : res1 ≠ .cnt := fun h => hn1 (Or.inr h)
                have hsb1 : Safe p B dA ra ⟨pc + nC + nT, pc + nC + nT + nE + 2, lp.vd⟩ md sb dc fns Γ env1 F D o (pc + nC + nT) m0 res1 body := by
                  rcases hs with ⟨hmd, hvd, h, hw⟩ | ⟨hmd, hvd, h1, hst, h2⟩
                  · left; simp only [noTry, Bool.and_eq_true] at h
                    exact ⟨hmd, hvd, h.1.1, hw.imp id (fun hf => ⟨hf.1, fun st1 hp1 => hf.2 st1 (convB env1 res1 hnn hnc hbk _ _ m st1 (hp1.rebase km0.kb))⟩)⟩
                  · right
                    simp only [youLevel, Bool.and_eq_true] at h1
                    exact ⟨hmd, hvd, h1.1.1, fun e => by rw [km0.size]; exact hst e, fun st1 hp1 => h2 st1 (convB env1 res1 hnn hnc hbk _ _ m st1 (hp1.rebase km0.kb))⟩
                have hbb := ih F D ra hra ⟨pc + nC + nT, pc + nC + nT + nE + 2, lp.vd⟩ hlpB md sb dc body Γ env (pc + nC) o m0 env1 tr1 res1 hplT (by rw [hlenT]; omega) hinv0 hd hwb (by omega) ho hb1 hck
                  (by rw [hlenT]; exact hsb1)
                rw [hlenT] at hbb
                refine ⟨fun hd' hv => r0.1 (hbb.1 hd' hv), fun hn' => ?_⟩
                obtain ⟨st', r2, hp⟩ := hbb.2 hn'
                exact ⟨st', by simpa using r0.trans r2, convB env1 res1 hnn hnc hbk _ _ m st' (hp.rebase km0.kb)⟩
    | tryUndo body handler k =>
      rcases hs with ⟨_, _, h, _⟩ | ⟨hmd, hvd, h1, hst, h2⟩
      · simp [noTry] at h
      · obtain ⟨hiy, hdc0, hsf⟩ := hmd
        subst hdc0
        simp only [youLevel, Bool.and_eq_true] at h1
        obtain ⟨⟨hntb, hplh⟩, hyk⟩ := h1
        obtain ⟨w, rfl⟩ : ∃ w, md = .you w := by
          cases md with
          | you w => exact ⟨w, rfl⟩
          | plain => cases hiy
          | stop a v => cases hiy
        -- the body of the `try` is a defeat context: in programs with the word `defeat` it may call defeat
        -- functions, which go through that word; at this level it holds the address of a `halt`
        have hmdb : ∃ mdb : Md, mdb.kb F p.w = F ∧ mdb.isYou = false ∧ SInv p mdb Γ env m F D o ra ∧ HaltW p mdb ∧
            ((∃ v, mdb = .stop dA v) ∨ ∀ fd ∈ fns, fd.dfn = false) := by
          cases hsb : sb with
          | false => exact ⟨.plain, rfl, rfl, hinv.toMd rfl, HaltW.plain, Or.inr (hsf hsb)⟩
          | true =>
            obtain ⟨_, _, _, hw'⟩ := hst hsb
            cases hw'
            refine ⟨.stop dA (B + off_halt), rfl, rfl, hinv.reMd rfl, ?_, Or.inl ⟨_, rfl⟩⟩
            intro a v e m'
            cases e
            exact Halts.halt (sys := sphinx p) (step_halt (m := m') (halt_at lib))
        obtain ⟨mdb, hkbb, hiyb, hinvb, hWb, hdcb⟩ := hmdb
        have hsafeB : ∀ (envx : Env) (resx : Res) (e0 : Nat), Safe p B dA ra lp mdb sb true fns Γ envx F D o e0 m resx body := fun envx resx e0 =>
          Or.inl ⟨hiyb, ⟨(by intro h; rw [hvd] at h; cases h), fun _ => hdcb⟩, hntb, Or.inl hWb⟩
        have hsafeH : ∀ (envx : Env) (resx : Res) (e0 : Nat), Safe p B dA ra lp .plain sb false fns Γ envx F D o e0 m resx handler := fun envx resx e0 =>
          Or.inl ⟨rfl, ⟨(by intro h; rw [hvd] at h; cases h), (by intro h; cases h)⟩, plain_noTry _ _ hplh, Or.inl HaltW.plain⟩
        have hdw : DReg p (.you w) m F := hinv.dreg
        simp only [wfS, Bool.and_eq_true] at hwf
        obtain ⟨⟨hwb, hwh⟩, hwk⟩ := hwf
        simp only [pkS] at hpk
        simp only [cS] at hpl hB h2 ⊢
        have hlenB : (cS (cxOf p ck B dA) fa lp Γ (pc + 1) o body).length = lenS ck lp.vd body := cS_len _ _ _ _ _ _ _
        have hlenH : (cS (cxOf p ck B dA) fa lp Γ (pc + 1 + lenS ck lp.vd body + 2) o handler).length = lenS ck lp.vd handler := cS_len _ _ _ _ _ _ _
        generalize hnB : lenS ck lp.vd body = nB at *
        generalize hnH : lenS ck lp.vd handler = nH at *
        obtain ⟨hpl1234, hplK⟩ := hpl.append
        obtain ⟨hpl123, hplH⟩ := hpl1234.append
        obtain ⟨hpl12, hplG⟩ := hpl123.append
        obtain ⟨hplJ, hplB⟩ := hpl12.append
        simp only [List.length_append, List.length_cons, List.length_nil, hlenB, hlenH, goto_len, ← Nat.add_assoc, Nat.zero_add]
          at hB hplK hplH hplG hplB h2 ⊢
        have hendM : pc + 1 + nB + 2 + nH < 256 ^ p.w := by simp [stdlibLength] at hBM; omega
        have s0 := step_j (m := m) (placed_one hplJ) (ev_imm (pc + 1 + nB + 2))
        rw [show (pc + 1 + nB + 2) % p.M = pc + 1 + nB + 2 from Nat.mod_eq_of_lt (by unfold Prog.M; omega)] at s0
        have convN : ∀ (envx : Env) (resx : Res), resx ≠ .norm → ∀ (e1 e2 : Nat) st',
            Post p B ra lp (Md.you w) Γ envx F D o e1 m resx st' → Post p B ra lp (Md.you w) Γ envx F D o e2 m resx st' := by
          intro envx resx hx e1 e2 st' h
          cases resx with
          | norm => exact absurd rfl hx
          | returned => simpa [Post] using h
          | div0 => simpa [Post] using h
          | ovf => simpa [Post] using h
          | defeat => simpa [Post] using h
          | retv v => simpa [Post] using h
          | brk => simpa [Post] using h
          | cnt => simpa [Post] using h
        -- the rest of the list, from any state at `end_try` reachable from `m`
        have contK : ∀ (env1 : Env) (m1 : Mem) (env3 : Env) (tr3 : List Ev) (res3 : Res),
            SInv p (Md.you w) Γ env1 m1 F D o ra → Keep p.w m m1 ((Md.you w).kb F p.w) →
            exec (256 ^ p.w) (8 * p.w) fns p.w f D o env1 k = some (env3, tr3, res3) → FaultOK ck fns p.w res3 →
            (∀ st', Post p B ra lp (Md.you w) Γ env3 F D o (pc + 1 + nB + 2 + nH + (cS (cxOf p ck B dA) fa lp Γ (pc + 1 + nB + 2 + nH) o k).length) m res3 st' →
              ¬ Halts (sphinx p) st') →
            Concl p B ra lp (Md.you w) Γ env3 F D o (pc + 1 + nB + 2 + nH)
              (pc + 1 + nB + 2 + nH + (cS (cxOf p ck B dA) fa lp Γ (pc + 1 + nB + 2 + nH) o k).length) m1 tr3 res3 :=
          fun env1 m1 env3 tr3 res3 hi1 km1 hk hck3 hfin =>
            ih F D ra hra lp hlp (Md.you w) sb false k Γ env1 (pc + 1 + nB + 2 + nH) o m1 env3 tr3 res3 hplK (by omega) hi1 hd hwk (by omega) ho hk hck3
              (Or.inr ⟨⟨rfl, rfl, hsf⟩, hvd, hyk, fun e => by rw [km1.size]; exact hst e, fun st' hp => hfin st' (hp.rebase km1)⟩)
        simp only [exec] at hex
        cases hb1 : exec (256 ^ p.w) (8 * p.w) fns p.w f D o env body with
        | none => simp [hb1] at hex
        | some rb =>
          obtain ⟨env1, tr1, res1⟩ := rb
          simp only [hb1, Option.bind_eq_bind, Option.bind_some] at hex
          by_cases hdft : res1 = .defeat
          · -- the body would be defeated: the Turing jump goes to the handler, in the state before the try
            subst hdft
            simp only [if_true] at hex
            have hbb := ih F D ra hra lp hlp mdb sb true body Γ env (pc + 1) o m env1 tr1 .defeat hplB (by rw [hlenB]; omega) hinvb hd hwb (by omega) ho hb1
              trivial (hsafeB _ _ _)
            have jt : Reach (sphinx p) ⟨pc, m⟩ [] ⟨pc + 1 + nB + 2, m⟩ := Reach.jump_taken' (sys := sphinx p) s0 (hbb.1 rfl hvd)
            cases hh2 : exec (256 ^ p.w) (8 * p.w) fns p.w f D o env handler with
            | none => simp [hh2] at hex
            | some rh =>
              obtain ⟨env2, tr2, res2⟩ := rh
              simp only [hh2, Option.bind_some] at hex
              have hnd2 : res2 ≠ .defeat := exec_no_defeat _ _ _ _ false _ _ _ _ _ _ _ _ (plain_youLevel _ _ _ hplh) hh2
              by_cases hn2 : res2 = .norm
              · subst hn2
                simp only [if_true] at hex
                cases hk : exec (256 ^ p.w) (8 * p.w) fns p.w f D o env2 k with
                | none => simp [hk] at hex
                | some rk =>
                  obtain ⟨env3, tr3, res3⟩ := rk
                  simp only [hk, Option.bind_some, Option.pure_def, Option.some.injEq, Prod.mk.injEq] at hex
                  obtain ⟨rfl, rfl, rfl⟩ := hex
                  have hhh := ih F D ra hra lp hlp .plain sb false handler Γ env (pc + 1 + nB + 2) o m env2 tr2 .norm hplH (by rw [hlenH]; omega) (hinv.toMd rfl) hd hwh (by omega) ho hh2
                    trivial (hsafeH _ _ _)
                  rw [hlenH] at hhh
                  obtain ⟨st2, r2, hp2⟩ := hhh.2 (nd (by decide))
                  have hp2 := hp2.toYou rfl hdw (by decide)
                  obtain ⟨pc2, m2⟩ := st2
                  simp only [Post] at hp2
                  obtain ⟨hpc2, hi2, km2⟩ := hp2
                  subst hpc2
                  have r02 : Reach (sphinx p) ⟨pc, m⟩ tr2 ⟨pc + 1 + nB + 2 + nH, m2⟩ := by simpa using jt.trans r2
                  exact Concl.pre' r02 km2 (contK env2 m2 env3 tr3 res3 hi2 km2 hk hck h2) (post_conv rfl)
              · simp only [hn2, if_false, Option.pure_def, Option.some.injEq, Prod.mk.injEq] at hex
                obtain ⟨rfl, rfl, rfl⟩ := hex
                have hhh := ih F D ra hra lp hlp .plain sb false handler Γ env (pc + 1 + nB + 2) o m env2 tr2 res2 hplH (by rw [hlenH]; omega) (hinv.toMd rfl) hd hwh (by omega) ho hh2
                  hck (hsafeH _ _ _)
                simpa using Concl.pre jt (Keep.refl _ _ _) (hhh.toYou rfl hdw hnd2) (convN env2 res2 hn2 _ _)
          · simp only [hdft, if_false] at hex
            have hbb := ih F D ra hra lp hlp mdb sb true body Γ env (pc + 1) o m env1 tr1 res1 hplB (by rw [hlenB]; omega) hinvb hd hwb (by omega) ho hb1
            by_cases hn : res1 = .norm
            · subst hn
              simp only [if_true] at hex
              cases hk : exec (256 ^ p.w) (8 * p.w) fns p.w f D o env1 k with
              | none => simp [hk] at hex
              | some rk =>
                obtain ⟨env3, tr3, res3⟩ := rk
                simp only [hk, Option.bind_some, Option.pure_def, Option.some.injEq, Prod.mk.injEq] at hex
                obtain ⟨rfl, rfl, rfl⟩ := hex
                have hbb' := hbb trivial (hsafeB _ _ _)
                rw [hlenB] at hbb'
                obtain ⟨st1, r1, hp1⟩ := hbb'.2 (nd (by decide))
                have hp1 := hp1.toYou hkbb hdw (by decide)
                obtain ⟨pc1, m1⟩ := st1
                simp only [Post] at hp1
                obtain ⟨hpc1, hi1, km1⟩ := hp1
                subst hpc1
                have g := goto_reach lib (pc + 1 + nB) (pc + 1 + nB + 2 + nH) m1 hplG hendM
                have hkk := contK env1 m1 env3 tr3 res3 hi1 km1 hk hck h2
                have hnd3 : res3 ≠ .defeat := exec_no_defeat _ _ _ _ _ _ _ _ _ _ _ _ _ hyk hk
                obtain ⟨st', r3, hp3⟩ := hkk.2 (nd hnd3)
                have rbody : Reach (sphinx p) ⟨pc + 1, m⟩ (tr1 ++ tr3) st' := by simpa using r1.trans (g.trans r3)
                have nh1 : ¬ Halts (sphinx p) ⟨pc + 1, m⟩ := (rbody.exec (h2 st' (hp3.rebase km1))).2
                have jn := Reach.jump_not_taken (sys := sphinx p) s0 (fun hh => absurd hh nh1)
                exact ⟨fun hd' => absurd hd' hnd3, fun _ => ⟨st', by simpa using jn.trans rbody, hp3.rebase km1⟩⟩
            · simp only [hn, if_false, Option.pure_def, Option.some.injEq, Prod.mk.injEq] at hex
              obtain ⟨rfl, rfl, rfl⟩ := hex
              have hbb' := hbb hck (hsafeB _ _ _)
              obtain ⟨st1, r1, hp1⟩ := hbb'.2 (nd hdft)
              have hp1 := hp1.toYou hkbb hdw hdft
              have hp1' := convN env1 res1 hn _ (pc + 1 + nB + 2 + nH + (cS (cxOf p ck B dA) fa lp Γ (pc + 1 + nB + 2 + nH) o k).length) st1 hp1
              have nh1 : ¬ Halts (sphinx p) ⟨pc + 1, m⟩ := (r1.exec (h2 st1 hp1')).2
              have jn := Reach.jump_not_taken (sys := sphinx p) s0 (fun hh => absurd hh nh1)
              exact ⟨fun hd' => absurd hd' hdft, fun _ => ⟨st1, by simpa using jn.trans r1, hp1'⟩⟩
    | retE e =>
      simp only [wfS] at hwf
      simp only [pkS] at hpk
      have hg := gV_ok (ck := ck) (dA := dA) lib Γ env F D e pc o (2 * p.w) m
      have hreg := gV_reg (p := p) (ck := ck) (dA := dA) (B := B) Γ env m F D e pc o (2 * p.w) hinv.vars hwf hpk ho
      rcases hgv : gV (cxOf p ck B dA) Γ pc o (cxOf p ck B dA).r0 e with ⟨c, v'⟩
      rw [show (cxOf p ck B dA).r0 = 2 * p.w from rfl] at hgv
      rw [hgv] at hg hreg
      simp only at hg hreg
      have hcode : cS (cxOf p ck B dA) fa lp Γ pc o (.retE e)
          = c ++ [ldSlot (cxOf p ck B dA) (3 * p.w) p.w, stSlot (cxOf p ck B dA) p.w (v'.arg (cxOf p ck B dA)),
              .j (.st (3 * p.w)), .halt] := by
        simp only [cS]; rw [show (cxOf p ck B dA).r0 = 2 * p.w from rfl, hgv]; rfl
      rw [hcode] at hpl hB hs ⊢
      obtain ⟨hpl1, hpl2⟩ := hpl.append
      simp only [List.length_append, List.length_cons, List.length_nil, Nat.zero_add] at hB hs ⊢
      have hg' := hg hpl1 (by omega) (Or.inl trivial) hinv.fr hinv.vars hwf hpk ho
      cases hev : evalE (256 ^ p.w) (8 * p.w) env e with
      | none =>
        simp only [exec, hev, Option.some.injEq, Prod.mk.injEq] at hex
        obtain ⟨rfl, rfl, rfl⟩ := hex
        obtain ⟨m', r⟩ := hg'.2 hev hck
        exact fault _ _ _ _ m' _ r
      | some v =>
        simp only [exec, hev, Option.some.injEq, Prod.mk.injEq] at hex
        obtain ⟨rfl, rfl, rfl⟩ := hex
        obtain ⟨m1, r1, k1, harg, hval⟩ := hg'.1 v hev
        have hinv1 := hinv.keep k1 ho
        have fr1 := hinv1.fr
        have c0 := hpl2 0 (by simp); have c1 := hpl2 1 (by simp); have c2 := hpl2 2 (by simp); have c3 := hpl2 3 (by simp)
        simp only [List.getElem_cons_succ, List.getElem_cons_zero, Nat.add_zero] at c0 c1 c2 c3
        have s0 := step_ldSlot ck B (3 * p.w) p.w hw fr1 c0 (Nat.le_refl _) (by omega) (by omega)
        rw [hinv1.ra] at s0
        generalize hm2 : m1.writeLE (3 * p.w) p.w ra = m2 at *
        have k12 : Keep p.w m1 m2 (F - o) := by
          rw [← hm2]; exact Keep.write _ _ _ _ _ _ (by omega) (by omega)
        have fr2 := fr1.keep k12
        have hval2 : valOf p.w m2 F v' = v := by
          rw [← hm2, valOf_write_away _ _ _ _ _ _ (by
            rcases hreg with ⟨i, hi⟩ | hr
            · rw [hi]; trivial
            · rw [hr]; simp only [Away]; omega)]
          exact hval
        have ev := ev_arg_any (ck := ck) (dA := dA) (B := B) hw fr2 (pc + c.length + 1) v' harg
        rw [hval2] at ev
        have s1 := step_stSlot ck B p.w _ v hw fr2 c1 ev (Nat.le_refl _) (by omega)
        generalize hm3 : m2.writeLE (F - p.w) p.w v = m3 at *
        have hvM : v < 256 ^ p.w := by
          rw [← hval]; cases v' with
          | imm i => exact wrapI_lt (by omega) i
          | reg a => exact Mem.readLE_lt _ _ _
          | slot s => exact Mem.readLE_lt _ _ _
        have k23 : Keep p.w m2 m3 F := by
          rw [← hm3]; exact Keep.write _ _ _ _ _ _ (by omega) (by omega)
        have hr1 : m3.readLE (3 * p.w) p.w = ra := by
          rw [← hm3, Mem.readLE_writeLE_disj _ _ _ _ _ _ (by omega), ← hm2,
            Mem.readLE_writeLE_same _ _ _ _ (by have := k1.size; omega)]
          exact Nat.mod_eq_of_lt hra
        have hsz3 : 5 * p.w ≤ m3.size := by rw [k23.size, k12.size, k1.size]; omega
        have s2 := step_j (m := m3) c2 (by rw [ev_st (by unfold Prog.M; omega) (by omega), hr1])
        have s3 := step_halt (m := m3) c3
        refine ⟨fun h => absurd h (by simp), fun _ => ⟨⟨ra, m3⟩, ?_, ?_⟩⟩
        · have := r1.trans ((Reach.of_next (sys := sphinx p) s0).trans
            ((Reach.of_next (sys := sphinx p) s1).trans (Reach.jump_taken (sys := sphinx p) s2 s3)))
          simpa [evl] using this
        · simp only [Post]
          refine ⟨trivial, (show Keep p.w m m3 F from ((k1.mono (by omega)).trans' (k12.mono (by omega))).trans' k23).kb, ?_⟩
          rw [← hm3, Mem.readLE_writeLE_same _ _ _ _ (by have := k12.size; have := k1.size; omega)]
          exact Nat.mod_eq_of_lt hvM
    | callS g args k =>
      simp only [wfS, Bool.and_eq_true] at hwf
      obtain ⟨⟨hba, hwk⟩, hdv⟩ := hwf
      simp only [pkS] at hpk
      simp only [cS] at hpl hB hs ⊢
      obtain ⟨hpl1, hpl2⟩ := hpl.append
      rw [List.length_append] at hB hs ⊢
      -- a defeat function is only called in a defeat context, where the situation knows the word `defeat`
      have hdcT : isDfn fns g = true → dc = true := fun hd => by simpa [hd] using hdv
      have hnoD : isDfn fns g = true → ¬ ∀ fd ∈ fns, fd.dfn = false := fun hd hall => by
        unfold isDfn at hd
        cases hfind : fns.find? (fun fd => fd.name == g) with
        | none => simp [hfind] at hd
        | some fd => simp only [hfind] at hd; rw [hall fd (List.mem_of_find?_eq_some hfind)] at hd; cases hd
      have hdfc : isDfn fns g = true → ∃ v, md = .stop dA v := fun hd => by
        rcases hs with ⟨_, hvd, _⟩ | ⟨hmd, _⟩
        · rcases hvd.2 (hdcT hd) with h | h
          · exact h
          · exact absurd h (hnoD hd)
        · rw [hmd.2.1] at hdcT; exact absurd (hdcT hd) (by decide)
      have hNb : isDfn fns g = true → md.isYou = false := fun hd => by
        obtain ⟨v, hv⟩ := hdfc hd; rw [hv]; rfl
      simp only [exec] at hex
      cases hcw : callWith (256 ^ p.w) (8 * p.w) fns p.w (exec (256 ^ p.w) (8 * p.w) fns p.w f) D o env g args with
      | none => simp [hcw] at hex
      | some rc =>
        obtain ⟨trc, flag, rv⟩ := rc
        cases flag with
        | some rf =>
          simp only [hcw, Option.some.injEq, Prod.mk.injEq] at hex
          obtain ⟨rfl, rfl, rfl⟩ := hex
          have hwldF : isDfn fns g = true → HaltW p md ∨
              (((some rf : Option Res) = none → ∀ m', Keep p.w m m' (F - o) → (∀ v, rv = some v → m'.readLE (F - (o + p.w)) p.w = v) →
                  ¬ Halts (sphinx p) ⟨pc + (cCall (cxOf p ck B dA) fa Γ pc o g args).length, m'⟩) ∧
               (some rf = some .defeat → ∀ st', (∃ a v, md = .stop a v ∧ st'.pc = v ∧ SInvD p md Γ env st'.mem F D o ra ∧
                  KeepD p.w m st'.mem (md.kb F p.w)) → ¬ Halts (sphinx p) st')) := by
            intro hd
            rcases hs with ⟨_, _, _, hwld⟩ | ⟨hmd, _⟩
            · rcases hwld with h | ⟨_, fin⟩
              · exact Or.inl h
              · exact Or.inr ⟨fun h => (by cases h), fun h st' hp => by
                  simp only [Option.some.injEq] at h; subst h; exact fin st' hp⟩
            · rw [hNb hd] at hmd; exact absurd hmd.1 (by decide)
          have hc := hcall g args trc (some rf) rv hpl1 (by omega) hba (by omega) hcw (fun r h => by cases h; exact hck) hdfc hwldF
          rcases callWith_fault hcw with h | h | ⟨h, hd⟩ <;> subst h
          · obtain ⟨m', r⟩ := hc.1 rfl; exact fault _ _ _ _ m' _ r
          · obtain ⟨m', r⟩ := hc.2.1 rfl; exact faultO _ _ _ _ m' _ r
          · obtain ⟨st', r, hp⟩ := hc.2.2.2 rfl
            refine ⟨fun _ hf => ?_, fun _ => ⟨st', r, hp⟩⟩
            -- a defeat context that is not the body of a `try/stop`: the handler is a `halt`
            rcases hs with ⟨_, _, _, hwld⟩ | ⟨hmd, _⟩
            · rcases hwld with hW | ⟨hv, _⟩
              · obtain ⟨a, v, e, hpcv, _, _⟩ := hp
                obtain ⟨pc', m'⟩ := st'
                simp only at hpcv; subst hpcv
                exact r.1 (hW a _ e m')
              · rw [hf] at hv; cases hv
            · rw [hNb hd] at hmd; exact absurd hmd.1 (by decide)
        | none =>
          simp only [hcw] at hex
          cases hk : exec (256 ^ p.w) (8 * p.w) fns p.w f D o env k with
          | none => simp [hk] at hex
          | some rk =>
            obtain ⟨envk, trk, resk⟩ := rk
            simp only [hk, Option.bind_eq_bind, Option.bind_some, Option.pure_def, Option.some.injEq, Prod.mk.injEq] at hex
            obtain ⟨rfl, rfl, rfl⟩ := hex
            -- the rest of the list, from any state in which the call can return
            have hkkOf : ∀ m1, Keep p.w m m1 (F - o) → _ := fun m1 k1 =>
              ih F D ra hra lp hlp md sb dc k Γ env _ o m1 envk trk resk hpl2 (by omega)
                (hinv.keep k1 ho) hd hwk (by omega) ho hk hck
                (hs.sub (by simp [noTry]) (by simp [youLevel]) (k1.mono (by omega)) (post_conv (by omega)))
            have hwldN : isDfn fns g = true → HaltW p md ∨
                (((none : Option Res) = none → ∀ m', Keep p.w m m' (F - o) → (∀ v, rv = some v → m'.readLE (F - (o + p.w)) p.w = v) →
                    ¬ Halts (sphinx p) ⟨pc + (cCall (cxOf p ck B dA) fa Γ pc o g args).length, m'⟩) ∧
                 ((none : Option Res) = some .defeat → ∀ st', (∃ a v, md = .stop a v ∧ st'.pc = v ∧ SInvD p md Γ env st'.mem F D o ra ∧
                    KeepD p.w m st'.mem (md.kb F p.w)) → ¬ Halts (sphinx p) st')) := by
              intro hd
              rcases hs with ⟨_, _, _, hwld⟩ | ⟨hmd, _⟩
              · rcases hwld with h | ⟨hv, fin⟩
                · exact Or.inl h
                · refine Or.inr ⟨fun _ m' k' _ => ?_, fun h => (by cases h)⟩
                  obtain ⟨st', r2, hp2⟩ := (hkkOf m' k').2 (fun _ => hv)
                  exact (r2.exec (fin st' (post_conv (by omega) st' (hp2.rebase (k'.mono (by omega)).kb)))).2
              · rw [hNb hd] at hmd; exact absurd hmd.1 (by decide)
            obtain ⟨m1, r1, k1, _⟩ := (hcall g args trc none rv hpl1 (by omega) hba (by omega) hcw
              (fun r h => by cases h) hdfc hwldN).2.2.1 rfl
            exact Concl.pre r1 (k1.mono (by omega)) (hkkOf m1 k1) (post_conv (by omega))
    | declCall x g args k =>
      simp only [wfS, Bool.and_eq_true, Bool.not_eq_true'] at hwf
      obtain ⟨⟨⟨hba, hxn⟩, hwk⟩, hdv⟩ := hwf
      simp only [pkS] at hpk
      simp only [cS] at hpl hB hs ⊢
      obtain ⟨hpl1, hpl2⟩ := hpl.append
      rw [List.length_append] at hB hs ⊢
      -- a defeat function is only called in a defeat context, where the situation knows the word `defeat`
      have hdcT : isDfn fns g = true → dc = true := fun hd => by simpa [hd] using hdv
      have hnoD : isDfn fns g = true → ¬ ∀ fd ∈ fns, fd.dfn = false := fun hd hall => by
        unfold isDfn at hd
        cases hfind : fns.find? (fun fd => fd.name == g) with
        | none => simp [hfind] at hd
        | some fd => simp only [hfind] at hd; rw [hall fd (List.mem_of_find?_eq_some hfind)] at hd; cases hd
      have hdfc : isDfn fns g = true → ∃ v, md = .stop dA v := fun hd => by
        rcases hs with ⟨_, hvd, _⟩ | ⟨hmd, _⟩
        · rcases hvd.2 (hdcT hd) with h | h
          · exact h
          · exact absurd h (hnoD hd)
        · rw [hmd.2.1] at hdcT; exact absurd (hdcT hd) (by decide)
      have hNb : isDfn fns g = true → md.isYou = false := fun hd => by
        obtain ⟨v, hv⟩ := hdfc hd; rw [hv]; rfl
      simp only [exec] at hex
      cases hcw : callWith (256 ^ p.w) (8 * p.w) fns p.w (exec (256 ^ p.w) (8 * p.w) fns p.w f) D o env g args with
      | none => simp [hcw] at hex
      | some rc =>
        obtain ⟨trc, flag, rv⟩ := rc
        cases flag with
        | some rf =>
          simp only [hcw, Option.some.injEq, Prod.mk.injEq] at hex
          obtain ⟨rfl, rfl, rfl⟩ := hex
          have hwldF : isDfn fns g = true → HaltW p md ∨
              (((some rf : Option Res) = none → ∀ m', Keep p.w m m' (F - o) → (∀ v, rv = some v → m'.readLE (F - (o + p.w)) p.w = v) →
                  ¬ Halts (sphinx p) ⟨pc + (cCall (cxOf p ck B dA) fa Γ pc o g args).length, m'⟩) ∧
               (some rf = some .defeat → ∀ st', (∃ a v, md = .stop a v ∧ st'.pc = v ∧ SInvD p md Γ env st'.mem F D o ra ∧
                  KeepD p.w m st'.mem (md.kb F p.w)) → ¬ Halts (sphinx p) st')) := by
            intro hd
            rcases hs with ⟨_, _, _, hwld⟩ | ⟨hmd, _⟩
            · rcases hwld with h | ⟨_, fin⟩
              · exact Or.inl h
              · exact Or.inr ⟨fun h => (by cases h), fun h st' hp => by
                  simp only [Option.some.injEq] at h; subst h; exact fin st' hp⟩
            · rw [hNb hd] at hmd; exact absurd hmd.1 (by decide)
          have hc := hcall g args trc (some rf) rv hpl1 (by omega) hba (by omega) hcw (fun r h => by cases h; exact hck) hdfc hwldF
          rcases callWith_fault hcw with h | h | ⟨h, hd⟩ <;> subst h
          · obtain ⟨m', r⟩ := hc.1 rfl; exact fault _ _ _ _ m' _ r
          · obtain ⟨m', r⟩ := hc.2.1 rfl; exact faultO _ _ _ _ m' _ r
          · obtain ⟨st', r, hp⟩ := hc.2.2.2 rfl
            refine ⟨fun _ hf => ?_, fun _ => ⟨st', r, hp⟩⟩
            -- a defeat context that is not the body of a `try/stop`: the handler is a `halt`
            rcases hs with ⟨_, _, _, hwld⟩ | ⟨hmd, _⟩
            · rcases hwld with hW | ⟨hv, _⟩
              · obtain ⟨a, v, e, hpcv, _, _⟩ := hp
                obtain ⟨pc', m'⟩ := st'
                simp only at hpcv; subst hpcv
                exact r.1 (hW a _ e m')
              · rw [hf] at hv; cases hv
            · rw [hNb hd] at hmd; exact absurd hmd.1 (by decide)
        | none =>
          cases rv with
          | none => simp [hcw] at hex
          | some v =>
            simp only [hcw] at hex
            cases hk : exec (256 ^ p.w) (8 * p.w) fns p.w f D (o + p.w) (upd env x v) k with
            | none => simp [hk] at hex
            | some rk =>
              obtain ⟨envk, trk, resk⟩ := rk
              simp only [hk, Option.bind_eq_bind, Option.bind_some, Option.pure_def, Option.some.injEq, Prod.mk.injEq] at hex
              obtain ⟨rfl, rfl, rfl⟩ := hex
              have conv : ∀ (e1 e2 : Nat), e1 = e2 → ∀ st', Post p B ra lp md ((x, o + p.w) :: Γ) envk F D (o + p.w) e1 m resk st' →
                  Post p B ra lp md Γ envk F D o e2 m resk st' := by
                intro e1 e2 he st' hpost
                subst he
                cases resk with
                | norm =>
                  simp only [Post] at hpost ⊢
                  exact ⟨hpost.1, decl_back hinv x hpost.2.1 hxn, hpost.2.2⟩
                | returned => simpa [Post] using hpost
                | div0 => simpa [Post] using hpost
                | ovf => simpa [Post] using hpost
                | defeat =>
                  simp only [Post] at hpost ⊢
                  obtain ⟨a, v, h1, h2, h3, h4⟩ := hpost
                  exact ⟨a, v, h1, h2, decl_backD hinv x h3 hxn, h4⟩
                | retv v => simpa [Post] using hpost
                | brk =>
                  simp only [Post] at hpost ⊢
                  exact ⟨hpost.1, decl_back hinv x hpost.2.1 hxn, hpost.2.2⟩
                | cnt =>
                  simp only [Post] at hpost ⊢
                  exact ⟨hpost.1, decl_back hinv x hpost.2.1 hxn, hpost.2.2⟩
              have hkkOf : ∀ m1, Keep p.w m m1 (F - o) → m1.readLE (F - (o + p.w)) p.w = v → _ := fun m1 k1 hv1 =>
                ih F D ra hra lp hlp md sb dc k ((x, o + p.w) :: Γ) (upd env x v) _ (o + p.w) m1 envk trk resk hpl2 (by omega)
                  (decl_inv hinv hd x v k1 hv1 hxn ho).1 (decl_inv hinv hd x v k1 hv1 hxn ho).2 (by simpa using hwk) (by omega) (by omega) hk hck
                  (hs.sub (by simp [noTry]) (by simp [youLevel]) (k1.mono (by omega)) (conv _ _ (by omega)))
              have hwldN : isDfn fns g = true → HaltW p md ∨
                  (((none : Option Res) = none → ∀ m', Keep p.w m m' (F - o) → (∀ v', some v = some v' → m'.readLE (F - (o + p.w)) p.w = v') →
                      ¬ Halts (sphinx p) ⟨pc + (cCall (cxOf p ck B dA) fa Γ pc o g args).length, m'⟩) ∧
                   ((none : Option Res) = some .defeat → ∀ st', (∃ a v, md = .stop a v ∧ st'.pc = v ∧ SInvD p md Γ env st'.mem F D o ra ∧
                      KeepD p.w m st'.mem (md.kb F p.w)) → ¬ Halts (sphinx p) st')) := by
                intro hd'
                rcases hs with ⟨_, _, _, hwld⟩ | ⟨hmd, _⟩
                · rcases hwld with h | ⟨hv, fin⟩
                  · exact Or.inl h
                  · refine Or.inr ⟨fun _ m' k' hval => ?_, fun h => (by cases h)⟩
                    obtain ⟨st', r2, hp2⟩ := (hkkOf m' k' (hval v rfl)).2 (fun _ => hv)
                    exact (r2.exec (fin st' (conv _ _ (by omega) st' (hp2.rebase (k'.mono (by omega)).kb)))).2
                · rw [hNb hd'] at hmd; exact absurd hmd.1 (by decide)
              obtain ⟨m1, r1, k1, hv1⟩ := (hcall g args trc none (some v) hpl1 (by omega) hba (by omega) hcw
                (fun r h => by cases h) hdfc hwldN).2.2.1 rfl
              exact Concl.pre r1 (k1.mono (by omega)) (hkkOf m1 k1 (hv1 v rfl)) (conv _ _ (by omega))
    | assignCall x g args k =>
      simp only [wfS, Bool.and_eq_true, Bool.not_eq_true'] at hwf
      obtain ⟨⟨⟨hxin, hba⟩, hwk⟩, hdv⟩ := hwf
      simp only [pkS] at hpk
      have hcode : cS (cxOf p ck B dA) fa lp Γ pc o (.assignCall x g args k)
          = ((cCall (cxOf p ck B dA) fa Γ pc o g args ++
              [ldSlot (cxOf p ck B dA) (3 * p.w) (o + p.w), stSlot (cxOf p ck B dA) (look Γ x) (.st (3 * p.w))])) ++
            cS (cxOf p ck B dA) fa lp Γ (pc + (cCall (cxOf p ck B dA) fa Γ pc o g args ++
              [ldSlot (cxOf p ck B dA) (3 * p.w) (o + p.w), stSlot (cxOf p ck B dA) (look Γ x) (.st (3 * p.w))]).length) o k := by
        simp only [cS]; rfl
      rw [hcode] at hpl hB hs ⊢
      obtain ⟨hpl12, hpl3⟩ := hpl.append
      obtain ⟨hpl1, hpl2⟩ := hpl12.append
      simp only [List.length_append, List.length_cons, List.length_nil, Nat.zero_add] at hB hpl3 hs ⊢
      -- a defeat function is only called in a defeat context, where the situation knows the word `defeat`
      have hdcT : isDfn fns g = true → dc = true := fun hd => by simpa [hd] using hdv
      have hnoD : isDfn fns g = true → ¬ ∀ fd ∈ fns, fd.dfn = false := fun hd hall => by
        unfold isDfn at hd
        cases hfind : fns.find? (fun fd => fd.name == g) with
        | none => simp [hfind] at hd
        | some fd => simp only [hfind] at hd; rw [hall fd (List.mem_of_find?_eq_some hfind)] at hd; cases hd
      have hdfc : isDfn fns g = true → ∃ v, md = .stop dA v := fun hd => by
        rcases hs with ⟨_, hvd, _⟩ | ⟨hmd, _⟩
        · rcases hvd.2 (hdcT hd) with h | h
          · exact h
          · exact absurd h (hnoD hd)
        · rw [hmd.2.1] at hdcT; exact absurd (hdcT hd) (by decide)
      have hNb : isDfn fns g = true → md.isYou = false := fun hd => by
        obtain ⟨v, hv⟩ := hdfc hd; rw [hv]; rfl
      simp only [exec] at hex
      cases hcw : callWith (256 ^ p.w) (8 * p.w) fns p.w (exec (256 ^ p.w) (8 * p.w) fns p.w f) D o env g args with
      | none => simp [hcw] at hex
      | some rc =>
        obtain ⟨trc, flag, rv⟩ := rc
        cases flag with
        | some rf =>
          simp only [hcw, Option.some.injEq, Prod.mk.injEq] at hex
          obtain ⟨rfl, rfl, rfl⟩ := hex
          have hwldF : isDfn fns g = true → HaltW p md ∨
              (((some rf : Option Res) = none → ∀ m', Keep p.w m m' (F - o) → (∀ v, rv = some v → m'.readLE (F - (o + p.w)) p.w = v) →
                  ¬ Halts (sphinx p) ⟨pc + (cCall (cxOf p ck B dA) fa Γ pc o g args).length, m'⟩) ∧
               (some rf = some .defeat → ∀ st', (∃ a v, md = .stop a v ∧ st'.pc = v ∧ SInvD p md Γ env st'.mem F D o ra ∧
                  KeepD p.w m st'.mem (md.kb F p.w)) → ¬ Halts (sphinx p) st')) := by
            intro hd
            rcases hs with ⟨_, _, _, hwld⟩ | ⟨hmd, _⟩
            · rcases hwld with h | ⟨_, fin⟩
              · exact Or.inl h
              · exact Or.inr ⟨fun h => (by cases h), fun h st' hp => by
                  simp only [Option.some.injEq] at h; subst h; exact fin st' hp⟩
            · rw [hNb hd] at hmd; exact absurd hmd.1 (by decide)
          have hc := hcall g args trc (some rf) rv hpl1 (by omega) hba (by omega) hcw (fun r h => by cases h; exact hck) hdfc hwldF
          rcases callWith_fault hcw with h | h | ⟨h, hd⟩ <;> subst h
          · obtain ⟨m', r⟩ := hc.1 rfl; exact fault _ _ _ _ m' _ r
          · obtain ⟨m', r⟩ := hc.2.1 rfl; exact faultO _ _ _ _ m' _ r
          · obtain ⟨st', r, hp⟩ := hc.2.2.2 rfl
            refine ⟨fun _ hf => ?_, fun _ => ⟨st', r, hp⟩⟩
            -- a defeat context that is not the body of a `try/stop`: the handler is a `halt`
            rcases hs with ⟨_, _, _, hwld⟩ | ⟨hmd, _⟩
            · rcases hwld with hW | ⟨hv, _⟩
              · obtain ⟨a, v, e, hpcv, _, _⟩ := hp
                obtain ⟨pc', m'⟩ := st'
                simp only at hpcv; subst hpcv
                exact r.1 (hW a _ e m')
              · rw [hf] at hv; cases hv
            · rw [hNb hd] at hmd; exact absurd hmd.1 (by decide)
        | none =>
          cases rv with
          | none => simp [hcw] at hex
          | some v =>
            simp only [hcw] at hex
            cases hk : exec (256 ^ p.w) (8 * p.w) fns p.w f D o (upd env x v) k with
            | none => simp [hk] at hex
            | some rk =>
              obtain ⟨envk, trk, resk⟩ := rk
              simp only [hk, Option.bind_eq_bind, Option.bind_some, Option.pure_def, Option.some.injEq, Prod.mk.injEq] at hex
              obtain ⟨rfl, rfl, rfl⟩ := hex
              have hoW : o + p.w ≤ D := by unfold pkCall at hpk; omega
              -- from any state in which the call can return: fetch the result, store it, go on
              have afterRet : ∀ m1, Keep p.w m m1 (F - o) → m1.readLE (F - (o + p.w)) p.w = v →
                  ∃ m3, Reach (sphinx p) ⟨pc + (cCall (cxOf p ck B dA) fa Γ pc o g args).length, m1⟩ []
                      ⟨pc + ((cCall (cxOf p ck B dA) fa Γ pc o g args).length + (1 + 1)), m3⟩ ∧ Keep p.w m m3 F ∧
                    Concl p B ra lp md Γ envk F D o (pc + ((cCall (cxOf p ck B dA) fa Γ pc o g args).length + (1 + 1)))
                      (pc + ((cCall (cxOf p ck B dA) fa Γ pc o g args).length + (1 + 1)) +
                        (cS (cxOf p ck B dA) fa lp Γ (pc + ((cCall (cxOf p ck B dA) fa Γ pc o g args).length + (1 + 1))) o k).length) m3 trk resk := by
                intro m1 k1 hv
                have hinv1 := hinv.keep k1 ho
                have c0 := hpl2 0 (by simp); have c1 := hpl2 1 (by simp)
                simp only [List.getElem_cons_succ, List.getElem_cons_zero, Nat.add_zero] at c0 c1
                have s0 := step_ldSlot ck B (3 * p.w) (o + p.w) hw hinv1.fr c0 (by omega) hoW (by omega)
                rw [hv] at s0
                have k12 : Keep p.w m1 (m1.writeLE (3 * p.w) p.w v) (F - o) :=
                  Keep.write _ _ _ _ _ _ (by omega) (by omega)
                generalize hm2 : m1.writeLE (3 * p.w) p.w v = m2 at *
                have hinv2 := hinv1.keep k12 ho
                have hvM : v < 256 ^ p.w := by rw [← hv]; exact Mem.readLE_lt _ _ _
                have hr1 : m2.readLE (3 * p.w) p.w = v := by
                  rw [← hm2, Mem.readLE_writeLE_same _ _ _ _ (by have := k1.size; omega)]
                  exact Nat.mod_eq_of_lt hvM
                obtain ⟨hx1, hx2, _⟩ := hinv.vars x hxin
                have s1 := step_stSlot ck B (look Γ x) (.st (3 * p.w)) v hw hinv2.fr c1
                  (by rw [ev_st (by unfold Prog.M; omega) (by have := hinv2.fr.top; omega), hr1]) (by omega) (by omega)
                have hinv3 := assign_inv hw hinv2 hd x v hvM hxin hoD
                have km3 : Keep p.w m (m2.writeLE (F - look Γ x) p.w v) F :=
                  ((k1.mono (by omega)).trans' (k12.mono (by omega))).trans' (Keep.write _ _ _ _ _ _ (by omega) (by omega))
                have hkk := ih F D ra hra lp hlp md sb dc k Γ (upd env x v) _ o _ envk trk resk hpl3 (by omega)
                  hinv3 hd hwk (by omega) ho hk hck (hs.sub (by simp [noTry]) (by simp [youLevel]) km3 (post_conv (by omega)))
                refine ⟨_, ?_, km3, hkk⟩
                have := (Reach.of_next (sys := sphinx p) s0).trans (Reach.of_next (sys := sphinx p) s1)
                simpa [evl, Nat.add_assoc] using this
              have hwldN : isDfn fns g = true → HaltW p md ∨
                  (((none : Option Res) = none → ∀ m', Keep p.w m m' (F - o) → (∀ v', some v = some v' → m'.readLE (F - (o + p.w)) p.w = v') →
                      ¬ Halts (sphinx p) ⟨pc + (cCall (cxOf p ck B dA) fa Γ pc o g args).length, m'⟩) ∧
                   ((none : Option Res) = some .defeat → ∀ st', (∃ a v, md = .stop a v ∧ st'.pc = v ∧ SInvD p md Γ env st'.mem F D o ra ∧
                      KeepD p.w m st'.mem (md.kb F p.w)) → ¬ Halts (sphinx p) st')) := by
                intro hd'
                rcases hs with ⟨_, _, _, hwld⟩ | ⟨hmd, _⟩
                · rcases hwld with h | ⟨hv, fin⟩
                  · exact Or.inl h
                  · refine Or.inr ⟨fun _ m' k' hval => ?_, fun h => (by cases h)⟩
                    obtain ⟨m3, r13, km3, hkk⟩ := afterRet m' k' (hval v rfl)
                    obtain ⟨st', r2, hp2⟩ := hkk.2 (fun _ => hv)
                    exact ((r13.trans r2).exec (fin st' (post_conv (by omega) st' (hp2.rebase km3.kb)))).2
                · rw [hNb hd'] at hmd; exact absurd hmd.1 (by decide)
              obtain ⟨m1, r1, k1, hv1⟩ := (hcall g args trc none (some v) hpl1 (by omega) hba (by omega) hcw
                (fun r h => by cases h) hdfc hwldN).2.2.1 rfl
              obtain ⟨m3, r13, km3, hkk⟩ := afterRet m1 k1 (hv1 v rfl)
              have r01 : Reach (sphinx p) ⟨pc, m⟩ trc ⟨pc + ((cCall (cxOf p ck B dA) fa Γ pc o g args).length + (1 + 1)), m3⟩ := by
                simpa using r1.trans r13
              exact Concl.pre r01 km3 hkk (post_conv (by omega))
    | brk =>
      simp only [exec, Option.some.injEq, Prod.mk.injEq] at hex
      obtain ⟨rfl, rfl, rfl⟩ := hex
      simp only [cS] at hpl hB ⊢
      have g := goto_reach lib pc lp.brk m hpl hlp.2
      exact ⟨fun h => absurd h (by decide), fun _ => ⟨⟨lp.brk, m⟩, g, by simp only [Post]; exact ⟨trivial, hinv, Keep.refl _ _ _⟩⟩⟩
    | cnt =>
      simp only [exec, Option.some.injEq, Prod.mk.injEq] at hex
      obtain ⟨rfl, rfl, rfl⟩ := hex
      simp only [cS] at hpl hB ⊢
      have g := goto_reach lib pc lp.cont m hpl hlp.1
      exact ⟨fun h => absurd h (by decide), fun _ => ⟨⟨lp.cont, m⟩, g, by simp only [Post]; exact ⟨trivial, hinv, Keep.refl _ _ _⟩⟩⟩
    | tryStop body handler k =>
      exact tryStop_ok lib fok f ih F D ra hra lp hlp md sb dc body handler k Γ env pc o m env' tr res hpl hB hinv hd hwf hpk ho hex hck hs
end

end HidVerif.Core
