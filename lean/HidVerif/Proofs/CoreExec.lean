import HidVerif.Proofs.CoreStmt
/-!
# Core compiler proofs: statement lists (`cS_ok`) by induction on the fuel of `exec`

Two kinds of statement lists are covered by one theorem:
* lists without `try` (bodies of `try` blocks: they may contain defeat calls) — the conclusion
  is a `Reach`, or `Halts` of the start state when the source semantics says *defeat*;
* lists at the level of the you function (`youLevel`: `try` allowed, defeat calls only inside
  `try` bodies) — these additionally need to know that the states in which the whole list can
  end never halt, because a Turing jump looks at the whole future (`hsafe`).
-/
namespace HidVerif.Core
open HidVerif HidVerif.PSys HidVerif.Sphinx HidVerif.Gen

section
variable {p : Prog} {ck : Bool} {B : Nat}

/-- what a caller must know about the end of a statement list that contains `try` -/
def Safe (p : Prog) (B ra : Nat) (Γ : Gam) (env' : Env) (F D o pcEnd : Nat) (res : Res) (s : S) : Prop :=
  noTry s = true ∨
    (youLevel s = true ∧ ∀ st', Post p B ra Γ env' F D o pcEnd res st' → ¬ Halts (sphinx p) st')

theorem Safe.sub {Γ Γ' : Gam} {env' : Env} {F D ra o o' e e' : Nat} {res : Res} {s k : S}
    (h : Safe p B ra Γ env' F D o e res s)
    (hnt : noTry s = true → noTry k = true) (hyl : youLevel s = true → youLevel k = true)
    (conv : ∀ st', Post p B ra Γ' env' F D o' e' res st' → Post p B ra Γ env' F D o e res st') :
    Safe p B ra Γ' env' F D o' e' res k := by
  rcases h with h | ⟨h1, h2⟩
  · exact Or.inl (hnt h)
  · exact Or.inr ⟨hyl h1, fun st' hp => h2 st' (conv st' hp)⟩

/-- what `cS_ok` concludes -/
def Concl (p : Prog) (B ra : Nat) (Γ : Gam) (env' : Env) (F D o pc pcEnd : Nat) (m : Mem) (tr : List Ev) (res : Res) : Prop :=
  (res = .defeat → Halts (sphinx p) ⟨pc, m⟩) ∧
  (res ≠ .defeat → ∃ st', Reach (sphinx p) ⟨pc, m⟩ tr st' ∧ Post p B ra Γ env' F D o pcEnd res st')

/-- prefix a `Reach` to a conclusion about the rest -/
theorem Concl.pre {Γ Γ' : Gam} {env' : Env} {F D ra o o' pc pc1 e e' : Nat} {m m1 : Mem} {tr0 tr : List Ev} {res : Res}
    (r : Reach (sphinx p) ⟨pc, m⟩ tr0 ⟨pc1, m1⟩)
    (h : Concl p B ra Γ' env' F D o' pc1 e' m1 tr res)
    (conv : ∀ st', Post p B ra Γ' env' F D o' e' res st' → Post p B ra Γ env' F D o e res st') :
    Concl p B ra Γ env' F D o pc e m (tr0 ++ tr) res :=
  ⟨fun hd => r.1 (h.1 hd), fun hn => by
    obtain ⟨st', r2, hp⟩ := h.2 hn
    exact ⟨st', r.trans r2, conv st' hp⟩⟩

theorem post_conv {Γ : Gam} {env' : Env} {F D ra o e e' : Nat} {res : Res} (he : e' = e) :
    ∀ st', Post p B ra Γ env' F D o e' res st' → Post p B ra Γ env' F D o e res st' := by
  subst he; exact fun _ h => h

theorem cS_ok (lib : Placed p B) (F D ra : Nat) (hra : ra < 256 ^ p.w) :
    ∀ (fuel : Nat) (s : S) (Γ : Gam) (env : Env) (pc o : Nat) (m : Mem) (env' : Env) (tr : List Ev) (res : Res),
      PlacedAt p pc (cS (cxOf p ck B) Γ pc o s) →
      pc + (cS (cxOf p ck B) Γ pc o s).length ≤ B →
      SInv p Γ env m F D o ra → Disj p.w Γ → wfS (Γ.map Prod.fst) s = true →
      pkS p.w o s ≤ D → p.w ≤ o →
      exec (256 ^ p.w) (8 * p.w) fuel env s = some (env', tr, res) → (res = .div0 → ck = true) →
      Safe p B ra Γ env' F D o (pc + (cS (cxOf p ck B) Γ pc o s).length) res s →
      Concl p B ra Γ env' F D o pc (pc + (cS (cxOf p ck B) Γ pc o s).length) m tr res := by
  have hw := lib.hw
  have h64 := mul_w_lt_pow p.w hw
  have hM := pow_ge2 p.w hw
  have hBM := lib.hB
  intro fuel
  induction fuel with
  | zero => intro s Γ env pc o m env' tr res _ _ _ _ _ _ _ hex; simp [exec] at hex
  | succ f ih =>
    intro s Γ env pc o m env' tr res hpl hB hinv hd hwf hpk ho hex hck hs
    have hroom := hinv.fr.room; have htop := hinv.fr.top; have hFM := hinv.fr.lt
    have hoD : o ≤ D := by have := pkS_ge p.w s o; omega
    -- a fault exit: the machine is in the `division_by_zero` stub
    have fault : ∀ (pc0 : Nat) (e0 : Nat) (env0 : Env) (m0 m' : Mem) (t : List Ev),
        Reach (sphinx p) ⟨pc0, m0⟩ t ⟨B + off_division_by_zero, m'⟩ →
        Concl p B ra Γ env0 F D o pc0 e0 m0 t .div0 :=
      fun _ _ _ _ m' _ r => ⟨fun h => absurd h (by decide), fun _ => ⟨⟨_, m'⟩, r, by simp [Post]⟩⟩
    cases s with
    | nil =>
      simp only [exec, Option.some.injEq, Prod.mk.injEq] at hex
      obtain ⟨rfl, rfl, rfl⟩ := hex
      exact ⟨fun h => absurd h (by decide), fun _ => ⟨⟨pc, m⟩, by simpa using Reach.refl, by simp [Post, cS]; exact hinv⟩⟩
    | ret =>
      simp only [exec, Option.some.injEq, Prod.mk.injEq] at hex
      obtain ⟨rfl, rfl, rfl⟩ := hex
      simp only [cS] at hpl hB
      have c0 := hpl 0 (by simp); have c1 := hpl 1 (by simp); have c2 := hpl 2 (by simp)
      simp only [List.getElem_cons_succ, List.getElem_cons_zero, Nat.add_zero] at c0 c1 c2
      rw [show (cxOf p ck B).r1 = 3 * p.w from rfl] at c0 c1
      have s0 := step_ldSlot ck B (3 * p.w) p.w hw hinv.fr c0 (Nat.le_refl _) (by omega) (by omega)
      rw [hinv.ra] at s0
      have hsz : 5 * p.w ≤ (m.writeLE (3 * p.w) p.w ra).size := by simp; omega
      have s1 := step_j (m := m.writeLE (3 * p.w) p.w ra) c1
        (by rw [ev_st (by unfold Prog.M; omega) (by omega), Mem.readLE_writeLE_same _ _ _ _ (by omega)])
      rw [Nat.mod_eq_of_lt hra] at s1
      have s2 := step_halt (m := m.writeLE (3 * p.w) p.w ra) c2
      refine ⟨fun h => absurd h (by decide), fun _ => ⟨⟨ra, m.writeLE (3 * p.w) p.w ra⟩, ?_, by simp [Post]⟩⟩
      have := (Reach.of_next (sys := sphinx p) s0).trans (Reach.jump_taken (sys := sphinx p) s1 s2)
      simpa [evl] using this
    | decl x e k =>
      simp only [wfS, Bool.and_eq_true, Bool.not_eq_true'] at hwf
      obtain ⟨⟨hbe, hxn⟩, hwk⟩ := hwf
      simp only [pkS] at hpk
      simp only [cS] at hpl hB hs ⊢
      obtain ⟨hpl1, hpl2⟩ := hpl.append
      rw [List.length_append] at hB hs ⊢
      have hp := pushE_ok (ck := ck) lib Γ env F D e pc o m hpl1 (by omega) hinv.fr hinv.vars hbe (by omega) ho
      cases hev : evalE (256 ^ p.w) (8 * p.w) env e with
      | none =>
        simp only [exec, hev, Option.some.injEq, Prod.mk.injEq] at hex
        obtain ⟨rfl, rfl, rfl⟩ := hex
        obtain ⟨m', r⟩ := hp.2 hev (hck rfl)
        exact fault _ _ _ _ m' _ r
      | some v =>
        simp only [exec, hev] at hex
        obtain ⟨m1, r1, k1, hval⟩ := hp.1 v hev
        obtain ⟨hinv1, hd1⟩ := decl_inv hinv hd x v k1 hval hxn ho
        have conv : ∀ (e1 e2 : Nat), e1 = e2 → ∀ st', Post p B ra ((x, o + p.w) :: Γ) env' F D (o + p.w) e1 res st' →
            Post p B ra Γ env' F D o e2 res st' := by
          intro e1 e2 he st' hpost
          subst he
          cases res with
          | norm =>
            simp only [Post] at hpost ⊢
            exact ⟨hpost.1, decl_back hinv x hpost.2 hxn⟩
          | returned => simpa [Post] using hpost
          | div0 => simpa [Post] using hpost
          | defeat => simpa [Post] using hpost
        have hk := ih k ((x, o + p.w) :: Γ) (upd env x v) _ (o + p.w) m1 env' tr res hpl2 (by omega)
          hinv1 hd1 (by simpa using hwk) (by omega) (by omega) hex hck
          (hs.sub (by simp [noTry]) (by simp [youLevel]) (conv _ _ (by omega)))
        simpa using Concl.pre r1 hk (conv _ _ (by omega))
    | assign x e k =>
      simp only [wfS, Bool.and_eq_true] at hwf
      obtain ⟨⟨hxin, hbe⟩, hwk⟩ := hwf
      simp only [pkS] at hpk
      have hg := gV_ok (ck := ck) lib Γ env F D e pc o (3 * p.w) m
      rcases hgv : gV (cxOf p ck B) Γ pc o (cxOf p ck B).r1 e with ⟨c, v'⟩
      rw [show (cxOf p ck B).r1 = 3 * p.w from rfl] at hgv
      rw [hgv] at hg
      simp only at hg
      have hcode : cS (cxOf p ck B) Γ pc o (.assign x e k)
          = (c ++ [stSlot (cxOf p ck B) (look Γ x) (v'.arg (cxOf p ck B))]) ++
              cS (cxOf p ck B) Γ (pc + (c ++ [stSlot (cxOf p ck B) (look Γ x) (v'.arg (cxOf p ck B))]).length) o k := by
        simp only [cS]; rw [show (cxOf p ck B).r1 = 3 * p.w from rfl, hgv]
      rw [hcode] at hpl hB hs ⊢
      obtain ⟨hpl12, hpl3⟩ := hpl.append
      obtain ⟨hpl1, hpl2⟩ := hpl12.append
      simp only [List.length_append, List.length_cons, List.length_nil, Nat.zero_add] at hB hpl3 hs ⊢
      have hg' := hg hpl1 (by omega) (Or.inr trivial) hinv.fr hinv.vars hbe (by omega) ho
      cases hev : evalE (256 ^ p.w) (8 * p.w) env e with
      | none =>
        simp only [exec, hev, Option.some.injEq, Prod.mk.injEq] at hex
        obtain ⟨rfl, rfl, rfl⟩ := hex
        obtain ⟨m', r⟩ := hg'.2 hev (hck rfl)
        exact fault _ _ _ _ m' _ r
      | some v =>
        simp only [exec, hev] at hex
        obtain ⟨m1, r1, k1, harg, hval⟩ := hg'.1 v hev
        have hinv1 := hinv.keep k1 ho
        obtain ⟨hx1, hx2, _⟩ := hinv.vars x hxin
        have ev := ev_arg_any (ck := ck) (B := B) hw hinv1.fr (pc + c.length) v' harg
        rw [hval] at ev
        have st := st_reach (ck := ck) (B := B) hw hinv1.fr (look Γ x) _ v hpl2 ev (by omega) (by omega)
        have hvM : v < 256 ^ p.w := by
          rw [← hval]; cases v' with
          | imm i => exact wrapI_lt (by omega) i
          | reg a => exact Mem.readLE_lt _ _ _
          | slot s => exact Mem.readLE_lt _ _ _
        have hinv2 := assign_inv hw hinv1 hd x v hvM hxin hoD
        have hk := ih k Γ (upd env x v) _ o _ env' tr res hpl3 (by omega)
          hinv2 hd hwk (by omega) ho hex hck (hs.sub (by simp [noTry]) (by simp [youLevel]) (post_conv (by omega)))
        have r01 : Reach (sphinx p) ⟨pc, m⟩ [] ⟨pc + (c.length + 1), m1.writeLE (F - look Γ x) p.w v⟩ := by
          simpa [Nat.add_assoc] using r1.trans st
        simpa using Concl.pre r01 hk (post_conv (by omega))
    | write e k =>
      simp only [wfS, Bool.and_eq_true] at hwf
      obtain ⟨hbe, hwk⟩ := hwf
      simp only [pkS] at hpk
      simp only [cS] at hpl hB hs ⊢
      obtain ⟨hpl1, hpl2⟩ := hpl.append
      rw [List.length_append] at hB hs ⊢
      have hwr := cWrite_ok (ck := ck) lib Γ env F D e pc o m hpl1 (by omega) hinv.fr hinv.vars hbe (by omega) ho
      cases hev : evalE (256 ^ p.w) (8 * p.w) env e with
      | none =>
        simp only [exec, hev, Option.some.injEq, Prod.mk.injEq] at hex
        obtain ⟨rfl, rfl, rfl⟩ := hex
        obtain ⟨m', r⟩ := hwr.2 hev (hck rfl)
        exact fault _ _ _ _ m' _ r
      | some v =>
        simp only [exec, hev] at hex
        cases hk : exec (256 ^ p.w) (8 * p.w) f env k with
        | none => simp [hk] at hex
        | some rk =>
          obtain ⟨envk, trk, resk⟩ := rk
          simp only [hk, Option.bind_eq_bind, Option.bind_some, Option.pure_def, Option.some.injEq, Prod.mk.injEq] at hex
          obtain ⟨rfl, rfl, rfl⟩ := hex
          obtain ⟨m1, r1, k1⟩ := hwr.1 v hev
          have hkk := ih k Γ env _ o m1 envk trk resk hpl2 (by omega)
            (hinv.keep k1 ho) hd hwk (by omega) ho hk hck (hs.sub (by simp [noTry]) (by simp [youLevel]) (post_conv (by omega)))
          exact Concl.pre r1 hkk (post_conv (by omega))
    | writeln e k =>
      cases e with
      | none =>
        simp only [wfS] at hwf
        simp only [pkS] at hpk
        simp only [cS] at hpl hB hs ⊢
        have c0 := hpl 0 (by simp)
        simp only [List.getElem_cons_zero, Nat.add_zero] at c0
        have hpl2 : PlacedAt p (pc + 1) (cS (cxOf p ck B) Γ (pc + 1) o k) := by
          have := (hpl.append (l₁ := [Instr.yld (.imm 10)])).2; simpa using this
        simp only [List.length_cons] at hB hs ⊢
        simp only [exec] at hex
        cases hk : exec (256 ^ p.w) (8 * p.w) f env k with
        | none => simp [hk] at hex
        | some rk =>
          obtain ⟨envk, trk, resk⟩ := rk
          simp only [hk, Option.bind_eq_bind, Option.bind_some, Option.pure_def, Option.some.injEq, Prod.mk.injEq] at hex
          obtain ⟨rfl, rfl, rfl⟩ := hex
          have y := yld_reach (p := p) pc 10 m c0
          rw [show 10 % p.M % 256 = 10 from by unfold Prog.M; rw [Nat.mod_eq_of_lt (show 10 < 256 ^ p.w by omega)]] at y
          have hkk := ih k Γ env _ o m envk trk resk hpl2 (by omega) hinv hd hwf hpk ho hk hck
            (hs.sub (by simp [noTry]) (by simp [youLevel]) (post_conv (by omega)))
          simpa using Concl.pre y hkk (post_conv (by omega))
      | some e =>
        simp only [wfS, Bool.and_eq_true] at hwf
        obtain ⟨hbe, hwk⟩ := hwf
        simp only [pkS] at hpk
        simp only [cS] at hpl hB hs ⊢
        obtain ⟨hpl12, hpl3⟩ := hpl.append
        obtain ⟨hpl1, hpl2⟩ := hpl12.append
        simp only [List.length_append, List.length_cons, List.length_nil, Nat.zero_add] at hB hpl3 hs ⊢
        have hwr := cWrite_ok (ck := ck) lib Γ env F D e pc o m hpl1 (by omega) hinv.fr hinv.vars hbe (by omega) ho
        cases hev : evalE (256 ^ p.w) (8 * p.w) env e with
        | none =>
          simp only [exec, hev, Option.some.injEq, Prod.mk.injEq] at hex
          obtain ⟨rfl, rfl, rfl⟩ := hex
          obtain ⟨m', r⟩ := hwr.2 hev (hck rfl)
          exact fault _ _ _ _ m' _ r
        | some v =>
          simp only [exec, hev] at hex
          cases hk : exec (256 ^ p.w) (8 * p.w) f env k with
          | none => simp [hk] at hex
          | some rk =>
            obtain ⟨envk, trk, resk⟩ := rk
            simp only [hk, Option.bind_eq_bind, Option.bind_some, Option.pure_def, Option.some.injEq, Prod.mk.injEq] at hex
            obtain ⟨rfl, rfl, rfl⟩ := hex
            obtain ⟨m1, r1, k1⟩ := hwr.1 v hev
            have y := yld_reach (p := p) (pc + (cWrite (cxOf p ck B) Γ pc o e).length) 10 m1 (placed_one hpl2)
            rw [show 10 % p.M % 256 = 10 from by unfold Prog.M; rw [Nat.mod_eq_of_lt (show 10 < 256 ^ p.w by omega)]] at y
            have hkk := ih k Γ env _ o m1 envk trk resk hpl3 (by omega)
              (hinv.keep k1 ho) hd hwk (by omega) ho hk hck (hs.sub (by simp [noTry]) (by simp [youLevel]) (post_conv (by omega)))
            have r01 : Reach (sphinx p) ⟨pc, m⟩ (outs (decimalW (256 ^ p.w) v) ++ [Ev.out 10])
                ⟨pc + ((cWrite (cxOf p ck B) Γ pc o e).length + 1), m1⟩ := by
              simpa [Nat.add_assoc] using r1.trans y
            simpa [List.append_assoc] using Concl.pre r01 hkk (post_conv (by omega))
    | putc c k =>
      simp only [wfS] at hwf
      simp only [pkS] at hpk
      simp only [cS] at hpl hB hs ⊢
      have c0 := hpl 0 (by simp)
      simp only [List.getElem_cons_zero, Nat.add_zero] at c0
      have hpl2 : PlacedAt p (pc + 1) (cS (cxOf p ck B) Γ (pc + 1) o k) := by
        have := (hpl.append (l₁ := [Instr.yld (.imm (c % (cxOf p ck B).M))])).2; simpa using this
      simp only [List.length_cons] at hB hs ⊢
      simp only [exec] at hex
      cases hk : exec (256 ^ p.w) (8 * p.w) f env k with
      | none => simp [hk] at hex
      | some rk =>
        obtain ⟨envk, trk, resk⟩ := rk
        simp only [hk, Option.bind_eq_bind, Option.bind_some, Option.pure_def, Option.some.injEq, Prod.mk.injEq] at hex
        obtain ⟨rfl, rfl, rfl⟩ := hex
        have y := yld_reach (p := p) pc _ m c0
        rw [show c % (cxOf p ck B).M % p.M % 256 = c % 256 ^ p.w % 256 from by
          unfold Prog.M; show c % 256 ^ p.w % 256 ^ p.w % 256 = _; rw [Nat.mod_mod]] at y
        have hkk := ih k Γ env _ o m envk trk resk hpl2 (by omega) hinv hd hwf hpk ho hk hck
          (hs.sub (by simp [noTry]) (by simp [youLevel]) (post_conv (by omega)))
        simpa using Concl.pre y hkk (post_conv (by omega))
    | block b k =>
      simp only [wfS, Bool.and_eq_true] at hwf
      simp only [pkS] at hpk
      simp only [cS] at hpl hB hs ⊢
      obtain ⟨hpl1, hpl2⟩ := hpl.append
      rw [List.length_append] at hB hs ⊢
      simp only [exec] at hex
      cases hb1 : exec (256 ^ p.w) (8 * p.w) f env b with
      | none => simp [hb1] at hex
      | some rb =>
        obtain ⟨env1, tr1, res1⟩ := rb
        simp only [hb1, Option.bind_eq_bind, Option.bind_some] at hex
        by_cases hn : res1 = .norm
        · subst hn
          simp only [if_true] at hex
          cases hk : exec (256 ^ p.w) (8 * p.w) f env1 k with
          | none => simp [hk] at hex
          | some rk =>
            obtain ⟨envk, trk, resk⟩ := rk
            simp only [hk, Option.bind_some, Option.pure_def, Option.some.injEq, Prod.mk.injEq] at hex
            obtain ⟨rfl, rfl, rfl⟩ := hex
            have hsk : Safe p B ra Γ envk F D o (pc + (cS (cxOf p ck B) Γ pc o b).length +
                (cS (cxOf p ck B) Γ (pc + (cS (cxOf p ck B) Γ pc o b).length) o k).length) resk k :=
              hs.sub (k := k) (by simp only [noTry, Bool.and_eq_true]; exact fun h => h.2)
                (by simp only [youLevel, Bool.and_eq_true]; exact fun h => h.2) (post_conv (by omega))
            have hsb : Safe p B ra Γ env1 F D o (pc + (cS (cxOf p ck B) Γ pc o b).length) .norm b := by
              rcases hs with h | ⟨h1, h2⟩
              · left; simp only [noTry, Bool.and_eq_true] at h; exact h.1
              · right
                simp only [youLevel, Bool.and_eq_true] at h1
                refine ⟨h1.1, fun st1 hp1 => ?_⟩
                obtain ⟨pc1, m1⟩ := st1
                simp only [Post] at hp1
                obtain ⟨hpc1, hi1⟩ := hp1
                subst hpc1
                have hkk := ih k Γ env1 (pc + (cS (cxOf p ck B) Γ pc o b).length) o m1 envk trk resk hpl2 (by omega) hi1 hd hwf.2 (by omega) ho hk hck hsk
                obtain ⟨st', r2, hp2⟩ := hkk.2 (exec_no_defeat _ _ _ _ _ _ _ _ h1.2 hk)
                exact (r2.exec (h2 st' (by refine post_conv ?_ st' hp2; omega))).2
            have hbb := ih b Γ env pc o m env1 tr1 .norm hpl1 (by omega) hinv hd hwf.1 (by omega) ho hb1 (by simp) hsb
            obtain ⟨st1, r1, hp1⟩ := hbb.2 (by decide)
            obtain ⟨pc1, m1⟩ := st1
            simp only [Post] at hp1
            obtain ⟨hpc1, hi1⟩ := hp1
            subst hpc1
            have hkk := ih k Γ env1 (pc + (cS (cxOf p ck B) Γ pc o b).length) o m1 envk trk resk hpl2 (by omega) hi1 hd hwf.2 (by omega) ho hk hck hsk
            exact Concl.pre r1 hkk (post_conv (by omega))
        · simp only [hn, if_false, Option.pure_def, Option.some.injEq, Prod.mk.injEq] at hex
          obtain ⟨rfl, rfl, rfl⟩ := hex
          have convb : ∀ st', Post p B ra Γ env1 F D o (pc + (cS (cxOf p ck B) Γ pc o b).length) res1 st' →
              Post p B ra Γ env1 F D o (pc + ((cS (cxOf p ck B) Γ pc o b).length + (cS (cxOf p ck B) Γ (pc + (cS (cxOf p ck B) Γ pc o b).length) o k).length)) res1 st' := by
            intro st' h
            cases res1 with
            | norm => exact absurd rfl hn
            | returned => simpa [Post] using h
            | div0 => simpa [Post] using h
            | defeat => simpa [Post] using h
          have hbb := ih b Γ env pc o m env1 tr1 res1 hpl1 (by omega) hinv hd hwf.1 (by omega) ho hb1 hck
            (hs.sub (by simp only [noTry, Bool.and_eq_true]; exact fun h => h.1)
              (by simp only [youLevel, Bool.and_eq_true]; exact fun h => h.1) convb)
          exact ⟨hbb.1, fun hnd => by obtain ⟨st1, r1, hp1⟩ := hbb.2 hnd; exact ⟨st1, r1, convb st1 hp1⟩⟩
    | defeat k =>
      simp only [exec, Option.some.injEq, Prod.mk.injEq] at hex
      obtain ⟨rfl, rfl, rfl⟩ := hex
      simp only [cS] at hpl
      have c0 := hpl 0 (by simp)
      simp only [List.getElem_cons_zero, Nat.add_zero] at c0
      exact ⟨fun _ => Halts.halt (sys := sphinx p) (step_halt (m := m) c0), fun h => absurd rfl h⟩
    | defeatIf c k =>
      simp only [wfS, Bool.and_eq_true] at hwf
      obtain ⟨⟨hbc, hdc⟩, hwk⟩ := hwf
      simp only [pkS] at hpk
      simp only [cS] at hpl hB hs ⊢
      obtain ⟨hpl1, hpl2⟩ := hpl.append
      rw [List.length_append] at hB hs ⊢
      have hcd := cD_ok (ck := ck) lib Γ env F D c pc o m hdc hpl1 (by omega) hinv.fr hinv.vars hbc (by omega) ho
      cases hev : evalB (256 ^ p.w) (8 * p.w) env c with
      | none =>
        simp only [exec, hev, Option.some.injEq, Prod.mk.injEq] at hex
        obtain ⟨rfl, rfl, rfl⟩ := hex
        obtain ⟨m', r⟩ := hcd.2.2 hev (hck rfl)
        exact fault _ _ _ _ m' _ r
      | some cv =>
        cases cv with
        | true =>
          simp only [exec, hev, Option.some.injEq, Prod.mk.injEq] at hex
          obtain ⟨rfl, rfl, rfl⟩ := hex
          exact ⟨fun _ => hcd.2.1 hev, fun h => absurd rfl h⟩
        | false =>
          simp only [exec, hev] at hex
          obtain ⟨m1, r1, k1⟩ := hcd.1 hev
          have hkk := ih k Γ env _ o m1 env' tr res hpl2 (by omega) (hinv.keep k1 ho) hd hwk (by omega) ho hex hck
            (hs.sub (by simp [noTry]) (by simp [youLevel]) (post_conv (by omega)))
          simpa using Concl.pre r1 hkk (post_conv (by omega))
    | ifb c t e k =>
      simp only [wfS, Bool.and_eq_true] at hwf
      obtain ⟨⟨⟨hbc, hwt⟩, hwe⟩, hwk⟩ := hwf
      simp only [pkS] at hpk
      simp only [cS] at hpl hB hs ⊢
      have hlenA : (cB (cxOf p ck B) Γ pc o c [] (goto (pc + lenB ck c 0 2 false true + lenS ck t + 2))).length
          = lenB ck c 0 2 false true := by rw [cB_len]; simp
      generalize hnC : lenB ck c 0 2 false true = nC at *
      have hlenT : (cS (cxOf p ck B) Γ (pc + nC) o t).length = lenS ck t := cS_len _ _ _ _ _
      have hlenE : (cS (cxOf p ck B) Γ (pc + nC + lenS ck t + 2) o e).length = lenS ck e := cS_len _ _ _ _ _
      generalize hnT : lenS ck t = nT at *
      generalize hnE : lenS ck e = nE at *
      obtain ⟨hpl1234, hplK⟩ := hpl.append
      obtain ⟨hpl123, hplE⟩ := hpl1234.append
      obtain ⟨hpl12, hplG⟩ := hpl123.append
      obtain ⟨hplA, hplT⟩ := hpl12.append
      simp only [List.length_append, hlenA, hlenT, hlenE, goto_len, ← Nat.add_assoc] at hB hplK hplE hplG hplT hs ⊢
      have hendM : pc + nC + nT + 2 + nE < 256 ^ p.w := by simp [stdlibLength] at hBM; omega
      have hc := cB_ok (ck := ck) lib Γ env F D c pc o none (some (pc + nC + nT + 2)) m hplA (by rw [brCode, brCode, hlenA]; omega)
        (fun x hx => by simp at hx) (fun x hx => by simp at hx; omega) hinv.fr hinv.vars hbc (by omega) ho
      rw [show (cB (cxOf p ck B) Γ pc o c (brCode none) (brCode (some (pc + nC + nT + 2)))).length = nC from hlenA] at hc
      cases hev : evalB (256 ^ p.w) (8 * p.w) env c with
      | none =>
        simp only [exec, hev, Option.some.injEq, Prod.mk.injEq] at hex
        obtain ⟨rfl, rfl, rfl⟩ := hex
        obtain ⟨m', r⟩ := hc.2 hev (hck rfl)
        exact fault _ _ _ _ m' _ r
      | some cv =>
        simp only [exec, hev] at hex
        obtain ⟨m0, r0, k0⟩ := hc.1 cv hev
        have hinv0 := hinv.keep k0 ho
        -- the continuation after the `if`, from any state matching `env1` at `end_else`
        have contK : ∀ (env1 : Env) (m1 : Mem) (envk : Env) (trk : List Ev) (resk : Res),
            SInv p Γ env1 m1 F D o ra → exec (256 ^ p.w) (8 * p.w) f env1 k = some (envk, trk, resk) →
            (resk = .div0 → ck = true) →
            Safe p B ra Γ envk F D o (pc + nC + nT + 2 + nE + (cS (cxOf p ck B) Γ (pc + nC + nT + 2 + nE) o k).length) resk k →
            Concl p B ra Γ envk F D o (pc + nC + nT + 2 + nE)
              (pc + nC + nT + 2 + nE + (cS (cxOf p ck B) Γ (pc + nC + nT + 2 + nE) o k).length) m1 trk resk :=
          fun env1 m1 envk trk resk hi1 hk hckk hsk =>
            ih k Γ env1 _ o m1 envk trk resk hplK (by omega) hi1 hd hwk (by omega) ho hk hckk hsk
        cases cv with
        | true =>
          simp only [if_true, Option.getD_none] at r0
          simp only [if_true] at hex
          cases hb1 : exec (256 ^ p.w) (8 * p.w) f env t with
          | none => simp [hb1] at hex
          | some rb =>
            obtain ⟨env1, tr1, res1⟩ := rb
            simp only [hb1, Option.bind_eq_bind, Option.bind_some] at hex
            by_cases hn : res1 = .norm
            · subst hn
              simp only [if_true] at hex
              cases hk : exec (256 ^ p.w) (8 * p.w) f env1 k with
              | none => simp [hk] at hex
              | some rk =>
                obtain ⟨envk, trk, resk⟩ := rk
                simp only [hk, Option.bind_some, Option.pure_def, Option.some.injEq, Prod.mk.injEq] at hex
                obtain ⟨rfl, rfl, rfl⟩ := hex
                have hsk : Safe p B ra Γ envk F D o (pc + nC + nT + 2 + nE +
                    (cS (cxOf p ck B) Γ (pc + nC + nT + 2 + nE) o k).length) resk k :=
                  hs.sub (k := k) (by simp only [noTry, Bool.and_eq_true]; exact fun h => h.2)
                    (by simp only [youLevel, Bool.and_eq_true]; exact fun h => h.2) (post_conv (by omega))
                have hst : Safe p B ra Γ env1 F D o (pc + nC + nT) .norm t := by
                  rcases hs with h | ⟨h1, h2⟩
                  · left; simp only [noTry, Bool.and_eq_true] at h; exact h.1.1
                  · right
                    simp only [youLevel, Bool.and_eq_true] at h1
                    refine ⟨h1.1.1, fun st1 hp1 => ?_⟩
                    obtain ⟨pc1, m1⟩ := st1
                    simp only [Post] at hp1
                    obtain ⟨hpc1, hi1⟩ := hp1
                    subst hpc1
                    have g := goto_reach lib (pc + nC + nT) (pc + nC + nT + 2 + nE) m1 hplG hendM
                    obtain ⟨st', r2, hp2⟩ := (contK env1 m1 envk trk resk hi1 hk hck hsk).2 (exec_no_defeat _ _ _ _ _ _ _ _ h1.2 hk)
                    exact ((g.trans r2).exec (h2 st' (by refine post_conv ?_ st' hp2; omega))).2
                have htt := ih t Γ env (pc + nC) o m0 env1 tr1 .norm hplT (by rw [hlenT]; omega) hinv0 hd hwt (by omega) ho hb1 (by simp)
                  (by rw [hlenT]; exact hst)
                rw [hlenT] at htt
                obtain ⟨st1, r1, hp1⟩ := htt.2 (by decide)
                obtain ⟨pc1, m1⟩ := st1
                simp only [Post] at hp1
                obtain ⟨hpc1, hi1⟩ := hp1
                subst hpc1
                have g := goto_reach lib (pc + nC + nT) (pc + nC + nT + 2 + nE) m1 hplG hendM
                have r01 : Reach (sphinx p) ⟨pc, m⟩ tr1 ⟨pc + nC + nT + 2 + nE, m1⟩ := by
                  simpa using r0.trans (r1.trans g)
                exact Concl.pre r01 (contK env1 m1 envk trk resk hi1 hk hck hsk) (post_conv (by omega))
            · simp only [hn, if_false, Option.pure_def, Option.some.injEq, Prod.mk.injEq] at hex
              obtain ⟨rfl, rfl, rfl⟩ := hex
              have convt : ∀ (e1 e2 : Nat) st', Post p B ra Γ env1 F D o e1 res1 st' → Post p B ra Γ env1 F D o e2 res1 st' := by
                intro e1 e2 st' h
                cases res1 with
                | norm => exact absurd rfl hn
                | returned => simpa [Post] using h
                | div0 => simpa [Post] using h
                | defeat => simpa [Post] using h
              have htt := ih t Γ env (pc + nC) o m0 env1 tr1 res1 hplT (by rw [hlenT]; omega) hinv0 hd hwt (by omega) ho hb1 hck
                (hs.sub (by simp only [noTry, Bool.and_eq_true]; exact fun h => h.1.1)
                  (by simp only [youLevel, Bool.and_eq_true]; exact fun h => h.1.1) (convt _ _))
              simpa using Concl.pre r0 htt (convt _ _)
        | false =>
          simp only [Bool.false_eq_true, if_false, Option.getD_some] at r0
          simp only [Bool.false_eq_true, if_false] at hex
          cases hb1 : exec (256 ^ p.w) (8 * p.w) f env e with
          | none => simp [hb1] at hex
          | some rb =>
            obtain ⟨env1, tr1, res1⟩ := rb
            simp only [hb1, Option.bind_eq_bind, Option.bind_some] at hex
            by_cases hn : res1 = .norm
            · subst hn
              simp only [if_true] at hex
              cases hk : exec (256 ^ p.w) (8 * p.w) f env1 k with
              | none => simp [hk] at hex
              | some rk =>
                obtain ⟨envk, trk, resk⟩ := rk
                simp only [hk, Option.bind_some, Option.pure_def, Option.some.injEq, Prod.mk.injEq] at hex
                obtain ⟨rfl, rfl, rfl⟩ := hex
                have hsk : Safe p B ra Γ envk F D o (pc + nC + nT + 2 + nE +
                    (cS (cxOf p ck B) Γ (pc + nC + nT + 2 + nE) o k).length) resk k :=
                  hs.sub (k := k) (by simp only [noTry, Bool.and_eq_true]; exact fun h => h.2)
                    (by simp only [youLevel, Bool.and_eq_true]; exact fun h => h.2) (post_conv (by omega))
                have hse : Safe p B ra Γ env1 F D o (pc + nC + nT + 2 + nE) .norm e := by
                  rcases hs with h | ⟨h1, h2⟩
                  · left; simp only [noTry, Bool.and_eq_true] at h; exact h.1.2
                  · right
                    simp only [youLevel, Bool.and_eq_true] at h1
                    refine ⟨h1.1.2, fun st1 hp1 => ?_⟩
                    obtain ⟨pc1, m1⟩ := st1
                    simp only [Post] at hp1
                    obtain ⟨hpc1, hi1⟩ := hp1
                    subst hpc1
                    obtain ⟨st', r2, hp2⟩ := (contK env1 m1 envk trk resk hi1 hk hck hsk).2 (exec_no_defeat _ _ _ _ _ _ _ _ h1.2 hk)
                    exact (r2.exec (h2 st' (by refine post_conv ?_ st' hp2; omega))).2
                have hee := ih e Γ env (pc + nC + nT + 2) o m0 env1 tr1 .norm hplE (by rw [hlenE]; omega) hinv0 hd hwe (by omega) ho hb1 (by simp)
                  (by rw [hlenE]; exact hse)
                rw [hlenE] at hee
                obtain ⟨st1, r1, hp1⟩ := hee.2 (by decide)
                obtain ⟨pc1, m1⟩ := st1
                simp only [Post] at hp1
                obtain ⟨hpc1, hi1⟩ := hp1
                subst hpc1
                have r01 : Reach (sphinx p) ⟨pc, m⟩ tr1 ⟨pc + nC + nT + 2 + nE, m1⟩ := by
                  simpa using r0.trans r1
                exact Concl.pre r01 (contK env1 m1 envk trk resk hi1 hk hck hsk) (post_conv (by omega))
            · simp only [hn, if_false, Option.pure_def, Option.some.injEq, Prod.mk.injEq] at hex
              obtain ⟨rfl, rfl, rfl⟩ := hex
              have convt : ∀ (e1 e2 : Nat) st', Post p B ra Γ env1 F D o e1 res1 st' → Post p B ra Γ env1 F D o e2 res1 st' := by
                intro e1 e2 st' h
                cases res1 with
                | norm => exact absurd rfl hn
                | returned => simpa [Post] using h
                | div0 => simpa [Post] using h
                | defeat => simpa [Post] using h
              have hee := ih e Γ env (pc + nC + nT + 2) o m0 env1 tr1 res1 hplE (by rw [hlenE]; omega) hinv0 hd hwe (by omega) ho hb1 hck
                (hs.sub (by simp only [noTry, Bool.and_eq_true]; exact fun h => h.1.2)
                  (by simp only [youLevel, Bool.and_eq_true]; exact fun h => h.1.2) (convt _ _))
              simpa using Concl.pre r0 hee (convt _ _)
    | loop c body cont k =>
      have hwf0 := hwf
      have hpk0 := hpk
      have hpl0 := hpl
      have hB0 := hB
      have hs0 := hs
      simp only [wfS, Bool.and_eq_true] at hwf
      obtain ⟨⟨⟨hbc, hwb⟩, hwc⟩, hwk⟩ := hwf
      simp only [pkS] at hpk
      simp only [cS] at hpl hB hs ⊢
      have hlenA : (cB (cxOf p ck B) Γ pc o c [] (goto (pc + lenB ck c 0 2 false true + lenS ck body + lenS ck cont + 2))).length
          = lenB ck c 0 2 false true := by rw [cB_len]; simp
      generalize hnC : lenB ck c 0 2 false true = nC at *
      have hlenT : (cS (cxOf p ck B) Γ (pc + nC) o body).length = lenS ck body := cS_len _ _ _ _ _
      have hlenE : (cS (cxOf p ck B) Γ (pc + nC + lenS ck body) o cont).length = lenS ck cont := cS_len _ _ _ _ _
      generalize hnT : lenS ck body = nT at *
      generalize hnE : lenS ck cont = nE at *
      obtain ⟨hpl1234, hplK⟩ := hpl.append
      obtain ⟨hpl123, hplG⟩ := hpl1234.append
      obtain ⟨hpl12, hplE⟩ := hpl123.append
      obtain ⟨hplA, hplT⟩ := hpl12.append
      simp only [List.length_append, hlenA, hlenT, hlenE, goto_len, ← Nat.add_assoc] at hB hplK hplE hplG hplT hs ⊢
      have hendM : pc + nC + nT + nE + 2 < 256 ^ p.w := by simp [stdlibLength] at hBM; omega
      have etot : pc + (cS (cxOf p ck B) Γ pc o (.loop c body cont k)).length
          = pc + nC + nT + nE + 2 + (cS (cxOf p ck B) Γ (pc + nC + nT + nE + 2) o k).length := by
        simp only [cS, hnC, hnT, hnE, List.length_append, hlenA, hlenT, hlenE, goto_len]; omega
      rw [etot] at hs0
      have hc := cB_ok (ck := ck) lib Γ env F D c pc o none (some (pc + nC + nT + nE + 2)) m hplA (by rw [brCode, brCode, hlenA]; omega)
        (fun x hx => by simp at hx) (fun x hx => by simp at hx; omega) hinv.fr hinv.vars hbc (by omega) ho
      rw [show (cB (cxOf p ck B) Γ pc o c (brCode none) (brCode (some (pc + nC + nT + nE + 2)))).length = nC from hlenA] at hc
      cases hev : evalB (256 ^ p.w) (8 * p.w) env c with
      | none =>
        simp only [exec, hev, Option.some.injEq, Prod.mk.injEq] at hex
        obtain ⟨rfl, rfl, rfl⟩ := hex
        obtain ⟨m', r⟩ := hc.2 hev (hck rfl)
        exact fault _ _ _ _ m' _ r
      | some cv =>
        obtain ⟨m0, r0, k0⟩ := hc.1 cv hev
        have hinv0 := hinv.keep k0 ho
        cases cv with
        | false =>
          simp only [exec, hev] at hex
          simp only [Bool.false_eq_true, if_false, Option.getD_some] at r0
          have hkk := ih k Γ env (pc + nC + nT + nE + 2) o m0 env' tr res hplK (by omega) hinv0 hd hwk (by omega) ho hex hck
            (hs.sub (by simp only [noTry, Bool.and_eq_true]; exact fun h => h.2)
              (by simp only [youLevel, Bool.and_eq_true]; exact fun h => h.2) (post_conv rfl))
          simpa using Concl.pre r0 hkk (post_conv rfl)
        | true =>
          simp only [exec, hev] at hex
          simp only [if_true, Option.getD_none] at r0
          cases hb1 : exec (256 ^ p.w) (8 * p.w) f env body with
          | none => simp [hb1] at hex
          | some rb =>
            obtain ⟨env1, tr1, res1⟩ := rb
            simp only [hb1, Option.bind_eq_bind, Option.bind_some] at hex
            -- non-normal exits of a part are exits of the whole loop
            have convN : ∀ (envx : Env) (resx : Res), resx ≠ .norm → ∀ (e1 e2 : Nat) st',
                Post p B ra Γ envx F D o e1 resx st' → Post p B ra Γ envx F D o e2 resx st' := by
              intro envx resx hx e1 e2 st' h
              cases resx with
              | norm => exact absurd rfl hx
              | returned => simpa [Post] using h
              | div0 => simpa [Post] using h
              | defeat => simpa [Post] using h
            by_cases hn1 : res1 = .norm
            · subst hn1
              simp only [if_true] at hex
              cases hb2 : exec (256 ^ p.w) (8 * p.w) f env1 cont with
              | none => simp [hb2] at hex
              | some rc =>
                obtain ⟨env2, tr2, res2⟩ := rc
                simp only [hb2, Option.bind_some] at hex
                by_cases hn2 : res2 = .norm
                · subst hn2
                  simp only [if_true] at hex
                  cases hb3 : exec (256 ^ p.w) (8 * p.w) f env2 (.loop c body cont k) with
                  | none => simp [hb3] at hex
                  | some rl =>
                    obtain ⟨env3, tr3, res3⟩ := rl
                    simp only [hb3, Option.bind_some, Option.pure_def, Option.some.injEq, Prod.mk.injEq] at hex
                    obtain ⟨rfl, rfl, rfl⟩ := hex
                    -- the next round, from any state matching env2
                    have L : ∀ m2, SInv p Γ env2 m2 F D o ra →
                        Concl p B ra Γ env3 F D o pc (pc + nC + nT + nE + 2 + (cS (cxOf p ck B) Γ (pc + nC + nT + nE + 2) o k).length) m2 tr3 res3 := by
                      intro m2 hi2
                      have := ih (.loop c body cont k) Γ env2 pc o m2 env3 tr3 res3 hpl0 hB0 hi2 hd hwf0 hpk0 ho hb3 hck
                        (by rw [etot]; exact hs0)
                      rw [etot] at this; exact this
                    have hsc : Safe p B ra Γ env2 F D o (pc + nC + nT + nE) .norm cont := by
                      rcases hs0 with h | ⟨h1, h2⟩
                      · left; simp only [noTry, Bool.and_eq_true] at h; exact h.1.2
                      · right
                        have h1' := h1
                        simp only [youLevel, Bool.and_eq_true] at h1
                        refine ⟨h1.1.2, fun st2 hp2 => ?_⟩
                        obtain ⟨pc2, m2⟩ := st2
                        simp only [Post] at hp2
                        obtain ⟨hpc2, hi2⟩ := hp2
                        subst hpc2
                        have g := goto_reach lib (pc + nC + nT + nE) pc m2 hplG (by omega)
                        obtain ⟨st', r3, hp3⟩ := (L m2 hi2).2 (exec_no_defeat _ _ _ _ _ _ _ _ h1' hb3)
                        exact ((g.trans r3).exec (h2 st' hp3)).2
                    have hsbd : Safe p B ra Γ env1 F D o (pc + nC + nT) .norm body := by
                      rcases hs0 with h | ⟨h1, h2⟩
                      · left; simp only [noTry, Bool.and_eq_true] at h; exact h.1.1
                      · right
                        have h1' := h1
                        simp only [youLevel, Bool.and_eq_true] at h1
                        refine ⟨h1.1.1, fun st1 hp1 => ?_⟩
                        obtain ⟨pc1, m1⟩ := st1
                        simp only [Post] at hp1
                        obtain ⟨hpc1, hi1⟩ := hp1
                        subst hpc1
                        have hcc := ih cont Γ env1 (pc + nC + nT) o m1 env2 tr2 .norm hplE (by rw [hlenE]; omega) hi1 hd hwc (by omega) ho hb2 (by simp)
                          (by rw [hlenE]; exact hsc)
                        rw [hlenE] at hcc
                        obtain ⟨st2, r2, hp2⟩ := hcc.2 (by decide)
                        obtain ⟨pc2, m2⟩ := st2
                        simp only [Post] at hp2
                        obtain ⟨hpc2, hi2⟩ := hp2
                        subst hpc2
                        have g := goto_reach lib (pc + nC + nT + nE) pc m2 hplG (by omega)
                        obtain ⟨st', r3, hp3⟩ := (L m2 hi2).2 (exec_no_defeat _ _ _ _ _ _ _ _ h1' hb3)
                        exact ((r2.trans (g.trans r3)).exec (h2 st' hp3)).2
                    have hbb := ih body Γ env (pc + nC) o m0 env1 tr1 .norm hplT (by rw [hlenT]; omega) hinv0 hd hwb (by omega) ho hb1 (by simp)
                      (by rw [hlenT]; exact hsbd)
                    rw [hlenT] at hbb
                    obtain ⟨st1, r1, hp1⟩ := hbb.2 (by decide)
                    obtain ⟨pc1, m1⟩ := st1
                    simp only [Post] at hp1
                    obtain ⟨hpc1, hi1⟩ := hp1
                    subst hpc1
                    have hcc := ih cont Γ env1 (pc + nC + nT) o m1 env2 tr2 .norm hplE (by rw [hlenE]; omega) hi1 hd hwc (by omega) ho hb2 (by simp)
                      (by rw [hlenE]; exact hsc)
                    rw [hlenE] at hcc
                    obtain ⟨st2, r2, hp2⟩ := hcc.2 (by decide)
                    obtain ⟨pc2, m2⟩ := st2
                    simp only [Post] at hp2
                    obtain ⟨hpc2, hi2⟩ := hp2
                    subst hpc2
                    have g := goto_reach lib (pc + nC + nT + nE) pc m2 hplG (by omega)
                    have r02 : Reach (sphinx p) ⟨pc, m⟩ (tr1 ++ tr2) ⟨pc, m2⟩ := by
                      simpa using r0.trans (r1.trans (r2.trans g))
                    exact Concl.pre r02 (L m2 hi2) (post_conv rfl)
                · simp only [hn2, if_false, Option.pure_def, Option.some.injEq, Prod.mk.injEq] at hex
                  obtain ⟨rfl, rfl, rfl⟩ := hex
                  have hsc : Safe p B ra Γ env2 F D o (pc + nC + nT + nE) res2 cont :=
                    hs.sub (by simp only [noTry, Bool.and_eq_true]; exact fun h => h.1.2)
                      (by simp only [youLevel, Bool.and_eq_true]; exact fun h => h.1.2) (convN env2 res2 hn2 _ _)
                  have hsbd : Safe p B ra Γ env1 F D o (pc + nC + nT) .norm body := by
                    rcases hs with h | ⟨h1, h2⟩
                    · left; simp only [noTry, Bool.and_eq_true] at h; exact h.1.1
                    · right
                      have h1' := h1
                      simp only [youLevel, Bool.and_eq_true] at h1
                      refine ⟨h1.1.1, fun st1 hp1 => ?_⟩
                      obtain ⟨pc1, m1⟩ := st1
                      simp only [Post] at hp1
                      obtain ⟨hpc1, hi1⟩ := hp1
                      subst hpc1
                      have hcc := ih cont Γ env1 (pc + nC + nT) o m1 env2 tr2 res2 hplE (by rw [hlenE]; omega) hi1 hd hwc (by omega) ho hb2 hck
                        (by rw [hlenE]; exact hsc)
                      rw [hlenE] at hcc
                      obtain ⟨st2, r2, hp2⟩ := hcc.2 (exec_no_defeat _ _ _ _ _ _ _ _ h1.1.2 hb2)
                      exact (r2.exec (h2 st2 (convN env2 res2 hn2 _ _ st2 hp2))).2
                  have hbb := ih body Γ env (pc + nC) o m0 env1 tr1 .norm hplT (by rw [hlenT]; omega) hinv0 hd hwb (by omega) ho hb1 (by simp)
                    (by rw [hlenT]; exact hsbd)
                  rw [hlenT] at hbb
                  obtain ⟨st1, r1, hp1⟩ := hbb.2 (by decide)
                  obtain ⟨pc1, m1⟩ := st1
                  simp only [Post] at hp1
                  obtain ⟨hpc1, hi1⟩ := hp1
                  subst hpc1
                  have hcc := ih cont Γ env1 (pc + nC + nT) o m1 env2 tr2 res2 hplE (by rw [hlenE]; omega) hi1 hd hwc (by omega) ho hb2 hck
                    (by rw [hlenE]; exact hsc)
                  rw [hlenE] at hcc
                  have r01 : Reach (sphinx p) ⟨pc, m⟩ tr1 ⟨pc + nC + nT, m1⟩ := by simpa using r0.trans r1
                  exact Concl.pre r01 hcc (convN env2 res2 hn2 _ _)
            · simp only [hn1, if_false, Option.pure_def, Option.some.injEq, Prod.mk.injEq] at hex
              obtain ⟨rfl, rfl, rfl⟩ := hex
              have hsb1 : Safe p B ra Γ env1 F D o (pc + nC + nT) res1 body :=
                hs.sub (by simp only [noTry, Bool.and_eq_true]; exact fun h => h.1.1)
                  (by simp only [youLevel, Bool.and_eq_true]; exact fun h => h.1.1) (convN env1 res1 hn1 _ _)
              have hbb := ih body Γ env (pc + nC) o m0 env1 tr1 res1 hplT (by rw [hlenT]; omega) hinv0 hd hwb (by omega) ho hb1 hck
                (by rw [hlenT]; exact hsb1)
              rw [hlenT] at hbb
              simpa using Concl.pre r0 hbb (convN env1 res1 hn1 _ _)
    | tryUndo body handler k =>
      rcases hs with h | ⟨h1, h2⟩
      · simp [noTry] at h
      · simp only [youLevel, Bool.and_eq_true] at h1
        obtain ⟨⟨hntb, hplh⟩, hyk⟩ := h1
        simp only [wfS, Bool.and_eq_true] at hwf
        obtain ⟨⟨hwb, hwh⟩, hwk⟩ := hwf
        simp only [pkS] at hpk
        simp only [cS] at hpl hB h2 ⊢
        have hlenB : (cS (cxOf p ck B) Γ (pc + 1) o body).length = lenS ck body := cS_len _ _ _ _ _
        have hlenH : (cS (cxOf p ck B) Γ (pc + 1 + lenS ck body + 2) o handler).length = lenS ck handler := cS_len _ _ _ _ _
        generalize hnB : lenS ck body = nB at *
        generalize hnH : lenS ck handler = nH at *
        obtain ⟨hpl1234, hplK⟩ := hpl.append
        obtain ⟨hpl123, hplH⟩ := hpl1234.append
        obtain ⟨hpl12, hplG⟩ := hpl123.append
        obtain ⟨hplJ, hplB⟩ := hpl12.append
        simp only [List.length_append, List.length_cons, List.length_nil, hlenB, hlenH, goto_len, ← Nat.add_assoc, Nat.zero_add]
          at hB hplK hplH hplG hplB h2 ⊢
        have hendM : pc + 1 + nB + 2 + nH < 256 ^ p.w := by simp [stdlibLength] at hBM; omega
        have s0 := step_j (m := m) (placed_one hplJ) (ev_imm (pc + 1 + nB + 2))
        rw [show (pc + 1 + nB + 2) % p.M = pc + 1 + nB + 2 from Nat.mod_eq_of_lt (by unfold Prog.M; omega)] at s0
        have convN : ∀ (envx : Env) (resx : Res), resx ≠ .norm → ∀ (e1 e2 : Nat) st',
            Post p B ra Γ envx F D o e1 resx st' → Post p B ra Γ envx F D o e2 resx st' := by
          intro envx resx hx e1 e2 st' h
          cases resx with
          | norm => exact absurd rfl hx
          | returned => simpa [Post] using h
          | div0 => simpa [Post] using h
          | defeat => simpa [Post] using h
        simp only [exec] at hex
        cases hb1 : exec (256 ^ p.w) (8 * p.w) f env body with
        | none => simp [hb1] at hex
        | some rb =>
          obtain ⟨env1, tr1, res1⟩ := rb
          simp only [hb1, Option.bind_eq_bind, Option.bind_some] at hex
          by_cases hdft : res1 = .defeat
          · -- the body would be defeated: the Turing jump goes to the handler, in the state before the try
            subst hdft
            simp only [if_true] at hex
            have hbb := ih body Γ env (pc + 1) o m env1 tr1 .defeat hplB (by rw [hlenB]; omega) hinv hd hwb (by omega) ho hb1
              (by simp) (Or.inl hntb)
            have jt : Reach (sphinx p) ⟨pc, m⟩ [] ⟨pc + 1 + nB + 2, m⟩ := Reach.jump_taken' (sys := sphinx p) s0 (hbb.1 rfl)
            cases hh2 : exec (256 ^ p.w) (8 * p.w) f env handler with
            | none => simp [hh2] at hex
            | some rh =>
              obtain ⟨env2, tr2, res2⟩ := rh
              simp only [hh2, Option.bind_some] at hex
              have hnd2 : res2 ≠ .defeat := exec_no_defeat _ _ _ _ _ _ _ _ (plain_youLevel _ hplh) hh2
              by_cases hn2 : res2 = .norm
              · subst hn2
                simp only [if_true] at hex
                cases hk : exec (256 ^ p.w) (8 * p.w) f env2 k with
                | none => simp [hk] at hex
                | some rk =>
                  obtain ⟨env3, tr3, res3⟩ := rk
                  simp only [hk, Option.bind_some, Option.pure_def, Option.some.injEq, Prod.mk.injEq] at hex
                  obtain ⟨rfl, rfl, rfl⟩ := hex
                  have hhh := ih handler Γ env (pc + 1 + nB + 2) o m env2 tr2 .norm hplH (by rw [hlenH]; omega) hinv hd hwh (by omega) ho hh2
                    (by simp) (Or.inl (plain_noTry _ hplh))
                  rw [hlenH] at hhh
                  obtain ⟨st2, r2, hp2⟩ := hhh.2 (by decide)
                  obtain ⟨pc2, m2⟩ := st2
                  simp only [Post] at hp2
                  obtain ⟨hpc2, hi2⟩ := hp2
                  subst hpc2
                  have hkk := ih k Γ env2 (pc + 1 + nB + 2 + nH) o m2 env3 tr3 res3 hplK (by omega) hi2 hd hwk (by omega) ho hk hck
                    (Or.inr ⟨hyk, fun st' hp => h2 st' hp⟩)
                  have r02 : Reach (sphinx p) ⟨pc, m⟩ tr2 ⟨pc + 1 + nB + 2 + nH, m2⟩ := by simpa using jt.trans r2
                  exact Concl.pre r02 hkk (post_conv rfl)
              · simp only [hn2, if_false, Option.pure_def, Option.some.injEq, Prod.mk.injEq] at hex
                obtain ⟨rfl, rfl, rfl⟩ := hex
                have hhh := ih handler Γ env (pc + 1 + nB + 2) o m env2 tr2 res2 hplH (by rw [hlenH]; omega) hinv hd hwh (by omega) ho hh2
                  hck (Or.inl (plain_noTry _ hplh))
                simpa using Concl.pre jt hhh (convN env2 res2 hn2 _ _)
          · simp only [hdft, if_false] at hex
            have hbb := ih body Γ env (pc + 1) o m env1 tr1 res1 hplB (by rw [hlenB]; omega) hinv hd hwb (by omega) ho hb1
            by_cases hn : res1 = .norm
            · subst hn
              simp only [if_true] at hex
              cases hk : exec (256 ^ p.w) (8 * p.w) f env1 k with
              | none => simp [hk] at hex
              | some rk =>
                obtain ⟨env3, tr3, res3⟩ := rk
                simp only [hk, Option.bind_some, Option.pure_def, Option.some.injEq, Prod.mk.injEq] at hex
                obtain ⟨rfl, rfl, rfl⟩ := hex
                have hbb' := hbb (by simp) (Or.inl hntb)
                rw [hlenB] at hbb'
                obtain ⟨st1, r1, hp1⟩ := hbb'.2 (by decide)
                obtain ⟨pc1, m1⟩ := st1
                simp only [Post] at hp1
                obtain ⟨hpc1, hi1⟩ := hp1
                subst hpc1
                have g := goto_reach lib (pc + 1 + nB) (pc + 1 + nB + 2 + nH) m1 hplG hendM
                have hkk := ih k Γ env1 (pc + 1 + nB + 2 + nH) o m1 env3 tr3 res3 hplK (by omega) hi1 hd hwk (by omega) ho hk hck
                  (Or.inr ⟨hyk, fun st' hp => h2 st' hp⟩)
                have hnd3 : res3 ≠ .defeat := exec_no_defeat _ _ _ _ _ _ _ _ hyk hk
                obtain ⟨st', r3, hp3⟩ := hkk.2 hnd3
                have rbody : Reach (sphinx p) ⟨pc + 1, m⟩ (tr1 ++ tr3) st' := by simpa using r1.trans (g.trans r3)
                have nh1 : ¬ Halts (sphinx p) ⟨pc + 1, m⟩ := (rbody.exec (h2 st' hp3)).2
                have jn := Reach.jump_not_taken (sys := sphinx p) s0 (fun hh => absurd hh nh1)
                exact ⟨fun hd' => absurd hd' hnd3, fun _ => ⟨st', by simpa using jn.trans rbody, hp3⟩⟩
            · simp only [hn, if_false, Option.pure_def, Option.some.injEq, Prod.mk.injEq] at hex
              obtain ⟨rfl, rfl, rfl⟩ := hex
              have hbb' := hbb hck (Or.inl hntb)
              obtain ⟨st1, r1, hp1⟩ := hbb'.2 hdft
              have hp1' := convN env1 res1 hn _ (pc + 1 + nB + 2 + nH + (cS (cxOf p ck B) Γ (pc + 1 + nB + 2 + nH) o k).length) st1 hp1
              have nh1 : ¬ Halts (sphinx p) ⟨pc + 1, m⟩ := (r1.exec (h2 st1 hp1')).2
              have jn := Reach.jump_not_taken (sys := sphinx p) s0 (fun hh => absurd hh nh1)
              exact ⟨fun hd' => absurd hd' hdft, fun _ => ⟨st1, by simpa using jn.trans r1, hp1'⟩⟩
end

end HidVerif.Core
