import HidVerif.Proofs.CoreLen
import HidVerif.Proofs.WriteIntSpec
/-!
# Core compiler proofs: memory frame algebra and the steps of slot/register accesses
-/
namespace HidVerif.Core
open HidVerif HidVerif.PSys HidVerif.Sphinx HidVerif.Gen

/-- the compile context of a program: its own word size -/
abbrev cxOf (p : Prog) (ck : Bool) (B : Nat) (dA : Nat) : Cx := ⟨p.w, ck, B, dA⟩

theorem wrapI_lt {M : Nat} (hM : 0 < M) (v : Int) : wrapI M v < M := by
  unfold wrapI
  have h1 : 0 ≤ v % (M : Int) := Int.emod_nonneg _ (by omega)
  have h2 : v % (M : Int) < (M : Int) := Int.emod_lt_of_pos _ (by omega)
  omega

/-- what an accessor denotes in memory `m` with frame pointer `F` -/
def valOf (w : Nat) (m : Mem) (F : Nat) : Opd → Nat
  | .imm v => wrapI (256 ^ w) v
  | .reg a => m.readLE a w
  | .slot s => m.readLE (F - s) w

/-- `m'` differs from `m` only in the registers `r0 r1 r2` and below address `a` -/
structure Keep (w : Nat) (m m' : Mem) (a : Nat) : Prop where
  size : m'.size = m.size
  fp : m'.readLE w w = m.readLE w w
  ap : m'.readLE 0 w = m.readLE 0 w
  hi : ∀ x, a ≤ x → m'.rd x = m.rd x

theorem Keep.refl (w : Nat) (m : Mem) (a : Nat) : Keep w m m a := ⟨rfl, rfl, rfl, fun _ _ => rfl⟩

theorem Keep.trans {w : Nat} {m m1 m2 : Mem} {a b : Nat} (h1 : Keep w m m1 a) (h2 : Keep w m1 m2 b) :
    Keep w m m2 (max a b) :=
  ⟨h2.size.trans h1.size, h2.fp.trans h1.fp, h2.ap.trans h1.ap,
   fun x hx => (h2.hi x (by omega)).trans (h1.hi x (by omega))⟩

theorem Keep.mono {w : Nat} {m m' : Mem} {a b : Nat} (h : Keep w m m' a) (hab : a ≤ b) : Keep w m m' b :=
  ⟨h.size, h.fp, h.ap, fun x hx => h.hi x (by omega)⟩

theorem Keep.trans' {w : Nat} {m m1 m2 : Mem} {a : Nat} (h1 : Keep w m m1 a) (h2 : Keep w m1 m2 a) :
    Keep w m m2 a := by simpa using h1.trans h2

/-- a write of `k` bytes at `d`, above `ap fp` and below `a` -/
theorem Keep.write (w : Nat) (m : Mem) (d k v a : Nat) (h2 : 2 * w ≤ d) (ha : d + k ≤ a) :
    Keep w m (m.writeLE d k v) a :=
  ⟨by simp, Mem.readLE_writeLE_disj _ _ _ _ _ _ (by omega), Mem.readLE_writeLE_disj _ _ _ _ _ _ (by omega),
   fun x hx => Mem.rd_writeLE_other _ _ _ _ _ (by omega)⟩

theorem Keep.read {w : Nat} {m m' : Mem} {a : Nat} (h : Keep w m m' a) (x k : Nat) (hx : a ≤ x) :
    m'.readLE x k = m.readLE x k :=
  Mem.readLE_congr _ _ _ _ (fun y h1 _ => h.hi y (by omega))

/-! ## frame facts shared by all lemmas -/
structure Fr (p : Prog) (m : Mem) (F D : Nat) : Prop where
  fp : m.readLE p.w p.w = F
  ap : m.readLE 0 p.w = 5 * p.w
  top : F ≤ m.size
  lt : F < 256 ^ p.w
  room : 5 * p.w + D = F

theorem Fr.keep {p : Prog} {m m' : Mem} {F D a : Nat} (h : Fr p m F D) (k : Keep p.w m m' a) : Fr p m' F D :=
  ⟨by rw [k.fp]; exact h.fp, by rw [k.ap]; exact h.ap, by rw [k.size]; exact h.top, h.lt, h.room⟩

section steps
variable {p : Prog} {pc : Nat} {m : Mem} {F D : Nat} {dA : Nat}

theorem ev_negImm (ck : Bool) (B s : Nat) (h0 : 0 < s) (hs : s ≤ 256 ^ p.w) :
    evalArg p ⟨pc, m⟩ ((cxOf p ck B dA).negImm s) = some ((256 ^ p.w - s) % p.M) := by
  simp [Cx.negImm, Cx.M, evalArg, wrapI_neg h0 hs]

/-- `lwso [r], [fp], -s` -/
theorem step_ldSlot (ck : Bool) (B r s : Nat) (hw : 2 ≤ p.w) (fr : Fr p m F D)
    (hc : p.code[pc]? = some (ldSlot (cxOf p ck B dA) r s))
    (hs0 : p.w ≤ s) (hsD : s ≤ D) (hr : r + p.w ≤ 5 * p.w) :
    Sphinx.step p ⟨pc, m⟩ = .next ⟨pc + 1, m.writeLE r p.w (m.readLE (F - s) p.w)⟩ none := by
  have h64 := mul_w_lt_pow p.w hw
  have hfp : evalArg p ⟨pc, m⟩ (.st p.w) = some F := by
    rw [ev_st (by unfold Prog.M; omega) (by have := fr.top; have := fr.room; omega), fr.fp]
  have hF := fr.lt; have hroom := fr.room; have htop := fr.top
  have e : (F + (256 ^ p.w - s) % p.M) % p.M = F - s := by
    unfold Prog.M; exact add_neg_mod (by omega) (by omega) hF
  have := step_lwso (m := m) (pc := pc) hc hfp (ev_negImm ck B s (by omega) (by omega))
    (by rw [e]; omega) (by unfold Prog.M; omega) (by omega)
  rw [e] at this; exact this

/-- `swso [fp], -s, v` -/
theorem step_swso {dst off v : Arg} {b o x : Nat} (hc : p.code[pc]? = some (.store true dst (some off) v))
    (hd : evalArg p ⟨pc, m⟩ dst = some b) (ho : evalArg p ⟨pc, m⟩ off = some o)
    (hv : evalArg p ⟨pc, m⟩ v = some x) (ha : (b + o) % p.M + p.w ≤ m.size) :
    Sphinx.step p ⟨pc, m⟩ = .next ⟨pc + 1, m.writeLE ((b + o) % p.M) p.w x⟩ none := by
  simp [Sphinx.step, hc, hd, ho, hv, ha]

theorem step_stSlot (ck : Bool) (B s : Nat) (v : Arg) (x : Nat) (hw : 2 ≤ p.w) (fr : Fr p m F D)
    (hc : p.code[pc]? = some (stSlot (cxOf p ck B dA) s v)) (hv : evalArg p ⟨pc, m⟩ v = some x)
    (hs0 : p.w ≤ s) (hsD : s ≤ D) :
    Sphinx.step p ⟨pc, m⟩ = .next ⟨pc + 1, m.writeLE (F - s) p.w x⟩ none := by
  have h64 := mul_w_lt_pow p.w hw
  have hfp : evalArg p ⟨pc, m⟩ (.st p.w) = some F := by
    rw [ev_st (by unfold Prog.M; omega) (by have := fr.top; have := fr.room; omega), fr.fp]
  have hF := fr.lt; have hroom := fr.room; have htop := fr.top
  have e : (F + (256 ^ p.w - s) % p.M) % p.M = F - s := by
    unfold Prog.M; exact add_neg_mod (by omega) (by omega) hF
  have := step_swso (m := m) (pc := pc) hc hfp (ev_negImm ck B s (by omega) (by omega)) hv (by rw [e]; omega)
  rw [e] at this; exact this

/-- operand form of an immediate or register accessor evaluates to what it denotes -/
theorem ev_opd (ck : Bool) (B : Nat) (hw : 2 ≤ p.w) (fr : Fr p m F D) (v : Opd)
    (hv : match v with | .imm _ => True | .reg a => a + p.w ≤ 5 * p.w | .slot _ => False) :
    evalArg p ⟨pc, m⟩ (v.arg (cxOf p ck B dA)) = some (valOf p.w m F v) := by
  have h64 := mul_w_lt_pow p.w hw
  have hM := pow_ge2 p.w hw
  cases v with
  | imm i =>
    simp only [Opd.arg, Cx.M, evalArg, valOf, Prog.M]
    rw [Nat.mod_eq_of_lt (wrapI_lt (by omega) i)]
  | reg a =>
    simp only at hv
    simp only [Opd.arg, valOf]
    rw [ev_st (by unfold Prog.M; omega) (by have := fr.top; have := fr.room; omega)]
  | slot s => exact absurd hv (by simp)
end steps

end HidVerif.Core
