import HidVerif.Proofs.Prophetic
/-!
# S5 — soundness of the backtracking driver `PSys.run`, for every prophetic system

If the driver stops in a terminal state (and terminal states never halt) or at a fault, the
events it returns are exactly the committed trace `Exec` from the initial state to the final
state; if it reports a committed halt, the initial state `Halts`.  This is what lets the
outcome of `hidmodel` runs be read as statements about `Halts`/`Exec`, for the Sphinx machine
and the HiD reference machine alike.
-/
namespace HidVerif.PSys
variable {σ ε : Type} {sys : PSys σ ε}

/-- Invariant of the driver. The choice stack is listed top first. Each segment between two
pending jumps is an honest committed execution. -/
inductive Inv (sys : PSys σ ε) (s₀ : σ) : σ → List ε → List (σ × Nat) → Prop where
  | base {s tr} : Exec sys s₀ tr s → Inv sys s₀ s tr []
  | push {j tr ch no y tr' s} : Inv sys s₀ j tr ch → sys.step j = .jump no y → Exec sys no tr' s →
      Inv sys s₀ s (tr ++ tr') ((y, tr.length) :: ch)

theorem Inv.exec_of_not_halts {s₀ s tr ch} (h : Inv sys s₀ s tr ch) (hn : ¬ Halts sys s) :
    Exec sys s₀ tr s := by
  induction h with
  | base e => exact e
  | push _ hj e ih =>
    have hno : ¬ Halts sys _ := fun hh => hn ((exec_halts_iff e).1 hh)
    have hjn : ¬ Halts sys _ := fun hh => hno ((halts_jump_iff hj).1 hh).1
    have := exec_trans (ih hjn) (Exec.step (CStep.jumpNo hj hno) e)
    simpa [evl] using this

theorem Inv.halts_init {s₀ s tr} (h : Inv sys s₀ s tr []) (hh : Halts sys s) : Halts sys s₀ := by
  cases h with
  | base e => exact (exec_halts_iff e).2 hh

theorem Inv.backtrack {s₀ s tr y n ch} (h : Inv sys s₀ s tr ((y, n) :: ch)) (hh : Halts sys s) :
    Inv sys s₀ y (tr.take n) ch := by
  cases h with
  | @push j tr₁ ch no y tr' s hinv hj e =>
    have hno : Halts sys no := (exec_halts_iff e).2 hh
    have hstep : CStep sys j none y := CStep.jumpYes hj hno
    simp only [List.take_left']
    -- extend the segment that ended in `j` by the committed step `j → y`
    cases hinv with
    | base e₀ =>
      have := exec_trans e₀ (Exec.single hstep)
      exact Inv.base (by simpa [evl] using this)
    | @push j' tr₀ ch' no' y' tr'' _ hinv' hj' e' =>
      have := exec_trans e' (Exec.single hstep)
      have h2 := Inv.push hinv' hj' (by simpa [evl] using this)
      simpa using h2

theorem Inv.next {s₀ s tr ch s' ev} (h : Inv sys s₀ s tr ch) (hs : sys.step s = .next s' ev) :
    Inv sys s₀ s' (tr ++ evl ev) ch := by
  cases h with
  | base e =>
    exact Inv.base (exec_trans e (Exec.single (CStep.next hs)))
  | push hinv hj e =>
    have := Inv.push hinv hj (exec_trans e (Exec.single (CStep.next hs)))
    simpa [List.append_assoc] using this

theorem Inv.jump {s₀ s tr ch no yes} (h : Inv sys s₀ s tr ch) (hs : sys.step s = .jump no yes) :
    Inv sys s₀ no tr ((yes, tr.length) :: ch) := by
  have := Inv.push h hs (Exec.refl (s := no))
  simpa using this

/-- what a result of the driver means -/
def Sound (sys : PSys σ ε) (isTerminal : σ → Bool) (s₀ : σ) (r : RunResult σ ε) : Prop :=
  match r.outcome with
  | .terminal => Exec sys s₀ r.events.toList r.final ∧ isTerminal r.final = true
  | .halted => Halts sys s₀
  | .fault _ => Exec sys s₀ r.events.toList r.final ∧ ¬ Halts sys r.final
  | .fuel => True

theorem go_sound (isTerminal : σ → Bool) (hterm : ∀ s, isTerminal s = true → ¬ Halts sys s) (s₀ : σ) :
    ∀ (fuel : Nat) (s : σ) (evs : Array ε) (ch : Array (σ × Nat)) (steps bt : Nat),
      Inv sys s₀ s evs.toList ch.toList.reverse →
      Sound sys isTerminal s₀ (PSys.run.go sys isTerminal (fun _ => #[]) fuel s evs ch steps bt) := by
  intro fuel
  induction fuel with
  | zero => intro s evs ch steps bt _; simp [PSys.run.go, Sound]
  | succ fuel ih =>
    intro s evs ch steps bt hinv
    unfold PSys.run.go
    by_cases ht : isTerminal s = true
    · simp only [ht, if_true, Sound]
      exact ⟨hinv.exec_of_not_halts (hterm s ht), by first | trivial | exact ht⟩
    · simp only [ht, Bool.false_eq_true, if_false, Array.append_empty]
      cases hs : sys.step s with
      | next s' ev =>
        simp only
        apply ih
        cases ev with
        | none => simpa [evl] using hinv.next hs
        | some e => simpa [evl] using hinv.next hs
      | jump no yes =>
        simp only
        apply ih
        have := hinv.jump hs
        simpa using this
      | fault why =>
        simp only [Sound]
        have hn : ¬ Halts sys s := not_halts_of_fault hs
        exact ⟨hinv.exec_of_not_halts hn, hn⟩
      | halt =>
        simp only
        have hh : Halts sys s := Halts.halt hs
        cases hb : ch.back? with
        | none =>
          simp only [Sound]
          have hem : ch.toList.reverse = [] := by
            have : ch = #[] := by simpa using hb
            simp [this]
          rw [hem] at hinv
          exact hinv.halts_init hh
        | some top =>
          obtain ⟨y, n⟩ := top
          simp only
          apply ih
          have hrev : ch.toList.reverse = (y, n) :: ch.pop.toList.reverse := by
            obtain ⟨ys, rfl⟩ := Array.back?_eq_some_iff.1 hb
            simp
          rw [hrev] at hinv
          have := hinv.backtrack hh
          simpa [Array.toList_extract, List.extract] using this

/-- **S5**. -/
theorem run_sound (isTerminal : σ → Bool) (hterm : ∀ s, isTerminal s = true → ¬ Halts sys s)
    (fuel : Nat) (s₀ : σ) :
    Sound sys isTerminal s₀ (sys.run isTerminal (fun _ => #[]) fuel s₀) := by
  unfold PSys.run
  exact go_sound isTerminal hterm s₀ fuel s₀ #[] #[] 0 0 (Inv.base Exec.refl)

end HidVerif.PSys
