import HidVerif.Proofs.Lib
import HidVerif.Proofs.Driver
/-!
# The terminal loops of the runtime library never halt (C03), and what the stubs emit (C05)
-/
namespace HidVerif.Sphinx
open HidVerif HidVerif.PSys HidVerif.Gen

theorem Placed.win {p : Prog} {B : Nat} (hp : Placed p B) :
    PlacedAt p (B + off_all_is_win) (code_all_is_win p.w B) := hp.routine (by simp [stdlibRoutineCode])
theorem Placed.broken {p : Prog} {B : Nat} (hp : Placed p B) :
    PlacedAt p (B + off_all_is_broken) (code_all_is_broken p.w B) := hp.routine (by simp [stdlibRoutineCode])
theorem Placed.so {p : Prog} {B : Nat} (hp : Placed p B) :
    PlacedAt p (B + off_stack_overflow) (code_stack_overflow p.w B) := hp.routine (by simp [stdlibRoutineCode])
theorem Placed.dz {p : Prog} {B : Nat} (hp : Placed p B) :
    PlacedAt p (B + off_division_by_zero) (code_division_by_zero p.w B) := hp.routine (by simp [stdlibRoutineCode])
theorem Placed.oob {p : Prog} {B : Nat} (hp : Placed p B) :
    PlacedAt p (B + off_out_of_bounds) (code_out_of_bounds p.w B) := hp.routine (by simp [stdlibRoutineCode])
theorem Placed.nlp {p : Prog} {B : Nat} (hp : Placed p B) :
    PlacedAt p (B + off_nonlocal_preempt) (code_nonlocal_preempt p.w B) := hp.routine (by simp [stdlibRoutineCode])

/-- address of the label `tnt` -/
def tntPc (B : Nat) : Nat := B + off_all_is_win + 1

theorem Placed.lt {p : Prog} {B : Nat} (hp : Placed p B) (k : Nat) (hk : k ≤ stdlibLength) :
    B + k < 256 ^ p.w := by have := hp.hB; omega

/-- once control is at `tnt` the machine never halts (whatever the memory) -/
theorem tnt_never_halts {p : Prog} {B : Nat} (hp : Placed p B) (m : Mem) :
    ¬ Halts (sphinx p) ⟨tntPc B, m⟩ := by
  have hwin := hp.win
  have c1 := hwin 1 (by simp [code_all_is_win]); have c2 := hwin 2 (by simp [code_all_is_win])
  simp only [code_all_is_win, List.getElem_cons_succ, List.getElem_cons_zero] at c1 c2
  have hlt : B + off_all_is_win + 1 < 256 ^ p.w := by
    have := hp.lt (off_all_is_win + 1) (by simp [off_all_is_win, stdlibLength]); omega
  apply safe_not_halts (sys := sphinx p)
    (fun s => s.pc = B + off_all_is_win + 1 ∨ s.pc = B + off_all_is_win + 1 + 1)
  · intro s hs
    obtain ⟨pc, mem⟩ := s
    rcases hs with h | h
    · simp only at h; subst h
      have e : (sphinx p).step ⟨B + off_all_is_win + 1, mem⟩ = _ := step_sleep (m := mem) c1 (ev_imm 32639)
      simp only [e]; simp
    · simp only at h; subst h
      have := step_j (m := mem) c2 (ev_imm (B + off_all_is_win + 1))
      rw [show (B + off_all_is_win + 1) % p.M = B + off_all_is_win + 1 from
        Nat.mod_eq_of_lt (by unfold Prog.M; exact hlt)] at this
      have e : (sphinx p).step ⟨B + off_all_is_win + 1 + 1, mem⟩ = _ := this
      simp only [e]; simp
  · left; rfl

/-- a stub `flag f; j target; halt` emits `f` and continues at `target`, if `target` never halts -/
theorem stub_reach {p : Prog} {pc target : Nat} {f : String} {m : Mem}
    (c0 : p.code[pc]? = some (.flag f)) (c1 : p.code[pc + 1]? = some (.j (.imm target)))
    (c2 : p.code[pc + 1 + 1]? = some .halt) (ht : target < 256 ^ p.w) :
    Reach (sphinx p) ⟨pc, m⟩ [Ev.flag f] ⟨target, m⟩ := by
  have s0 := step_flag (m := m) c0
  have s1 := step_j (m := m) c1 (ev_imm target)
  rw [show target % p.M = target from Nat.mod_eq_of_lt (by unfold Prog.M; exact ht)] at s1
  have s2 := step_halt (m := m) c2
  have := (Reach.of_next (sys := sphinx p) s0).trans (Reach.jump_taken (sys := sphinx p) s1 s2)
  simpa [evl] using this

theorem all_is_win_reach {p : Prog} {B : Nat} (hp : Placed p B) (m : Mem) :
    Reach (sphinx p) ⟨B + off_all_is_win, m⟩ [Ev.flag "win"] ⟨tntPc B, m⟩ := by
  have c0 := hp.win 0 (by simp [code_all_is_win])
  simp only [code_all_is_win, List.getElem_cons_zero, Nat.add_zero] at c0
  have := Reach.of_next (sys := sphinx p) (step_flag (m := m) c0)
  simpa [evl, tntPc] using this

theorem all_is_broken_reach {p : Prog} {B : Nat} (hp : Placed p B) (m : Mem) :
    Reach (sphinx p) ⟨B + off_all_is_broken, m⟩ [Ev.flag "error"] ⟨tntPc B, m⟩ := by
  have h := hp.broken
  have c0 := h 0 (by simp [code_all_is_broken]); have c1 := h 1 (by simp [code_all_is_broken])
  have c2 := h 2 (by simp [code_all_is_broken])
  simp only [code_all_is_broken, List.getElem_cons_succ, List.getElem_cons_zero, Nat.add_zero] at c0 c1 c2
  exact stub_reach c0 c1 c2 (by have := hp.lt (off_all_is_win + 1) (by simp [off_all_is_win, stdlibLength]); unfold tntPc; omega)

/-- the four error stubs: exactly two flags, then the terminal loop -/
theorem error_stub_reach {p : Prog} {B : Nat} (hp : Placed p B) (m : Mem) :
    Reach (sphinx p) ⟨B + off_stack_overflow, m⟩ [Ev.flag "stack_overflow", Ev.flag "error"] ⟨tntPc B, m⟩ ∧
    Reach (sphinx p) ⟨B + off_division_by_zero, m⟩ [Ev.flag "division_by_zero", Ev.flag "error"] ⟨tntPc B, m⟩ ∧
    Reach (sphinx p) ⟨B + off_out_of_bounds, m⟩ [Ev.flag "out_of_bounds", Ev.flag "error"] ⟨tntPc B, m⟩ ∧
    Reach (sphinx p) ⟨B + off_nonlocal_preempt, m⟩ [Ev.flag "nonlocal_preempt", Ev.flag "error"] ⟨tntPc B, m⟩ := by
  have hb := all_is_broken_reach hp m
  have hlt : B + off_all_is_broken < 256 ^ p.w := hp.lt _ (by simp [off_all_is_broken, stdlibLength])
  refine ⟨?_, ?_, ?_, ?_⟩
  · have h := hp.so
    have c0 := h 0 (by simp [code_stack_overflow]); have c1 := h 1 (by simp [code_stack_overflow])
    have c2 := h 2 (by simp [code_stack_overflow])
    simp only [code_stack_overflow, List.getElem_cons_succ, List.getElem_cons_zero, Nat.add_zero] at c0 c1 c2
    simpa using (stub_reach (m := m) c0 c1 c2 hlt).trans hb
  · have h := hp.dz
    have c0 := h 0 (by simp [code_division_by_zero]); have c1 := h 1 (by simp [code_division_by_zero])
    have c2 := h 2 (by simp [code_division_by_zero])
    simp only [code_division_by_zero, List.getElem_cons_succ, List.getElem_cons_zero, Nat.add_zero] at c0 c1 c2
    simpa using (stub_reach (m := m) c0 c1 c2 hlt).trans hb
  · have h := hp.oob
    have c0 := h 0 (by simp [code_out_of_bounds]); have c1 := h 1 (by simp [code_out_of_bounds])
    have c2 := h 2 (by simp [code_out_of_bounds])
    simp only [code_out_of_bounds, List.getElem_cons_succ, List.getElem_cons_zero, Nat.add_zero] at c0 c1 c2
    simpa using (stub_reach (m := m) c0 c1 c2 hlt).trans hb
  · have h := hp.nlp
    have c0 := h 0 (by simp [code_nonlocal_preempt]); have c1 := h 1 (by simp [code_nonlocal_preempt])
    have c2 := h 2 (by simp [code_nonlocal_preempt])
    simp only [code_nonlocal_preempt, List.getElem_cons_succ, List.getElem_cons_zero, Nat.add_zero] at c0 c1 c2
    simpa using (stub_reach (m := m) c0 c1 c2 hlt).trans hb

/-- none of the terminal entry points ever halts -/
theorem terminal_never_halts {p : Prog} {B : Nat} (hp : Placed p B) (m : Mem) :
    ¬ Halts (sphinx p) ⟨B + off_all_is_win, m⟩ ∧ ¬ Halts (sphinx p) ⟨B + off_all_is_broken, m⟩ ∧
    ¬ Halts (sphinx p) ⟨B + off_stack_overflow, m⟩ ∧ ¬ Halts (sphinx p) ⟨B + off_division_by_zero, m⟩ ∧
    ¬ Halts (sphinx p) ⟨B + off_out_of_bounds, m⟩ ∧ ¬ Halts (sphinx p) ⟨B + off_nonlocal_preempt, m⟩ := by
  have t := tnt_never_halts hp m
  obtain ⟨h1, h2, h3, h4⟩ := error_stub_reach hp m
  exact ⟨((all_is_win_reach hp m).exec t).2, ((all_is_broken_reach hp m).exec t).2,
    (h1.exec t).2, (h2.exec t).2, (h3.exec t).2, (h4.exec t).2⟩

/-- **S5 for Sphinx**: with the library in place, whatever `hidmodel vm` reports is a true
statement about the committed timeline of the program. -/
theorem vm_sound {p : Prog} {B : Nat} (hp : Placed p B) (fuel : Nat) (s₀ : St) :
    Sound (sphinx p) (fun s => s.pc == tntPc B) s₀
      ((sphinx p).run (fun s => s.pc == tntPc B) (fun _ => #[]) fuel s₀) := by
  apply run_sound
  intro s hs
  obtain ⟨pc, m⟩ := s
  have : pc = tntPc B := by simpa using hs
  subst this
  exact tnt_never_halts hp m

end HidVerif.Sphinx
