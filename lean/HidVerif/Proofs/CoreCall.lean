import HidVerif.Proofs.CoreExecDefs
/-!
# Core compiler proofs: a call of a user function

The caller stores the return address, pushes the arguments, moves `fp` down to its stack offset and jumps;
the callee's body is covered by the induction hypothesis of `cS_ok`; after the return `fp` is moved back.
A defeat function (`!name`) is compiled with its defeat calls going through the word `defeat` and runs in
the situation of its caller (the body of a `try/stop`, or another defeat function): a defeat inside it takes
the machine to the handler with the *callee's* frame pointer still in place (`SInvD`, `KeepD`).
-/
namespace HidVerif.Core
open HidVerif HidVerif.PSys HidVerif.Sphinx HidVerif.Gen

section
variable {p : Prog} {ck : Bool} {B : Nat} {dA : Nat} {fa : FAddr} {fns : List FDecl}

theorem call_ok (lib : Placed p B) (fok : FnsOK p ck B dA fa fns) (f : Nat) (ih : StmtOK p ck B dA fa fns f)
    (F D ra : Nat) (hra : ra < 256 ^ p.w) (md : Md) (Γ : Gam) (env : Env) (pc o : Nat) (m : Mem)
    (hinv : SInv p md Γ env m F D o ra) (ho : p.w ≤ o) :
∀ (g : String) (args : List E) (trc : List Ev) (flag : Option Res) (rv : Option Nat),
    PlacedAt p pc (cCall (cxOf p ck B dA) fa Γ pc o g args) →
    pc + (cCall (cxOf p ck B dA) fa Γ pc o g args).length ≤ B →
    args.all (boundE (Γ.map Prod.fst)) = true → pkCall p.w o args ≤ D →
    callWith (256 ^ p.w) (8 * p.w) fns p.w (exec (256 ^ p.w) (8 * p.w) fns p.w f) D o env g args
      = some (trc, flag, rv) →
    (∀ r, flag = some r → FaultOK ck fns p.w r) →
    -- a defeat function is called where defeat calls go through the word `defeat`, and the caller says in which
    -- world: every handler halts, or neither the return to the caller nor a defeat inside the callee ends in a halt
    (isDfn fns g = true → ∃ v, md = .stop dA v) →
    (isDfn fns g = true → HaltW p md ∨
      ((flag = none → ∀ m', Keep p.w m m' (F - o) → (∀ v, rv = some v → m'.readLE (F - (o + p.w)) p.w = v) →
          ¬ Halts (sphinx p) ⟨pc + (cCall (cxOf p ck B dA) fa Γ pc o g args).length, m'⟩) ∧
       (flag = some .defeat → ∀ st', (∃ a v, md = .stop a v ∧ st'.pc = v ∧ SInvD p md Γ env st'.mem F D o ra ∧
          KeepD p.w m st'.mem (md.kb F p.w)) → ¬ Halts (sphinx p) st'))) →
    (flag = some .div0 → ∃ m', Reach (sphinx p) ⟨pc, m⟩ trc ⟨B + off_division_by_zero, m'⟩) ∧
    (flag = some .ovf → ∃ m', Reach (sphinx p) ⟨pc, m⟩ trc ⟨B + off_stack_overflow, m'⟩) ∧
    (flag = none → ∃ m', Reach (sphinx p) ⟨pc, m⟩ trc
        ⟨pc + (cCall (cxOf p ck B dA) fa Γ pc o g args).length, m'⟩ ∧ Keep p.w m m' (F - o) ∧
      ∀ v, rv = some v → m'.readLE (F - (o + p.w)) p.w = v) ∧
    (flag = some .defeat → ∃ st', Reach (sphinx p) ⟨pc, m⟩ trc st' ∧
      ∃ a v, md = .stop a v ∧ st'.pc = v ∧ SInvD p md Γ env st'.mem F D o ra ∧ KeepD p.w m st'.mem (md.kb F p.w)) := by
  have hw := lib.hw
  have h64 := mul_w_lt_pow p.w hw
  have hM := pow_ge2 p.w hw
  have hBM := lib.hB
  have hroom := hinv.fr.room; have htop := hinv.fr.top; have hFM := hinv.fr.lt
  intro g args trc flag rv hplc hBc hba hpkc hcw hfl hdf hwld
  have fr := hinv.fr
  have hpkA : pkArgs p.w (o + p.w) args ≤ D := by unfold pkCall at hpkc; omega
  have hoW : o + p.w ≤ D := by unfold pkCall at hpkc; omega
  generalize hpush : cArgs (cxOf p ck B dA) Γ (pc + 1) (o + p.w) args = push at *
  have hcode : cCall (cxOf p ck B dA) fa Γ pc o g args =
      [stSlot (cxOf p ck B dA) (o + p.w) (.imm (pc + 1 + push.length + 3))] ++ push ++
        [.alu .add p.w (.st p.w) ((cxOf p ck B dA).negImm o), .j (.imm (faddr fa g)), .halt,
         .alu .add p.w (.st p.w) (.imm (wrapI (256 ^ p.w) o))] := by
    simp only [cCall, hpush]; rfl
  rw [hcode] at hplc hBc hwld ⊢
  have hlen : ([stSlot (cxOf p ck B dA) (o + p.w) (.imm (pc + 1 + push.length + 3))] ++ push ++
        [Instr.alu .add p.w (.st p.w) ((cxOf p ck B dA).negImm o), .j (.imm (faddr fa g)), .halt,
         .alu .add p.w (.st p.w) (.imm (wrapI (256 ^ p.w) o))]).length = 1 + push.length + 4 := by
    simp only [List.length_append, List.length_cons, List.length_nil]
  rw [hlen] at hBc hwld ⊢
  obtain ⟨hpl12, hpl3⟩ := hplc.append
  obtain ⟨hpl1, hpl2⟩ := hpl12.append
  simp only [List.length_append, List.length_cons, List.length_nil, Nat.zero_add] at hpl2 hpl3
  -- 0: the return address
  have hend : pc + 1 + push.length + 3 < 256 ^ p.w := by simp [stdlibLength] at hBM; omega
  have s0 := st_reach (ck := ck) (dA := dA) (B := B) hw fr (o + p.w) (.imm (pc + 1 + push.length + 3)) (pc + 1 + push.length + 3) hpl1
    (by rw [ev_imm]; congr 1; exact Nat.mod_eq_of_lt (by unfold Prog.M; exact hend)) (by omega) (by omega)
  have k0 : Keep p.w m (m.writeLE (F - (o + p.w)) p.w (pc + 1 + push.length + 3)) (F - o) :=
    Keep.write _ _ _ _ _ _ (by omega) (by omega)
  generalize hm1 : m.writeLE (F - (o + p.w)) p.w (pc + 1 + push.length + 3) = m1 at *
  have fr1 := fr.keep k0
  have hra1 : m1.readLE (F - (o + p.w)) p.w = pc + 1 + push.length + 3 := by
    rw [← hm1, Mem.readLE_writeLE_same _ _ _ _ (by omega)]; exact Nat.mod_eq_of_lt hend
  -- the arguments
  have hp := cArgs_ok (ck := ck) (dA := dA) lib Γ env F D args (pc + 1) (o + p.w) m1 (by rw [hpush]; exact hpl2)
    (by rw [hpush]; omega) fr1 (hinv.vars.keep k0 (Nat.le_refl _) (by omega)) hba hpkA (by omega)
  rw [hpush] at hp
  unfold callWith at hcw
  cases hev : evalArgs (256 ^ p.w) (8 * p.w) env args with
  | none =>
    simp only [hev, Option.some.injEq, Prod.mk.injEq] at hcw
    obtain ⟨rfl, rfl, rfl⟩ := hcw
    obtain ⟨m', rd⟩ := hp.2 hev (hfl .div0 rfl)
    exact ⟨fun _ => ⟨m', by simpa [evl] using s0.trans rd⟩, fun h => absurd h (by simp), fun h => absurd h (by simp), fun h => absurd h (by simp)⟩
  | some vs =>
    simp only [hev] at hcw
    cases hfind : fns.find? (fun fd => fd.name == g) with
    | none => simp [hfind] at hcw
    | some fd =>
      simp only [hfind] at hcw
      have hmem : fd ∈ fns := List.mem_of_find?_eq_some hfind
      have hname : fd.name = g := by simpa using List.find?_some hfind
      subst hname
      by_cases hcond : vs.length ≠ fd.params.length ∨ D < o
      · simp [hcond] at hcw
      · rw [if_neg hcond] at hcw
        have hvl : vs.length = fd.params.length := by omega
        obtain ⟨m2, r2, k2, hsl2⟩ := hp.1 vs hev
        have fr2 := fr1.keep k2
        have hra2 : m2.readLE (F - (o + p.w)) p.w = pc + 1 + push.length + 3 := by
          rw [k2.read _ _ (Nat.le_refl _)]; exact hra1
        have c0 := hpl3 0 (by simp); have c1 := hpl3 1 (by simp); have c2 := hpl3 2 (by simp); have c3 := hpl3 3 (by simp)
        simp only [List.getElem_cons_succ, List.getElem_cons_zero, Nat.add_zero] at c0 c1 c2 c3
        -- fp := fp - o
        have efp : evalArg p ⟨pc + (1 + push.length), m2⟩ (.st p.w) = some F := by
          rw [ev_st (by unfold Prog.M; omega) (by have := fr2.top; omega), fr2.fp]
        have e1 : (F + (256 ^ p.w - o) % p.M) % p.M = F - o := by
          unfold Prog.M; exact add_neg_mod (by omega) (by omega) hFM
        have s3 := step_alu (m := m2) c0 efp (ev_negImm ck B o (by omega) (by omega)) alu_add
          (by unfold Prog.M; omega) (by have := fr2.top; omega)
        rw [e1] at s3
        generalize hm3 : m2.writeLE p.w p.w (F - o) = m3 at *
        have hsz3 : m3.size = m2.size := by rw [← hm3]; simp
        have hfp3 : m3.readLE p.w p.w = F - o := by
          rw [← hm3, Mem.readLE_writeLE_same _ _ _ _ (by have := fr2.top; omega)]; exact Nat.mod_eq_of_lt (by omega)
        have hrd3 : ∀ x, 2 * p.w ≤ x → m3.rd x = m2.rd x := fun x hx => by
          rw [← hm3]; exact Mem.rd_writeLE_other _ _ _ _ _ (by omega)
        have hap3 : m3.readLE 0 p.w = 5 * p.w := by
          rw [← hm3, Mem.readLE_writeLE_disj _ _ _ _ _ _ (by omega)]; exact fr2.ap
        -- the jump into the callee
        have hplf := fok.placed fd hmem
        have hBf := fok.inB fd hmem
        have hfaM : faddr fa fd.name < 256 ^ p.w := by simp [stdlibLength] at hBM; omega
        have s4 := step_j (m := m3) c1 (ev_imm (faddr fa fd.name))
        rw [show faddr fa fd.name % p.M = faddr fa fd.name from Nat.mod_eq_of_lt (by unfold Prog.M; exact hfaM)] at s4
        have s5 := step_halt (m := m3) c2
        have jcall := Reach.jump_taken (sys := sphinx p) s4 s5
        -- the callee's frame
        have fr3 : Fr p m3 (F - o) (D - o) :=
          ⟨hfp3, hap3, by rw [hsz3]; have := fr2.top; omega, by omega, by omega⟩
        by_cases hp : D - o < pkS p.w (entryOff p.w fd.params) fd.body
        · rw [if_pos hp] at hcw
          simp only [Option.some.injEq, Prod.mk.injEq] at hcw
          obtain ⟨rfl, rfl, rfl⟩ := hcw
          obtain ⟨hckt, hpkM⟩ := hfl .ovf rfl
          obtain ⟨m', rso⟩ := (prologue_ok (ck := ck) (dA := dA) lib fa (faddr fa fd.name) fd.dfn fd.params fd.body m3 (F - o) (D - o) fr3
            hplf hBf (hpkM fd hmem)).2 hckt (by have := fr3.room; omega)
          refine ⟨fun h => absurd h (by simp), fun _ => ⟨m', ?_⟩, fun h => absurd h (by simp), fun h => absurd h (by simp)⟩
          have r3 := Reach.of_next (sys := sphinx p) s3
          have r2' : Reach (sphinx p) ⟨pc + 1, m1⟩ [] ⟨pc + (1 + push.length), m2⟩ := by simpa [Nat.add_assoc] using r2
          have := s0.trans (r2'.trans (r3.trans (jcall.trans rso)))
          simpa [evl] using this
        rw [if_neg hp] at hcw
        have hfit : pkS p.w (entryOff p.w fd.params) fd.body ≤ D - o := by omega
        have hpro := (prologue_ok (ck := ck) (dA := dA) lib fa (faddr fa fd.name) fd.dfn fd.params fd.body m3 (F - o) (D - o) fr3
          hplf hBf (by omega)).1 (by have := fr3.room; omega)
        have hsl3 : SlotsAt p.w m3 (F - o) (2 * p.w) vs := by
          apply SlotsAt_shift
          refine SlotsAt_congr p.w m2 m3 F (2 * p.w) hrd3 vs (o + 2 * p.w) ?_ (by rw [show o + 2 * p.w = o + p.w + p.w by omega]; exact hsl2)
          have := evalArgs_length hev
          have hpa : o + p.w + args.length * p.w ≤ pkArgs p.w (o + p.w) args := pkArgs_ge p.w args (o + p.w)
          rw [← this] at hpa
          omega
        have heo : 2 * p.w + fd.params.length * p.w - p.w = entryOff p.w fd.params := by
          unfold entryOff; rw [Nat.add_mul, Nat.one_mul]; omega
        have hvars3 := vars_slots p.w m3 (F - o) fd.params vs (2 * p.w) (fok.nodup fd hmem) hvl (Nat.le_refl _) hsl3
        rw [heo] at hvars3
        have hra3 : m3.readLE (F - o - p.w) p.w = pc + 1 + push.length + 3 := by
          rw [show F - o - p.w = F - (o + p.w) by omega, ← hra2]
          exact Mem.readLE_congr _ _ _ _ (fun x h1 _ => hrd3 x (by omega))
        -- the situation of the callee: a defeat function runs in the caller's, any other function asks nothing
        have hisd : isDfn fns fd.name = fd.dfn := by simp [isDfn, hfind]
        have hmdc : ∃ mdc : Md, (fd.dfn = true → mdc = md ∧ ∃ v, md = .stop dA v) ∧ (fd.dfn = false → mdc = .plain) := by
          cases hdfn : fd.dfn with
          | false => exact ⟨.plain, fun h => (by cases h), fun _ => rfl⟩
          | true =>
            obtain ⟨v, hv⟩ := hdf (by rw [hisd, hdfn])
            exact ⟨md, fun _ => ⟨rfl, v, hv⟩, fun h => (by cases h)⟩
        obtain ⟨mdc, hmdT, hmdF⟩ := hmdc
        have hkb : mdc.kb (F - o) p.w = F - o := by
          cases hdfn : fd.dfn with
          | false => rw [hmdF hdfn]; rfl
          | true => obtain ⟨e, v, hv⟩ := hmdT hdfn; rw [e, hv]; rfl
        have hmy : mdc.isYou = false := by
          cases hdfn : fd.dfn with
          | false => rw [hmdF hdfn]; rfl
          | true => obtain ⟨e, v, hv⟩ := hmdT hdfn; rw [e, hv]; rfl
        -- what the callee cannot touch: everything from the caller's stack offset up
        have hrdm3 : ∀ x, F - o ≤ x → m3.rd x = m.rd x := fun x hx => by
          rw [hrd3 x (by omega), k2.hi x (by omega), k0.hi x (by omega)]
        have hdreg3 : DReg p mdc m3 (F - o) := by
          intro a v e
          cases hdfn : fd.dfn with
          | false => rw [hmdF hdfn] at e; cases e
          | true =>
            obtain ⟨e', _⟩ := hmdT hdfn
            rw [e'] at e
            obtain ⟨h1, h2, h3, h4, h5⟩ := hinv.dreg a v e
            refine ⟨by omega, by rw [hsz3, k2.size, k0.size]; exact h2, h3, ?_, h5⟩
            rw [← h4]
            exact Mem.readLE_congr _ _ _ _ (fun x hx1 hx2 => hrdm3 x (by omega))
        have hinv3 : SInv p mdc (paramGam p.w (2 * p.w) fd.params) (bindEnv fd.params vs) m3 (F - o) (D - o)
            (entryOff p.w fd.params) (pc + 1 + push.length + 3) := ⟨fr3, hvars3, hra3, hdreg3⟩
        have heW : p.w ≤ entryOff p.w fd.params := by unfold entryOff; rw [Nat.add_mul, Nat.one_mul]; omega
        -- the body
        have hsplit : funcCode (cxOf p ck B dA) fa (faddr fa fd.name) fd.dfn fd.params fd.body =
            (if ck then
              [Instr.j (.imm (faddr fa fd.name + 5)), .alu .sub (cxOf p ck B dA).r1 (.st (cxOf p ck B dA).fp) (.st 0),
               .hcond .hgeu (.st (cxOf p ck B dA).r1) (.imm (pkS p.w (entryOff p.w fd.params) fd.body % (cxOf p ck B dA).M)),
               .j (.imm (B + off_stack_overflow)), .halt]
             else []) ++ cS (cxOf p ck B dA) fa ⟨0, 0, fd.dfn⟩ (paramGam p.w (2 * p.w) fd.params) (faddr fa fd.name + prologueLen ck)
                (entryOff p.w fd.params) fd.body := rfl
        have hpllen : (if ck then
              [Instr.j (.imm (faddr fa fd.name + 5)), .alu .sub (cxOf p ck B dA).r1 (.st (cxOf p ck B dA).fp) (.st 0),
               .hcond .hgeu (.st (cxOf p ck B dA).r1) (.imm (pkS p.w (entryOff p.w fd.params) fd.body % (cxOf p ck B dA).M)),
               .j (.imm (B + off_stack_overflow)), .halt]
             else []).length = prologueLen ck := by cases ck <;> rfl
        rw [hsplit] at hplf hBf
        obtain ⟨_, hplb⟩ := hplf.append
        rw [hpllen] at hplb
        rw [List.length_append, hpllen] at hBf
        cases hexb : exec (256 ^ p.w) (8 * p.w) fns p.w f (D - o) (entryOff p.w fd.params) (bindEnv fd.params vs) fd.body with
        | none => simp [hexb] at hcw
        | some rb =>
          obtain ⟨envb, trb, resb⟩ := rb
          simp only [hexb] at hcw
          -- after the return: fp := fp + o
          have back : ∀ m4, Keep p.w m3 m4 (F - o) →
              Reach (sphinx p) ⟨pc + 1 + push.length + 3, m4⟩ [] ⟨pc + (1 + push.length + 4), m4.writeLE p.w p.w F⟩ ∧
              Keep p.w m (m4.writeLE p.w p.w F) (F - o) ∧
              (m4.writeLE p.w p.w F).readLE (F - (o + p.w)) p.w = m4.readLE (F - o - p.w) p.w := by
            intro m4 k34
            have hsz4 : m4.size = m3.size := k34.size
            have hfp4 : m4.readLE p.w p.w = F - o := by rw [k34.fp]; exact hfp3
            have e : pc + 1 + push.length + 3 = pc + (1 + push.length) + 1 + 1 + 1 := by omega
            have efp4 : evalArg p ⟨pc + (1 + push.length) + 1 + 1 + 1, m4⟩ (.st p.w) = some (F - o) := by
              rw [ev_st (by unfold Prog.M; omega) (by rw [hsz4, hsz3]; have := fr2.top; omega), hfp4]
            have eo : evalArg p ⟨pc + (1 + push.length) + 1 + 1 + 1, m4⟩ (.imm (wrapI (256 ^ p.w) o)) = some o := by
              rw [ev_imm, wrapI_nat (by omega)]; congr 1; exact Nat.mod_eq_of_lt (by unfold Prog.M; omega)
            have s6 := step_alu (m := m4) c3 efp4 eo alu_add (by unfold Prog.M; omega) (by rw [hsz4, hsz3]; have := fr2.top; omega)
            rw [show (F - o + o) % p.M = F from by unfold Prog.M; rw [Nat.sub_add_cancel (by omega)]; exact Nat.mod_eq_of_lt hFM] at s6
            refine ⟨?_, ?_, ?_⟩
            · rw [e]
              have r6 := Reach.of_next (sys := sphinx p) s6
              simpa [evl, Nat.add_assoc] using r6
            · have k25 : Keep p.w m2 (m4.writeLE p.w p.w F) (F - o) := by
                refine ⟨by simp [hsz4, hsz3], ?_, ?_, fun x hx => ?_⟩
                · rw [Mem.readLE_writeLE_same _ _ _ _ (by rw [hsz4, hsz3]; have := fr2.top; omega), fr2.fp]
                  exact Nat.mod_eq_of_lt hFM
                · rw [Mem.readLE_writeLE_disj _ _ _ _ _ _ (by omega), k34.ap, hap3, fr2.ap]
                · rw [Mem.rd_writeLE_other _ _ _ _ _ (by omega), k34.hi x hx, hrd3 x (by omega)]
              exact (k0.trans' (k2.mono (by omega))).trans' k25
            · rw [Mem.readLE_writeLE_disj _ _ _ _ _ _ (by omega)]
              congr 1; omega
          -- a defeat inside the callee, seen from the caller: its frame is untouched, `fp` is the callee's
          have convD : fd.dfn = true → ∀ st',
              Post p B (pc + 1 + push.length + 3) ⟨0, 0, fd.dfn⟩ mdc (paramGam p.w (2 * p.w) fd.params) envb (F - o) (D - o)
                (entryOff p.w fd.params) (faddr fa fd.name + prologueLen ck +
                  (cS (cxOf p ck B dA) fa ⟨0, 0, fd.dfn⟩ (paramGam p.w (2 * p.w) fd.params) (faddr fa fd.name + prologueLen ck)
                    (entryOff p.w fd.params) fd.body).length) m3 .defeat st' →
              ∃ a v, md = .stop a v ∧ st'.pc = v ∧ SInvD p md Γ env st'.mem F D o ra ∧ KeepD p.w m st'.mem (md.kb F p.w) := by
            intro hdfn st' hp
            obtain ⟨a, v, e, hpcv, hi, kd⟩ := hp
            obtain ⟨e', _⟩ := hmdT hdfn
            rw [e'] at e
            rw [hkb] at kd
            have hrdC : ∀ y, F - o ≤ y → st'.mem.rd y = m.rd y := fun y hy => by rw [kd.hi y hy, hrdm3 y hy]
            have hszC : st'.mem.size = m.size := by rw [kd.size, hsz3, k2.size, k0.size]
            refine ⟨a, v, e, hpcv, ⟨by rw [hi.ap], by rw [hszC]; exact htop, hFM, hroom, ?_, ?_, ?_⟩, ?_⟩
            · intro x hx
              obtain ⟨h1, h2, h3⟩ := hinv.vars x hx
              exact ⟨h1, h2, by rw [← h3]; exact Mem.readLE_congr _ _ _ _ (fun y hy1 hy2 => hrdC y (by omega))⟩
            · rw [← hinv.ra]; exact Mem.readLE_congr _ _ _ _ (fun y hy1 hy2 => hrdC y (by omega))
            · intro a' v' e2
              obtain ⟨h1, h2, h3, h4, h5⟩ := hinv.dreg a' v' e2
              exact ⟨h1, by rw [hszC]; exact h2, h3, by rw [← h4]; exact Mem.readLE_congr _ _ _ _ (fun y hy1 hy2 => hrdC y (by omega)), h5⟩
            · rw [e]
              exact ⟨hszC, by rw [hi.ap, fr.ap], fun x hx => hrdC x (by simp only [Md.kb] at hx; omega)⟩
          -- no end of the callee halts, if the caller says so
          have hsafeC : Safe p B dA (pc + 1 + push.length + 3) ⟨0, 0, fd.dfn⟩ mdc false fd.dfn fns (paramGam p.w (2 * p.w) fd.params) envb
              (F - o) (D - o) (entryOff p.w fd.params) (faddr fa fd.name + prologueLen ck +
                (cS (cxOf p ck B dA) fa ⟨0, 0, fd.dfn⟩ (paramGam p.w (2 * p.w) fd.params) (faddr fa fd.name + prologueLen ck)
                  (entryOff p.w fd.params) fd.body).length) m3 resb fd.body := by
            left
            cases hdfn : fd.dfn with
            | false =>
              refine ⟨hmy, ⟨fun h => (by cases h), fun h => (by cases h)⟩, plain_noTry _ _ (fok.plain fd hmem hdfn), Or.inl ?_⟩
              rw [hmdF hdfn]; exact HaltW.plain
            | true =>
              obtain ⟨e', v, hv⟩ := hmdT hdfn
              refine ⟨hmy, ⟨fun _ => ⟨v, by rw [e', hv]⟩, fun _ => Or.inl ⟨v, by rw [e', hv]⟩⟩, fok.dfnNoTry fd hmem hdfn, ?_⟩
              rcases hwld (by rw [hisd, hdfn]) with hh | ⟨hret, hdef⟩
              · left; rw [e']; exact hh
              · right
                refine ⟨rfl, fun st' hp => ?_⟩
                have tn := fun mm => terminal_never_halts lib mm
                cases resb with
                | norm => simp at hcw
                | brk => simp at hcw
                | cnt => simp at hcw
                | div0 => obtain ⟨pc', m'⟩ := st'; simp only [Post] at hp; subst hp; exact (tn m').2.2.2.1
                | ovf => obtain ⟨pc', m'⟩ := st'; simp only [Post] at hp; subst hp; exact (tn m').2.2.1
                | returned =>
                  simp only [Option.some.injEq, Prod.mk.injEq] at hcw
                  obtain ⟨pc', m4⟩ := st'
                  simp only [Post] at hp
                  obtain ⟨hpc', k34⟩ := hp
                  subst hpc'
                  rw [hkb] at k34
                  obtain ⟨r6, k6, _⟩ := back m4 k34
                  exact (r6.exec (hret hcw.2.1.symm _ k6 (fun v hv => by rw [← hcw.2.2] at hv; cases hv))).2
                | retv v =>
                  simp only [Option.some.injEq, Prod.mk.injEq] at hcw
                  obtain ⟨pc', m4⟩ := st'
                  simp only [Post] at hp
                  obtain ⟨hpc', k34, hv4⟩ := hp
                  subst hpc'
                  rw [hkb] at k34
                  obtain ⟨r6, k6, h6⟩ := back m4 k34
                  exact (r6.exec (hret hcw.2.1.symm _ k6 (fun v' hv' => by
                    rw [← hcw.2.2] at hv'; simp only [Option.some.injEq] at hv'; subst hv'; rw [h6]; exact hv4))).2
                | defeat =>
                  simp only [hdfn, if_true, Option.some.injEq, Prod.mk.injEq] at hcw
                  exact hdef hcw.2.1.symm st' (convD hdfn st' (by rw [hdfn]; exact hp))
          have hbody := ih (F - o) (D - o) (pc + 1 + push.length + 3) hend ⟨0, 0, fd.dfn⟩ ⟨by show 0 < _; omega, by show 0 < _; omega⟩ mdc false fd.dfn fd.body (paramGam p.w (2 * p.w) fd.params)
            (bindEnv fd.params vs) (faddr fa fd.name + prologueLen ck) (entryOff p.w fd.params) m3 envb trb resb
            hplb (by omega) hinv3 (disj_paramGam p.w fd.params (2 * p.w) (fok.nodup fd hmem))
            (by rw [map_fst_paramGam]; exact fok.wf fd hmem) hfit heW hexb
            (by cases resb <;> simp only [FaultOK] <;>
                  first | trivial | (simp only [Option.some.injEq, Prod.mk.injEq] at hcw; exact hfl _ hcw.2.1.symm))
            hsafeC
          have r03 : Reach (sphinx p) ⟨pc, m⟩ [] ⟨faddr fa fd.name + prologueLen ck, m3⟩ := by
            have r3 := Reach.of_next (sys := sphinx p) s3
            have r2' : Reach (sphinx p) ⟨pc + 1, m1⟩ [] ⟨pc + (1 + push.length), m2⟩ := by simpa [Nat.add_assoc] using r2
            have := s0.trans (r2'.trans (r3.trans (jcall.trans hpro)))
            simpa [evl] using this
          cases resb with
          | norm => simp at hcw
          | brk => simp at hcw
          | cnt => simp at hcw
          | defeat =>
            cases hdfn : fd.dfn with
            | false => simp [hdfn] at hcw
            | true =>
              simp only [hdfn, if_true, Option.some.injEq, Prod.mk.injEq] at hcw
              obtain ⟨rfl, rfl, rfl⟩ := hcw
              obtain ⟨st', rb, hpost⟩ := hbody.2 (fun _ => hdfn)
              exact ⟨fun h => absurd h (by simp), fun h => absurd h (by simp), fun h => absurd h (by simp),
                fun _ => ⟨st', by simpa using r03.trans rb, convD hdfn st' hpost⟩⟩
          | div0 =>
            simp only [Option.some.injEq, Prod.mk.injEq] at hcw
            obtain ⟨rfl, rfl, rfl⟩ := hcw
            obtain ⟨st', rb, hpost⟩ := hbody.2 (by simp)
            obtain ⟨pc', m'⟩ := st'
            simp only [Post] at hpost
            subst hpost
            exact ⟨fun _ => ⟨m', by simpa using r03.trans rb⟩, fun h => absurd h (by simp), fun h => absurd h (by simp), fun h => absurd h (by simp)⟩
          | ovf =>
            simp only [Option.some.injEq, Prod.mk.injEq] at hcw
            obtain ⟨rfl, rfl, rfl⟩ := hcw
            obtain ⟨st', rb, hpost⟩ := hbody.2 (by simp)
            obtain ⟨pc', m'⟩ := st'
            simp only [Post] at hpost
            subst hpost
            exact ⟨fun h => absurd h (by simp), fun _ => ⟨m', by simpa using r03.trans rb⟩, fun h => absurd h (by simp), fun h => absurd h (by simp)⟩
          | returned =>
            simp only [Option.some.injEq, Prod.mk.injEq] at hcw
            obtain ⟨rfl, rfl, rfl⟩ := hcw
            obtain ⟨st', rb, hpost⟩ := hbody.2 (by simp)
            obtain ⟨pc', m4⟩ := st'
            simp only [Post] at hpost
            obtain ⟨hpc', k34⟩ := hpost
            subst hpc'
            rw [hkb] at k34
            obtain ⟨r6, k6, _⟩ := back m4 k34
            refine ⟨fun h => absurd h (by simp), fun h => absurd h (by simp), fun _ => ⟨_, ?_, k6, fun v hv => absurd hv (by simp)⟩, fun h => absurd h (by simp)⟩
            simpa using (r03.trans rb).trans r6
          | retv v =>
            simp only [Option.some.injEq, Prod.mk.injEq] at hcw
            obtain ⟨rfl, rfl, rfl⟩ := hcw
            obtain ⟨st', rb, hpost⟩ := hbody.2 (by simp)
            obtain ⟨pc', m4⟩ := st'
            simp only [Post] at hpost
            obtain ⟨hpc', k34, hv4⟩ := hpost
            subst hpc'
            rw [hkb] at k34
            obtain ⟨r6, k6, h6⟩ := back m4 k34
            refine ⟨fun h => absurd h (by simp), fun h => absurd h (by simp), fun _ => ⟨_, ?_, k6, fun v' hv' => ?_⟩, fun h => absurd h (by simp)⟩
            · simpa using (r03.trans rb).trans r6
            · simp only [Option.some.injEq] at hv'
              subst hv'
              rw [h6]; exact hv4

end

end HidVerif.Core
