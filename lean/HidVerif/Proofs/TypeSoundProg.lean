import HidVerif.Proofs.TypeSoundStmt
import HidVerif.Proofs.ParseSound
/-!
# Type soundness for whole sources: what the parser accepts has proper types, what the typechecker then accepts is well typed
-/
namespace HidVerif.Hid.TC
open HidVerif.Hid HidVerif.Hid.Lex HidVerif.Hid.Parse HidVerif.Gen

theorem ptyEs_of_all : ∀ (l : List PExpr), (∀ a ∈ l, ptyE a = true) → ptyEs l = true
  | [], _ => by simp [ptyEs]
  | a :: l, h => by
    simp only [ptyEs, Bool.and_eq_true]
    exact ⟨h a (by simp), ptyEs_of_all l (fun b hb => h b (by simp [hb]))⟩

theorem ptyE_of_ok {c : Nat} {e : PExpr} (h : OkE c e) : ptyE e = true := by
  induction h with
  | int => simp [ptyE]
  | char => simp [ptyE]
  | str => simp [ptyE]
  | bool => simp [ptyE]
  | var => simp [ptyE]
  | arrlit _ ih => simp only [ptyE]; exact ptyEs_of_all _ ih
  | call _ _ _ ih => simp only [ptyE]; exact ptyEs_of_all _ ih
  | len _ ih => simpa [ptyE] using ih
  | index _ _ ih1 ih2 => simp [ptyE, ih1, ih2]
  | un _ ih => simpa [ptyE] using ih
  | is_ _ ht ih => simp [ptyE, ih, ht]
  | bin _ _ _ ih1 ih2 => simp [ptyE, ih1, ih2]
  | spec _ _ _ ih1 ih2 => simp [ptyE, ih1, ih2]

theorem ptySs_of_all : ∀ (l : List PStmt), (∀ a ∈ l, ptyS a = true) → ptySs l = true
  | [], _ => by simp [ptySs]
  | a :: l, h => by
    simp only [ptySs, Bool.and_eq_true]
    exact ⟨h a (by simp), ptySs_of_all l (fun b hb => h b (by simp [hb]))⟩

theorem ptyS_of_ok {c : Nat} {s : PStmt} (h : OkS c s) : ptyS s = true := by
  induction h with
  | expr he => simpa [ptyS] using ptyE_of_ok he
  | decl he ht => simp [ptyS, ptyE_of_ok he, ht]
  | vla he ht => simp [ptyS, ptyE_of_ok he, ht]
  | assign h1 h2 => simp [ptyS, ptyE_of_ok h1, ptyE_of_ok h2]
  | incassign h1 h2 _ => simp [ptyS, ptyE_of_ok h1, ptyE_of_ok h2]
  | @ret ctx eo he =>
    cases eo with
    | none => simp [ptyS]
    | some e => simpa [ptyS] using ptyE_of_ok (he e rfl)
  | brk => simp [ptyS]
  | cont => simp [ptyS]
  | block _ ih => simp only [ptyS]; exact ptySs_of_all _ ih
  | ifb hc _ _ _ _ ih1 ih2 => simp [ptyS, ptyE_of_ok hc, ih1, ih2]
  | loop hc _ _ _ _ ih1 ih2 => simp [ptyS, ptyE_of_ok hc, ih1, ih2]
  | tryb _ _ _ _ _ ih1 ih2 => simp [ptyS, ih1, ih2]
  | preempt _ _ _ ih => simpa [ptyS] using ih

theorem ptyProg_of_ok {p : PProgram} (h : ProgOK p) : ptyProg p = true := by
  simp only [ptyProg, Bool.and_eq_true, List.all_eq_true]
  refine ⟨ptySs_of_all _ (fun v hv => ptyS_of_ok (h.vars v hv)), ?_⟩
  intro f hf
  obtain ⟨h1, h2⟩ := h.sigs f hf
  simp only [ptyFunc, Bool.and_eq_true, Bool.or_eq_true, List.all_eq_true]
  refine ⟨⟨?_, h2⟩, ptyS_of_ok (h.funcs f hf)⟩
  rcases h1 with h1 | h1
  · exact Or.inl h1
  · exact Or.inr (by simp [h1])

/-- **Type soundness of the front-end model, from source text to typed tree.**  For every source text: if the parser
accepts it and the typechecker accepts the tree, the typed tree obeys the typing rules `wtProg`, judged against the
program's own signature table. -/
theorem accepted_well_typed (lint : Bool) (src : List Line) (p : PProgram) (tp : TProgram)
    (hparse : parse src = .ok p) (htc : tcProgram lint p = .ok tp) : wtProg tp = true := by
  obtain ⟨h1, h2⟩ := tcProgram_wt (ptyProg_of_ok (parse_sound src p hparse)) htc
  unfold wtProg; rw [h2]; exact h1

end HidVerif.Hid.TC
