import HidVerif.Proofs.TypeSoundProg
/-!
# The typechecker model never answers `.internal` on what the parser accepts

`.internal` marks the places where `hidc/ast` has an `assert` or falls off a dispatch: an operator class the
typechecker does not know, a compound assignment with a non-arithmetic operator, and the two assertions of
`FuncDefinition.evaluate` (`BREAK not in exit_modes`, `DEFEAT not in exit_modes or flavor == DEFEAT`).
-/
namespace HidVerif.Hid.TC
open HidVerif.Hid HidVerif.Hid.Lex HidVerif.Hid.Parse HidVerif.Gen

/-- "no internal error" -/
def NI {α : Type} (x : R α) : Prop := ∀ m, x ≠ .error (.internal m)

theorem NI.pure {α : Type} {a : α} : NI (pure a : R α) := by intro m h; cases h
theorem NI.ok {α : Type} {x : R α} {a : α} (h : x = .ok a) : NI x := by intro m h'; rw [h] at h'; cases h'
theorem NI.tc {α : Type} {s : String} : NI (MonadExcept.throw (TErr.tc s) : R α) := by
  intro m h; simp [MonadExcept.throw, throwThe, MonadExceptOf.throw] at h
theorem NI.notErr {α : Type} {a b : Ty} : NI (MonadExcept.throw (notErr a b) : R α) := by
  intro m h; simp [MonadExcept.throw, throwThe, MonadExceptOf.throw, TC.notErr] at h
theorem NI.bind {α β : Type} {x : R α} {f : α → R β} (hx : NI x) (hf : ∀ a, x = .ok a → NI (f a)) : NI (x >>= f) := by
  intro m h
  cases hxx : x with
  | error e =>
    rw [hxx] at h
    have h : (Except.error e : R β) = Except.error (TErr.internal m) := h
    injection h with h
    exact hx m (by rw [hxx, h])
  | ok a =>
    rw [hxx] at h
    exact hf a hxx m h

theorem genericCast_ni (e : TE) (t new : Ty) : NI (genericCast e t new) := by
  unfold genericCast
  split
  · exact NI.pure
  · split <;> first | exact NI.pure | exact NI.notErr | (split <;> first | exact NI.pure | exact NI.notErr)

mutual
theorem cast_ni : ∀ (e : TE) (new : Ty) (impl : Bool), NI (cast e new impl)
  | .intv v b sh, new, impl => by
    unfold cast; split <;> first | exact NI.pure | exact genericCast_ni _ _ _
  | .boolv b, new, impl => by
    unfold cast; split <;> first | exact NI.pure | exact genericCast_ni _ _ _
  | .strv bs, new, impl => by
    unfold cast; split <;> first | exact NI.pure | exact genericCast_ni _ _ _
  | .arrlit vals ty lk, new, impl => by
    unfold cast
    split
    · exact NI.bind (castAll_ni vals _) (fun _ _ => NI.pure)
    · exact genericCast_ni _ _ _
  | .cast k inner, new, impl => by
    cases k with
    | vol => unfold cast; exact cast_ni inner new false
    | b2i => unfold cast; exact genericCast_ni _ _ _
    | i2b => unfold cast; exact genericCast_ni _ _ _
    | i2bool => unfold cast; exact genericCast_ni _ _ _
    | bool2b => unfold cast; exact genericCast_ni _ _ _
    | s2a => unfold cast; exact genericCast_ni _ _ _
  | .var n t c, new, impl => by unfold cast; exact genericCast_ni _ _ _
  | .index a i, new, impl => by unfold cast; exact genericCast_ni _ _ _
  | .len a, new, impl => by unfold cast; exact genericCast_ni _ _ _
  | .call n fl args ptys r, new, impl => by unfold cast; exact genericCast_ni _ _ _
  | .arrinit el l, new, impl => by unfold cast; exact genericCast_ni _ _ _
  | .arith op l r sh, new, impl => by unfold cast; exact genericCast_ni _ _ _
  | .unarith op a sh, new, impl => by unfold cast; exact genericCast_ni _ _ _
  | .boolop op l r, new, impl => by unfold cast; exact genericCast_ni _ _ _
  | .notop a, new, impl => by unfold cast; exact genericCast_ni _ _ _
  | .spec l r, new, impl => by unfold cast; exact genericCast_ni _ _ _
  | .param t, new, impl => by unfold cast; exact genericCast_ni _ _ _

theorem castAll_ni : ∀ (es : List TE) (new : Ty), NI (castAll es new)
  | [], new => by unfold castAll; exact NI.pure
  | e :: rest, new => by
    unfold castAll
    exact NI.bind (cast_ni e new false) (fun _ _ => NI.bind (castAll_ni rest new) (fun _ _ => NI.pure))
end

theorem coerce_ni (e : TE) (new : Ty) : NI (coerce e new) := by
  unfold coerce
  split
  · split <;> exact cast_ni _ _ _
  · exact NI.notErr

theorem coerceArgs_ni : ∀ (as : List TE) (ts : List Ty), NI (coerceArgs as ts)
  | [], _ => by unfold coerceArgs; exact NI.pure
  | _ :: _, [] => by unfold coerceArgs; exact NI.pure
  | a :: as, t :: ts => by
    unfold coerceArgs
    exact NI.bind (coerce_ni a t) (fun _ _ => NI.bind (coerceArgs_ni as ts) (fun _ _ => NI.pure))

theorem pickElemTy_ni (vs : List TE) : ∀ tys : List Ty, NI (pickElemTy vs tys)
  | [] => by unfold pickElemTy; exact NI.tc
  | t :: rest => by
    unfold pickElemTy
    split
    · exact NI.tc
    · split
      · exact NI.tc
      · split
        · exact NI.pure
        · exact pickElemTy_ni vs rest

theorem arithOperate_ni {op : BinOp} (h : isArithOp op = true) (a b : Int) : NI (arithOperate op a b) := by
  cases op <;> simp [isArithOp] at h <;> unfold arithOperate
  · exact NI.pure
  · exact NI.pure
  · exact NI.pure
  · dsimp only; split <;> first | exact NI.tc | exact NI.pure
  · dsimp only; split <;> first | exact NI.tc | exact NI.pure

/-! ## expressions -/
mutual
/-- every binary operator node carries a class name of the grammar's table -/
def opsE : PExpr → Bool
  | .arrlit items => opsEs items
  | .call _ _ args => opsEs args
  | .len e => opsE e
  | .index e i => opsE e && opsE i
  | .un _ e => opsE e
  | .is_ e _ => opsE e
  | .bin op l r => binClasses.contains op && opsE l && opsE r
  | .spec l r => opsE l && opsE r
  | _ => true
def opsEs : List PExpr → Bool
  | [] => true
  | e :: rest => opsE e && opsEs rest
end

theorem known_of_mem {op : String} (h : binClasses.contains op = true) (h1 : arithOpOf op = none) (h2 : logicOpOf op = none)
    (h3 : cmpOpOf op = none) (h4 : eqOpOf op = none) : False := by
  simp only [binClasses, List.contains_cons, List.contains_nil, Bool.or_false, Bool.or_eq_true, beq_iff_eq] at h
  rcases h with rfl | rfl | rfl | rfl | rfl | rfl | rfl | rfl | rfl | rfl | rfl | rfl | rfl <;>
    simp [arithOpOf, logicOpOf, cmpOpOf, eqOpOf] at h1 h2 h3 h4

theorem NI.ite {α : Type} {c : Prop} [Decidable c] {x y : R α} (hx : NI x) (hy : NI y) : NI (if c then x else y) := by
  split <;> assumption

theorem fold_ni {a b : TE} {op : BinOp} :
    NI (if (isPrimitive a && isPrimitive b) = true then
            (match primData a, primData b with
             | some x, some y => (pure (TE.boolv (cmpOperate op x y)) : R TE)
             | _, _ => pure (.boolop op a b))
          else pure (.boolop op a b)) := by
  split
  · split <;> exact NI.pure
  · exact NI.pure

mutual
theorem tcExpr_ni (env : Env) : ∀ (e : PExpr), opsE e = true → NI (tcExpr env e)
  | .int v, _ => by unfold tcExpr; exact NI.pure
  | .char b, _ => by unfold tcExpr; exact NI.pure
  | .str bs, _ => by unfold tcExpr; exact NI.pure
  | .bool b, _ => by unfold tcExpr; exact NI.pure
  | .var n, _ => by
    unfold tcExpr
    split
    · exact NI.tc
    · split <;> exact NI.pure
  | .index s i, hp => by
    simp only [opsE, Bool.and_eq_true] at hp
    unfold tcExpr
    refine NI.bind (tcExpr_ni env s hp.1) (fun src _ => ?_)
    dsimp only
    have tail : ∀ src' : TE, NI (do let idx ← tcExpr env i
                                    let idx ← coerce idx Ty.int
                                    pure (src'.index idx) : R TE) := fun src' =>
      NI.bind (tcExpr_ni env i hp.2) (fun _ _ => NI.bind (coerce_ni _ _) (fun _ _ => NI.pure))
    split
    · exact NI.bind NI.tc (fun _ _ => by split <;> first | exact NI.bind NI.tc (fun _ _ => tail _) | exact NI.bind (coerce_ni _ _) (fun _ _ => tail _) | exact NI.bind NI.pure (fun _ _ => tail _))
    · split
      · exact NI.bind NI.tc (fun _ _ => tail _)
      · exact NI.bind (coerce_ni _ _) (fun _ _ => tail _)
      · exact NI.bind NI.pure (fun _ _ => tail _)
  | .len s, hp => by
    simp only [opsE] at hp
    unfold tcExpr
    refine NI.bind (tcExpr_ni env s hp) (fun src _ => ?_)
    dsimp only
    split
    · exact NI.bind NI.tc (fun _ _ => NI.pure)
    · exact NI.pure
  | .call n fl args, hp => by
    simp only [opsE] at hp
    unfold tcExpr
    refine NI.bind (tcExprs_ni env args hp) (fun as _ => ?_)
    dsimp only
    split
    · exact NI.tc
    · exact NI.bind (coerceArgs_ni _ _) (fun _ _ => NI.pure)
  | .arrlit items, hp => by
    simp only [opsE] at hp
    unfold tcExpr
    split
    · exact NI.pure
    · exact NI.bind (tcExprs_ni env items hp) (fun _ _ => pickElemTy_ni _ _)
  | .un op e, hp => by
    simp only [opsE] at hp
    unfold tcExpr
    refine NI.bind (tcExpr_ni env e hp) (fun a _ => ?_)
    split
    · exact NI.bind (cast_ni _ _ _) (fun b _ => by split <;> exact NI.pure)
    · exact NI.bind (coerce_ni _ _) (fun ai _ => by split <;> exact NI.pure)
  | .is_ e t, hp => by
    simp only [opsE] at hp
    unfold tcExpr
    exact NI.bind (tcExpr_ni env e hp) (fun _ _ => cast_ni _ _ _)
  | .bin op l r, hp => by
    simp only [opsE, Bool.and_eq_true] at hp
    obtain ⟨⟨hop, hl⟩, hr⟩ := hp
    unfold tcExpr
    split
    · rename_i aop haop
      refine NI.bind (tcExpr_ni env l hl) (fun a _ => NI.bind (tcExpr_ni env r hr) (fun b _ => ?_))
      refine NI.bind (coerce_ni _ _) (fun ai _ => NI.bind (coerce_ni _ _) (fun bi _ => ?_))
      split
      · exact NI.bind (arithOperate_ni (arithOpOf_ok haop) _ _) (fun _ _ => NI.pure)
      · exact NI.pure
    · rename_i h1
      split
      · refine NI.bind (tcExpr_ni env l hl) (fun a _ => NI.bind (cast_ni _ _ _) (fun a' _ => ?_))
        refine NI.bind (tcExpr_ni env r hr) (fun b _ => NI.bind (cast_ni _ _ _) (fun b' _ => ?_))
        exact fold_ni
      · rename_i h2
        split
        · refine NI.bind (tcExpr_ni env l hl) (fun a _ => NI.bind (coerce_ni _ _) (fun a' _ => ?_))
          refine NI.bind (tcExpr_ni env r hr) (fun b _ => NI.bind (coerce_ni _ _) (fun b' _ => ?_))
          split <;> exact NI.pure
        · rename_i h3
          split
          · refine NI.bind (tcExpr_ni env l hl) (fun a _ => NI.bind (tcExpr_ni env r hr) (fun b _ => ?_))
            dsimp only
            split
            · exact NI.bind NI.pure (fun _ _ => fold_ni)
            · exact NI.bind (coerce_ni _ _) (fun _ _ => NI.bind (coerce_ni _ _) (fun _ _ => NI.bind NI.pure (fun _ _ => fold_ni)))
          · rename_i h4
            exact (known_of_mem hop h1 h2 h3 h4).elim
  | .spec l r, hp => by
    simp only [opsE, Bool.and_eq_true] at hp
    unfold tcExpr
    refine NI.bind (tcExpr_ni env l hp.1) (fun a _ => ?_)
    dsimp only
    have tail : NI (do let b ← tcExpr env r
                       let b ← coerce b (typeOf a)
                       if (isPrimitive a && isPrimitive b) = true then pure a else pure (a.spec b) : R TE) :=
      NI.bind (tcExpr_ni env r hp.2) (fun _ _ => NI.bind (coerce_ni _ _) (fun _ _ => by split <;> exact NI.pure))
    split
    · exact NI.bind NI.tc (fun _ _ => tail)
    · exact tail

theorem tcExprs_ni (env : Env) : ∀ (es : List PExpr), opsEs es = true → NI (tcExprs env es)
  | [], _ => by unfold tcExprs; exact NI.pure
  | e :: rest, hp => by
    simp only [opsEs, Bool.and_eq_true] at hp
    unfold tcExprs
    exact NI.bind (tcExpr_ni env e hp.1) (fun _ _ => NI.bind (tcExprs_ni env rest hp.2) (fun _ _ => NI.pure))
end

/-! ## statements (all but the end of a function) -/
mutual
def opsS : PStmt → Bool
  | .expr e => opsE e
  | .decl _ _ _ init => opsE init
  | .vla _ _ _ len => opsE len
  | .assign l r => opsE l && opsE r
  | .incassign l r op => incClasses.contains op && opsE l && opsE r
  | .ret (some e) => opsE e
  | .ret none => true
  | .brk => true
  | .cont => true
  | .block ss _ => opsSs ss
  | .ifb c t e => opsE c && opsS t && opsS e
  | .loop c b k => opsE c && opsS b && opsS k
  | .tryb b _ h => opsS b && opsS h
  | .preempt b => opsS b
def opsSs : List PStmt → Bool
  | [] => true
  | s :: rest => opsS s && opsSs rest
end

theorem checkRedecl_ni (env : Env) (n : List CP) : NI (checkRedecl env n) := by
  unfold checkRedecl
  split
  · split <;> first | exact NI.tc | exact NI.pure
  · exact NI.pure

theorem tcDecl_ni (env : Env) (n : List CP) (ty : Ty) (c : Bool) (init : TE) : NI (tcDecl env n ty c init) := by
  unfold tcDecl
  refine NI.bind (checkRedecl_ni _ _) (fun _ _ => NI.bind (coerce_ni _ _) (fun i _ => ?_))
  split <;> first | exact NI.tc | exact NI.pure

theorem tcAssign_ni (env : Env) (l r : PExpr) (hl : opsE l = true) (hr : opsE r = true) : NI (tcAssign env l r) := by
  unfold tcAssign
  refine NI.bind (tcExpr_ni env l hl) (fun lk _ => ?_)
  split
  · exact NI.bind (tcExpr_ni env r hr) (fun _ _ => NI.bind (coerce_ni _ _) (fun _ _ => NI.pure))
  · exact NI.tc

theorem tcAssign_shape {env env' : Env} {l r : PExpr} {t : TS} (h : tcAssign env l r = .ok (env', t)) : ∃ lk e, t = .assign lk e := by
  unfold tcAssign at h
  obtain ⟨lk, _, h⟩ := bind_ok h
  split at h
  · obtain ⟨e, _, h⟩ := bind_ok h
    obtain ⟨e', _, h⟩ := bind_ok h
    have := pure_ok h
    simp only [Prod.mk.injEq] at this
    exact ⟨lk, e', this.2.symm⟩
  · exact (throw_ok h).elim

theorem inc_arith : ∀ c, incClasses.contains c = true → (arithOpOf c).isSome = true ∧ binClasses.contains c = true := by
  intro c h
  simp only [incClasses, incOps, List.map_cons, List.map_nil, List.contains_cons, List.contains_nil, Bool.or_false, Bool.or_eq_true,
    beq_iff_eq] at h
  rcases h with rfl | rfl | rfl | rfl | rfl <;> decide

mutual
theorem tcStmt_ni : ∀ (s : PStmt) (env : Env), opsS s = true → NI (tcStmt env s)
  | .expr e, env, hp => by
    simp only [opsS] at hp
    unfold tcStmt
    exact NI.bind (tcExpr_ni env e hp) (fun _ _ => NI.pure)
  | .decl n ty c init, env, hp => by
    simp only [opsS] at hp
    unfold tcStmt
    exact NI.bind (checkRedecl_ni _ _) (fun _ _ => NI.bind (tcExpr_ni env init hp) (fun _ _ => tcDecl_ni _ _ _ _ _))
  | .vla n el c len, env, hp => by
    simp only [opsS] at hp
    unfold tcStmt
    exact NI.bind (checkRedecl_ni _ _) (fun _ _ => NI.bind (tcExpr_ni env len hp) (fun _ _ => NI.bind (coerce_ni _ _) (fun _ _ => tcDecl_ni _ _ _ _ _)))
  | .assign l r, env, hp => by
    simp only [opsS, Bool.and_eq_true] at hp
    unfold tcStmt
    exact tcAssign_ni env l r hp.1 hp.2
  | .incassign l r op, env, hp => by
    simp only [opsS, Bool.and_eq_true] at hp
    obtain ⟨⟨hop, hl⟩, hr⟩ := hp
    obtain ⟨ha, hb⟩ := inc_arith op hop
    unfold tcStmt
    split
    · rename_i hn
      have hn' : arithOpOf op = none := hn
      rw [hn'] at ha; cases ha
    · refine NI.bind (tcAssign_ni env l (.bin op l r) hl (by simp only [opsE, hb, hl, hr, Bool.and_self])) (fun pr hpr => ?_)
      obtain ⟨env1, eq⟩ := pr
      obtain ⟨lk, e, rfl⟩ := tcAssign_shape hpr
      dsimp only
      exact NI.bind NI.pure (fun _ _ => NI.bind (tcExpr_ni env r hr) (fun _ _ => NI.pure))
  | .ret e, env, hp => by
    unfold tcStmt
    split
    · exact NI.tc
    · split
      · rename_i v
        simp only [opsS] at hp
        split
        · exact NI.tc
        · exact NI.bind (tcExpr_ni env v hp) (fun _ _ => NI.bind (coerce_ni _ _) (fun _ _ => NI.pure))
      · split <;> first | exact NI.tc | exact NI.pure
  | .brk, env, _ => by unfold tcStmt; exact NI.pure
  | .cont, env, _ => by unfold tcStmt; exact NI.pure
  | .block ss pre, env, hp => by
    simp only [opsS] at hp
    unfold tcStmt
    exact NI.bind (tcBlockGo_ni ss env.child [] _ _ hp) (fun _ _ => NI.pure)
  | .ifb c a b, env, hp => by
    simp only [opsS, Bool.and_eq_true] at hp
    unfold tcStmt
    refine NI.bind (tcStmt_ni a env hp.1.2) (fun _ _ => NI.bind (tcExpr_ni env c hp.1.1) (fun _ _ => NI.bind (cast_ni _ _ _) (fun _ _ => ?_)))
    exact NI.bind (tcStmt_ni b env hp.2) (fun _ _ => NI.pure)
  | .loop c a b, env, hp => by
    simp only [opsS, Bool.and_eq_true] at hp
    unfold tcStmt
    refine NI.bind (tcStmt_ni a env hp.1.2) (fun _ _ => NI.bind (tcExpr_ni env c hp.1.1) (fun _ _ => NI.bind (cast_ni _ _ _) (fun _ _ => ?_)))
    exact NI.bind (tcStmt_ni b env hp.2) (fun _ _ => NI.pure)
  | .tryb a k b, env, hp => by
    simp only [opsS, Bool.and_eq_true] at hp
    unfold tcStmt
    exact NI.bind (tcStmt_ni a env hp.1) (fun _ _ => NI.bind (tcStmt_ni b env hp.2) (fun _ _ => NI.pure))
  | .preempt a, env, hp => by
    simp only [opsS] at hp
    unfold tcStmt
    exact NI.bind (tcStmt_ni a env hp) (fun _ _ => NI.pure)

theorem tcBlockGo_ni : ∀ (ss : List PStmt) (env : Env) (acc : List TS) (mode : Nat) (fc : Bool), opsSs ss = true →
    NI (tcBlockGo env ss acc mode fc)
  | [], env, acc, mode, fc, _ => by unfold tcBlockGo; exact NI.pure
  | s :: rest, env, acc, mode, fc, hp => by
    simp only [opsSs, Bool.and_eq_true] at hp
    unfold tcBlockGo
    split
    · split <;> first | exact NI.tc | exact NI.pure
    · refine NI.bind (tcStmt_ni s env hp.1) (fun pr _ => ?_)
      obtain ⟨env1, t1⟩ := pr
      dsimp only
      exact tcBlockGo_ni rest env1 _ _ _ hp.2
end

end HidVerif.Hid.TC
