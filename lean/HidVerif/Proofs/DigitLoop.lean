import HidVerif.Proofs.WriteLib
/-!
# `write_int` and `write_state_byte_array` of the runtime library, for all `w ≥ 2`, all values
-/
namespace HidVerif.Sphinx
open HidVerif HidVerif.PSys HidVerif.Gen

theorem Placed.wi {p : Prog} {B : Nat} (hp : Placed p B) :
    PlacedAt p (B + off_write_int) (code_write_int p.w B) :=
  hp.routine (by simp [stdlibRoutineCode])

theorem Placed.wsba {p : Prog} {B : Nat} (hp : Placed p B) :
    PlacedAt p (B + off_write_state_byte_array) (code_write_state_byte_array p.w B) :=
  hp.routine (by simp [stdlibRoutineCode])

theorem Placed.wi_end {p : Prog} {B : Nat} (hp : Placed p B) :
    B + off_write_int + 31 < 256 ^ p.w := by
  have := hp.hB; simp [off_write_int, stdlibLength] at *; omega

theorem Placed.wsba_end {p : Prog} {B : Nat} (hp : Placed p B) :
    B + off_write_state_byte_array + 16 < 256 ^ p.w := by
  have := hp.hB; simp [off_write_state_byte_array, stdlibLength] at *; omega

/-! ### the push loop: from `write_int_push` (+20) to +25 -/
theorem push_loop (p : Prog) (B : Nat) (hp : Placed p B) :
    ∀ (n : Nat) (m : Mem) (F a : Nat),
      n / 10 < 256 ^ p.w / 2 → a < 256 ^ p.w → 5 * p.w + (digits n).length ≤ a → a ≤ m.size →
      Regs p.w m F a (n % 10) (n / 10) →
      ∃ m' r1', Reach (sphinx p) ⟨B + off_write_int + 20, m⟩ [] ⟨B + off_write_int + 25, m'⟩ ∧
        Regs p.w m' F (a - (digits n).length) r1' 0 ∧
        bytesAt m' (a - (digits n).length) (digits n).length = digits n ∧
        Same p.w m m' (a - (digits n).length) a := by
  have hw := hp.hw
  have hM := pow_ge2 p.w hw
  have h64 := mul_w_lt_pow p.w hw
  have hwi := hp.wi
  have hend := hp.wi_end
  intro n
  induction n using Nat.strongRecOn with
  | _ n ih =>
    intro m F a hn ha hroom hasz hr
    have c17 := hwi 17 (by simp [code_write_int]); have c18 := hwi 18 (by simp [code_write_int])
    have c19 := hwi 19 (by simp [code_write_int]); have c20 := hwi 20 (by simp [code_write_int])
    have c21 := hwi 21 (by simp [code_write_int]); have c22 := hwi 22 (by simp [code_write_int])
    have c23 := hwi 23 (by simp [code_write_int]); have c24 := hwi 24 (by simp [code_write_int])
    simp only [code_write_int, List.getElem_cons_succ, List.getElem_cons_zero] at c17 c18 c19 c20 c21 c22 c23 c24
    generalize hWI : B + off_write_int = WI at *
    have h5M : 5 * p.w < 256 ^ p.w := by omega
    have hk := digits_pos n
    have hsz := hr.sz
    -- 20: r1 := r1 + '0'
    have s20 := step_alu (m := m) c20 (hr.ev_r1 h5M) (ev_imm 48) alu_add
      (by unfold Prog.M; omega) (by omega)
    have e20 : (n % 10 + 48 % p.M) % p.M = n % 10 + 48 := by
      unfold Prog.M
      rw [Nat.mod_eq_of_lt (by omega : 48 < 256 ^ p.w)]; exact Nat.mod_eq_of_lt (by omega)
    rw [e20] at s20
    have hr3 := hr.set1 (n % 10 + 48) (by omega)
    -- 21: r0 := r0 - 1
    have s21 := step_alu (m := m.writeLE (3 * p.w) p.w (n % 10 + 48)) c21 (hr3.ev_r0 h5M) (ev_imm 1) alu_sub
      (by unfold Prog.M; omega) (by simp; omega)
    have e21 : (a + p.M - 1 % p.M % p.M) % p.M = a - 1 := by
      unfold Prog.M
      rw [Nat.mod_mod]; exact sub_mod_small (by omega) ha
    rw [e21] at s21
    have hr4 := hr3.set0 (a - 1) (by omega)
    -- 22: byte store
    have s22 := step_sbs (m := (m.writeLE (3 * p.w) p.w (n % 10 + 48)).writeLE (2 * p.w) p.w (a - 1)) c22
      (hr4.ev_r0 h5M) (hr4.ev_r1 h5M) (by unfold Prog.M; omega) (by simp; omega)
    have hr5 := hr4.setB (a - 1) (n % 10 + 48) (by omega)
    generalize hm5 : (((m.writeLE (3 * p.w) p.w (n % 10 + 48)).writeLE (2 * p.w) p.w (a - 1)).writeLE (a - 1) 1 (n % 10 + 48)) = m5 at *
    have hsz5 : m5.size = m.size := by rw [← hm5]; simp
    have hbyte : m5.rd (a - 1) = n % 10 + 48 := by
      rw [← hm5, Mem.rd_writeLE_one_same _ _ _ (by simp; omega)]; omega
    have hsame5 : Same p.w m m5 (a - 1) a := by
      refine ⟨hsz5, fun x hx hxr => ?_⟩
      rw [← hm5]
      rw [Mem.rd_writeLE_other _ _ _ _ _ (by omega), Mem.rd_writeLE_other _ _ _ _ _ (by omega),
          Mem.rd_writeLE_other _ _ _ _ _ (by omega)]
    have body : Reach (sphinx p) ⟨WI + 20, m⟩ [] ⟨WI + 23, m5⟩ := by
      have := (Reach.of_next (sys := sphinx p) s20).trans ((Reach.of_next (sys := sphinx p) s21).trans
        (Reach.of_next (sys := sphinx p) s22))
      simpa [evl] using this
    -- 23: j get_digits ; 24: hne r2, 0
    have s23 := step_j (m := m5) c23 (ev_imm (WI + 17))
    rw [show (WI + 17) % p.M = WI + 17 from Nat.mod_eq_of_lt (by unfold Prog.M; omega)] at s23
    have s24 := step_hcond (m := m5) c24 (hr5.ev_r2 h5M) (ev_imm 0)
    have s17 := step_hcond (m := m5) c17 (hr5.ev_r2 h5M) (ev_imm 0)
    simp only [haltCond, Nat.zero_mod] at s24 s17
    by_cases hlt : n < 10
    · -- last digit
      have hz : n / 10 = 0 := by omega
      rw [hz] at s24 s17
      simp at s24 s17
      have fall : Reach (sphinx p) ⟨WI + 23, m5⟩ [] ⟨WI + 25, m5⟩ :=
        Reach.jump_fallthrough (sys := sphinx p) s23 s24 (fun _ => Halts.halt (sys := sphinx p) s17)
      refine ⟨m5, n % 10 + 48, ?_, ?_, ?_, ?_⟩
      · simpa using body.trans fall
      · rw [digits_lt n hlt]; simpa [hz] using hr5
      · rw [digits_lt n hlt]; simp [bytesAt, hbyte]; omega
      · rw [digits_lt n hlt]; simpa using hsame5
    · -- more digits
      have hnz : n / 10 ≠ 0 := by omega
      simp [hnz] at s24 s17
      have back : Reach (sphinx p) ⟨WI + 23, m5⟩ [] ⟨WI + 17, m5⟩ :=
        Reach.jump_taken (sys := sphinx p) s23 s24
      have dg := digits_ge n hlt
      have hlen : (digits n).length = (digits (n / 10)).length + 1 := by rw [dg]; simp
      -- 18, 19 on n / 10
      have s18 := step_alu (m := m5) c18 (hr5.ev_r2 h5M) (ev_imm 10)
        (alu_mod10 (by unfold Prog.M; omega) (by unfold Prog.M; exact hn)) (by unfold Prog.M; omega) (by omega)
      have hr6 := hr5.set1 (n / 10 % 10) (by omega)
      have s19 := step_alu (m := m5.writeLE (3 * p.w) p.w (n / 10 % 10)) c19 (hr6.ev_r2 h5M) (ev_imm 10)
        (alu_div10 (by unfold Prog.M; omega) (by unfold Prog.M; exact hn)) (by unfold Prog.M; omega) (by simp; omega)
      have hr7 := hr6.set2 (n / 10 / 10) (by omega)
      generalize hm7 : ((m5.writeLE (3 * p.w) p.w (n / 10 % 10)).writeLE (4 * p.w) p.w (n / 10 / 10)) = m7 at *
      have hsame7 : Same p.w m5 m7 0 0 := by
        refine ⟨by rw [← hm7]; simp, fun x hx _ => ?_⟩
        rw [← hm7, Mem.rd_writeLE_other _ _ _ _ _ (by omega), Mem.rd_writeLE_other _ _ _ _ _ (by omega)]
      obtain ⟨m', r1', hreach, hregs, hbytes, hsame⟩ :=
        ih (n / 10) (by omega) m7 F (a - 1) (by omega) (by omega) (by omega)
          (by rw [hsame7.1, hsz5]; omega) hr7
      refine ⟨m', r1', ?_, ?_, ?_, ?_⟩
      · have := body.trans (back.trans ((Reach.of_next (sys := sphinx p) s17).trans
          ((Reach.of_next (sys := sphinx p) s18).trans ((Reach.of_next (sys := sphinx p) s19).trans hreach))))
        simpa [evl] using this
      · rw [hlen]; have : a - ((digits (n / 10)).length + 1) = a - 1 - (digits (n / 10)).length := by omega
        rw [this]; exact hregs
      · have e : a - (digits n).length = a - 1 - (digits (n / 10)).length := by omega
        rw [e, hlen, bytesAt_snoc, hbytes]
        have hx : a - 1 - (digits (n / 10)).length + (digits (n / 10)).length = a - 1 := by omega
        rw [hx, hsame.2 (a - 1) (by omega) (Or.inr (by omega)),
            hsame7.2 (a - 1) (by omega) (Or.inr (by omega)), hbyte, dg]
      · have e : a - (digits n).length = a - 1 - (digits (n / 10)).length := by omega
        refine ⟨by rw [hsame.1, hsame7.1, hsz5], fun x hx hxr => ?_⟩
        rw [e] at hxr
        rw [hsame.2 x hx (by omega), hsame7.2 x hx (Or.inr (by omega))]
        exact hsame5.2 x hx (by omega)

/-! ### the digit loop: from `write_int_get_digits_body` (+18) to +25 -/
theorem digit_loop (p : Prog) (B : Nat) (hp : Placed p B)
    (n : Nat) (m : Mem) (F a r1 : Nat)
    (hn : n < 256 ^ p.w / 2) (ha : a < 256 ^ p.w) (hroom : 5 * p.w + (digits n).length ≤ a)
    (hasz : a ≤ m.size) (hr : Regs p.w m F a r1 n) :
    ∃ m' r1', Reach (sphinx p) ⟨B + off_write_int + 18, m⟩ [] ⟨B + off_write_int + 25, m'⟩ ∧
      Regs p.w m' F (a - (digits n).length) r1' 0 ∧
      bytesAt m' (a - (digits n).length) (digits n).length = digits n ∧
      Same p.w m m' (a - (digits n).length) a := by
  have hw := hp.hw
  have hM := pow_ge2 p.w hw
  have h64 := mul_w_lt_pow p.w hw
  have hwi := hp.wi
  have c18 := hwi 18 (by simp [code_write_int]); have c19 := hwi 19 (by simp [code_write_int])
  simp only [code_write_int, List.getElem_cons_succ, List.getElem_cons_zero] at c18 c19
  have h5M : 5 * p.w < 256 ^ p.w := by omega
  have hsz := hr.sz
  have s18 := step_alu (m := m) c18 (hr.ev_r2 h5M) (ev_imm 10)
    (alu_mod10 (by unfold Prog.M; omega) (by unfold Prog.M; exact hn)) (by unfold Prog.M; omega) (by omega)
  have hr1 := hr.set1 (n % 10) (by omega)
  have s19 := step_alu (m := m.writeLE (3 * p.w) p.w (n % 10)) c19 (hr1.ev_r2 h5M) (ev_imm 10)
    (alu_div10 (by unfold Prog.M; omega) (by unfold Prog.M; exact hn)) (by unfold Prog.M; omega) (by simp; omega)
  have hr2 := hr1.set2 (n / 10) (by omega)
  generalize hm2 : ((m.writeLE (3 * p.w) p.w (n % 10)).writeLE (4 * p.w) p.w (n / 10)) = m2 at *
  have hsame2 : Same p.w m m2 0 0 := by
    refine ⟨by rw [← hm2]; simp, fun x hx _ => ?_⟩
    rw [← hm2, Mem.rd_writeLE_other _ _ _ _ _ (by omega), Mem.rd_writeLE_other _ _ _ _ _ (by omega)]
  obtain ⟨m', r1', hreach, hregs, hbytes, hsame⟩ :=
    push_loop p B hp n m2 F a (by omega) ha hroom (by rw [hsame2.1]; exact hasz) hr2
  refine ⟨m', r1', ?_, hregs, hbytes, ?_⟩
  · have := (Reach.of_next (sys := sphinx p) s18).trans ((Reach.of_next (sys := sphinx p) s19).trans hreach)
    simpa [evl] using this
  · refine ⟨by rw [hsame.1, hsame2.1], fun x hx hxr => ?_⟩
    rw [hsame.2 x hx hxr, hsame2.2 x hx (Or.inr (by omega))]


end HidVerif.Sphinx
