import HidVerif.Proofs.PrintLoop
/-!
# `write_int`: the whole routine, every word value, every `w ≥ 2`
-/
namespace HidVerif.Sphinx
open HidVerif HidVerif.PSys HidVerif.Gen

/-- from +25 (digits are in the buffer, `r0` points at them) to the return address -/
theorem wi_finish (p : Prog) (B : Nat) (hp : Placed p B)
    (m : Mem) (F ra r1 k : Nat) (ds : List Nat)
    (hk : 0 < k) (hkH : k < 256 ^ p.w / 2) (hroom : 5 * p.w + k + p.w ≤ F) (h7 : 7 * p.w ≤ F)
    (hFM : F < 256 ^ p.w) (hFsz : F ≤ m.size)
    (hr : Regs p.w m F (F - p.w - k) r1 0) (hb : bytesAt m (F - p.w - k) k = ds)
    (hra : m.readLE (F - p.w) p.w = ra) :
    ∃ m', Reach (sphinx p) ⟨B + off_write_int + 25, m⟩ (outs ds) ⟨ra, m'⟩ ∧ Same p.w m m' 0 0 := by
  have hw := hp.hw
  have hM := pow_ge2 p.w hw
  have h64 := mul_w_lt_pow p.w hw
  have hwi := hp.wi
  have hend := hp.wi_end
  have hend2 := hp.wsba_end
  have pl := print_loop p B hp
  have c25 := hwi 25 (by simp [code_write_int]); have c26 := hwi 26 (by simp [code_write_int])
  have c27 := hwi 27 (by simp [code_write_int]); have c28 := hwi 28 (by simp [code_write_int])
  simp only [code_write_int, List.getElem_cons_succ, List.getElem_cons_zero] at c25 c26 c27 c28
  generalize hWI : B + off_write_int = WI at *
  generalize hPL : B + off_write_state_byte_array = PL at *
  have h5M : 5 * p.w < 256 ^ p.w := by omega
  have hsz := hr.sz
  have t0 : toS (256 ^ p.w) 0 = 0 := by simpa using toS_small (M := 256 ^ p.w) (x := 0) (by omega)
  -- 25: r1 := fp - r0
  have s25 := step_alu (m := m) c25 (hr.ev_fp h5M) (hr.ev_r0 h5M) alu_sub (by unfold Prog.M; omega) (by omega)
  have e25 : (F + p.M - (F - p.w - k) % p.M) % p.M = p.w + k := by
    unfold Prog.M
    rw [Nat.mod_eq_of_lt (by omega : F - p.w - k < 256 ^ p.w)]
    have : F + 256 ^ p.w - (F - p.w - k) = (p.w + k) + 256 ^ p.w := by omega
    rw [this, Nat.add_mod_right]; exact Nat.mod_eq_of_lt (by omega)
  rw [e25] at s25
  have hr25 := hr.set1 (p.w + k) (by omega)
  -- 26: r1 := r1 - w
  have s26 := step_alu (m := m.writeLE (3 * p.w) p.w (p.w + k)) c26 (hr25.ev_r1 h5M) (ev_imm p.w) alu_sub
    (by unfold Prog.M; omega) (by simp; omega)
  have e26 : (p.w + k + p.M - p.w % p.M % p.M) % p.M = k := by
    unfold Prog.M
    rw [Nat.mod_mod]
    have := sub_mod_small (M := 256 ^ p.w) (a := p.w + k) (b := p.w) (by omega) (by omega)
    rw [this]; omega
  rw [e26] at s26
  have hr26 := hr25.set1 k (by omega)
  generalize hm3 : ((m.writeLE (3 * p.w) p.w (p.w + k)).writeLE (3 * p.w) p.w k) = m3 at *
  have hsame3 : Same p.w m m3 0 0 := by
    refine ⟨by rw [← hm3]; simp, fun x hx _ => ?_⟩
    rw [← hm3, Mem.rd_writeLE_other _ _ _ _ _ (by omega), Mem.rd_writeLE_other _ _ _ _ _ (by omega)]
  -- 27/28: j print_loop ; hgt r1, 0 fires
  have s27 := step_j (m := m3) c27 (ev_imm (PL + 6))
  rw [show (PL + 6) % p.M = PL + 6 from Nat.mod_eq_of_lt (by unfold Prog.M; omega)] at s27
  have s28 := step_hcond (m := m3) c28 (hr26.ev_r1 h5M) (ev_imm 0)
  simp only [haltCond, Nat.zero_mod, Prog.M, toS_small hkH, t0] at s28
  have : ((k : Int) > 0) := by omega
  simp only [this, decide_true, if_true] at s28
  have j27 : Reach (sphinx p) ⟨WI + 27, m3⟩ [] ⟨PL + 6, m3⟩ := Reach.jump_taken (sys := sphinx p) s27 s28
  have hra3 : m3.readLE (F - p.w) p.w = ra := by
    rw [← hra]; apply Mem.readLE_congr; intro x h1 _
    exact hsame3.2 x (by omega) (Or.inr (by omega))
  have hb3 : bytesAt m3 (F - p.w - k) k = ds :=
    (bytesAt_congr m m3 _ _ (fun x h1 _ => hsame3.2 x (by omega) (Or.inr (by omega)))).trans hb
  obtain ⟨m4, hpl, hsame4⟩ := pl k m3 F (F - p.w - k) 0 ra hk hkH (by omega) (by omega)
    (by rw [hsame3.1]; omega) (by omega) hFM (by rw [hsame3.1]; exact hFsz) hra3 hr26
  refine ⟨m4, ?_, ?_⟩
  · have := (Reach.of_next (sys := sphinx p) s25).trans ((Reach.of_next (sys := sphinx p) s26).trans (j27.trans hpl))
    rw [hb3] at this
    simpa [evl] using this
  · exact ⟨hsame4.1.trans hsame3.1, fun x hx hxr => by rw [hsame4.2 x hx hxr]; exact hsame3.2 x hx hxr⟩

theorem digits_len_lt_half {M n : Nat} (hM : 65536 ≤ M) (hn : n ≤ M / 2) : (digits n).length < M / 2 := by
  by_cases h0 : n = 0
  · subst h0; rw [digits_lt 0 (by omega)]; simp; omega
  · by_cases h10 : n < 10
    · rw [digits_lt n h10]; simp; omega
    · have := digits_ge n h10
      have h1 := digits_len_le (n / 10) (by omega)
      rw [this]; simp; omega

/-- magnitude of the signed reading -/
def absW (M v : Nat) : Nat := if v < M / 2 then v else M - v

/-- from +14 (`write_int_pos`) with a non-negative value in `r2` to the return address -/
theorem wi_pos (p : Prog) (B : Nat) (hp : Placed p B)
    (m : Mem) (F n ra r1 : Nat)
    (hn : n < 256 ^ p.w / 2) (hroom : 5 * p.w + (digits n).length + p.w ≤ F) (h7 : 7 * p.w ≤ F)
    (hFM : F < 256 ^ p.w) (hFsz : F ≤ m.size)
    (hr : Regs p.w m F (F - p.w) r1 n) (hra : m.readLE (F - p.w) p.w = ra) :
    ∃ m', Reach (sphinx p) ⟨B + off_write_int + 14, m⟩ (outs (digits n)) ⟨ra, m'⟩ ∧
      Same p.w m m' (F - p.w - (digits n).length) (F - p.w) := by
  have hw := hp.hw
  have hM := pow_ge2 p.w hw
  have h64 := mul_w_lt_pow p.w hw
  have hwi := hp.wi
  have hend := hp.wi_end
  have dl := digit_loop p B hp
  have fin := wi_finish p B hp
  have c14 := hwi 14 (by simp [code_write_int]); have c15 := hwi 15 (by simp [code_write_int])
  have c16 := hwi 16 (by simp [code_write_int])
  simp only [code_write_int, List.getElem_cons_succ, List.getElem_cons_zero] at c14 c15 c16
  generalize hWI : B + off_write_int = WI at *
  have h5M : 5 * p.w < 256 ^ p.w := by omega
  have hsz := hr.sz
  have t0 : toS (256 ^ p.w) 0 = 0 := by simpa using toS_small (M := 256 ^ p.w) (x := 0) (by omega)
  have s14 := step_hcond (m := m) c14 (hr.ev_r2 h5M) (ev_imm 0)
  simp only [haltCond, Nat.zero_mod, Prog.M, toS_small hn, t0] at s14
  have : ¬ ((n : Int) < 0) := by omega
  simp only [this, decide_false, Bool.false_eq_true, if_false] at s14
  have s15 := step_j (m := m) c15 (ev_imm (WI + 18))
  rw [show (WI + 18) % p.M = WI + 18 from Nat.mod_eq_of_lt (by unfold Prog.M; omega)] at s15
  have s16 := step_halt (m := m) c16
  have j15 : Reach (sphinx p) ⟨WI + 15, m⟩ [] ⟨WI + 18, m⟩ := Reach.jump_taken (sys := sphinx p) s15 s16
  have hklt := digits_len_lt_half hM (by omega : n ≤ 256 ^ p.w / 2)
  obtain ⟨m2, r1', hdl, hr2, hbytes, hsame2⟩ :=
    dl n m F (F - p.w) r1 hn (by omega) (by omega) (by omega) hr
  have hra2 : m2.readLE (F - p.w) p.w = ra := by
    rw [← hra]; apply Mem.readLE_congr; intro x h1 _
    exact hsame2.2 x (by omega) (Or.inr (by omega))
  obtain ⟨m4, hfin, hsame4⟩ := fin m2 F ra r1' (digits n).length (digits n) (digits_pos n) hklt
    hroom h7 hFM (by rw [hsame2.1]; exact hFsz) hr2 hbytes hra2
  refine ⟨m4, ?_, ?_⟩
  · have := (Reach.of_next (sys := sphinx p) s14).trans (j15.trans (hdl.trans hfin))
    simpa [evl] using this
  · exact ⟨hsame4.1.trans hsame2.1, fun x hx hxr => by
      rw [hsame4.2 x hx (Or.inr (by omega))]; exact hsame2.2 x hx hxr⟩

end HidVerif.Sphinx
