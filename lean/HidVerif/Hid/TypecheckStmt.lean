import HidVerif.Hid.Typecheck
import HidVerif.Hid.ParseRender
/-!
# Typechecker model, continued: statements, blocks with exit-mode analysis, functions, program;
rendering of the typed tree in the format of `harness/dump_ast.py`
-/
namespace HidVerif.Hid.TC
open HidVerif.Hid HidVerif.Hid.Lex HidVerif.Hid.Parse HidVerif.Gen

/-! ## exit modes (`ExitMode` flag of blocks.py; values from `Gen.exitModes`) -/
def em (name : String) : Nat := (exitModes.lookup name).getD 0
def emHas (m : Nat) (name : String) : Bool := Nat.land m (em name) == em name && em name != 0
/-- `mode.replace(old, new)` = `(mode & ~old) | new` -/
def emReplace (m old new : Nat) : Nat := Nat.lor (Nat.land m (255 - old)) new

inductive TS
  | expr (e : TE)
  | decl (name : List CP) (ty : Ty) (const : Bool) (init : TE)
  | assign (l r : TE)
  | incassign (l r : TE) (op : BinOp) (ty : Ty)
  | ret (e : Option TE) | brk | cont
  | block (ss : List TS) (mode : Nat)
  | ifb (c : TE) (t e : TS)
  | loop (c : TE) (body cont : TS)
  | tryb (body : TS) (k : HandlerKind) (handler : TS)
  | preempt (body : TS)
  deriving Repr, Inhabited

def exitModesOf : TS → Nat
  | .block _ m => m
  | .ifb _ t e => Nat.lor (exitModesOf t) (exitModesOf e)
  | .loop c body _ =>
    let m := exitModesOf body
    let trivialInfinite := match c with | .boolv true => true | _ => false
    if !emHas m "BREAK" && trivialInfinite then emReplace m (em "NONE") (em "LOOP")
    else emReplace m (em "BREAK") (em "NONE")
  | .tryb body _ h => emReplace (exitModesOf body) (em "DEFEAT") (exitModesOf h)
  | .preempt body => Nat.lor (exitModesOf body) (em "NONE")
  | _ => 0

def isAssignableTE : TE → Option Bool      -- some const? for assignable nodes
  | .var _ _ c => some c
  | .index s _ => some (match typeOf s with | .string => true | .arr _ c => c | _ => true)
  | _ => none

def arithCls (op : String) : Option BinOp := arithOpOf op

/-- the redeclaration check of `Declaration.evaluate` (it precedes the evaluation of the initialiser) -/
def checkRedecl (env : Env) (n : List CP) : R Unit :=
  match env.lookup n with
  | some _ => if env.isGlobal || env.inLocals n then throw (.tc "Redeclaration of variable") else pure ()
  | none => pure ()

/-- `Declaration.evaluate` -/
def tcDecl (env : Env) (n : List CP) (ty : Ty) (const : Bool) (init : TE) : R (Env × TS) := do
  checkRedecl env n
  let i ← coerce init ty
  match i with
  | .cast .vol _ => throw (.tc "Cannot declare as const with non-const reference initializer")
  | _ => pure (env.declare ⟨n, ty, const, i⟩, .decl n ty const i)

/-- `Assignment.evaluate` -/
def tcAssign (env : Env) (l r : PExpr) : R (Env × TS) := do
  let lk ← tcExpr env l
  match isAssignableTE lk with
  | some false =>
    let e ← tcExpr env r
    let e ← coerce e (typeOf lk)
    pure (env, .assign lk e)
  | _ => throw (.tc "Cannot assign to const")

/-- how a typed statement changes the exit modes collected so far in a block, and whether it is a `continue` -/
def stepMode (mode : Nat) (t : TS) : Nat × Bool :=
  let none_ := em "NONE"
  match t with
  | .block _ _ | .ifb _ _ _ | .loop _ _ _ | .tryb _ _ _ | .preempt _ => (emReplace mode none_ (exitModesOf t), false)
  | .ret _ => (emReplace mode none_ (em "RETURN"), false)
  | .brk => (emReplace mode none_ (em "BREAK"), false)
  | .cont => (mode, true)
  | .expr (.call n fl args _ _) =>
    if fl == .defeat && n == cps "is_defeat" && args.isEmpty then (emReplace mode none_ (em "DEFEAT"), false)
    else if fl == .none && (n == cps "all_is_win" || n == cps "all_is_broken") && args.isEmpty then
      (emReplace mode none_ (em "LOOP"), false)
    else if fl == .defeat then (Nat.lor mode (em "DEFEAT"), false)
    else (mode, false)
  | _ => (mode, false)

mutual
def tcStmt (env : Env) : PStmt → R (Env × TS)
  | .expr e => do let t ← tcExpr env e; pure (env, .expr t)
  | .decl n ty c init => do
    checkRedecl env n
    let i ← tcExpr env init
    tcDecl env n ty c i
  | .vla n el c len => do
    checkRedecl env n
    let l ← tcExpr env len
    let l ← coerce l .int
    tcDecl env n (.arr el c) true (.arrinit el l)
  | .assign l r => tcAssign env l r
  | .incassign l r op => do
    match arithCls op with
    | none => throw (.internal "bad compound operator")
    | some aop =>
      -- type-equivalent assignment  l = l op r
      let (_, eq) ← tcAssign env l (.bin op l r)
      let lk ← match eq with | .assign lk _ => pure lk | _ => throw (.internal "equiv")
      let e ← tcExpr env r
      pure (env, .incassign lk e aop (typeOf lk))
  | .ret e => do
    match env.retTy with
    | none => throw (.tc "Unexpected return statement")
    | some rt =>
      match e with
      | some v =>
        if rt == .empty then throw (.tc "Unexpected return value in function returning empty") else
        let t ← tcExpr env v
        let t ← coerce t rt
        pure (env, .ret (some t))
      | none => if rt != .empty then throw (.tc "Missing return value") else pure (env, .ret none)
  | .brk => pure (env, .brk)
  | .cont => pure (env, .cont)
  | .block ss _ => do let b ← tcBlockGo env.child ss [] (em "NONE") false; pure (env, b)
  | .ifb c t e => do
    let tb ← tcStmt env t
    let cc ← tcExpr env c
    let cc ← cast cc .bool
    let eb ← tcStmt env e
    pure (env, .ifb cc tb.2 eb.2)
  | .loop c body cont => do
    let b ← tcStmt env body
    let cc ← tcExpr env c
    let cc ← cast cc .bool
    let k ← tcStmt env cont
    pure (env, .loop cc b.2 k.2)
  | .tryb body k h => do
    let b ← tcStmt env body
    let hb ← tcStmt env h
    pure (env, .tryb b.2 k hb.2)
  | .preempt body => do
    let b ← tcStmt env body
    pure (env, .preempt b.2)

/-- the loop of `CodeBlock.evaluate`: reachability and exit modes -/
def tcBlockGo (env : Env) (ss : List PStmt) (acc : List TS) (mode : Nat) (foundContinue : Bool) : R TS :=
  match ss with
  | [] => pure (.block acc.reverse mode)
  | s :: rest =>
    if !emHas mode "NONE" || foundContinue then
      if env.lint then throw (.tc "Unreachable statement") else pure (.block acc.reverse mode)
    else do
      let (env', t) ← tcStmt env s
      let (mode', fc) := stepMode mode t
      tcBlockGo env' rest (t :: acc) mode' (foundContinue || fc)
end

/-- `CodeBlock.evaluate`: a child scope, reachability and exit modes -/
def tcBlock (env : Env) (ss : List PStmt) : R TS := tcBlockGo env.child ss [] (em "NONE") false

structure TFunc where
  name : List CP
  fl : Flavor
  ret : Ty
  preemptive : Bool
  params : List (List CP × Ty)
  body : TS
  deriving Repr, Inhabited

mutual
def hasPreempt : PStmt → Bool
  | .block ss _ => hasPreemptAny ss
  | .ifb _ t e => hasPreempt t || hasPreempt e
  | .loop _ b k => hasPreempt b || hasPreempt k
  | .tryb b _ h => hasPreempt b || hasPreempt h
  | .preempt _ => true
  | _ => false
def hasPreemptAny : List PStmt → Bool
  | [] => false
  | s :: rest => hasPreempt s || hasPreemptAny rest
end

/-- the end of `FuncDefinition.evaluate`: the exit modes of the body decide whether a `return;` is appended -/
def finishBody (fl : Flavor) (ret : Ty) (body : TS) (mode : Nat) : R TS :=
  if emHas mode "BREAK" then throw (.internal "assert BREAK not in exit_modes")
  else if emHas mode "DEFEAT" && fl != .defeat then throw (.internal "assert DEFEAT only in defeat functions")
  else if emHas mode "NONE" then
    if ret != .empty then throw (.tc "Missing return statement") else
    match body with
    | .block stmts m => pure (TS.block (stmts ++ [.ret none]) (emReplace m (em "NONE") (em "RETURN")))
    | b => pure b
  else pure body

def bodyStmts : PStmt → List PStmt
  | .block ss _ => ss
  | s => [s]

def tcFunc (env : Env) (f : PFunc) : R TFunc := do
  let env1 ← f.params.foldlM (fun (e : Env) (p : List CP × Ty × Bool) => do
      let (e', _) ← tcDecl e p.1 p.2.1 p.2.2 (.param p.2.1)
      pure e') { env.child with retTy := some f.ret }
  let body ← tcBlock env1 (bodyStmts f.body)
  let body ← finishBody f.fl f.ret body (exitModesOf body)
  pure ⟨f.name, f.fl, f.ret, hasPreempt f.body, f.params.map (fun p => (p.1, p.2.1)), body⟩

structure TProgram where
  globals : List VarDecl
  funcs : List TFunc
  deriving Inhabited

def builtinSigs : List FuncSig :=
  builtinStubs.map (fun (n, fl, ptys, ret) => ⟨cps n, fl, ptys, ret, true⟩)

/-- `Program.evaluate` -/
def tcProgram (lint : Bool) (p : PProgram) : R TProgram := do
  -- add_funcs: builtins, then user functions (duplicate signatures are rejected)
  let funcs ← p.funcs.foldlM (fun (acc : List FuncSig) (f : PFunc) =>
      let ptys := f.params.map (fun q => q.2.1)
      if acc.any (fun g => g.name == f.name && g.fl == f.fl && g.ptys == ptys) then throw (TErr.tc "Redefinition of function")
      else pure (acc ++ [⟨f.name, f.fl, ptys, f.ret, false⟩])) builtinSigs
  let env0 : Env := { scopes := [[]], funcs := funcs, lint := lint, retTy := none }
  let env ← p.vars.foldlM (fun (e : Env) (s : PStmt) => do let (e', _) ← tcStmt e s; pure e') env0
  let fs ← p.funcs.mapM (tcFunc env)
  pure ⟨(env.scopes.getLastD []).reverse, fs⟩

/-! ## rendering in the format of `harness/dump_ast.py` -/
def hexOf (bs : List Nat) : String := "".intercalate (bs.map Parse.hex2)
def nameHex (n : List CP) : String := "n" ++ hexOf ((n.filterMap utf8).flatten)

partial def rTE : TE → String
  | .intv v b _ => s!"(lit {if b then "byte" else "int"} {v})"
  | .boolv b => s!"(lit bool {if b then 1 else 0})"
  | .strv bs => "(str x" ++ hexOf bs ++ ")"
  | .cast k e => s!"(cast {match k with | .b2i => "b2i" | .i2b => "i2b" | .i2bool => "i2bool" | .bool2b => "bool2b" | .s2a => "s2a" | .vol => "vol"} {rTE e})"
  | .var n _ _ => s!"(var {nameHex n})"
  | .index s i => s!"(index {rTE s} {rTE i})"
  | .len s => s!"(len {rTE s})"
  | .call n fl args _ _ =>
    let full := (match fl with | .none => [] | .you => [64] | .defeat => [33]) ++ n
    s!"(call {nameHex full} ({" ".intercalate (args.map (fun a => Parse.rTy (typeOf a)))}) ({" ".intercalate (args.map rTE)}))"
  | .arrlit vals t _ => s!"(arrlit {Parse.rTy (match t with | .arr el _ => el | x => x)} ({" ".intercalate (vals.map rTE)}))"
  | .arrinit el l => s!"(arrinit {Parse.rTy el} {rTE l})"
  | .arith op l r _ => s!"(bin {opName op} {rTE l} {rTE r})"
  | .unarith op e _ => s!"(un {match op with | .pos => "pos" | .neg => "neg" | .not => "not"} {rTE e})"
  | .boolop op l r => s!"(bin {opName op} {rTE l} {rTE r})"
  | .notop e => s!"(un not {rTE e})"
  | .spec l r => s!"(spec {rTE l} {rTE r})"
  | .param _ => "(param)"
where
  opName : BinOp → String
    | .add => "add" | .sub => "sub" | .mul => "mul" | .div => "div" | .mod => "mod" | .lt => "lt" | .gt => "gt"
    | .le => "le" | .ge => "ge" | .eq => "eq" | .ne => "ne" | .and => "and" | .or => "or"

partial def rTS : TS → String
  | .expr e => s!"(expr {rTE e})"
  | .decl n t _ i => s!"(decl {nameHex n} {Parse.rTy t} {rTE i})"
  | .assign l r => s!"(assign {rTE l} {rTE r})"
  | .incassign l r op t => s!"(incassign {rTE l} {rTE r} {rTE.opName op} {Parse.rTy t})"
  | .ret none => "(ret)" | .ret (some e) => s!"(ret {rTE e})"
  | .brk => "(break)" | .cont => "(continue)"
  | .block ss _ => "(block " ++ " ".intercalate (ss.map rTS) ++ ")"
  | .ifb c t e => s!"(if {rTE c} {rTS t} {rTS e})"
  | .loop c b k => s!"(loop {rTE c} {rTS b} {rTS k})"
  | .tryb b k h => s!"(try {rTS b} {match k with | .undo => "undo" | .stop => "stop"} {rTS h})"
  | .preempt b => s!"(preempt {rTS b})"

def rTProgram (p : TProgram) : String :=
  let gs := p.globals.map (fun d => s!"(g {nameHex d.name} {Parse.rTy d.ty} {if d.const then 1 else 0} {rTE d.init})")
  let fs := p.funcs.map (fun f =>
    let full := (match f.fl with | .none => [] | .you => [64] | .defeat => [33]) ++ f.name
    s!"(f {nameHex full} {Parse.rTy f.ret} {if f.preemptive then 1 else 0} ({" ".intercalate (f.params.map (fun (n, t) => s!"(p {nameHex n} {Parse.rTy t})"))}) {rTS f.body})")
  s!"(prog ({" ".intercalate gs}) ({" ".intercalate fs}))"

/-- whole front end: source text → typed tree or error class -/
def frontEnd (lint : Bool) (src : List Line) : String :=
  match Parse.parse src with
  | .error (.lexer c) => s!"LexerError {c.line}:{c.col}"
  | .error (.parser c) => s!"ParserError {c.line}:{c.col}"
  | .error .fuel => "FUEL"
  | .ok p =>
    match tcProgram lint p with
    | .ok t => "ok " ++ rTProgram t
    | .error (.tc _) => "TypeCheckError"
    | .error (.internal m) => "INTERNAL " ++ m

end HidVerif.Hid.TC
