import HidVerif.Hid.TypecheckStmt
/-!
# The documented typing rules, as executable predicates on typed trees

`wtE`, `wtS`, `wtProg` say what a typed tree must look like for the code generator's
assumptions to hold: operands of arithmetic are `int`, conditions are `bool`, every call node
carries arguments of exactly the parameter types of a declared overload, assignment targets are
mutable variables or elements of mutable arrays, a `return` carries a value exactly when the
function returns one and of exactly that type, array literals have a scalar non-empty element
type all elements have or can be coerced to, and casts are between the types the cast table allows.
`Proofs/TypeSound.lean` proves that every program the typechecker model accepts has such a tree.

`ptyE`/`ptyS`/`ptyProg` is the corresponding statement about the *parse* tree: the types written
in the source are scalars or arrays of scalars (the grammar has no other types).
-/
namespace HidVerif.Hid.TC
open HidVerif.Hid HidVerif.Hid.Lex HidVerif.Hid.Parse HidVerif.Gen

/-- not an array of arrays -/
def noNest : Ty → Bool
  | .arr el _ => !isArr el
  | _ => true

def isArithOp : BinOp → Bool
  | .add => true | .sub => true | .mul => true | .div => true | .mod => true | _ => false

/-- operand types of a cast node -/
def castSrcOK : CastK → Ty → Bool
  | .b2i, t => t == .byte
  | .i2b, t => t == .int
  | .i2bool, t => t == .int
  | .bool2b, t => t == .bool
  | .s2a, t => t == .string
  | .vol, t => match t with | .arr _ false => true | _ => false

def boolopOK (op : BinOp) (a b : Ty) : Bool :=
  match op with
  | .and | .or => a == .bool && b == .bool
  | .lt | .gt | .le | .ge => a == .int && b == .int
  | .eq | .ne => (a == .bool && b == .bool) || (a == .int && b == .int)
  | _ => false

def allTy (es : List TE) (t : Ty) : Bool :=
  match es with
  | [] => true
  | e :: rest => typeOf e == t && allTy rest t

mutual
def wtE (fs : List FuncSig) : TE → Bool
  | .intv _ _ _ => true
  | .boolv _ => true
  | .strv _ => true
  | .param ty => tyOK ty
  | .var _ ty _ => tyOK ty
  | .cast k e => wtE fs e && castSrcOK k (typeOf e)
  | .index s i => wtE fs s && wtE fs i && typeOf i == .int && (isArr (typeOf s) || typeOf s == .string)
  | .len s => wtE fs s && (isArr (typeOf s) || typeOf s == .string)
  | .call n fl args ptys ret =>
    wtEs fs args && args.map typeOf == ptys &&
      fs.any (fun f => f.name == n && f.fl == fl && f.ptys == ptys && f.ret == ret)
  | .arrlit vals ty locked =>
    wtEs fs vals &&
      (match ty with
       | .arr el _ =>
         if el == .empty then vals.isEmpty && !locked
         else scalarTy el && (if locked then allTy vals el else coercibleAll vals el)
       | _ => false)
  | .arrinit el len => wtE fs len && typeOf len == .int && scalarTy el
  | .arith op l r _ => wtE fs l && wtE fs r && typeOf l == .int && typeOf r == .int && isArithOp op
  | .unarith op e _ => wtE fs e && typeOf e == .int && op != .not
  | .boolop op l r => wtE fs l && wtE fs r && boolopOK op (typeOf l) (typeOf r)
  | .notop e => wtE fs e && typeOf e == .bool
  | .spec l r => wtE fs l && wtE fs r && typeOf r == typeOf l &&
      (typeOf l == .byte || typeOf l == .int || typeOf l == .bool)

def wtEs (fs : List FuncSig) : List TE → Bool
  | [] => true
  | e :: rest => wtE fs e && wtEs fs rest
end

mutual
def wtS (fs : List FuncSig) (rt : Ty) : TS → Bool
  | .expr e => wtE fs e
  | .decl _ ty _ init => wtE fs init && typeOf init == ty && tyOK ty
  | .assign l r => wtE fs l && wtE fs r && typeOf r == typeOf l && isAssignableTE l == some false
  | .incassign l r op ty => wtE fs l && wtE fs r && ty == typeOf l && isAssignableTE l == some false && isArithOp op &&
      coercible l .int && coercible r .int
  | .ret (some e) => wtE fs e && typeOf e == rt && rt != .empty
  | .ret none => rt == .empty
  | .brk => true
  | .cont => true
  | .block ss _ => wtSs fs rt ss
  | .ifb c t e => wtE fs c && typeOf c == .bool && wtS fs rt t && wtS fs rt e
  | .loop c b k => wtE fs c && typeOf c == .bool && wtS fs rt b && wtS fs rt k
  | .tryb b _ h => wtS fs rt b && wtS fs rt h
  | .preempt b => wtS fs rt b

def wtSs (fs : List FuncSig) (rt : Ty) : List TS → Bool
  | [] => true
  | s :: rest => wtS fs rt s && wtSs fs rt rest
end

/-- the signatures a typed program's calls are judged against: the built-ins, then the program's own functions -/
def sigsOf (p : TProgram) : List FuncSig :=
  builtinSigs ++ p.funcs.map (fun f => ⟨f.name, f.fl, f.params.map (·.2), f.ret, false⟩)

/-- a declaration as the environment records it -/
def declOK (fs : List FuncSig) (d : VarDecl) : Bool := tyOK d.ty && wtE fs d.init && typeOf d.init == d.ty

def wtProgWith (fs : List FuncSig) (p : TProgram) : Bool :=
  p.globals.all (declOK fs) && p.funcs.all (fun f => wtS fs f.ret f.body)

def wtProg (p : TProgram) : Bool := wtProgWith (sigsOf p) p

/-- the signatures of a source program: the built-ins, then its functions in order -/
def progSigs (p : PProgram) : List FuncSig :=
  builtinSigs ++ p.funcs.map (fun f => ⟨f.name, f.fl, f.params.map (fun q => q.2.1), f.ret, false⟩)

/-! ## the types written in the source -/
mutual
def ptyE : PExpr → Bool
  | .arrlit items => ptyEs items
  | .call _ _ args => ptyEs args
  | .len e => ptyE e
  | .index e i => ptyE e && ptyE i
  | .un _ e => ptyE e
  | .is_ e ty => ptyE e && tgtOK ty
  | .bin _ l r => ptyE l && ptyE r
  | .spec l r => ptyE l && ptyE r
  | _ => true
def ptyEs : List PExpr → Bool
  | [] => true
  | e :: rest => ptyE e && ptyEs rest
end

mutual
def ptyS : PStmt → Bool
  | .expr e => ptyE e
  | .decl _ ty _ init => tyOK ty && ptyE init
  | .vla _ el _ len => scalarTy el && ptyE len
  | .assign l r => ptyE l && ptyE r
  | .incassign l r _ => ptyE l && ptyE r
  | .ret (some e) => ptyE e
  | .ret none => true
  | .brk => true
  | .cont => true
  | .block ss _ => ptySs ss
  | .ifb c t e => ptyE c && ptyS t && ptyS e
  | .loop c b k => ptyE c && ptyS b && ptyS k
  | .tryb b _ h => ptyS b && ptyS h
  | .preempt b => ptyS b
def ptySs : List PStmt → Bool
  | [] => true
  | s :: rest => ptyS s && ptySs rest
end

def ptyFunc (f : PFunc) : Bool :=
  (tyOK f.ret || f.ret == .empty) && f.params.all (fun q => tyOK q.2.1) && ptyS f.body

def ptyProg (p : PProgram) : Bool := ptySs p.vars && p.funcs.all ptyFunc

end HidVerif.Hid.TC
