import HidVerif.Hid.Machine
/-!
# Compile-time evaluation (constant folding) as the typechecker performs it

`ArithmeticOp.simplify`, `BooleanOp.simplify` and `IntValue.cast` compute with Python's
unbounded integers (`operator.add/sub/mul`, `//`, `%`, comparisons, `bool(a and b)`, `& 0xFF`).
`evalZ` is that computation; `evalW` is what the same expression computes at run time on
`w`-byte words (the reference semantics' `binArith`).  The correspondence of `evalZ` with the
Python operators is checked on a grid by the harness (suite `fold`).
-/
namespace HidVerif.Hid

inductive CExpr
  | lit (v : Int)
  | bin (op : BinOp) (l r : CExpr)
  | un (op : UnOp) (e : CExpr)
  | toByte (e : CExpr)      -- `e is byte` on an int (after the D5 fix: `& 0xFF`)
  | toBool (e : CExpr)      -- `e is bool`
  deriving Repr, Inhabited

def b2i (b : Bool) : Int := if b then 1 else 0

/-- exact (unbounded) evaluation; `none` = the typechecker reports division by zero -/
def evalZ : CExpr → Option Int
  | .lit v => some v
  | .bin op l r =>
    match evalZ l, evalZ r with
    | some a, some b =>
      match op with
      | .add => some (a + b) | .sub => some (a - b) | .mul => some (a * b)
      | .div => if b = 0 then none else some (Int.fdiv a b)
      | .mod => if b = 0 then none else some (Int.fmod a b)
      | .lt => some (b2i (a < b)) | .gt => some (b2i (a > b)) | .le => some (b2i (a ≤ b))
      | .ge => some (b2i (a ≥ b)) | .eq => some (b2i (a = b)) | .ne => some (b2i (a ≠ b))
      | .and => some (b2i (a ≠ 0 ∧ b ≠ 0)) | .or => some (b2i (a ≠ 0 ∨ b ≠ 0))
    | _, _ => none
  | .un op e =>
    match evalZ e with
    | some a => (match op with | .pos => some a | .neg => some (-a) | .not => some (b2i (a = 0)))
    | none => none
  | .toByte e => (evalZ e).map (fun a => a % 256)
  | .toBool e => (evalZ e).map (fun a => b2i (a ≠ 0))

/-- run-time evaluation on words; `none` = division_by_zero fault -/
def evalW (E : Env) : CExpr → Option Nat
  | .lit v => some (E.wrap v)
  | .bin op l r =>
    match evalW E l, evalW E r with
    | some a, some b => binArith E op a b
    | _, _ => none
  | .un op e =>
    match evalW E e with
    | some a => (match op with
      | .pos => some a | .neg => some ((E.M - a % E.M) % E.M) | .not => some (if a != 0 then 0 else 1))
    | none => none
  | .toByte e => (evalW E e).map (fun a => a % 256)
  | .toBool e => (evalW E e).map (fun a => if a != 0 then 1 else 0)

/-- every value the exact evaluation passes through is representable as a signed word -/
def InRange (H : Int) : CExpr → Prop
  | .lit v => -H ≤ v ∧ v < H
  | .bin op l r => InRange H l ∧ InRange H r ∧ (∀ v, evalZ (.bin op l r) = some v → -H ≤ v ∧ v < H)
  | .un op e => InRange H e ∧ (∀ v, evalZ (.un op e) = some v → -H ≤ v ∧ v < H)
  | .toByte e => InRange H e
  | .toBool e => InRange H e

end HidVerif.Hid
