import HidVerif.Hid.Parser
import HidVerif.Gen.Builtins
/-!
# Model of the typechecker (`evaluate` methods of hidc/ast/*.py)

`TE` is a typechecked expression as `evaluate` returns it, with the attributes the rules
depend on (type, shrinkability of literals and arithmetic, locking of array literals).
`tcProgram` returns the typed program in the shape `harness/dump_ast.py` dumps, so the model is
compared with the real typechecker tree by tree (suite `tc`), and accept/reject by class.
-/
namespace HidVerif.Hid.TC
open HidVerif.Hid HidVerif.Hid.Lex HidVerif.Hid.Parse HidVerif.Gen

inductive TE
  | intv (v : Int) (isByte : Bool) (shrink : Bool)
  | boolv (b : Bool)
  | strv (bs : List Nat)
  | cast (k : CastK) (e : TE)
  | var (name : List CP) (ty : Ty) (const : Bool)
  | index (src idx : TE)
  | len (src : TE)
  | call (name : List CP) (fl : Flavor) (args : List TE) (ptys : List Ty) (ret : Ty)
  | arrlit (vals : List TE) (ty : Ty) (locked : Bool)
  | arrinit (el : Ty) (len : TE)
  | arith (op : BinOp) (l r : TE) (shrink : Bool)
  | unarith (op : UnOp) (e : TE) (shrink : Bool)
  | boolop (op : BinOp) (l r : TE)
  | notop (e : TE)
  | spec (l r : TE)
  | param (ty : Ty)
  deriving Repr, Inhabited

inductive TErr | tc (msg : String) | internal (msg : String)
  deriving Repr, Inhabited

abbrev R := Except TErr

def castTarget : CastK → TE → Ty
  | .b2i, _ => .int | .i2b, _ => .byte | .i2bool, _ => .bool | .bool2b, _ => .byte
  | .s2a, _ => .arr .byte true | .vol, _ => .empty

structure FuncSig where
  name : List CP
  fl : Flavor
  ptys : List Ty
  ret : Ty
  builtin : Bool
  deriving Repr, Inhabited

mutual
def typeOf : TE → Ty
  | .intv _ b _ => if b then .byte else .int
  | .boolv _ => .bool | .strv _ => .string
  | .cast .vol e => (match typeOf e with | .arr el _ => .arr el true | t => t)
  | .cast k e => castTarget k e
  | .var _ t _ => t
  | .index s _ => (match typeOf s with | .string => .byte | .arr el _ => el | t => t)
  | .len _ => .int
  | .call _ _ _ _ r => r
  | .arrlit _ t _ => t
  | .arrinit el _ => .arr el false
  | .arith _ _ _ _ => .int | .unarith _ _ _ => .int
  | .boolop _ _ _ => .bool | .notop _ => .bool
  | .spec l _ => typeOf l
  | .param t => t
end

def isPrimitive : TE → Bool
  | .intv _ _ _ => true | .boolv _ => true | .strv _ => true | _ => false

def isArr : Ty → Bool | .arr _ _ => true | _ => false

/-- `Expression.coercible` of the base class, as a function of the static type -/
def baseCoercible (t new : Ty) : Bool :=
  if t == new then true
  else match t with
    | .arr el _ => Ty.arr el true == new
    | .byte => new == .int
    | .string => new == .arr .byte true
    | _ => false

mutual
def coercible (e : TE) (new : Ty) : Bool :=
  match e with
  | .intv _ _ sh => baseCoercible (typeOf e) new || (sh && new == .byte)
  | .arith _ _ _ sh => baseCoercible .int new || (sh && new == .byte)
  | .unarith _ _ sh => baseCoercible .int new || (sh && new == .byte)
  | .arrlit vals ty locked =>
    match new with
    | .arr nel _ =>
      if locked then (match ty with | .arr el _ => el == nel | _ => false)
      else coercibleAll vals nel
    | _ => false
  | .cast .vol inner => coercible inner new
  | e => baseCoercible (typeOf e) new

def coercibleAll (es : List TE) (new : Ty) : Bool :=
  match es with
  | [] => true
  | e :: rest => coercible e new && coercibleAll rest new
end

def notErr (a b : Ty) : TErr := .tc s!"{repr a} is not {repr b}"

/-- `Expression.cast` of the base class -/
def genericCast (e : TE) (t new : Ty) : R TE :=
  if t == new then pure e else
  match t, new with
  | .int, .byte => pure (.cast .i2b e)
  | .byte, .int => pure (.cast .b2i e)
  | .string, .bool => pure (.cast .i2bool (.len e))
  | .arr _ _, .bool => pure (.cast .i2bool (.len e))
  | .int, .bool => pure (.cast .i2bool e)
  | .byte, .bool => pure (.cast .i2bool (.cast .b2i e))
  | .bool, .byte => pure (.cast .bool2b e)
  | .bool, .int => pure (.cast .b2i (.cast .bool2b e))
  | .string, .arr .byte true => pure (.cast .s2a e)
  | .arr t1 false, .arr t2 true => if t1 == t2 then pure (.cast .vol e) else throw (notErr t new)
  | _, _ => throw (notErr t new)

mutual
/-- `cast` (explicit) / `coerce`-time cast (implicit = true keeps literal shrinkability) -/
def cast (e : TE) (new : Ty) (implicit : Bool := false) : R TE :=
  match e with
  | .intv v _ sh =>
    match new with
    | .bool => pure (.boolv (v != 0))
    | .byte => pure (.intv (v % 256) true sh)
    | .int => pure (.intv v false implicit)
    | _ => genericCast e (typeOf e) new
  | .boolv b =>
    match new with
    | .int => pure (.intv (if b then 1 else 0) false true)
    | .byte => pure (.intv (if b then 1 else 0) true true)
    | _ => genericCast e .bool new
  | .strv bs =>
    match new with
    | .bool => pure (.boolv (!bs.isEmpty))
    | _ => genericCast e .string new
  | .arrlit vals ty _ =>
    match new with
    | .arr nel _ => do
      let vs ← castAll vals nel
      pure (.arrlit vs new true)
    | _ => genericCast e ty new
  | .cast .vol inner => cast inner new
  | e => genericCast e (typeOf e) new

def castAll (es : List TE) (new : Ty) : R (List TE) :=
  match es with
  | [] => pure []
  | e :: rest => do
    let c ← cast e new
    let cs ← castAll rest new
    pure (c :: cs)
end

def coerce (e : TE) (new : Ty) : R TE :=
  if coercible e new then
    match e with
    | .intv _ _ _ => cast e new true
    | _ => cast e new
  else throw (notErr (typeOf e) new)

/-- overload resolution of `FuncCall.evaluate`: exact signature if any, otherwise the first
declared overload of equal arity all of whose arguments are coercible -/
def resolveCall (cands : List FuncSig) (args : List TE) : Option FuncSig :=
  let sig := args.map typeOf
  match cands.find? (fun f => f.ptys == sig) with
  | some f => some f
  | none => cands.find? (fun f => f.ptys.length == args.length &&
      (List.zip args f.ptys).all (fun (a, t) => coercible a t))

/-! ## environment -/
structure VarDecl where
  name : List CP
  ty : Ty
  const : Bool
  init : TE
  deriving Repr, Inhabited

structure Env where
  scopes : List (List VarDecl)     -- innermost first, the last one is the global scope
  funcs : List FuncSig             -- insertion order
  lint : Bool
  retTy : Option Ty
  deriving Inhabited

def Env.isGlobal (env : Env) : Bool := env.scopes.length ≤ 1
def Env.lookup (env : Env) (n : List CP) : Option VarDecl :=
  env.scopes.findSome? (fun sc => sc.find? (fun d => d.name == n))
def Env.inLocals (env : Env) (n : List CP) : Bool :=
  (env.scopes.dropLast.any (fun sc => sc.any (fun d => d.name == n)))
def Env.declare (env : Env) (d : VarDecl) : Env :=
  match env.scopes with
  | sc :: rest => { env with scopes := (d :: sc.filter (fun x => x.name != d.name)) :: rest }
  | [] => { env with scopes := [[d]] }
def Env.child (env : Env) : Env := { env with scopes := [] :: env.scopes }

/-- `.at(span)`: substituted literals lose shrinkability -/
def atSpan : TE → TE
  | .intv v b _ => .intv v b false
  | e => e

def arithOpOf : String → Option BinOp
  | "Add" => some .add | "Sub" => some .sub | "Mul" => some .mul | "Div" => some .div | "Mod" => some .mod | _ => none
def cmpOpOf : String → Option BinOp
  | "Lt" => some .lt | "Gt" => some .gt | "Le" => some .le | "Ge" => some .ge | _ => none
def eqOpOf : String → Option BinOp
  | "Eq" => some .eq | "Ne" => some .ne | _ => none
def logicOpOf : String → Option BinOp
  | "And" => some .and | "Or" => some .or | _ => none

def primData : TE → Option Int
  | .intv v _ _ => some v
  | .boolv b => some (if b then 1 else 0)
  | _ => none

/-- `operate` of the arithmetic classes on Python integers -/
def arithOperate (op : BinOp) (a b : Int) : R Int :=
  match op with
  | .add => pure (a + b) | .sub => pure (a - b) | .mul => pure (a * b)
  | .div => if b == 0 then throw (.tc "Division by zero") else pure (Int.fdiv a b)
  | .mod => if b == 0 then throw (.tc "Modulus of zero") else pure (Int.fmod a b)
  | _ => throw (.internal "not arithmetic")

def cmpOperate (op : BinOp) (a b : Int) : Bool :=
  match op with
  | .lt => a < b | .gt => a > b | .le => a ≤ b | .ge => a ≥ b | .eq => a == b | .ne => a != b
  | .and => a != 0 && b != 0 | .or => a != 0 || b != 0 | _ => false

def strEq (op : BinOp) (a b : List Nat) : Bool := if op == .eq then a == b else a != b

/-- element type of an array literal: the first of the distinct element types, in order of first occurrence, every
element is coercible to -/
def pickElemTy (vs : List TE) : List Ty → R TE
  | [] => throw (.tc "Array type is unresolvable")
  | t :: rest =>
    if isArr t then throw (.tc "Nested arrays are unsupported")
    else if t == .empty then throw (.tc "Array elements cannot be empty")
    else if coercibleAll vs t then pure (.arrlit vs (.arr t true) false)
    else pickElemTy vs rest

/-- distinct types of the values, in order of first occurrence -/
def distinctTys (vs : List TE) : List Ty :=
  vs.foldl (fun acc v => if acc.contains (typeOf v) then acc else acc ++ [typeOf v]) ([] : List Ty)

/-- the implicit casts of the arguments of a call to the parameter types of the chosen overload -/
def coerceArgs : List TE → List Ty → R (List TE)
  | a :: as, t :: ts => do
    let c ← coerce a t
    let cs ← coerceArgs as ts
    pure (c :: cs)
  | _, _ => pure []

mutual
def tcExpr (env : Env) : PExpr → R TE
  | .int v => pure (.intv v false true)
  | .char b => pure (.intv b true true)
  | .str bs => pure (.strv bs)
  | .bool b => pure (.boolv b)
  | .var n =>
    match env.lookup n with
    | none => throw (.tc "is empty")
    | some d =>
      if (d.const || env.isGlobal) && isPrimitive d.init then pure (atSpan d.init)
      else pure (.var d.name d.ty d.const)
  | .index s i => do
    let src ← tcExpr env s
    let st := typeOf src
    if !(isArr st || st == .string) then throw (.tc "Must be array or string")
    let src ← match src with
      | .arrlit _ (.arr .empty _) _ => throw (.tc "Array type is ambiguous")
      | .arrlit _ t _ => coerce src t
      | _ => pure src
    let idx ← tcExpr env i
    let idx ← coerce idx .int
    pure (.index src idx)
  | .len s => do
    let src ← tcExpr env s
    let st := typeOf src
    if !(isArr st || st == .string) then throw (.tc "Must be array or string")
    pure (.len src)
  | .call n fl args => do
    let as ← tcExprs env args
    let cands := env.funcs.filter (fun f => f.name == n && f.fl == fl)
    match resolveCall cands as with
    | none => throw (.tc "No matching function")
    | some f => do
      let cs ← coerceArgs as f.ptys
      pure (.call n fl cs f.ptys f.ret)
  | .arrlit items =>
    if items.isEmpty then pure (.arrlit [] (.arr .empty true) false) else do
    let vs ← tcExprs env items
    pickElemTy vs (distinctTys vs)
  | .un op e => do
    let a ← tcExpr env e
    match op with
    | "Not" => do
      let b ← cast a .bool
      match b with
      | .boolv x => pure (.boolv (!x))
      | .intv v _ _ => pure (.boolv (v == 0))
      | .strv bs => pure (.boolv bs.isEmpty)
      | _ => pure (.notop b)
    | _ =>
      let uop := if op == "Neg" then UnOp.neg else UnOp.pos
      let sh := coercible a .byte
      let ai ← coerce a .int
      match ai with
      | .intv v _ _ => pure (.intv (if uop == .neg then -v else v) false sh)
      | _ => pure (.unarith uop ai sh)
  | .is_ e t => do
    let a ← tcExpr env e
    cast a t
  | .bin op l r => do
    match arithOpOf op with
    | some aop =>
      let a ← tcExpr env l
      let b ← tcExpr env r
      let sh := coercible a .byte && coercible b .byte
      let ai ← coerce a .int
      let bi ← coerce b .int
      match ai, bi with
      | .intv x _ _, .intv y _ _ => do
        let v ← arithOperate aop x y
        pure (.intv v false sh)
      | _, _ => pure (.arith aop ai bi sh)
    | none =>
      match logicOpOf op with
      | some lop =>
        let a ← tcExpr env l
        let a ← cast a .bool
        let b ← tcExpr env r
        let b ← cast b .bool
        if isPrimitive a && isPrimitive b then
          match primData a, primData b with
          | some x, some y => pure (.boolv (cmpOperate lop x y))
          | _, _ => pure (.boolop lop a b)
        else pure (.boolop lop a b)
      | none =>
        match cmpOpOf op with
        | some cop =>
          let a ← tcExpr env l
          let a ← coerce a .int
          let b ← tcExpr env r
          let b ← coerce b .int
          match a, b with
          | .intv x _ _, .intv y _ _ => pure (.boolv (cmpOperate cop x y))
          | _, _ => pure (.boolop cop a b)
        | none =>
          match eqOpOf op with
          | some eop =>
            let a ← tcExpr env l
            let b ← tcExpr env r
            let (a, b) ← if typeOf a == .bool && typeOf b == .bool then pure (a, b) else do
              let a' ← coerce a .int
              let b' ← coerce b .int
              pure (a', b')
            if isPrimitive a && isPrimitive b then
              match primData a, primData b with
              | some x, some y => pure (.boolv (cmpOperate eop x y))
              | _, _ => pure (.boolop eop a b)
            else pure (.boolop eop a b)
          | none => throw (.internal s!"unknown operator {op}")
  | .spec l r => do
    let a ← tcExpr env l
    let t := typeOf a
    if !(t == .byte || t == .int || t == .bool) then throw (.tc "Can only speculate on byte, int, or bool")
    let b ← tcExpr env r
    let b ← coerce b t
    if isPrimitive a && isPrimitive b then pure a else pure (.spec a b)

/-- the expressions of a list, left to right; the first error wins -/
def tcExprs (env : Env) : List PExpr → R (List TE)
  | [] => pure []
  | e :: rest => do
    let t ← tcExpr env e
    let ts ← tcExprs env rest
    pure (t :: ts)
end

end HidVerif.Hid.TC
