import HidVerif.Gen.LexTables
/-!
# Model of `hidc.lexer` (scanner.py, readers.py, tokens.py, `lex`)

Source text is a list of lines, each a list of Unicode code points (what Python's `str` holds).
The regex matchers are written out by hand for the pattern strings pinned in
`Gen.lexPatterns`; Unicode classes `\d \w \s`, digit values, keyword/symbol/escape tables come
from `Gen.LexTables` (regenerated from the running Python on every check).
-/
namespace HidVerif.Hid.Lex
open HidVerif.Gen

abbrev CP := Nat
abbrev Line := List CP

inductive Flavor | none | you | defeat
  deriving DecidableEq, Repr, Inhabited

inductive Tok
  | str (bs : List Nat)
  | int (v : Nat)
  | chr (b : Nat)
  | ident (name : List CP) (fl : Flavor)
  | enum (name : String)          -- e.g. "OpToken.ADD"
  deriving DecidableEq, Repr, Inhabited

structure Cursor where
  line : Nat
  col : Nat
  deriving DecidableEq, Repr, Inhabited

structure Lexeme where
  tok : Tok
  start : Cursor
  stop : Cursor
  deriving DecidableEq, Repr, Inhabited

/-- how the token stream ends -/
inductive Ending
  | eof (last : Cursor)            -- value carried by `Nil`: end of the last token
  | error (at_ : Cursor)           -- LexerError raised when the next token is demanded
  deriving DecidableEq, Repr, Inhabited

def inRanges (rs : List (Nat × Nat)) (c : CP) : Bool := rs.any (fun (lo, hi) => lo ≤ c && c ≤ hi)

def isSpace (c : CP) : Bool := inRanges spaceRanges c
def isWord (c : CP) : Bool := inRanges wordRanges c
def digitVal (c : CP) : Option Nat :=
  (digitRanges.find? (fun (lo, hi, _) => lo ≤ c && c ≤ hi)).map (fun (lo, _, v) => v + (c - lo))
def isDigit (c : CP) : Bool := (digitVal c).isSome
def hexVal (c : CP) : Option Nat :=
  match digitVal c with
  | some v => some v
  | none =>
    if 97 ≤ c && c ≤ 102 then some (c - 87) else if 65 ≤ c && c ≤ 70 then some (c - 55) else none
def isIdStart (c : CP) : Bool := (97 ≤ c && c ≤ 122) || (65 ≤ c && c ≤ 90) || c == 95

def cps (s : String) : List CP := s.toList.map Char.toNat

/-- UTF-8 encoding; `none` for surrogates (Python raises UnicodeEncodeError) -/
def utf8 (c : CP) : Option (List Nat) :=
  if c < 0x80 then some [c]
  else if c < 0x800 then some [0xC0 + c / 64, 0x80 + c % 64]
  else if 0xD800 ≤ c && c ≤ 0xDFFF then none
  else if c < 0x10000 then some [0xE0 + c / 4096, 0x80 + c / 64 % 64, 0x80 + c % 64]
  else some [0xF0 + c / 262144, 0x80 + c / 4096 % 64, 0x80 + c / 64 % 64, 0x80 + c % 64]

/-- `scan.match(ignore)`: `\s*//.*|\s+` at the start of `rest`; number of code points consumed -/
def matchIgnore (rest : Line) : Nat :=
  let sp := rest.takeWhile isSpace
  let after := rest.drop sp.length
  match after with
  | 47 :: 47 :: _ => rest.length          -- comment: to the end of the line
  | _ => sp.length

/-- longest prefix `d(_?d)*` for a digit class; returns the digit values -/
def digitsSep (isD : CP → Option Nat) : Line → List Nat × Nat
  | c :: rest =>
    match isD c with
    | some v =>
      let rec more (fuel : Nat) (l : Line) (acc : List Nat) (n : Nat) : List Nat × Nat :=
        match fuel with
        | 0 => (acc.reverse, n)
        | fuel + 1 =>
          match l with
          | d :: l' =>
            match isD d with
            | some v' => more fuel l' (v' :: acc) (n + 1)
            | none =>
              if d == 95 then
                match l' with
                | e :: l'' =>
                  match isD e with
                  | some v'' => more fuel l'' (v'' :: acc) (n + 2)
                  | none => (acc.reverse, n)
                | [] => (acc.reverse, n)
              else (acc.reverse, n)
          | [] => (acc.reverse, n)
      more rest.length rest [v] 1
    | none => ([], 0)
  | [] => ([], 0)

def ofDigits (base : Nat) (ds : List Nat) : Nat := ds.foldl (fun a d => base * a + d) 0

def asciiIn (lo hi : Nat) (c : CP) : Option Nat := if lo ≤ c && c ≤ hi then some (c - 48) else none

/-- `read_int_token`: value and length, or none -/
def readInt (rest : Line) : Option (Nat × Nat) :=
  let pre (p : CP) (isD : CP → Option Nat) (base : Nat) : Option (Nat × Nat) :=
    match rest with
    | 48 :: q :: r =>
      if q == p then
        let (ds, n) := digitsSep isD r
        if n == 0 then none else some (ofDigits base ds, n + 2)
      else none
    | _ => none
  match pre 120 hexVal 16 with
  | some x => some x
  | none =>
    match pre 111 (asciiIn 48 55) 8 with
    | some x => some x
    | none =>
      match pre 98 (asciiIn 48 49) 2 with
      | some x => some x
      | none =>
        let (ds, n) := digitsSep digitVal rest
        if n == 0 then none else some (ofDigits 10 ds, n)

def isPrefix (p l : Line) : Bool := l.take p.length == p

def enumName (text : String) : String := (enumTokens.lookup text).getD ("?" ++ text)

/-- `read_symbol_token` -/
def readSymbol (rest : Line) : Option (Tok × Nat) :=
  (symbolTokens.find? (fun s => isPrefix (cps s) rest)).map (fun s => (.enum (enumName s), s.length))

def matchIdent (rest : Line) : Option (List CP) :=
  match rest with
  | c :: r => if isIdStart c then some (c :: r.takeWhile isWord) else none
  | [] => none

def keywordOf (name : List CP) : Option String := keywordTokens.lookup (String.ofList (name.map Char.ofNat))

inductive R (α : Type) | none | ok (a : α) (len : Nat) | err (col : Nat)
  deriving Repr, DecidableEq

/-- `read_ident_or_keyword_token`; error column is relative to the token start -/
def readIdent (rest : Line) : R Tok :=
  match rest with
  | 64 :: r | 33 :: r =>
    let fl := if rest.head? == some 64 then Flavor.you else Flavor.defeat
    match matchIdent r with
    | some name =>
      if (keywordOf name).isSome then .err (1 + name.length) else .ok (.ident name fl) (1 + name.length)
    | none => .err 1
  | _ =>
    match matchIdent rest with
    | some name =>
      match keywordOf name with
      | some k => .ok (.enum k) name.length
      | none => .ok (.ident name .none) name.length
    | none => .none

/-- `read_escape_bytes`: bytes and length consumed / error column offset / no escape here -/
def readEscape (rest : Line) : R (List Nat) :=
  match rest with
  | 92 :: 120 :: r =>                       -- \x
    match r with
    | a :: b :: _ =>
      match hexVal a, hexVal b with
      | some x, some y => .ok [16 * x + y] 4
      | _, _ => .err 2
    | _ => .err 2
  | 92 :: 117 :: r =>                       -- \u
    match r with
    | 123 :: r' =>
      let hs := r'.takeWhile (fun c => (hexVal c).isSome)
      match r'.drop hs.length with
      | 125 :: _ =>
        if hs.isEmpty then .err 2 else
        let cp := ofDigits 16 (hs.filterMap hexVal)
        let n := 3 + hs.length + 1
        if cp > 0x10FFFF then .err n else
        match utf8 cp with
        | some bs => .ok bs n
        | Option.none => .err n
      | _ => .err 2
    | _ => .err 2
  | 92 :: c :: _ =>
    match escapeCodes.lookup c with
    | some v => (match utf8 v with | some bs => .ok bs 2 | Option.none => .err 2)
    | Option.none => .err 2
  | [92] => .err 1
  | _ => .none

/-- `read_string_token` (after the opening quote has been seen at offset 0) -/
def readString (rest : Line) : R Tok :=
  match rest with
  | 34 :: r =>
    let rec loop (fuel : Nat) (l : Line) (off : Nat) (acc : List Nat) : R Tok :=
      match fuel with
      | 0 => .err off
      | fuel + 1 =>
        let text := l.takeWhile (fun c => c != 92 && c != 34)
        match text.mapM utf8 with
        | Option.none => .err off          -- cannot happen for text read from a file
        | some enc =>
          let acc := acc ++ enc.flatten
          let l := l.drop text.length
          let off := off + text.length
          match readEscape l with
          | .ok bs n => loop fuel (l.drop n) (off + n) (acc ++ bs)
          | .err c => .err (off + c)
          | .none =>
            match l with
            | 34 :: _ => .ok (.str acc) (off + 1)
            | _ => .err off
    loop (r.length + 1) r 1 []
  | _ => .none

/-- `read_char_token` -/
def readChar (rest : Line) : R Tok :=
  match rest with
  | 39 :: r =>
    match r with
    | 39 :: _ => .err 2
    | _ =>
      let body : R (List Nat) :=
        match readEscape r with
        | .ok bs n => .ok bs n
        | .err c => .err c
        | .none =>
          match r with
          | c :: _ => (match utf8 c with | some bs => .ok bs 1 | Option.none => .err 1)
          | [] => .err 0
      match body with
      | .err c => .err (1 + c)
      | .none => .err 1
      | .ok bs n =>
        match r.drop n with
        | 39 :: _ => (match bs with | [b] => .ok (.chr b) (n + 2) | _ => .err (n + 2))
        | _ => .err (1 + n)
  | _ => .none

/-- the five readers in the order of `lex` -/
def readToken (rest : Line) : R Tok :=
  match readSymbol rest with
  | some (t, n) => .ok t n
  | Option.none =>
    match readIdent rest with
    | .ok t n => .ok t n
    | .err c => .err c
    | .none =>
      match readInt rest with
      | some (v, n) => .ok (.int v) n
      | Option.none =>
        match readString rest with
        | .ok t n => .ok t n
        | .err c => .err c
        | .none =>
          match readChar rest with
          | .ok t n => .ok t n
          | .err c => .err c
          | .none => .err 0

def lineAt (src : List Line) (i : Nat) : Line := src.getD i []

/-- `skip_whitespace` from (line, col): next position with something to read, or `none` at the end -/
def skipWs (src : List Line) (fuel : Nat) (line col : Nat) : Option (Nat × Nat) :=
  match fuel with
  | 0 => none
  | fuel + 1 =>
    let l := lineAt src line
    let col := col + matchIgnore (l.drop col)
    if col ≥ l.length then
      if line + 1 < src.length then skipWs src fuel (line + 1) 0 else none
    else some (line, col)

/-- `lex`: all lexemes up to the end or the first error -/
def lex (src : List Line) : List Lexeme × Ending :=
  let total := src.foldl (fun a l => a + l.length + 1) 1
  let rec go (fuel : Nat) (line col : Nat) (last : Cursor) (acc : List Lexeme) : List Lexeme × Ending :=
    match fuel with
    | 0 => (acc.reverse, .eof last)
    | fuel + 1 =>
      match skipWs src (src.length + 1) line col with
      | none => (acc.reverse, .eof last)
      | some (line, col) =>
        match readToken ((lineAt src line).drop col) with
        | .ok t n =>
          let stop : Cursor := ⟨line, col + n⟩
          go fuel line (col + n) stop (⟨t, ⟨line, col⟩, stop⟩ :: acc)
        | .err c => (acc.reverse, .error ⟨line, col + c⟩)
        | .none => (acc.reverse, .error ⟨line, col⟩)
  go total 0 0 ⟨0, 0⟩ []

end HidVerif.Hid.Lex
