import HidVerif.Gen.Builtins
/-!
# Exit-mode analysis of blocks.py on control skeletons, and an abstract control-flow semantics

`modes` is the analysis (`CodeBlock.evaluate`'s mode bookkeeping and the `exit_modes` methods);
`Exits` says how a statement *may* end when conditions and calls are unconstrained.
-/
namespace HidVerif.Hid.Exit
open HidVerif.Gen

inductive Skel
  | other                       -- declaration, assignment, ordinary expression statement
  | ret | brk | cont
  | defeat                      -- `!is_defeat()`
  | term                        -- `all_is_win()` / `all_is_broken()`
  | defcall                     -- any other call of a defeat function
  | block (ss : List Skel)
  | ifb (t e : Skel)
  | loop (trueCond : Bool) (body cont : Skel)
  | tryb (body handler : Skel)
  | preempt (body : Skel)
  deriving Repr, Inhabited

def NONE : Nat := (exitModes.lookup "NONE").getD 0
def BREAK : Nat := (exitModes.lookup "BREAK").getD 0
def LOOP : Nat := (exitModes.lookup "LOOP").getD 0
def DEFEAT : Nat := (exitModes.lookup "DEFEAT").getD 0
def RETURN : Nat := (exitModes.lookup "RETURN").getD 0

def has (m bit : Nat) : Bool := Nat.land m bit == bit
/-- `mode.replace(old, new)` -/
def replace (m old new : Nat) : Nat := Nat.lor (Nat.land m (255 - old)) new

mutual
def modes : Skel → Nat
  | .block ss => blockGo ss NONE false
  | .ifb t e => Nat.lor (modes t) (modes e)
  | .loop tc body _ =>
    let m := modes body
    if !has m BREAK && tc then replace m NONE LOOP else replace m BREAK NONE
  | .tryb body h => replace (modes body) DEFEAT (modes h)
  | .preempt body => Nat.lor (modes body) NONE
  | _ => 0

/-- the loop of `CodeBlock.evaluate`: stops at the first unreachable statement -/
def blockGo : List Skel → Nat → Bool → Nat
  | [], mode, _ => mode
  | s :: rest, mode, fc =>
    if !has mode NONE || fc then mode else
    match s with
    | .other => blockGo rest mode false
    | .ret => blockGo rest (replace mode NONE RETURN) false
    | .brk => blockGo rest (replace mode NONE BREAK) false
    | .cont => blockGo rest mode true
    | .defeat => blockGo rest (replace mode NONE DEFEAT) false
    | .term => blockGo rest (replace mode NONE LOOP) false
    | .defcall => blockGo rest (Nat.lor mode DEFEAT) false
    | s => blockGo rest (replace mode NONE (modes s)) false
end

def blockish : Skel → Bool
  | .block _ => true | .ifb _ _ => true | .loop _ _ _ => true | .tryb _ _ => true | .preempt _ => true
  | _ => false

mutual
/-- the shape the parser produces: the parts of a control block are blocks themselves -/
def wf : Skel → Bool
  | .block ss => wfAll ss
  | .ifb t e => blockish t && blockish e && wf t && wf e
  | .loop _ b k => blockish b && blockish k && wf b && wf k
  | .tryb b h => blockish b && blockish h && wf b && wf h
  | .preempt b => blockish b && wf b
  | _ => true
def wfAll : List Skel → Bool
  | [] => true
  | s :: rest => wf s && wfAll rest
end

/-- ways a statement can end -/
inductive Out | normal | brk | cont | ret | defeat
  deriving DecidableEq, Repr

/-- abstract semantics: every condition may go either way, every loop may run any number of
times, a defeat call may or may not defeat, terminal calls never come back; and because a defeat
function may be called in expression position (`n = !f(n);`, `return !f(x);`, `if (!f(x)) …`),
where the analysis does not see it, *every* statement that evaluates an expression may end in defeat -/
inductive Exits : Skel → Out → Prop
  | other : Exits .other .normal
  | otherD : Exits .other .defeat
  | ret : Exits .ret .ret
  | retD : Exits .ret .defeat
  | brk : Exits .brk .brk
  | cont : Exits .cont .cont
  | defeat : Exits .defeat .defeat
  | defcallN : Exits .defcall .normal
  | defcallD : Exits .defcall .defeat
  | blockNil : Exits (.block []) .normal
  | blockStop {s rest o} : Exits s o → o ≠ .normal → Exits (.block (s :: rest)) o
  | blockNext {s rest o} : Exits s .normal → Exits (.block rest) o → Exits (.block (s :: rest)) o
  | ifT {t e o} : Exits t o → Exits (.ifb t e) o
  | ifE {t e o} : Exits e o → Exits (.ifb t e) o
  | ifD {t e} : Exits (.ifb t e) .defeat
  | loopD {tc b k} : Exits (.loop tc b k) .defeat
  | loopSkip {b k} : Exits (.loop false b k) .normal
  | loopBreak {tc b k} : Exits b .brk → Exits (.loop tc b k) .normal
  | loopBody {tc b k o} : Exits b o → (o = .ret ∨ o = .defeat) → Exits (.loop tc b k) o
  | loopCont {tc b k o} : Exits k o → (o = .ret ∨ o = .defeat) → Exits (.loop tc b k) o
  | tryBody {b h o} : Exits b o → o ≠ .defeat → Exits (.tryb b h) o
  | tryHandler {b h o} : Exits b .defeat → Exits h o → Exits (.tryb b h) o
  | preemptSkip {b} : Exits (.preempt b) .normal
  | preemptRun {b o} : Exits b o → Exits (.preempt b) o

end HidVerif.Hid.Exit
