/-!
# Typed HiD programs (what `Program.evaluate` returns) and their s-expression reader

The Python harness dumps the typechecked tree of the *real* front end (`harness/dump_ast.py`);
this file reads it back.  Back-end checks therefore do not depend on the front-end models.
-/
namespace HidVerif.Hid

inductive Ty | int | byte | bool | string | empty | arr (el : Ty) (const : Bool)
  deriving DecidableEq, Repr, Inhabited

def Ty.byteSized : Ty → Bool
  | .byte => true | .bool => true | _ => false

inductive BinOp | add | sub | mul | div | mod | lt | gt | le | ge | eq | ne | and | or
  deriving DecidableEq, Repr, Inhabited
inductive UnOp | pos | neg | not
  deriving DecidableEq, Repr, Inhabited
inductive CastK | b2i | i2b | i2bool | bool2b | s2a | vol
  deriving DecidableEq, Repr, Inhabited
inductive HandlerKind | undo | stop
  deriving DecidableEq, Repr, Inhabited

inductive Expr
  | lit (ty : Ty) (v : Int)
  | str (bs : List Nat)
  | cast (k : CastK) (e : Expr)
  | var (name : String)
  | index (src idx : Expr)
  | len (src : Expr)
  | call (name : String) (ptys : List Ty) (args : List Expr)
  | arrlit (el : Ty) (vals : List Expr)
  | arrinit (el : Ty) (len : Expr)
  | bin (op : BinOp) (l r : Expr)
  | un (op : UnOp) (e : Expr)
  | spec (l r : Expr)
  deriving Repr, Inhabited

inductive Stmt
  | expr (e : Expr)
  | decl (name : String) (ty : Ty) (init : Expr)
  | assign (lhs rhs : Expr)
  | incassign (lhs rhs : Expr) (op : BinOp) (ty : Ty)
  | ret (e : Option Expr)
  | brk
  | cont
  | block (ss : List Stmt)
  | ifb (c : Expr) (t e : Stmt)
  | loop (c : Expr) (body cont : Stmt)
  | tryb (body : Stmt) (k : HandlerKind) (handler : Stmt)
  | preempt (body : Stmt)
  deriving Repr, Inhabited

structure Func where
  name : String            -- with flavour prefix (`@`, `!` or none)
  ret : Ty
  preemptive : Bool
  params : List (String × Ty)
  body : Stmt
  deriving Repr, Inhabited

structure Global where
  name : String
  ty : Ty
  const : Bool
  init : Expr
  deriving Repr, Inhabited

structure Program where
  globals : List Global
  funcs : List Func
  deriving Repr, Inhabited

/-! ## s-expressions -/
inductive Sexp | atom (s : String) | list (xs : List Sexp)
  deriving Repr, Inhabited

partial def Sexp.parseList (ts : List String) (acc : List Sexp) : Except String (List Sexp × List String) :=
  match ts with
  | [] => .ok (acc.reverse, [])
  | ")" :: rest => .ok (acc.reverse, ")" :: rest)
  | "(" :: rest => do
    let (xs, rest') ← Sexp.parseList rest []
    match rest' with
    | ")" :: rest'' => Sexp.parseList rest'' (.list xs :: acc)
    | _ => .error "missing )"
  | a :: rest => Sexp.parseList rest (.atom a :: acc)

def sexpTokens (cs : List Char) : List String :=
  let rec go (cs : List Char) (cur : List Char) (acc : List String) : List String :=
    match cs with
    | [] => (if cur.isEmpty then acc else String.ofList cur.reverse :: acc).reverse
    | c :: rest =>
      let flush := if cur.isEmpty then acc else String.ofList cur.reverse :: acc
      if c == '(' then go rest [] ("(" :: flush)
      else if c == ')' then go rest [] (")" :: flush)
      else if c == ' ' || c == '\n' || c == '\t' || c == '\r' then go rest [] flush
      else go rest (c :: cur) acc
  go cs [] []

def Sexp.parse (cs : List Char) : Except String Sexp := do
  let (xs, rest) ← Sexp.parseList (sexpTokens cs) []
  match xs, rest with
  | [x], [] => pure x
  | _, _ => .error "expected exactly one s-expression"

def hexDigit (c : Char) : Nat :=
  if '0' ≤ c && c ≤ '9' then c.toNat - 48
  else if 'a' ≤ c && c ≤ 'f' then c.toNat - 87
  else if 'A' ≤ c && c ≤ 'F' then c.toNat - 55 else 0

def hexBytes : List Char → List Nat
  | a :: b :: r => (16 * hexDigit a + hexDigit b) :: hexBytes r
  | _ => []

/-- names and strings are hex-encoded atoms with a one-letter prefix (`n…`, `x…`) -/
def decodeHexAtom (s : String) : List Nat := hexBytes (s.toList.drop 1)
def decodeName (s : String) : String := String.ofList ((decodeHexAtom s).map Char.ofNat)

partial def toTy : Sexp → Except String Ty
  | .atom "int" => .ok .int | .atom "byte" => .ok .byte | .atom "bool" => .ok .bool
  | .atom "string" => .ok .string | .atom "empty" => .ok .empty
  | .list [.atom "arr", el, .atom c] => do pure (.arr (← toTy el) (c == "1"))
  | s => .error s!"bad type {repr s}"

def toBinOp : String → Except String BinOp
  | "add" => .ok .add | "sub" => .ok .sub | "mul" => .ok .mul | "div" => .ok .div
  | "mod" => .ok .mod | "lt" => .ok .lt | "gt" => .ok .gt | "le" => .ok .le | "ge" => .ok .ge
  | "eq" => .ok .eq | "ne" => .ok .ne | "and" => .ok .and | "or" => .ok .or
  | s => .error s!"bad binop {s}"

partial def toExpr : Sexp → Except String Expr
  | .list [.atom "lit", ty, .atom v] => do
    match v.toInt? with
    | some i => pure (.lit (← toTy ty) i)
    | none => .error s!"bad literal {v}"
  | .list [.atom "str", .atom h] => .ok (.str (decodeHexAtom h))
  | .list [.atom "cast", .atom k, e] => do
    let k ← match k with
      | "b2i" => pure CastK.b2i | "i2b" => pure .i2b | "i2bool" => pure .i2bool
      | "bool2b" => pure .bool2b | "s2a" => pure .s2a | "vol" => pure .vol
      | s => .error s!"bad cast {s}"
    pure (.cast k (← toExpr e))
  | .list [.atom "var", .atom n] => .ok (.var (decodeName n))
  | .list [.atom "index", s, i] => do pure (.index (← toExpr s) (← toExpr i))
  | .list [.atom "len", s] => do pure (.len (← toExpr s))
  | .list [.atom "call", .atom n, .list tys, .list args] => do
    pure (.call (decodeName n) (← tys.mapM toTy) (← args.mapM toExpr))
  | .list [.atom "arrlit", el, .list vs] => do pure (.arrlit (← toTy el) (← vs.mapM toExpr))
  | .list [.atom "arrinit", el, l] => do pure (.arrinit (← toTy el) (← toExpr l))
  | .list [.atom "bin", .atom op, l, r] => do pure (.bin (← toBinOp op) (← toExpr l) (← toExpr r))
  | .list [.atom "un", .atom op, e] => do
    let op ← match op with
      | "pos" => pure UnOp.pos | "neg" => pure .neg | "not" => pure .not
      | s => .error s!"bad unop {s}"
    pure (.un op (← toExpr e))
  | .list [.atom "spec", l, r] => do pure (.spec (← toExpr l) (← toExpr r))
  | s => .error s!"bad expression {repr s}"

partial def toStmt : Sexp → Except String Stmt
  | .list [.atom "expr", e] => do pure (.expr (← toExpr e))
  | .list [.atom "decl", .atom n, ty, e] => do pure (.decl (decodeName n) (← toTy ty) (← toExpr e))
  | .list [.atom "assign", l, r] => do pure (.assign (← toExpr l) (← toExpr r))
  | .list [.atom "incassign", l, r, .atom op, ty] => do
    pure (.incassign (← toExpr l) (← toExpr r) (← toBinOp op) (← toTy ty))
  | .list [.atom "ret"] => .ok (.ret none)
  | .list [.atom "ret", e] => do pure (.ret (some (← toExpr e)))
  | .list [.atom "break"] => .ok .brk
  | .list [.atom "continue"] => .ok .cont
  | .list (.atom "block" :: ss) => do pure (.block (← ss.mapM toStmt))
  | .list [.atom "if", c, t, e] => do pure (.ifb (← toExpr c) (← toStmt t) (← toStmt e))
  | .list [.atom "loop", c, b, k] => do pure (.loop (← toExpr c) (← toStmt b) (← toStmt k))
  | .list [.atom "try", b, .atom k, h] => do
    let k ← match k with
      | "undo" => pure HandlerKind.undo | "stop" => pure .stop | s => .error s!"bad handler {s}"
    pure (.tryb (← toStmt b) k (← toStmt h))
  | .list [.atom "preempt", b] => do pure (.preempt (← toStmt b))
  | s => .error s!"bad statement {repr s}"

def toProgram : Sexp → Except String Program
  | .list [.atom "prog", .list gs, .list fs] => do
    let gs ← gs.mapM fun
      | .list [.atom "g", .atom n, ty, .atom c, e] => do
        pure (⟨decodeName n, ← toTy ty, c == "1", ← toExpr e⟩ : Global)
      | s => .error s!"bad global {repr s}"
    let fs ← fs.mapM fun
      | .list [.atom "f", .atom n, ret, .atom pre, .list ps, body] => do
        let ps ← ps.mapM fun
          | .list [.atom "p", .atom pn, ty] => do pure (decodeName pn, ← toTy ty)
          | s => .error s!"bad param {repr s}"
        pure (⟨decodeName n, ← toTy ret, pre == "1", ps, ← toStmt body⟩ : Func)
      | s => .error s!"bad function {repr s}"
    pure ⟨gs, fs⟩
  | s => .error s!"bad program {repr s}"

end HidVerif.Hid
