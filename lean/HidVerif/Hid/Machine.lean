import HidVerif.Prophetic
import HidVerif.Hid.Ast
/-!
# Reference semantics of (typed) HiD as a prophetic transition system

A small-step machine with explicit continuations.  Its only choice points are Turing jumps,
with the same reading as on the target ("take `yes` iff continuing with `no` leads to defeat"):

* `try … undo`   : `jump (no := try body) (yes := undo block)`
* `try … stop`   : `jump (no := body, defeat real) (yes := body, defeat caught by the handler)`
* `preempt`      : `jump (no := skip) (yes := run)`; forced while defeat is caught by a handler
* `a ?? b`       : `b`, then `jump (no := a, defeat if equal to b) (yes := result b)`
* return of a preemptive defeat function (checked build):
                   `jump (no := return) (yes := nonlocal_preempt error)`

`!is_defeat()` is `halt` when defeat is real and a transfer to the stop handler (restoring the
environment and continuation saved at `try` entry, defeat real again) when it is caught.
Runtime errors and `all_is_win/all_is_broken` lead to the absorbing state `done`, which never
defeats.  The machine has no stack bound; word size `w` and `checked` are parameters.

Modelling decisions (trusted, DESIGN §4): evaluation is left to right; the index of
`a[i] = e` and `a[i] op= e` is checked before `e` is evaluated; reads of never-written elements
of a dynamic array yield `undef`, and a run that *uses* `undef` (or, in an unchecked build,
performs a faulting operation) is stuck with `fault` — the harness counts it inconclusive.
-/
namespace HidVerif.Hid
open HidVerif

inductive Val | num (v : Nat) | str (bs : List Nat) | arr (id : Nat) | unit | undef
  deriving Repr, Inhabited, BEq

/-- a scope maps names to variable cells (addresses into `Cfg.cells`), so that restoring an
environment — on entering a stop handler — keeps the values the try body assigned -/
abbrev Scope := List (String × Nat)

inductive Unw | brk | cont | ret (v : Val)
  deriving Repr, Inhabited

inductive Frame
  | castK (k : CastK) | unK (op : UnOp) | binL (op : BinOp) (r : Expr) | binR (op : BinOp) (vl : Val)
  | andK (r : Expr) | orK (r : Expr)
  | idxS (idx : Expr) | idxI (vs : Val) | lenK
  | argsK (name : String) (ptys : List Ty) (done : List Val) (rest : List Expr)
  | arrlitK (done : List Val) (rest : List Expr)
  | arrinitK (el : Ty)
  | specR (l : Expr) | specL (vr : Val)
  | discard | declK (name : String) | assignVar (name : String)
  | asgS (idx rhs : Expr) (op : Option (BinOp × Ty))
  | asgI (arr : Val) (rhs : Expr) (op : Option (BinOp × Ty))
  | asgR (arr : Val) (i : Nat) (op : Option (BinOp × Ty)) (old : Val)
  | incVar (name : String) (op : BinOp) (ty : Ty) (old : Val)
  | retK
  | ifK (t e : Stmt)
  | loopCond (c : Expr) (b k : Stmt) | loopBody (c : Expr) (b k : Stmt) | loopCont (c : Expr) (b k : Stmt)
  | seq (rest : List Stmt)
  | scope
  | callRet (saved : List Scope) (preemptive : Bool)
  | tryK
  | top
  deriving Repr, Inhabited

inductive Ctl
  | eval (e : Expr)
  | ret (v : Val)
  | exec (s : Stmt)
  | unwind (u : Unw)
  | emit (evs : List Ev) (final : Bool)
  | done
  deriving Repr, Inhabited

/-- what a caught defeat restores -/
structure Snap where
  env : List Scope
  kont : List Frame
  handler : Stmt
  deriving Repr, Inhabited

structure Cfg where
  ctl : Ctl
  env : List Scope := []
  kont : List Frame := []
  store : Array (Array Val) := #[]
  cells : Array Val := #[]
  globals : Scope := []
  mode : Option Snap := none      -- `none`: defeat is real
  deriving Inhabited

structure Env where
  w : Nat
  checked : Bool
  stackBytes : Nat               -- an allocation larger than this cannot fit any stack in use
  prog : Program

namespace Env
def M (E : Env) : Nat := 256 ^ E.w
def H (E : Env) : Nat := E.M / 2
def toS (E : Env) (x : Nat) : Int := if x < E.H then (x : Int) else (x : Int) - E.M
def wrap (E : Env) (v : Int) : Nat := (v % (E.M : Int)).toNat
def maxLen (E : Env) (el : Ty) : Nat := if el.byteSized then E.H - 1 else (E.H - 1) / E.w
def elBytes (E : Env) (el : Ty) (n : Nat) : Nat :=
  match el with | .bool => (n + 7) / 8 | .byte => n | _ => n * E.w
end Env

def lookupScopes : List Scope → String → Option Nat
  | [], _ => none
  | s :: ss, n => match s.lookup n with | some v => some v | none => lookupScopes ss n

/-- locals shadow globals -/
def Cfg.addr (c : Cfg) (n : String) : Option Nat :=
  match lookupScopes c.env n with
  | some a => some a
  | none => c.globals.lookup n

def Cfg.lookup (c : Cfg) (n : String) : Option Val :=
  (c.addr n).map (fun a => c.cells.getD a .undef)

def Cfg.assign (c : Cfg) (n : String) (v : Val) : Option Cfg :=
  (c.addr n).map (fun a => { c with cells := c.cells.setIfInBounds a v })

def Cfg.bind (c : Cfg) (n : String) (v : Val) : Cfg :=
  let a := c.cells.size
  match c.env with
  | s :: ss => { c with env := ((n, a) :: s) :: ss, cells := c.cells.push v }
  | [] => { c with env := [[(n, a)]], cells := c.cells.push v }

def Cfg.bindAll (c : Cfg) (names : List String) (vals : List Val) : Cfg :=
  (List.zip names vals).foldl (fun c (n, v) => c.bind n v) { c with env := [] :: c.env }

def decimal (i : Int) : List Nat :=
  let s := toString i.natAbs
  (if i < 0 then [45] else []) ++ s.toList.map Char.toNat

def errorCtl (kind : String) : Ctl := .emit [.flag kind, .flag "error"] true

/-- arithmetic / comparison on word values; `none` = division by zero -/
def binArith (E : Env) (op : BinOp) (a b : Nat) : Option Nat :=
  let b2n (x : Bool) : Nat := if x then 1 else 0
  match op with
  | .add => some ((a + b) % E.M)
  | .sub => some ((a + E.M - b % E.M) % E.M)
  | .mul => some ((a * b) % E.M)
  | .div => if b % E.M = 0 then none else some (E.wrap (Int.fdiv (E.toS a) (E.toS b)))
  | .mod => if b % E.M = 0 then none else some (E.wrap (Int.fmod (E.toS a) (E.toS b)))
  | .lt => some (b2n (E.toS a < E.toS b))
  | .gt => some (b2n (E.toS a > E.toS b))
  | .le => some (b2n (E.toS a ≤ E.toS b))
  | .ge => some (b2n (E.toS a ≥ E.toS b))
  | .eq => some (b2n (a == b))
  | .ne => some (b2n (a != b))
  | .and => some (b2n (a != 0 && b != 0))
  | .or => some (b2n (a != 0 || b != 0))

def truncTy (E : Env) (ty : Ty) (v : Nat) : Nat :=
  match ty with | .byte => v % 256 | .bool => v % 256 | _ => v % E.M

def findFunc (p : Program) (name : String) (ptys : List Ty) : Option Func :=
  p.funcs.find? (fun f => f.name == name && f.params.map (·.2) == ptys)

def numsOf (vs : List Val) : Option (List Nat) :=
  vs.mapM (fun v => match v with | .num n => some n | _ => none)

abbrev St := Step Cfg Ev

/-- defeat: real `halt`, or transfer to the stop handler -/
def doDefeat (c : Cfg) : St :=
  match c.mode with
  | none => .halt
  | some sn => .next { c with ctl := .exec sn.handler, env := sn.env, kont := sn.kont, mode := none } none

def bytesOut (bs : List Nat) (nl : Bool) : Ctl :=
  .emit ((bs ++ (if nl then [10] else [])).map Ev.out) false

def doCall (E : Env) (c : Cfg) (k : List Frame) (name : String) (ptys : List Ty) (args : List Val) : St :=
  let go (ctl : Ctl) : St := .next { c with ctl := ctl, kont := k } none
  match findFunc E.prog name ptys with
  | some f =>
    let c' := Cfg.bindAll { c with env := [] } (f.params.map (fun p => p.1)) args
    .next { c' with ctl := .exec f.body, kont := .callRet c.env f.preemptive :: k } none
  | none =>
    let writeLike (nl : Bool) : St :=
      match ptys, args with
      | [], [] => go (bytesOut [] nl)
      | [.string], [.str bs] => go (bytesOut bs nl)
      | [.arr .byte true], [.arr id] =>
        match numsOf (c.store[id]?.getD #[]).toList with
        | some bs => go (bytesOut bs nl)
        | none => .fault "undef: write of uninitialised bytes"
      | [.int], [.num v] => go (bytesOut (decimal (E.toS v)) nl)
      | [.byte], [.num v] => go (bytesOut [v % 256] nl)
      | [.bool], [.num v] =>
        go (bytesOut ((if v != 0 then "true" else "false").toList.map Char.toNat) nl)
      | _, [.undef] => .fault "undef: write of uninitialised value"
      | _, _ => .fault s!"bad call {name}"
    match name, args with
    | "write", _ => if ptys.isEmpty then .fault "bad call write()" else writeLike false
    | "writeln", _ => writeLike true
    | "!is_defeat", [] => doDefeat { c with kont := k }
    | "!truth_is_defeat", [.num v] =>
      if v != 0 then doDefeat { c with kont := k } else go (.ret .unit)
    | "!truth_is_defeat", [.undef] => .fault "undef: defeat condition"
    | "all_is_win", [] => go (.emit [.flag "win"] true)
    | "all_is_broken", [] => go (.emit [.flag "error"] true)
    | "sleep", [.num v] => go (.emit [.sleep v] false)
    | "sleep", [.undef] => .fault "undef: sleep"
    | "debug", [] => go (.emit [.flag "debug"] false)
    | "progress", [] => go (.emit [.flag "progress"] false)
    | _, _ => .fault s!"unknown function {name}"

def alloc (c : Cfg) (cells : Array Val) : Cfg × Val :=
  ({ c with store := c.store.push cells }, .arr c.store.size)

/-- `idx <ᵤ len` exactly as the index guard computes it -/
def inBounds (i len : Nat) : Bool := i < len

def step (E : Env) (c : Cfg) : St :=
  let next (c' : Cfg) : St := .next c' none
  let undefFault (what : String) : St := .fault ("undef: " ++ what)
  let ubFault (what : String) (kind : String) (k : List Frame) : St :=
    if E.checked then next { c with ctl := errorCtl kind, kont := k }
    else .fault ("undefined-unchecked: " ++ what)
  match c.ctl with
  | .done => next c
  | .emit evs final =>
    match evs with
    | [] => next { c with ctl := if final then .done else .ret .unit }
    | e :: rest => .next { c with ctl := .emit rest final } (some e)
  | .eval e =>
    let push (f : Frame) (e' : Expr) : St := next { c with ctl := .eval e', kont := f :: c.kont }
    let ret (v : Val) : St := next { c with ctl := .ret v }
    match e with
    | .lit ty v =>
      match ty with
      | .byte => ret (.num ((v % 256).toNat))
      | .bool => ret (.num (if v != 0 then 1 else 0))
      | _ => ret (.num (E.wrap v))
    | .str bs => ret (.str bs)
    | .cast k e' => push (.castK k) e'
    | .var n =>
      match c.lookup n with
      | some v => ret v
      | none => .fault s!"unbound variable {n}"
    | .index s i => push (.idxS i) s
    | .len s => push .lenK s
    | .call n ptys args =>
      match args with
      | [] => doCall E c c.kont n ptys []
      | a :: rest => push (.argsK n ptys [] rest) a
    | .arrlit _ vals =>
      match vals with
      | [] => let (c', v) := alloc c #[]; next { c' with ctl := .ret v }
      | a :: rest => push (.arrlitK [] rest) a
    | .arrinit el len => push (.arrinitK el) len
    | .bin .and l r => push (.andK r) l
    | .bin .or l r => push (.orK r) l
    | .bin op l r => push (.binL op r) l
    | .un op e' => push (.unK op) e'
    | .spec l r => push (.specR l) r
  | .exec s =>
    let push (f : Frame) (e' : Expr) : St := next { c with ctl := .eval e', kont := f :: c.kont }
    match s with
    | .expr e => push .discard e
    | .decl n _ init => push (.declK n) init
    | .assign (.var n) rhs => push (.assignVar n) rhs
    | .assign (.index a i) rhs => push (.asgS i rhs none) a
    | .assign _ _ => .fault "bad assignment target"
    | .incassign (.var n) rhs op ty =>
      match c.lookup n with
      | some old => push (.incVar n op ty old) rhs
      | none => .fault s!"unbound variable {n}"
    | .incassign (.index a i) rhs op ty => push (.asgS i rhs (some (op, ty))) a
    | .incassign _ _ _ _ => .fault "bad assignment target"
    | .ret none => next { c with ctl := .unwind (.ret .unit) }
    | .ret (some e) => push .retK e
    | .brk => next { c with ctl := .unwind .brk }
    | .cont => next { c with ctl := .unwind .cont }
    | .block ss => next { c with ctl := .ret .unit, env := [] :: c.env, kont := .seq ss :: .scope :: c.kont }
    | .ifb cnd t e => push (.ifK t e) cnd
    | .loop cnd b k => push (.loopCond cnd b k) cnd
    | .tryb body .undo h =>
      .jump { c with ctl := .exec body, kont := .tryK :: c.kont } { c with ctl := .exec h }
    | .tryb body .stop h =>
      .jump { c with ctl := .exec body, kont := .tryK :: c.kont, mode := none }
            { c with ctl := .exec body, kont := .tryK :: c.kont, mode := some ⟨c.env, c.kont, h⟩ }
    | .preempt body =>
      match c.mode with
      | some _ => next { c with ctl := .exec body }
      | none => .jump { c with ctl := .ret .unit } { c with ctl := .exec body }
  | .unwind u =>
    match c.kont with
    | [] => .fault "unwind past top"
    | f :: k =>
      let c := { c with kont := k }
      match f, u with
      | .loopBody _ _ _, .brk => next { c with ctl := .ret .unit }
      | .loopBody cnd b kk, .cont => next { c with ctl := .exec kk, kont := .loopCont cnd b kk :: k }
      | .scope, _ => next { c with env := c.env.tail }
      | .tryK, _ => next { c with mode := none }
      | .callRet saved pre, .ret v =>
        let doRet : Cfg := { c with ctl := .ret v, env := saved }
        if pre && E.checked then .jump doRet { c with ctl := errorCtl "nonlocal_preempt" }
        else next doRet
      | .callRet _ _, _ => .fault "break/continue across call"
      | .top, _ => .fault "unwind past top"
      | _, _ => next c
  | .ret v =>
    match c.kont with
    | [] => .fault "return past top"
    | f :: k =>
      let c := { c with kont := k }
      let ret (v' : Val) : St := next { c with ctl := .ret v' }
      let push (f' : Frame) (e' : Expr) : St := next { c with ctl := .eval e', kont := f' :: k }
      match f with
      | .top => next { c with ctl := .emit [.flag "win"] true }
      | .castK kk =>
        match kk, v with
        | .b2i, .num n => ret (.num n)
        | .i2b, .num n => ret (.num (n % 256))
        | .i2bool, .num n => ret (.num (if n != 0 then 1 else 0))
        | .bool2b, .num n => ret (.num n)
        | .vol, x => ret x
        | .s2a, .str bs => let (c', a) := alloc c (bs.map Val.num).toArray; next { c' with ctl := .ret a }
        | _, .undef => ret .undef
        | _, _ => .fault "bad cast operand"
      | .unK op =>
        match op, v with
        | .pos, .num n => ret (.num n)
        | .neg, .num n => ret (.num ((E.M - n % E.M) % E.M))
        | .not, .num n => ret (.num (if n != 0 then 0 else 1))
        | _, .undef => ret .undef
        | _, _ => .fault "bad unary operand"
      | .binL op r => push (.binR op v) r
      | .binR op vl =>
        match vl, v with
        | .num a, .num b =>
          match binArith E op a b with
          | some r => ret (.num r)
          | none => ubFault "division by zero" "division_by_zero" k
        | .undef, .num b =>
          if (op == .div || op == .mod) && b % E.M == 0 then ubFault "division by zero" "division_by_zero" k
          else ret .undef
        | .num _, .undef =>
          if op == .div || op == .mod then undefFault "divisor" else ret .undef
        | .undef, .undef => if op == .div || op == .mod then undefFault "divisor" else ret .undef
        | _, _ => .fault "bad binary operands"
      | .andK r =>
        match v with
        | .num n => if n == 0 then ret (.num 0) else next { c with ctl := .eval r }
        | .undef => undefFault "and"
        | _ => .fault "bad and operand"
      | .orK r =>
        match v with
        | .num n => if n != 0 then ret (.num 1) else next { c with ctl := .eval r }
        | .undef => undefFault "or"
        | _ => .fault "bad or operand"
      | .idxS idx => push (.idxI v) idx
      | .idxI vs =>
        match v with
        | .num i =>
          match vs with
          | .str bs =>
            if inBounds i bs.length then ret (.num (bs.getD i 0))
            else ubFault "index" "out_of_bounds" k
          | .arr id =>
            let cells := c.store[id]?.getD #[]
            if inBounds i cells.size then ret (cells.getD i .undef)
            else ubFault "index" "out_of_bounds" k
          | _ => .fault "bad index source"
        | .undef => undefFault "index"
        | _ => .fault "bad index"
      | .lenK =>
        match v with
        | .str bs => ret (.num (bs.length % E.M))
        | .arr id => ret (.num ((c.store[id]?.getD #[]).size % E.M))
        | _ => .fault "bad length source"
      | .argsK n ptys done rest =>
        match rest with
        | [] => doCall E c k n ptys (done ++ [v])
        | a :: rest' => push (.argsK n ptys (done ++ [v]) rest') a
      | .arrlitK done rest =>
        match rest with
        | [] => let (c', a) := alloc c (done ++ [v]).toArray; next { c' with ctl := .ret a }
        | a :: rest' => push (.arrlitK (done ++ [v]) rest') a
      | .arrinitK el =>
        match v with
        | .num n =>
          if E.toS n < 0 || n > E.maxLen el || E.elBytes el n > E.stackBytes then
            ubFault "array length" "stack_overflow" k
          else let (c', a) := alloc c (Array.replicate n .undef); next { c' with ctl := .ret a }
        | .undef => undefFault "array length"
        | _ => .fault "bad array length"
      | .specR l =>
        .jump { c with ctl := .eval l, kont := .specL v :: k } { c with ctl := .ret v }
      | .specL vr =>
        match v, vr with
        | .num a, .num b => if a == b then .halt else ret (.num a)
        | _, _ => undefFault "speculation"
      | .discard => ret .unit
      | .declK n => next { (c.bind n v) with ctl := .ret .unit }
      | .assignVar n =>
        match c.assign n v with
        | some c' => next { c' with ctl := .ret .unit }
        | none => .fault s!"assignment to unbound {n}"
      | .asgS idx rhs op => push (.asgI v rhs op) idx
      | .asgI arr rhs op =>
        match v, arr with
        | .num i, .arr id =>
          let cells := c.store[id]?.getD #[]
          if inBounds i cells.size then
            push (.asgR arr i op (if op.isSome then cells.getD i .undef else .unit)) rhs
          else ubFault "index" "out_of_bounds" k
        | .undef, _ => undefFault "index"
        | _, _ => .fault "bad element assignment"
      | .asgR arr i op old =>
        let store (nv : Val) : St :=
          match arr with
          | .arr id =>
            let cells := c.store[id]?.getD #[]
            next { c with ctl := .ret .unit, store := c.store.setIfInBounds id (cells.setIfInBounds i nv) }
          | _ => .fault "bad element assignment"
        match op with
        | none => store v
        | some (bop, ty) =>
          match old, v with
          | .num a, .num b =>
            match binArith E bop a b with
            | some r => store (.num (truncTy E ty r))
            | none => ubFault "division by zero" "division_by_zero" k
          | .undef, .num b =>
            if (bop == .div || bop == .mod) && b % E.M == 0 then ubFault "division by zero" "division_by_zero" k
            else store .undef
          | _, .undef => if bop == .div || bop == .mod then undefFault "divisor" else store .undef
          | _, _ => .fault "bad compound assignment"
      | .incVar n bop ty old =>
        let assign (nv : Val) : St :=
          match c.assign n nv with
          | some c' => next { c' with ctl := .ret .unit }
          | none => .fault s!"assignment to unbound {n}"
        match old, v with
        | .num a, .num b =>
          match binArith E bop a b with
          | some r => assign (.num (truncTy E ty r))
          | none => ubFault "division by zero" "division_by_zero" k
        | .undef, .num b =>
          if (bop == .div || bop == .mod) && b % E.M == 0 then ubFault "division by zero" "division_by_zero" k
          else assign .undef
        | _, .undef => if bop == .div || bop == .mod then undefFault "divisor" else assign .undef
        | _, _ => .fault "bad compound assignment"
      | .retK => next { c with ctl := .unwind (.ret v) }
      | .ifK t e =>
        match v with
        | .num n => next { c with ctl := .exec (if n != 0 then t else e) }
        | .undef => undefFault "if condition"
        | _ => .fault "bad condition"
      | .loopCond cnd b kk =>
        match v with
        | .num n =>
          if n != 0 then next { c with ctl := .exec b, kont := .loopBody cnd b kk :: k }
          else ret .unit
        | .undef => undefFault "loop condition"
        | _ => .fault "bad condition"
      | .loopBody cnd b kk => next { c with ctl := .exec kk, kont := .loopCont cnd b kk :: k }
      | .loopCont cnd b kk => next { c with ctl := .eval cnd, kont := .loopCond cnd b kk :: k }
      | .seq rest =>
        match rest with
        | [] => ret .unit
        | s :: rest' => next { c with ctl := .exec s, kont := .seq rest' :: k }
      | .scope => next { c with ctl := .ret .unit, env := c.env.tail }
      | .callRet _ _ => .fault "control fell off the end of a function"
      | .tryK => ret .unit

/-- the reference machine for program `E.prog` -/
def machine (E : Env) : PSys Cfg Ev := ⟨step E⟩

def isDone (c : Cfg) : Bool := match c.ctl with | .done => true | _ => false

/-! ## Initial configuration -/

def parseIntArg (bs : List Nat) : Option Int :=
  let cs := bs.map Char.ofNat
  let (neg, ds) := match cs with
    | '-' :: r => (true, r)
    | '+' :: r => (false, r)
    | r => (false, r)
  if ds.isEmpty || !ds.all Char.isDigit then none
  else
    let n : Nat := ds.foldl (fun a ch => 10 * a + (ch.toNat - 48)) 0
    some (if neg then -(n : Int) else (n : Int))

/-- constant initialisers of globals -/
def constVal (E : Env) (c : Cfg) : Expr → Option (Cfg × Val)
  | .lit ty v =>
    match ty with
    | .byte => some (c, .num ((v % 256).toNat))
    | .bool => some (c, .num (if v != 0 then 1 else 0))
    | _ => some (c, .num (E.wrap v))
  | .str bs => some (c, .str bs)
  | .arrlit _ vals =>
    let cells := vals.mapM (fun e => match e with
      | .lit ty v => (match ty with
        | .byte => some (Val.num ((v % 256).toNat))
        | .bool => some (Val.num (if v != 0 then 1 else 0))
        | _ => some (Val.num (E.wrap v)))
      | .str bs => some (Val.str bs)
      | _ => none)
    cells.map (fun cs => alloc c cs.toArray)
  | .arrinit el (.lit _ n) =>
    let len := E.wrap n
    -- global arrays are zero-initialised (`.zero` directive)
    let zero : Val := match el with | .string => .undef | _ => .num 0
    some (alloc c (Array.replicate len zero))
  | _ => none

def initCfg (E : Env) (args : List (List Nat)) : Except String Cfg := do
  let mut c : Cfg := { ctl := .done }
  for g in E.prog.globals do
    match constVal E c g.init with
    | some (c', v) => c := { c' with globals := c'.globals ++ [(g.name, c'.cells.size)], cells := c'.cells.push v }
    | none => pure ()   -- not a compile-time constant: the compiler rejects any use of it
  match E.prog.funcs.find? (fun f => f.name == "@is_you") with
  | none => throw "no @is_you"
  | some f =>
    let nScalar := (f.params.filter (fun p => match p.2 with | .arr _ _ => false | _ => true)).length
    if args.length < nScalar then throw "too few arguments"
    let nvar := args.length - nScalar
    let mut rest := args
    let mut vals : List Val := []
    for (_, ty) in f.params do
      match ty with
      | .arr el _ =>
        let mine := rest.take nvar
        rest := rest.drop nvar
        let cells ← mine.mapM (fun a => match el with
          | .string => pure (Val.str a)
          | .int => match parseIntArg a with
            | some i => pure (Val.num (E.wrap i)) | none => throw "bad integer argument"
          | .byte => match parseIntArg a with
            | some i => pure (Val.num ((i % 256).toNat)) | none => throw "bad integer argument"
          | _ => throw "bad entry array type")
        let (c', v) := alloc c cells.toArray
        c := c'; vals := vals ++ [v]
      | .string =>
        match rest with
        | a :: r => vals := vals ++ [.str a]; rest := r
        | [] => throw "too few arguments"
      | .int =>
        match rest with
        | a :: r =>
          match parseIntArg a with
          | some i => vals := vals ++ [.num (E.wrap i)]; rest := r
          | none => throw "bad integer argument"
        | [] => throw "too few arguments"
      | .byte =>
        match rest with
        | a :: r =>
          match parseIntArg a with
          | some i => vals := vals ++ [.num ((i % 256).toNat)]; rest := r
          | none => throw "bad integer argument"
        | [] => throw "too few arguments"
      | _ => throw "bad entry parameter type"
    if !rest.isEmpty then throw "too many arguments"
    let c' := Cfg.bindAll { c with env := [] } (f.params.map (fun p => p.1)) vals
    pure { c' with ctl := .exec f.body, kont := [.callRet [] false, .top] }

end HidVerif.Hid
