import HidVerif.Hid.Lexer
import HidVerif.Hid.Ast
import HidVerif.Gen.Grammar
/-!
# Model of `hidc.parser` (rules.py, grammar.py)

A `Parser.routine` of the source is a function `P α` here: it either yields a value and the
remaining tokens, *fails* (the coroutine returned `None`: the caller continues from its own
position, which is exactly `Parser.process` backtracking), or aborts with an error
(`ParserError`, or the `LexerError` that the lazy token list raises when the token *before* a
lexical error is consumed).  Precedence levels, context expressions and context tests come
from `Gen.Grammar` (regenerated from grammar.py).  Recursion is on explicit fuel.
-/
namespace HidVerif.Hid.Parse
open HidVerif.Hid.Lex HidVerif.Gen

inductive PExpr
  | int (v : Nat) | char (b : Nat) | str (bs : List Nat) | bool (b : Bool)
  | arrlit (items : List PExpr)
  | call (name : List CP) (fl : Flavor) (args : List PExpr)
  | var (name : List CP)
  | len (e : PExpr) | index (e i : PExpr)
  | un (op : String) (e : PExpr)
  | is_ (e : PExpr) (ty : Ty)
  | bin (op : String) (l r : PExpr)
  | spec (l r : PExpr)
  deriving Repr, Inhabited

inductive PStmt
  | expr (e : PExpr)
  | decl (name : List CP) (ty : Ty) (const : Bool) (init : PExpr)
  | vla (name : List CP) (el : Ty) (const : Bool) (len : PExpr)
  | assign (l r : PExpr)
  | incassign (l r : PExpr) (op : String)
  | ret (e : Option PExpr) | brk | cont
  | block (ss : List PStmt) (preemptive : Bool)
  | ifb (c : PExpr) (t e : PStmt)
  | loop (c : PExpr) (body cont : PStmt)
  | tryb (body : PStmt) (k : HandlerKind) (handler : PStmt)
  | preempt (body : PStmt)
  deriving Repr, Inhabited

structure PFunc where
  ret : Ty
  name : List CP
  fl : Flavor
  params : List (List CP × Ty × Bool)
  body : PStmt
  deriving Repr, Inhabited

structure PProgram where
  vars : List PStmt
  funcs : List PFunc
  deriving Repr, Inhabited

inductive PErr | lexer (c : Cursor) | parser (c : Cursor) | fuel
  deriving Repr, DecidableEq, Inhabited

inductive Res (α : Type)
  | val (a : α) (rest : List Lexeme)
  | fail
  | err (e : PErr)
  deriving Repr

abbrev P (α : Type) := List Lexeme → Res α

def P.bind {α β : Type} (p : P α) (f : α → P β) : P β := fun ts =>
  match p ts with
  | .val a rest => f a rest
  | .fail => .fail
  | .err e => .err e

instance : Monad P where
  pure a := fun ts => .val a ts
  bind := P.bind

def fail {α : Type} : P α := fun _ => .fail
def throw {α : Type} (e : PErr) : P α := fun _ => .err e

/-- optional: a failing parser yields `none` and consumes nothing -/
def opt {α : Type} (p : P α) : P (Option α) := fun ts =>
  match p ts with
  | .val a rest => .val (some a) rest
  | .fail => .val none ts
  | .err e => .err e

/-- position the source reports for "expected …": start of the current token, or the value of
`Nil` (end of the last token) at the end of input -/
def herePos (ending : Ending) (ts : List Lexeme) : Cursor :=
  match ts with
  | l :: _ => l.start
  | [] => match ending with | .eof c => c | .error c => c

def expect {α : Type} (ending : Ending) (p : P α) : P α := fun ts =>
  match p ts with
  | .fail => .err (.parser (herePos ending ts))
  | r => r

def cursor (ending : Ending) : P Cursor := fun ts => .val (herePos ending ts) ts

/-- `Match.process`: consume one token satisfying `f`; touching `start.tail` forces the next
token of the lazy list, which raises the pending `LexerError` -/
def tokenIf {α : Type} (ending : Ending) (f : Lexeme → Option α) : P α := fun ts =>
  match ts with
  | l :: rest =>
    match f l with
    | some a =>
      match rest, ending with
      | [], .error c => .err (.lexer c)
      | _, _ => .val a rest
    | none => .fail
  | [] => .fail

def exact (ending : Ending) (name : String) : P Lexeme :=
  tokenIf ending (fun l => if l.tok == .enum name then some l else none)

def scalarTy : Ty → Bool
  | .int => true | .byte => true | .bool => true | .string => true | _ => false

/-- a type a variable, parameter or element can have: a scalar or an array of scalars -/
def tyOK : Ty → Bool
  | .arr el _ => scalarTy el
  | t => scalarTy t

/-- a type that may be the target of a cast: anything but an array of non-scalars -/
def tgtOK : Ty → Bool
  | .arr el _ => scalarTy el
  | _ => true

def tyOfName : String → Option Ty
  | "DataType.INT" => some .int | "DataType.BOOL" => some .bool | "DataType.BYTE" => some .byte
  | "DataType.STRING" => some .string | "DataType.EMPTY" => some .empty | _ => none

/-- `Instance(DataType)` -/
def dataTypeTok (ending : Ending) : P (Ty × Lexeme) :=
  tokenIf ending (fun l => match l.tok with
    | .enum n => (tyOfName n).map (fun t => (t, l))
    | _ => none)

/-- `ps_data_type`: a data type other than `empty` (the token is consumed even when it is
`empty` — the routine is not a `Parser`, so nothing backtracks here) -/
def psDataTypeOpt (ending : Ending) : P (Option Ty) := fun ts =>
  match dataTypeTok ending ts with
  | .val (t, _) rest => if t == .empty then .val none rest else .val (some t) rest
  | .fail => .val none ts
  | .err e => .err e

/-- raise "expected …" at the current position -/
def expected {α : Type} (ending : Ending) : P α := fun ts => .err (.parser (herePos ending ts))

def has (ctx : Nat) (member : String) : Bool :=
  let v := (blockContext.lookup member).getD 0
  Nat.land ctx v == v

def flavorAllowed (ctx : Nat) (fl : Flavor) : Bool :=
  let names := (ctxFlavors.lookup ctx).getD []
  match fl with
  | .none => names.contains "NONE" | .you => names.contains "YOU" | .defeat => names.contains "DEFEAT"

/-- `ps_ident(allowed)`: an identifier; a disallowed flavour is an error at the identifier -/
def psIdent (ending : Ending) (allowed : Flavor → Bool) : P (List CP × Flavor × Lexeme) := do
  let (n, fl, l) ← tokenIf ending (fun l => match l.tok with | .ident n fl => some (n, fl, l) | _ => none)
  if allowed fl then pure (n, fl, l) else throw (.parser l.start)

def onlyPlain (fl : Flavor) : Bool := fl == .none

/-- `ps_decl` -/
def psDecl (ending : Ending) : P (List CP × Ty × Bool) := do
  let c ← opt (exact ending "StmtToken.CONST")
  let dt ← psDataTypeOpt ending
  match dt with
  | some t =>
    let br ← opt (exact ending "BracToken.LSQUARE")
    match br with
    | some _ =>
      let _ ← expect ending (exact ending "BracToken.RSQUARE")
      let (n, _, _) ← expect ending (psIdent ending onlyPlain)
      pure (n, .arr t c.isSome, true)
    | none =>
      let (n, _, _) ← expect ending (psIdent ending onlyPlain)
      pure (n, t, c.isSome)
  | none => if c.isSome then expected ending else fail

def unaryOps : List (String × String) := (exprLevels.lookup 2).getD []
def binOps (level : Nat) : List (String × String) := (exprLevels.lookup level).getD []

def opTok (ending : Ending) (ops : List (String × String)) : P (String × Lexeme) :=
  tokenIf ending (fun l => match l.tok with
    | .enum n => (ops.find? (fun (t, _) => "OpToken." ++ t == n)).map (fun (_, cls) => (cls, l))
    | _ => none)

def isAssignable : PExpr → Bool
  | .var _ => true | .index _ _ => true | _ => false

mutual
/-- `comma_list(ps_expr(ctx))` -/
def commaList (ending : Ending) (fuel : Nat) (ctx : Nat) : P (List PExpr) :=
  match fuel with
  | 0 => throw .fuel
  | fuel + 1 => do
    let first ← opt (psExpr ending fuel ctx)
    match first with
    | none => pure []
    | some e => commaRest ending fuel ctx [e]

def commaRest (ending : Ending) (fuel : Nat) (ctx : Nat) (acc : List PExpr) : P (List PExpr) :=
  match fuel with
  | 0 => throw .fuel
  | fuel + 1 => do
    let c ← opt (exact ending "SepToken.COMMA")
    match c with
    | none => pure acc.reverse
    | some _ =>
      let e ← expect ending (psExpr ending fuel ctx)
      commaRest ending fuel ctx (e :: acc)

/-- `ps_func_call` -/
def psFuncCall (ending : Ending) (fuel : Nat) (ctx : Nat) : P PExpr :=
  match fuel with
  | 0 => throw .fuel
  | fuel + 1 =>
    if !has ctx "FUNC" then fail else do
    let (n, fl, _) ← psIdent ending (flavorAllowed ctx)
    let _ ← exact ending "BracToken.LPAREN"
    let args ← commaList ending fuel ctx
    let _ ← expect ending (exact ending "BracToken.RPAREN")
    pure (.call n fl args)

/-- `ps_expr0` -/
def psExpr0 (ending : Ending) (fuel : Nat) (ctx : Nat) : P PExpr :=
  match fuel with
  | 0 => throw .fuel
  | fuel + 1 => fun ts =>
    match (opt (exact ending "BracToken.LPAREN")) ts with
    | .err e => .err e
    | .fail => .fail
    | .val (some _) rest =>
      (do let e ← expect ending (psExpr ending fuel ctx)
          let _ ← expect ending (exact ending "BracToken.RPAREN")
          pure e) rest
    | .val none _ =>
      match (opt (tokenIf ending (fun l => match l.tok with
          | .int v => some (PExpr.int v) | .chr b => some (.char b) | .str bs => some (.str bs)
          | .enum "BoolToken.TRUE" => some (.bool true) | .enum "BoolToken.FALSE" => some (.bool false)
          | _ => none))) ts with
      | .err e => .err e
      | .fail => .fail
      | .val (some lit) rest => .val lit rest
      | .val none _ =>
        match (opt (exact ending "BracToken.LSQUARE")) ts with
        | .err e => .err e
        | .fail => .fail
        | .val (some _) rest =>
          (do let items ← commaList ending fuel ctx
              let _ ← expect ending (exact ending "BracToken.RSQUARE")
              pure (PExpr.arrlit items)) rest
        | .val none _ =>
          match (opt (psFuncCall ending fuel ctx)) ts with
          | .err e => .err e
          | .fail => .fail
          | .val (some c) rest => .val c rest
          | .val none _ =>
            (do let (n, _, _) ← psIdent ending onlyPlain
                pure (PExpr.var n)) ts

/-- the postfix loop of `ps_expr1` -/
def psPostfix (ending : Ending) (fuel : Nat) (ctx : Nat) (e : PExpr) : P PExpr :=
  match fuel with
  | 0 => throw .fuel
  | fuel + 1 => do
    let d ← opt (exact ending "SepToken.DOT")
    match d with
    | some _ =>
      let _ ← expect ending (tokenIf ending (fun l => if l.tok == .ident (cps "length") .none then some l else none))
      psPostfix ending fuel ctx (.len e)
    | none =>
      let b ← opt (exact ending "BracToken.LSQUARE")
      match b with
      | some _ =>
        let i ← expect ending (psExpr ending fuel ctx)
        let _ ← expect ending (exact ending "BracToken.RSQUARE")
        psPostfix ending fuel ctx (.index e i)
      | none => pure e

def psExpr1 (ending : Ending) (fuel : Nat) (ctx : Nat) : P PExpr :=
  match fuel with
  | 0 => throw .fuel
  | fuel + 1 => do
    let e ← psExpr0 ending fuel ctx
    psPostfix ending fuel ctx e

/-- `ps_expr2`: prefix operators -/
def psExpr2 (ending : Ending) (fuel : Nat) (ctx : Nat) : P PExpr :=
  match fuel with
  | 0 => throw .fuel
  | fuel + 1 => do
    let op ← opt (opTok ending unaryOps)
    match op with
    | some (cls, _) =>
      let e ← expect ending (psExpr2 ending fuel ctx)
      pure (.un cls e)
    | none => psExpr1 ending fuel ctx

/-- `ps_expr3`: `is` (non-associative) -/
def psExpr3 (ending : Ending) (fuel : Nat) (ctx : Nat) : P PExpr :=
  match fuel with
  | 0 => throw .fuel
  | fuel + 1 => do
    let e ← psExpr2 ending fuel ctx
    let i ← opt (exact ending "OpToken.IS")
    match i with
    | none => pure e
    | some _ =>
      let t? ← psDataTypeOpt ending
      match t? with
      | none => expected ending
      | some t =>
        let br ← opt (exact ending "BracToken.LSQUARE")
        match br with
        | some _ =>
          let _ ← expect ending (exact ending "BracToken.RSQUARE")
          pure (.is_ e (.arr t true))
        | none => pure (.is_ e t)

/-- `bin_op` at a level ≥ 4: left associative -/
def psBinLevel (ending : Ending) (fuel : Nat) (ctx : Nat) (level : Nat) : P PExpr :=
  match fuel with
  | 0 => throw .fuel
  | fuel + 1 =>
    if level ≤ 3 then psExpr3 ending fuel ctx else do
    let e ← psBinLevel ending fuel ctx (level - 1)
    psBinRest ending fuel ctx level e

def psBinRest (ending : Ending) (fuel : Nat) (ctx : Nat) (level : Nat) (e : PExpr) : P PExpr :=
  match fuel with
  | 0 => throw .fuel
  | fuel + 1 => do
    let op ← opt (opTok ending (binOps level))
    match op with
    | none => pure e
    | some (cls, _) =>
      let r ← expect ending (psBinLevel ending fuel ctx (level - 1))
      psBinRest ending fuel ctx level (.bin cls e r)

/-- `ps_expr`: level 8, then the speculation operator with its re-parse in a context without YOU -/
def psExpr (ending : Ending) (fuel : Nat) (ctx : Nat) : P PExpr :=
  match fuel with
  | 0 => throw .fuel
  | fuel + 1 => fun ts =>
    match psBinLevel ending fuel ctx 8 ts with
    | .err e => .err e
    | .fail => .fail
    | .val left rest =>
      match (opt (exact ending "OpToken.SPECULATION")) rest with
      | .err e => .err e
      | .fail => .fail
      | .val none _ => .val left rest
      | .val (some lxm) _ =>
        if !has ctx "YOU" then .err (.parser lxm.start) else
        -- Teleport(prev_node): parse again from where the expression started
        let nctx := ctxSpec ctx
        (do let l ← expect ending (psBinLevel ending fuel nctx 8)
            let _ ← expect ending (exact ending "OpToken.SPECULATION")
            let r ← expect ending (psBinLevel ending fuel nctx 8)
            pure (PExpr.spec l r)) ts
end


/-! ## statements, blocks, functions -/

def incOps : List (String × String) :=
  [("IncAssignToken.IADD", "Add"), ("IncAssignToken.ISUB", "Sub"), ("IncAssignToken.IMUL", "Mul"),
   ("IncAssignToken.IDIV", "Div"), ("IncAssignToken.IMOD", "Mod")]

/-- `ps_vdecl` -/
def psVdecl (ending : Ending) (fuel : Nat) (ctx : Nat) : P PStmt := do
  let (n, t, c) ← psDecl ending
  let br ← opt (exact ending "BracToken.LSQUARE")
  match br with
  | some l =>
    match t with
    | .arr _ _ => throw (.parser l.start)
    | _ =>
      let len ← expect ending (psExpr ending fuel ctx)
      let _ ← expect ending (exact ending "BracToken.RSQUARE")
      pure (.vla n t c len)
  | none =>
    let _ ← expect ending (exact ending "StmtToken.ASSIGN")
    let init ← expect ending (psExpr ending fuel ctx)
    pure (.decl n t c init)

/-- `ps_assignment` -/
def psAssignment (ending : Ending) (fuel : Nat) (ctx : Nat) : P PStmt := do
  let a ← psExpr ending fuel ctx
  if !isAssignable a then fail else
  let eq ← opt (exact ending "StmtToken.ASSIGN")
  match eq with
  | some _ =>
    let r ← expect ending (psExpr ending fuel ctx)
    pure (.assign a r)
  | none =>
    let (cls, _) ← tokenIf ending (fun l => match l.tok with
      | .enum n => (incOps.lookup n).map (fun c => (c, l))
      | _ => none)
    let r ← expect ending (psExpr ending fuel ctx)
    pure (.incassign a r cls)

/-- `ps_plain_stmt` -/
def psPlainStmt (ending : Ending) (fuel : Nat) (ctx : Nat) (allowDecl : Bool) : P PStmt := fun ts =>
  match (opt (psAssignment ending fuel ctx)) ts with
  | .err e => .err e
  | .fail => .fail
  | .val (some s) rest => .val s rest
  | .val none _ =>
    match (opt (psExpr ending fuel ctx)) ts with
    | .err e => .err e
    | .fail => .fail
    | .val (some e) rest => .val (.expr e) rest
    | .val none _ => if allowDecl then psVdecl ending fuel ctx ts else .fail

/-- `ps_stmt` -/
def psStmt (ending : Ending) (fuel : Nat) (ctx : Nat) : P PStmt := fun ts =>
  match (opt (exact ending "StmtToken.BREAK")) ts with
  | .err e => .err e
  | .fail => .fail
  | .val (some l) rest => if !has ctx "LOOP" then .err (.parser l.start) else .val .brk rest
  | .val none _ =>
    match (opt (exact ending "StmtToken.CONTINUE")) ts with
    | .err e => .err e
    | .fail => .fail
    | .val (some l) rest => if !has ctx "LOOP" then .err (.parser l.start) else .val .cont rest
    | .val none _ =>
      match (opt (exact ending "StmtToken.RETURN")) ts with
      | .err e => .err e
      | .fail => .fail
      | .val (some _) rest => (do let e ← opt (psExpr ending fuel ctx); pure (PStmt.ret e)) rest
      | .val none _ => psPlainStmt ending fuel ctx true ts

/-- `block.preemptive` of the source -/
def preemptiveOf : PStmt → Bool
  | .block _ p => p
  | .ifb _ t e => preemptiveOf t || preemptiveOf e
  | .loop _ b _ => preemptiveOf b
  | .tryb _ _ _ => false
  | .preempt _ => true
  | _ => false

mutual
/-- `ps_code_block` -/
def psCodeBlock (ending : Ending) (fuel : Nat) (ctx : Nat) : P PStmt :=
  match fuel with
  | 0 => throw .fuel
  | fuel + 1 => do
    let _ ← exact ending "BracToken.LCURLY"
    psBlockItems ending fuel ctx [] false

def psBlockItems (ending : Ending) (fuel : Nat) (ctx : Nat) (acc : List PStmt) (pre : Bool) : P PStmt :=
  match fuel with
  | 0 => throw .fuel
  | fuel + 1 => do
    let close ← opt (exact ending "BracToken.RCURLY")
    match close with
    | some _ => pure (.block acc.reverse pre)
    | none =>
      let st ← opt (psStmt ending fuel ctx)
      match st with
      | some s =>
        let _ ← expect ending (exact ending "SepToken.SEMICOLON")
        psBlockItems ending fuel ctx (s :: acc) pre
      | none =>
        let semi ← opt (exact ending "SepToken.SEMICOLON")
        match semi with
        | some _ => psBlockItems ending fuel ctx acc pre
        | none =>
          let b ← expect ending (psBlock ending fuel ctx)
          psBlockItems ending fuel ctx (b :: acc) (pre || preemptiveOf b)

/-- `ps_block` -/
def psBlock (ending : Ending) (fuel : Nat) (ctx : Nat) : P PStmt :=
  match fuel with
  | 0 => throw .fuel
  | fuel + 1 => fun ts =>
    let start := herePos ending ts
    match (opt (tokenIf ending (fun l => match l.tok with
        | .enum "BlockToken.IF" => some "if" | .enum "BlockToken.WHILE" => some "while" | .enum "BlockToken.FOR" => some "for"
        | .enum "BlockToken.TRY" => some "try" | .enum "BlockToken.PREEMPT" => some "preempt" | _ => none))) ts with
    | .err e => .err e
    | .fail => .fail
    | .val none _ => psCodeBlock ending fuel ctx ts
    | .val (some "if") rest =>
      (do let _ ← expect ending (exact ending "BracToken.LPAREN")
          let c ← expect ending (psExpr ending fuel ctx)
          let _ ← expect ending (exact ending "BracToken.RPAREN")
          let body ← expect ending (psBlock ending fuel (ctxIfBody ctx))
          let el ← opt (exact ending "BlockToken.ELSE")
          match el with
          | some _ =>
            let e ← expect ending (psBlock ending fuel (ctxElse ctx))
            pure (PStmt.ifb c body e)
          | none => pure (PStmt.ifb c body (.block [] false))) rest
    | .val (some "while") rest =>
      (do let _ ← expect ending (exact ending "BracToken.LPAREN")
          let c ← expect ending (psExpr ending fuel ctx)
          let _ ← expect ending (exact ending "BracToken.RPAREN")
          let body ← expect ending (psBlock ending fuel (ctxWhileBody ctx))
          pure (PStmt.loop c body (.block [] false))) rest
    | .val (some "for") rest =>
      (do let _ ← expect ending (exact ending "BracToken.LPAREN")
          let init ← opt (psPlainStmt ending fuel ctx true)
          let _ ← expect ending (exact ending "SepToken.SEMICOLON")
          let c ← opt (psExpr ending fuel ctx)
          let _ ← expect ending (exact ending "SepToken.SEMICOLON")
          let cont ← opt (psPlainStmt ending fuel ctx false)
          let _ ← expect ending (exact ending "BracToken.RPAREN")
          let body ← expect ending (psBlock ending fuel (ctxForBody ctx))
          let loop := PStmt.loop (c.getD (.bool true)) body
            (match cont with | some k => .block [k] false | none => .block [] false)
          pure (PStmt.block ((match init with | some i => [i] | none => []) ++ [loop]) (preemptiveOf body))) rest
    | .val (some "try") rest =>
      if !has ctx "YOU" then .err (.parser start) else
      (do let body ← expect ending (psBlock ending fuel (ctxTryBody ctx))
          let k ← expect ending (tokenIf ending (fun l => match l.tok with
            | .enum "BlockToken.UNDO" => some HandlerKind.undo | .enum "BlockToken.STOP" => some .stop | _ => none))
          let h ← expect ending (psBlock ending fuel (ctxHandler ctx))
          pure (PStmt.tryb body k h)) rest
    | .val (some _) rest =>
      if !has ctx "DEFEAT" then .err (.parser start) else
      (do let body ← expect ending (psBlock ending fuel (ctxPreemptBody ctx))
          pure (PStmt.preempt body)) rest
end

/-- `comma_list(ps_param())` -/
def psParams (ending : Ending) : Nat → P (List (List CP × Ty × Bool))
  | 0 => throw .fuel
  | fuel + 1 => do
    let first ← opt (psDecl ending)
    match first with
    | none => pure []
    | some p =>
      let rec more (fuel : Nat) (acc : List (List CP × Ty × Bool)) : P (List (List CP × Ty × Bool)) :=
        match fuel with
        | 0 => throw .fuel
        | fuel + 1 => do
          let c ← opt (exact ending "SepToken.COMMA")
          match c with
          | none => pure acc.reverse
          | some _ =>
            let q ← expect ending (psDecl ending)
            more fuel (q :: acc)
      more fuel [p]

/-- `ps_func` -/
def psFunc (ending : Ending) (fuel : Nat) : P PFunc := do
  let (rt, _) ← dataTypeTok ending
  let (n, fl) ← tokenIf ending (fun l => match l.tok with | .ident n fl => some (n, fl) | _ => none)
  let _ ← exact ending "BracToken.LPAREN"
  let ctx := match fl with
    | .you => funcContexts.getD 0 0 | .defeat => funcContexts.getD 1 0 | .none => funcContexts.getD 2 0
  let ps ← psParams ending fuel
  let _ ← expect ending (exact ending "BracToken.RPAREN")
  let body ← expect ending (psCodeBlock ending fuel ctx)
  pure ⟨rt, n, fl, ps, body⟩

/-- `ps_program` -/
def psProgram (ending : Ending) (fuel : Nat) : Nat → List PStmt → List PFunc → P PProgram
  | 0, _, _ => throw .fuel
  | k + 1, vs, fs => fun ts =>
    match ts with
    | [] => .val ⟨vs.reverse, fs.reverse⟩ []
    | _ =>
      match (opt (psFunc ending fuel)) ts with
      | .err e => .err e
      | .fail => .fail
      | .val (some f) rest => psProgram ending fuel k vs (f :: fs) rest
      | .val none _ =>
        match (opt (exact ending "SepToken.SEMICOLON")) ts with
        | .err e => .err e
        | .fail => .fail
        | .val (some _) rest => psProgram ending fuel k vs fs rest
        | .val none _ =>
          (do let v ← expect ending (psVdecl ending fuel 0)
              let _ ← expect ending (exact ending "SepToken.SEMICOLON")
              pure v) ts |> fun r => match r with
            | .val v rest => psProgram ending fuel k (v :: vs) fs rest
            | .fail => .fail
            | .err e => .err e

/-- `parse(source)`: lex lazily, parse a program -/
def parse (src : List Line) : Except PErr PProgram :=
  let (toks, ending) := lex src
  match toks, ending with
  | [], .error c => .error (.lexer c)       -- `lazy_list` forces the first token
  | _, _ =>
    let fuel := 16 * (toks.length + 4)
    match psProgram ending fuel (toks.length + 2) [] [] toks with
    | .val p _ => .ok p
    | .fail => .error .fuel
    | .err e => .error e

end HidVerif.Hid.Parse
