import HidVerif.Hid.Parser
/-! rendering of parse trees in the format of `harness/frontend.py: dump_parse` -/
namespace HidVerif.Hid.Parse
open HidVerif.Hid.Lex

def rName (n : List CP) : String := "n" ++ ".".intercalate (n.map toString)
def rFl : Flavor → String | .none => "-" | .you => "@" | .defeat => "!"
def hex2 (n : Nat) : String :=
  let d (k : Nat) : Char := if k < 10 then Char.ofNat (48 + k) else Char.ofNat (87 + k)
  String.ofList [d (n / 16 % 16), d (n % 16)]

def rTy : Ty → String
  | .int => "int" | .byte => "byte" | .bool => "bool" | .string => "string" | .empty => "empty"
  | .arr el c => s!"(arr {rTy el} {if c then 1 else 0})"

partial def rExpr : PExpr → String
  | .int v => s!"(int {v})" | .char b => s!"(char {b})"
  | .str bs => "(str x" ++ "".intercalate (bs.map hex2) ++ ")"
  | .bool b => s!"(bool {if b then 1 else 0})"
  | .arrlit items => "(arrlit" ++ "".intercalate (items.map (fun e => " " ++ rExpr e)) ++ ")"
  | .call n fl args => s!"(call {rFl fl} {rName n}" ++ "".intercalate (args.map (fun e => " " ++ rExpr e)) ++ ")"
  | .var n => s!"(var {rName n})"
  | .len e => s!"(len {rExpr e})" | .index e i => s!"(index {rExpr e} {rExpr i})"
  | .un op e => s!"(un {op} {rExpr e})"
  | .is_ e t => s!"(is {rExpr e} {rTy t})"
  | .bin op l r => s!"(bin {op} {rExpr l} {rExpr r})"
  | .spec l r => s!"(spec {rExpr l} {rExpr r})"

partial def rStmt : PStmt → String
  | .expr e => s!"(expr {rExpr e})"
  | .decl n t c i => s!"(decl {rName n} {rTy t} {if c then 1 else 0} {rExpr i})"
  | .vla n t c l => s!"(vla {rName n} {rTy t} {if c then 1 else 0} {rExpr l})"
  | .assign l r => s!"(assign {rExpr l} {rExpr r})"
  | .incassign l r op => s!"(incassign {rExpr l} {rExpr r} {op})"
  | .ret none => "(ret)" | .ret (some e) => s!"(ret {rExpr e})"
  | .brk => "(break)" | .cont => "(continue)"
  | .block ss p => s!"(block {if p then 1 else 0}" ++ "".intercalate (ss.map (fun s => " " ++ rStmt s)) ++ ")"
  | .ifb c t e => s!"(if {rExpr c} {rStmt t} {rStmt e})"
  | .loop c b k => s!"(loop {rExpr c} {rStmt b} {rStmt k})"
  | .tryb b k h => s!"(try {rStmt b} {match k with | .undo => "undo" | .stop => "stop"} {rStmt h})"
  | .preempt b => s!"(preempt {rStmt b})"

def rProgram (p : PProgram) : String :=
  "(prog (" ++ " ".intercalate (p.vars.map rStmt) ++ ") (" ++
  " ".intercalate (p.funcs.map (fun f => s!"(f {rTy f.ret} {rFl f.fl} {rName f.name} (" ++
    " ".intercalate (f.params.map (fun (n, t, c) => s!"({rName n} {rTy t} {if c then 1 else 0})")) ++ s!") {rStmt f.body})")) ++ "))"

def renderParse (src : List Line) : String :=
  match parse src with
  | .ok p => "ok " ++ rProgram p
  | .error (.lexer c) => s!"LexerError {c.line}:{c.col}"
  | .error (.parser c) => s!"ParserError {c.line}:{c.col}"
  | .error .fuel => "FUEL"

end HidVerif.Hid.Parse
