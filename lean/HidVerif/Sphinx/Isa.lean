import HidVerif.Prophetic
/-!
# The Sphinx machine (assumptions A1–A8 of DESIGN.md §3.4)

Byte-addressed state and const sections, `w`-byte little-endian words read as naturals below
`M = 256^w`, signed reading `toS`.  The only jump is the Turing jump.  The definitions here are
executable (the VM of record is `PSys.run` applied to `sphinx p`) and are the ones every
back-end theorem is stated about.
-/
namespace HidVerif.Sphinx

/-- A memory section: a byte array. Reads outside are 0 (the machine checks bounds first). -/
structure Mem where
  data : Array UInt8
  deriving Inhabited

namespace Mem
def size (m : Mem) : Nat := m.data.size
def rd (m : Mem) (a : Nat) : Nat := (m.data.getD a 0).toNat
def wr (m : Mem) (a v : Nat) : Mem := ⟨m.data.setIfInBounds a (UInt8.ofNat v)⟩

/-- little-endian read of `k` bytes at `a` -/
def readLE (m : Mem) (a : Nat) : Nat → Nat
  | 0 => 0
  | k+1 => m.rd a + 256 * readLE m (a+1) k

/-- little-endian write of the low `k` bytes of `v` at `a` -/
def writeLE (m : Mem) (a : Nat) : Nat → Nat → Mem
  | 0, _ => m
  | k+1, v => writeLE (m.wr a (v % 256)) (a+1) k (v / 256)
end Mem

inductive HaltOp | heq | hne | hlt | hgt | hle | hge | hltu | hgtu | hleu | hgeu
  deriving DecidableEq, Repr, Inhabited
inductive AluOp | add | sub | mul | div | mod | and | or | xor | asl | asr
  deriving DecidableEq, Repr, Inhabited
inductive Sec | state | const
  deriving DecidableEq, Repr, Inhabited

/-- Operand: immediate `v`, state word `[a]`, const word `{a}`. Values are already wrapped to
the word by the assembler; `evalArg` wraps again so that the semantics is total. -/
inductive Arg | imm (v : Nat) | st (a : Nat) | cn (a : Nat)
  deriving DecidableEq, Repr, Inhabited

inductive Instr
  | halt
  | hcond (c : HaltOp) (a b : Arg)
  | j (t : Arg)
  | mov (d : Nat) (v : Arg)
  | alu (op : AluOp) (d : Nat) (a b : Arg)
  /-- `l{w,b}{s,c}[o] [d], src[, off]` -/
  | load (word : Bool) (sec : Sec) (d : Nat) (src : Arg) (off : Option Arg)
  /-- `s{w,b}s[o] dst[, off], v` -/
  | store (word : Bool) (dst : Arg) (off : Option Arg) (v : Arg)
  | yld (a : Arg)
  | sleep (a : Arg)
  | flag (s : String)
  deriving DecidableEq, Repr, Inhabited

export HidVerif (Ev)

structure Prog where
  w : Nat
  code : Array Instr
  const : Mem
  deriving Inhabited

structure St where
  pc : Nat
  mem : Mem
  deriving Inhabited

def Prog.M (p : Prog) : Nat := 256 ^ p.w

/-- signed reading of a word value -/
def toS (M x : Nat) : Int := if x < M / 2 then (x : Int) else (x : Int) - M
/-- wrap an integer to the word -/
def wrapI (M : Nat) (v : Int) : Nat := (v % (M : Int)).toNat

def haltCond (M : Nat) : HaltOp → Nat → Nat → Bool
  | .heq, a, b => a == b
  | .hne, a, b => a != b
  | .hlt, a, b => decide (toS M a < toS M b)
  | .hgt, a, b => decide (toS M a > toS M b)
  | .hle, a, b => decide (toS M a ≤ toS M b)
  | .hge, a, b => decide (toS M a ≥ toS M b)
  | .hltu, a, b => decide (a < b)
  | .hgtu, a, b => decide (a > b)
  | .hleu, a, b => decide (a ≤ b)
  | .hgeu, a, b => decide (a ≥ b)

/-- ALU result (already wrapped); `none` = machine fault (division by zero). `n = 8w`. -/
def aluOp (M n : Nat) : AluOp → Nat → Nat → Option Nat
  | .add, a, b => some ((a + b) % M)
  | .sub, a, b => some ((a + M - b % M) % M)
  | .mul, a, b => some ((a * b) % M)
  | .div, a, b => if b % M = 0 then none else some (wrapI M (Int.fdiv (toS M a) (toS M b)))
  | .mod, a, b => if b % M = 0 then none else some (wrapI M (Int.fmod (toS M a) (toS M b)))
  | .and, a, b => some (Nat.land a b % M)
  | .or, a, b => some (Nat.lor a b % M)
  | .xor, a, b => some (Nat.xor a b % M)
  | .asl, a, b => some (if b < n then (a * 2 ^ b) % M else 0)
  | .asr, a, b => some (wrapI M (Int.fdiv (toS M a) ((2 : Int) ^ (min b n))))

def evalArg (p : Prog) (s : St) : Arg → Option Nat
  | .imm v => some (v % p.M)
  | .st a => if a % p.M + p.w ≤ s.mem.size then some (s.mem.readLE (a % p.M) p.w) else none
  | .cn a => if a % p.M + p.w ≤ p.const.size then some (p.const.readLE (a % p.M) p.w) else none

open HidVerif in
def step (p : Prog) (s : St) : Step St Ev :=
  match p.code[s.pc]? with
  | none => .fault "pc outside code"
  | some i =>
    let nxt : St := { s with pc := s.pc + 1 }
    let wrW (d v : Nat) : Step St Ev :=
      if d % p.M + p.w ≤ s.mem.size then .next ⟨s.pc + 1, s.mem.writeLE (d % p.M) p.w v⟩ none
      else .fault "word write outside state"
    match i with
    | .halt => .halt
    | .hcond c a b =>
      match evalArg p s a, evalArg p s b with
      | some x, some y => if haltCond p.M c x y then .halt else .next nxt none
      | _, _ => .fault "operand outside section"
    | .j t =>
      match evalArg p s t with
      | some x => .jump nxt { s with pc := x }
      | none => .fault "operand outside section"
    | .mov d v =>
      match evalArg p s v with
      | some x => wrW d x
      | none => .fault "operand outside section"
    | .alu op d a b =>
      match evalArg p s a, evalArg p s b with
      | some x, some y =>
        match aluOp p.M (8 * p.w) op x y with
        | some r => wrW d r
        | none => .fault "division by zero"
      | _, _ => .fault "operand outside section"
    | .load word sec d src off =>
      match evalArg p s src, (match off with | none => some 0 | some o => evalArg p s o) with
      | some b, some o =>
        let a := (b + o) % p.M
        let k := if word then p.w else 1
        let m := match sec with | .state => s.mem | .const => p.const
        if a + k ≤ m.size then wrW d (m.readLE a k) else .fault "load outside section"
      | _, _ => .fault "operand outside section"
    | .store word dst off v =>
      match evalArg p s dst, (match off with | none => some 0 | some o => evalArg p s o),
            evalArg p s v with
      | some b, some o, some x =>
        let a := (b + o) % p.M
        let k := if word then p.w else 1
        if a + k ≤ s.mem.size then .next ⟨s.pc + 1, s.mem.writeLE a k x⟩ none
        else .fault "store outside state"
      | _, _, _ => .fault "operand outside section"
    | .yld a =>
      match evalArg p s a with
      | some x => .next nxt (some (.out (x % 256)))
      | none => .fault "operand outside section"
    | .sleep a =>
      match evalArg p s a with
      | some x => .next nxt (some (.sleep x))
      | none => .fault "operand outside section"
    | .flag f => .next nxt (some (.flag f))

/-- The Sphinx machine running `p` as a prophetic system. -/
def sphinx (p : Prog) : HidVerif.PSys St Ev := ⟨step p⟩

end HidVerif.Sphinx
