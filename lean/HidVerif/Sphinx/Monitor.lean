import HidVerif.Sphinx.VM
import HidVerif.Gen.Stdlib
/-!
# Run-time monitors for the searchers (C04 region discipline, C08 `ap` drift at loop heads,
C16 fall-through into a function entry)

The monitored machine carries a little extra state next to the Sphinx state; because it is
part of the state, speculation and backtracking treat it exactly like memory.  Monitors only
*observe*: `monitored.step` projects to `sphinx.step` (no theorem depends on this file).
-/
namespace HidVerif.Sphinx.Monitor
open HidVerif HidVerif.Sphinx

structure Cfg where
  w : Nat
  stackStart : Nat
  stackEnd : Nat
  libBase : Nat             -- code address of the runtime library
  entries : List Nat        -- function entry points
  loopHeads : List Nat
  deriving Inhabited

structure MSt where
  s : St
  viaJump : Bool := true    -- the previous transition was a taken jump (true initially)
  lastFp : Nat := 0
  loops : List (Nat × Nat × Nat) := []     -- (loop head pc, fp, ap) seen in live frames
  deriving Inhabited

def mkCfg (l : Asm.Loaded) : Cfg :=
  let w := l.prog.w
  let starts (p : String) (s : String) : Bool := s.startsWith p
  { w := w
    stackStart := (l.label? "stack_start").getD (5 * w)
    stackEnd := (l.label? "stack_end").getD l.init.mem.size
    libBase := (l.label? "all_is_win").getD l.prog.code.size
    entries := (l.labels.filter (fun (n, _) => starts "func_" n)).map (·.2) ++
      (Gen.stdlibRoutines.filterMap (fun (n, _) => l.label? n))
    loopHeads := (l.labels.filter (fun (n, _) => starts "loop_" n)).map (·.2) }

def rdW (c : Cfg) (m : Mem) (a : Nat) : Nat := m.readLE a c.w

/-- operand is the register `fp` -/
def isFp (c : Cfg) : Arg → Bool
  | .st a => a == c.w
  | _ => false

def notesFor (c : Cfg) (p : Prog) (ms : MSt) : Array Ev := Id.run do
  let s := ms.s
  let mut out : Array Ev := #[]
  let ap := rdW c s.mem 0
  let fp := rdW c s.mem c.w
  if !(c.stackStart ≤ ap && ap ≤ fp && fp ≤ c.stackEnd) then
    out := out.push (.note s!"region:pointers pc={s.pc} ap={ap} fp={fp}")
  if c.entries.contains s.pc && !ms.viaJump then
    out := out.push (.note s!"fallthrough:pc={s.pc}")
  if c.loopHeads.contains s.pc then
    match ms.loops.find? (fun (pc, f, _) => pc == s.pc && f == fp) with
    | some (_, _, ap0) => if ap0 != ap then out := out.push (.note s!"apdrift:pc={s.pc} fp={fp} ap={ap0}->{ap}")
    | none => pure ()
  match p.code[s.pc]? with
  | none => pure ()
  | some i =>
    let inLib := s.pc ≥ c.libBase
    let okWord (d : Nat) : Bool := d + c.w ≤ c.stackStart || d ≥ c.stackEnd
    let chk (what : String) (base : Arg) (off : Option Arg) (k : Nat) (isStore : Bool) (sec : Sec) : Option String :=
      match sec with
      | .const => none
      | .state =>
        match evalArg p s base, (match off with | none => some 0 | some o => evalArg p s o) with
        | some b, some o =>
          let a := (b + o) % p.M
          if isFp c base then
            if ap ≤ a && a + k ≤ fp then none else some s!"region:{what} frame pc={s.pc} addr={a} ap={ap} fp={fp}"
          else
            let inArrays := c.stackStart ≤ a && a + k ≤ ap
            let inGlobals := c.stackEnd ≤ a
            let inRegs := a + k ≤ c.stackStart
            let inGap := ap ≤ a && a + k ≤ fp
            if inLib then
              if isStore then (if inGap then none else some s!"region:{what} library-store pc={s.pc} addr={a} ap={ap} fp={fp}")
              else none
            else if inArrays || inGlobals || (inRegs && !isStore) then none
            else some s!"region:{what} data pc={s.pc} addr={a} ap={ap} fp={fp}"
        | _, _ => none
    match i with
    | .load word sec d src off =>
      if !okWord d then out := out.push (.note s!"region:dest pc={s.pc} d={d}")
      match chk "load" src off (if word then c.w else 1) false sec with
      | some n => out := out.push (.note n)
      | none => pure ()
    | .store word dst off _ =>
      match chk "store" dst off (if word then c.w else 1) true .state with
      | some n => out := out.push (.note n)
      | none => pure ()
    | .mov d _ => if !okWord d then out := out.push (.note s!"region:dest pc={s.pc} d={d}")
    | .alu _ d _ _ => if !okWord d then out := out.push (.note s!"region:dest pc={s.pc} d={d}")
    | _ => pure ()
  return out

def track (c : Cfg) (ms : MSt) (s' : St) (viaJump : Bool) : MSt :=
  let fp := rdW c ms.s.mem c.w
  let ap := rdW c ms.s.mem 0
  -- frames below the current one are dead once fp has moved up
  let loops := if fp > ms.lastFp then ms.loops.filter (fun (_, f, _) => f ≥ fp) else ms.loops
  let loops :=
    if c.loopHeads.contains ms.s.pc then
      -- arriving at a loop head forgets the loops nested inside it
      let ls := loops.filter (fun (pc, f, _) => !(f == fp && pc > ms.s.pc))
      if ls.any (fun (pc, f, _) => pc == ms.s.pc && f == fp) then ls else (ms.s.pc, fp, ap) :: ls
    else loops
  { s := s', viaJump := viaJump, lastFp := fp, loops := loops }

def monitored (c : Cfg) (p : Prog) : PSys MSt Ev :=
  ⟨fun ms =>
    match step p ms.s with
    | .next s' ev => .next (track c ms s' false) ev
    | .halt => .halt
    | .jump no yes => .jump (track c ms no false) (track c ms yes true)
    | .fault w => .fault w⟩

def run (l : Asm.Loaded) (fuel : Nat) : RunResult MSt Ev :=
  let c := mkCfg l
  let tnt := (l.label? "tnt").getD (l.prog.code.size + 1)
  (monitored c l.prog).run (fun ms => ms.s.pc == tnt) (notesFor c l.prog) fuel { s := l.init }

end HidVerif.Sphinx.Monitor
