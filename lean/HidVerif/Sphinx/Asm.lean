import HidVerif.Sphinx.Isa
/-!
# Assembler / loader for the text `hidc` emits (DESIGN §3.3, assumption A8)

Input lines are byte strings; each byte is mapped to the `Char` with the same code (Latin-1
view), so the assembler is total on arbitrary bytes and non-ASCII identifiers are just
identifier characters ≥ 0x80.
-/
namespace HidVerif.Sphinx.Asm

abbrev Line := List Char

def isSpace (c : Char) : Bool := c == ' ' || c == '\t' || c == '\r' || c == '\n'
def isDigit (c : Char) : Bool := '0' ≤ c && c ≤ '9'
def isIdStart (c : Char) : Bool :=
  ('a' ≤ c && c ≤ 'z') || ('A' ≤ c && c ≤ 'Z') || c == '_' || c.toNat ≥ 0x80
def isIdChar (c : Char) : Bool := isIdStart c || isDigit c
def hexVal (c : Char) : Option Nat :=
  if '0' ≤ c && c ≤ '9' then some (c.toNat - '0'.toNat)
  else if 'a' ≤ c && c ≤ 'f' then some (c.toNat - 'a'.toNat + 10)
  else if 'A' ≤ c && c ≤ 'F' then some (c.toNat - 'A'.toNat + 10)
  else none

def trimL (l : Line) : Line := l.dropWhile isSpace
def trimR (l : Line) : Line := (l.reverse.dropWhile isSpace).reverse
def trim (l : Line) : Line := trimR (trimL l)

def str (l : Line) : String := String.ofList l

/-- split on whitespace runs -/
def words (l : Line) : List Line :=
  let rec go (l : Line) (cur : Line) (acc : List Line) : List Line :=
    match l with
    | [] => (if cur.isEmpty then acc else cur.reverse :: acc).reverse
    | c :: cs =>
      if isSpace c then go cs [] (if cur.isEmpty then acc else cur.reverse :: acc)
      else go cs (c :: cur) acc
  go l [] []

/-- The escapes the (assumed) Sphinx assembler accepts in string and character literals:
`\\ \" \' \n \r \xHH`; anything else after a backslash, a raw quote of the enclosing kind, or a
byte outside printable ASCII is rejected. -/
def simpleEscape (d : Char) : Option Nat :=
  if d == '\\' then some 0x5c else if d == '"' then some 0x22 else if d == '\'' then some 0x27
  else if d == 'n' then some 10 else if d == 'r' then some 13 else none

/-- decode the first unit of a literal body; returns its value and the remaining text -/
def unescapeStep (quote : Char) (l : Line) : Except String (Nat × Line) :=
  match l with
  | [] => .error "empty"
  | c :: t =>
    if c == '\\' then
      match t with
      | [] => .error "dangling backslash"
      | d :: t' =>
        if d == 'x' then
          match t' with
          | h1 :: h2 :: rest =>
            match hexVal h1, hexVal h2 with
            | some a, some b => .ok (16 * a + b, rest)
            | _, _ => .error "bad \\x escape"
          | _ => .error "bad \\x escape"
        else
          match simpleEscape d with
          | some b => .ok (b, t')
          | none => .error s!"bad escape \\{d}"
    else if c == quote then .error "raw quote inside literal"
    else if c.toNat < 0x20 || c.toNat > 0x7e then .error s!"unprintable byte {c.toNat} in literal"
    else .ok (c.toNat, t)

/-- decode a literal body unit by unit (`fuel` ≥ its length always suffices) -/
def unescapeFuel (quote : Char) : Nat → Line → Except String (List Nat)
  | _, [] => .ok []
  | 0, _ => .error "unescape fuel"
  | n + 1, l => do
    let (v, rest) ← unescapeStep quote l
    let r ← unescapeFuel quote n rest
    pure (v :: r)

def unescape (quote : Char) (l : Line) : Except String (List Nat) := unescapeFuel quote l.length l

/-! ### integer expressions -/
inductive Tok | num (v : Int) | op (c : Char)
  deriving Repr, BEq

def takeWhileRest (p : Char → Bool) (l : Line) : Line × Line := (l.takeWhile p, l.dropWhile p)

/-- read the body of a quoted literal starting after the opening quote; returns body and rest -/
def quotedBody (q : Char) : Line → Line → Option (Line × Line)
  | [], _ => none
  | '\\' :: c :: rest, acc => quotedBody q rest (c :: '\\' :: acc)
  | c :: rest, acc => if c == q then some (acc.reverse, rest) else quotedBody q rest (c :: acc)

def decVal (l : Line) : Nat := l.foldl (fun a c => 10 * a + (c.toNat - '0'.toNat)) 0
def hexNum (l : Line) : Nat := l.foldl (fun a c => 16 * a + (hexVal c).getD 0) 0

partial def tokenize (env : String → Option Int) (w : Nat) (l : Line) : Except String (List Tok) :=
  match trimL l with
  | [] => .ok []
  | c :: cs =>
    if c == '0' && (cs.head? == some 'x') then
      let (ds, rest) := takeWhileRest (fun c => (hexVal c).isSome) cs.tail
      if ds.isEmpty then .error "bad hex literal" else
      let v : Int := hexNum ds
      match rest with
      | 'w' :: rest' => do let r ← tokenize env w rest'; pure (.num (v * w) :: r)
      | _ => do let r ← tokenize env w rest; pure (.num v :: r)
    else if isDigit c then
      let (ds, rest) := takeWhileRest isDigit (c :: cs)
      let v : Int := decVal ds
      match rest with
      | 'w' :: rest' =>
        if (rest'.head?.map isIdChar).getD false then .error "bad number suffix" else do
        let r ← tokenize env w rest'; pure (.num (v * w) :: r)
      | _ =>
        if (rest.head?.map isIdChar).getD false then .error "bad number suffix" else do
        let r ← tokenize env w rest; pure (.num v :: r)
    else if c == '\'' then
      match quotedBody '\'' cs [] with
      | none => .error "unterminated character literal"
      | some (body, rest) => do
        let bs ← unescape '\'' body
        match bs with
        | [b] => do let r ← tokenize env w rest; pure (.num b :: r)
        | _ => .error "character literal must be one byte"
    else if isIdStart c || c == '$' then
      let (nm, rest) := takeWhileRest isIdChar cs
      let name := str (c :: nm)
      match env name with
      | some v => do let r ← tokenize env w rest; pure (.num v :: r)
      | none => .error s!"undefined symbol {name}"
    else if c == '-' || c == '+' || c == '&' || c == '(' || c == ')' then do
      let r ← tokenize env w cs; pure (.op c :: r)
    else .error s!"bad character {c} in expression"

/-- bitwise and on two's-complement integers of unbounded width -/
def intLand (a b : Int) : Int :=
  if 0 ≤ b then
    let k := b.toNat.log2 + 1
    (Nat.land (wrapI (2 ^ k) a) b.toNat : Nat)
  else if 0 ≤ a then
    let k := a.toNat.log2 + 1
    (Nat.land a.toNat (wrapI (2 ^ k) b) : Nat)
  else -(((Nat.lor (-a - 1).toNat (-b - 1).toNat : Nat) : Int) + 1)

mutual
partial def pAnd (ts : List Tok) : Except String (Int × List Tok) := do
  let (v, ts) ← pAdd ts
  pAndRest v ts
partial def pAndRest (v : Int) (ts : List Tok) : Except String (Int × List Tok) :=
  match ts with
  | .op '&' :: ts => do
    let (r, ts) ← pAdd ts
    -- bitwise and on (possibly negative) integers; operands are small in practice
    pAndRest (intLand v r) ts
  | _ => .ok (v, ts)
partial def pAdd (ts : List Tok) : Except String (Int × List Tok) := do
  let (v, ts) ← pUn ts
  pAddRest v ts
partial def pAddRest (v : Int) (ts : List Tok) : Except String (Int × List Tok) :=
  match ts with
  | .op '+' :: ts => do let (r, ts) ← pUn ts; pAddRest (v + r) ts
  | .op '-' :: ts => do let (r, ts) ← pUn ts; pAddRest (v - r) ts
  | _ => .ok (v, ts)
partial def pUn (ts : List Tok) : Except String (Int × List Tok) :=
  match ts with
  | .op '-' :: ts => do let (v, ts) ← pUn ts; pure (-v, ts)
  | .op '+' :: ts => pUn ts
  | .op '(' :: ts => do
    let (v, ts) ← pAnd ts
    match ts with
    | .op ')' :: ts => pure (v, ts)
    | _ => .error "expected )"
  | .num v :: ts => .ok (v, ts)
  | _ => .error "bad expression"
end

def evalExpr (env : String → Option Int) (w : Nat) (l : Line) : Except String Int := do
  let ts ← tokenize env w l
  let (v, rest) ← pAnd ts
  if rest.isEmpty then pure v else .error s!"trailing tokens in expression {str l}"

/-- split on commas that are not inside quotes -/
def splitArgs (l : Line) : Except String (List Line) :=
  let rec go (l : Line) (cur : Line) (q : Option Char) (acc : List Line) (fuel : Nat) :
      Except String (List Line) :=
    match fuel with
    | 0 => .error "splitArgs fuel"
    | fuel + 1 =>
    match l with
    | [] =>
      if q.isSome then .error "unterminated quote" else
      let acc := if (trim cur.reverse).isEmpty && acc.isEmpty then acc else cur.reverse :: acc
      .ok (acc.reverse.map trim)
    | c :: cs =>
      match q with
      | some qc =>
        if c == '\\' then
          match cs with
          | d :: cs' => go cs' (d :: c :: cur) q acc fuel
          | [] => .error "dangling backslash"
        else if c == qc then go cs (c :: cur) none acc fuel
        else go cs (c :: cur) q acc fuel
      | none =>
        if c == '"' || c == '\'' then go cs (c :: cur) (some c) acc fuel
        else if c == ',' then go cs [] none (cur.reverse :: acc) fuel
        else go cs (c :: cur) none acc fuel
  go l [] none [] (l.length + 1)

structure Item where
  op : String
  rest : Line
  deriving Inhabited

/-- strip leading `label:` prefixes; returns labels and the remaining line -/
partial def takeLabels (l : Line) (acc : List String) : List String × Line :=
  match l with
  | c :: _ =>
    if isIdStart c then
      let (nm, rest) := takeWhileRest isIdChar l
      match rest with
      | ':' :: rest' => takeLabels (trimL rest') (str nm :: acc)
      | _ => (acc.reverse, l)
    else (acc.reverse, l)
  | [] => (acc.reverse, l)

structure Raw where
  w : Nat := 2
  argv : Option (List Line) := none
  state : Array Item := #[]
  const : Array Item := #[]
  code : Array Item := #[]
  labels : Array (String × String × Nat) := #[]   -- name, section, index
  section_ : String := ""

def Raw.items (r : Raw) (sec : String) : Array Item :=
  if sec == "state" then r.state else if sec == "const" then r.const else r.code

def parseLines (lines : List Line) : Except String Raw := do
  let mut r : Raw := {}
  for raw in lines do
    let line := trim raw
    if line.isEmpty || line.head? == some ';' then continue
    if line.head? == some '%' then
      let ps := words line
      match ps.map str with
      | "%format" :: "word" :: n :: _ =>
        match n.toNat? with
        | some k => r := { r with w := k }
        | none => throw "bad %format word"
      | "%format" :: _ => pure ()
      | "%section" :: s :: _ =>
        if s == "state" || s == "const" || s == "code" then r := { r with section_ := s }
        else throw s!"unknown section {s}"
      | "%argv" :: _ => r := { r with argv := some ps.tail }
      | _ => throw s!"unknown directive {str line}"
      continue
    let (labs, rest) := takeLabels line []
    if !labs.isEmpty && r.section_ == "" then throw "label outside section"
    for nm in labs do
      if r.labels.any (fun (n, _, _) => n == nm) then throw s!"duplicate label {nm}"
      r := { r with labels := r.labels.push (nm, r.section_, (r.items r.section_).size) }
    let rest := trim rest
    if rest.isEmpty then continue
    if r.section_ == "" then throw "instruction outside section"
    let (op, args) := takeWhileRest (fun c => !isSpace c) rest
    let it : Item := ⟨str op, trim args⟩
    if r.section_ == "state" then r := { r with state := r.state.push it }
    else if r.section_ == "const" then r := { r with const := r.const.push it }
    else r := { r with code := r.code.push it }
  pure r

abbrev ArgVals := List (String × List (List Nat))

def bindArgs (argv : Option (List Line)) (args : List (List Nat)) : Except String ArgVals := do
  match argv with
  | none => if args.isEmpty then pure [] else throw "unexpected command-line arguments"
  | some specs =>
    let nonvar := specs.filter (fun s => s.head? != some '[')
    if args.length < nonvar.length then throw "too few arguments"
    let nvar := args.length - nonvar.length
    if nvar > 0 && nonvar.length == specs.length then throw "too many arguments"
    let mut rest := args
    let mut out : ArgVals := []
    for spec in specs do
      if spec.head? == some '[' then
        -- [<name>...]
        let name := str ((spec.drop 2).takeWhile (· != '>'))
        out := out ++ [(name, rest.take nvar)]
        rest := rest.drop nvar
      else
        let name := str ((spec.drop 1).takeWhile (· != '>'))
        match rest with
        | a :: rs => out := out ++ [(name, [a])]; rest := rs
        | [] => throw "too few arguments"
    pure out

/-- base-10 integer argument as the loader parses it: optional sign, digits -/
def parseIntArg (bs : List Nat) : Except String Int :=
  let cs := bs.map Char.ofNat
  let (neg, ds) := match cs with
    | '-' :: r => (true, r)
    | '+' :: r => (false, r)
    | r => (false, r)
  if ds.isEmpty || !ds.all isDigit then .error "argument is not a base-10 integer"
  else .ok (if neg then -(decVal ds : Int) else (decVal ds : Int))

def leBytes (w : Nat) (v : Nat) : List Nat :=
  match w with
  | 0 => []
  | k+1 => (v % 256) :: leBytes k (v / 256)

def quotedArg (rest : Line) : Except String (List Nat) :=
  match trim rest with
  | '"' :: body =>
    match body.reverse with
    | '"' :: rb => unescape '"' rb.reverse
    | _ => .error "bad .ascii operand"
  | _ => .error "bad .ascii operand"

def dataBytes (w : Nat) (env : String → Option Int) (argvals : ArgVals) (base : Nat)
    (it : Item) : Except String (List Nat) := do
  let M := 256 ^ w
  match it.op with
  | ".word" =>
    let es ← splitArgs it.rest
    let vs ← es.mapM (evalExpr env w)
    pure (vs.flatMap (fun v => leBytes w (wrapI M v)))
  | ".byte" =>
    let es ← splitArgs it.rest
    let vs ← es.mapM (evalExpr env w)
    pure (vs.map (fun v => wrapI 256 v))
  | ".zero" =>
    let v ← evalExpr (fun _ => none) w it.rest
    if v < 0 then throw "negative .zero size" else pure (List.replicate v.toNat 0)
  | ".ascii" => quotedArg it.rest
  | ".arg" =>
    match (words it.rest).map str with
    | name :: fmt :: more =>
      match argvals.lookup name with
      | none => throw s!"unknown argument {name}"
      | some vals =>
        if fmt == "word" then do
          let vs ← vals.mapM parseIntArg
          pure (vs.flatMap (fun v => leBytes w (wrapI M v)))
        else if fmt == "byte" then do
          let vs ← vals.mapM parseIntArg
          pure (vs.map (fun v => wrapI 256 v))
        else if fmt == "asciip" then
          if more == ["array"] then
            let tbl := base + w * vals.length
            let (ptrs, _) := vals.foldl (fun (acc : List Nat × Nat) v =>
              (acc.1 ++ leBytes w ((tbl + acc.2) % M), acc.2 + w + v.length)) ([], 0)
            pure (ptrs ++ vals.flatMap (fun v => leBytes w (v.length % M) ++ v))
          else match vals with
            | [v] => pure (leBytes w (v.length % M) ++ v)
            | _ => throw "asciip needs one value"
        else throw s!"unknown .arg format {fmt}"
    | _ => throw "bad .arg"
  | op => throw s!"unknown data directive {op}"

/-- size of a data item; needs no label environment -/
def dataSize (w : Nat) (argvals : ArgVals) (it : Item) : Except String Nat := do
  match it.op with
  | ".word" => let es ← splitArgs it.rest; pure (w * es.length)
  | ".byte" => let es ← splitArgs it.rest; pure es.length
  | _ => let bs ← dataBytes w (fun _ => some 0) argvals 0 it; pure bs.length

def parseOperand (env : String → Option Int) (w : Nat) (l : Line) : Except String Arg := do
  let M := 256 ^ w
  let l := trim l
  match l with
  | '[' :: rest =>
    match rest.reverse with
    | ']' :: rb => let v ← evalExpr env w rb.reverse; pure (.st (wrapI M v))
    | _ => throw "bad [operand]"
  | '{' :: rest =>
    match rest.reverse with
    | '}' :: rb => let v ← evalExpr env w rb.reverse; pure (.cn (wrapI M v))
    | _ => throw "bad {operand}"
  | _ => let v ← evalExpr env w l; pure (.imm (wrapI M v))

def haltOpOf : String → Option HaltOp
  | "heq" => some .heq | "hne" => some .hne | "hlt" => some .hlt | "hgt" => some .hgt
  | "hle" => some .hle | "hge" => some .hge | "hltu" => some .hltu | "hgtu" => some .hgtu
  | "hleu" => some .hleu | "hgeu" => some .hgeu | _ => none
def aluOpOf : String → Option AluOp
  | "add" => some .add | "sub" => some .sub | "mul" => some .mul | "div" => some .div
  | "mod" => some .mod | "and" => some .and | "or" => some .or | "xor" => some .xor
  | "asl" => some .asl | "asr" => some .asr | _ => none

def destOf : Arg → Except String Nat
  | .st a => .ok a
  | _ => .error "destination must be a state operand"

def decodeInstr (env : String → Option Int) (w : Nat) (it : Item) : Except String Instr := do
  if it.op == "flag" then return .flag (str (trim it.rest))
  let es ← splitArgs it.rest
  let as ← es.mapM (parseOperand env w)
  match it.op, as with
  | "halt", [] => pure .halt
  | "j", [t] => pure (.j t)
  | "mov", [d, v] => pure (.mov (← destOf d) v)
  | "yield", [a] => pure (.yld a)
  | "sleep", [a] => pure (.sleep a)
  | "lws", [d, s] => pure (.load true .state (← destOf d) s none)
  | "lwc", [d, s] => pure (.load true .const (← destOf d) s none)
  | "lbs", [d, s] => pure (.load false .state (← destOf d) s none)
  | "lbc", [d, s] => pure (.load false .const (← destOf d) s none)
  | "lwso", [d, s, o] => pure (.load true .state (← destOf d) s (some o))
  | "lwco", [d, s, o] => pure (.load true .const (← destOf d) s (some o))
  | "lbso", [d, s, o] => pure (.load false .state (← destOf d) s (some o))
  | "lbco", [d, s, o] => pure (.load false .const (← destOf d) s (some o))
  | "sws", [d, v] => pure (.store true d none v)
  | "sbs", [d, v] => pure (.store false d none v)
  | "swso", [d, o, v] => pure (.store true d (some o) v)
  | "sbso", [d, o, v] => pure (.store false d (some o) v)
  | op, as =>
    match haltOpOf op, aluOpOf op, as with
    | some c, _, [a, b] => pure (.hcond c a b)
    | _, some o, [d, a, b] => pure (.alu o (← destOf d) a b)
    | _, _, _ => throw s!"bad instruction {op} with {as.length} operands"

structure Loaded where
  prog : Prog
  init : St
  labels : List (String × Nat)

def Loaded.label? (l : Loaded) (n : String) : Option Nat := l.labels.lookup n

/-- Assemble and load: `lines` are the output of `hidc`, `args` the command-line arguments. -/
def load (lines : List Line) (args : List (List Nat)) : Except String Loaded := do
  let r ← parseLines lines
  if r.w == 0 then throw "word size 0"
  let argvals ← bindArgs r.argv args
  -- pass 1: addresses
  let addrsOf (items : Array Item) : Except String (Array Nat) := do
    let mut a := 0
    let mut out : Array Nat := #[]
    for it in items do
      out := out.push a
      a := a + (← dataSize r.w argvals it)
    pure (out.push a)
  let sa ← addrsOf r.state
  let ca ← addrsOf r.const
  let labels : List (String × Nat) := r.labels.toList.map (fun (n, sec, idx) =>
    (n, if sec == "state" then sa[idx]! else if sec == "const" then ca[idx]! else idx))
  let env : String → Option Int := fun n =>
    if n == "$argc" then some (args.length : Int) else (labels.lookup n).map (fun v => (v : Int))
  let build (items : Array Item) (addrs : Array Nat) : Except String (Array UInt8) := do
    let mut out : Array UInt8 := #[]
    for h : i in [0:items.size] do
      let bs ← dataBytes r.w env argvals addrs[i]! items[i]
      out := out ++ (bs.map UInt8.ofNat).toArray
    pure out
  let st ← build r.state sa
  let cn ← build r.const ca
  let code ← r.code.mapM (decodeInstr env r.w)
  pure { prog := { w := r.w, code := code, const := ⟨cn⟩ }, init := ⟨0, ⟨st⟩⟩, labels := labels }

end HidVerif.Sphinx.Asm
