import HidVerif.Sphinx.Asm
/-!
# Running assembled programs on the driver of `Prophetic.lean`

The terminal loop of the runtime library is `tnt: sleep 0x7f7f; j tnt; halt` — once control is
at `tnt` the machine never halts and emits only `sleep` events (`Props/C03.lean`,
`terminal_never_halts`), so the driver stops there and every pending choice is committed.
-/
namespace HidVerif.Sphinx.VM
open HidVerif HidVerif.Sphinx

def hex2 (n : Nat) : String :=
  let d (k : Nat) : Char := if k < 10 then Char.ofNat (48 + k) else Char.ofNat (87 + k)
  String.ofList [d (n / 16 % 16), d (n % 16)]

/-- compact, comma-separated rendering of an event list: `O<hex>` for a run of output bytes,
`F<name>`, `S<ms>`, `N<note>` -/
def renderTrace (evs : Array Ev) : String := Id.run do
  let mut parts : Array String := #[]
  let mut cur : String := ""
  for e in evs do
    match e with
    | .out b => cur := cur ++ hex2 b
    | other =>
      if cur != "" then parts := parts.push ("O" ++ cur); cur := ""
      match other with
      | .flag s => parts := parts.push ("F" ++ s)
      | .sleep ms => parts := parts.push ("S" ++ toString ms)
      | .note s => parts := parts.push ("N" ++ s)
      | .out _ => pure ()
  if cur != "" then parts := parts.push ("O" ++ cur)
  return ",".intercalate parts.toList

def renderOutcome : Outcome → String
  | .terminal => "terminal"
  | .halted => "halted"
  | .fault why => "fault:" ++ why.replace " " "_"
  | .fuel => "fuel"

structure VMOpts where
  fuel : Nat := 2000000
  mon : Bool := false
  deriving Inhabited

def runLoaded (l : Asm.Loaded) (o : VMOpts) (pre : St → Array Ev := fun _ => #[]) :
    RunResult St Ev :=
  let tnt := (l.label? "tnt").getD (l.prog.code.size + 1)
  (sphinx l.prog).run (fun s => s.pc == tnt) pre o.fuel l.init

end HidVerif.Sphinx.VM
