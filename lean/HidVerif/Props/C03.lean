import HidVerif.Proofs.Terminal
import HidVerif.Proofs.Tables
import HidVerif.Proofs.SourceLaws
import HidVerif.Proofs.CoreMain
/-!
# C03 — halt is defeat: a compiled program never halts

Full-strength statement (kept visible; proved only for the fragments below):
  for every accepted program with defined behaviour, `¬ Halts (sphinx prog) init`.
By `cstep_halts_iff` this is the same as "the committed timeline never reaches `halt`".
-/
namespace HidVerif.Props.C03
open HidVerif HidVerif.PSys HidVerif.Sphinx HidVerif.Gen

/-- the full statement, as a proposition about a loaded program -/
def C03_statement (p : Prog) (init : St) : Prop := ¬ Halts (sphinx p) init

/-- committed execution preserves halting status: "never commits a halt" ⇔ `¬ Halts init` -/
theorem never_commits_halt_iff (p : Prog) {s s' : St} {tr} (h : Exec (sphinx p) s tr s') :
    Halts (sphinx p) s ↔ Halts (sphinx p) s' := exec_halts_iff h

/-- mechanism 3 of the property: the win/error end states are loops that never fall into
`halt` — for the library text of the current tree, every `w ≥ 2`, any memory -/
theorem terminal_never_halts {p : Prog} {B : Nat} (hp : Placed p B) (m : Mem) :
    ¬ Halts (sphinx p) ⟨B + off_all_is_win, m⟩ ∧ ¬ Halts (sphinx p) ⟨B + off_all_is_broken, m⟩ ∧
    ¬ Halts (sphinx p) ⟨B + off_stack_overflow, m⟩ ∧ ¬ Halts (sphinx p) ⟨B + off_division_by_zero, m⟩ ∧
    ¬ Halts (sphinx p) ⟨B + off_out_of_bounds, m⟩ ∧ ¬ Halts (sphinx p) ⟨B + off_nonlocal_preempt, m⟩ :=
  Sphinx.terminal_never_halts hp m

/-- mechanism 2: the inverse condition placed at every branch target is the logical negation,
for all ten conditional halts of the regenerated table -/
theorem halt_inversion_sound (M a b : Nat) :
    ∀ pr ∈ haltInversion, haltCond M pr.2 a b = !haltCond M pr.1 a b :=
  Sphinx.halt_inversion_sound M a b

theorem halt_inversion_total : ∀ c : HaltOp, ∃ c', (c, c') ∈ haltInversion := Sphinx.haltInversion_total

/-- `j X; halt` is an unconditional transfer that never commits the halt -/
theorem goto_reach {p : Prog} {pc x : Nat} {t : Arg} {m : Mem}
    (c0 : p.code[pc]? = some (.j t)) (c1 : p.code[pc + 1]? = some .halt)
    (ht : evalArg p ⟨pc, m⟩ t = some x) : Reach (sphinx p) ⟨pc, m⟩ [] ⟨x, m⟩ :=
  Reach.jump_taken (sys := sphinx p) (step_j c0 ht) (step_halt c1)

/-- what a VM verdict means: `hidmodel` reporting `terminal`/`fault` exhibits a committed run
that never halts; reporting `halted` exhibits `Halts init` -/
theorem vm_verdict_sound {p : Prog} {B : Nat} (hp : Placed p B) (fuel : Nat) (s₀ : St) :
    Sound (sphinx p) (fun s => s.pc == tntPc B) s₀
      ((sphinx p).run (fun s => s.pc == tntPc B) (fun _ => #[]) fuel s₀) := vm_sound hp fuel s₀

/-! ## The sequential integer core never halts (proved for the model that the `core`
correspondence suite identifies with the compiler's output) -/

/-- **C03 on the core**: every terminating core program, for every argument vector and in every
configuration whose stack holds the frame peak, never reaches the halted state on its committed
timeline. -/
theorem core_never_halts (cf : Core.Config) (args : List Int) (pr : Core.CProg) (hw : 2 ≤ cf.w)
    (hB : Core.progLen cf.checked pr + stdlibLength < 256 ^ cf.w) (hSE : Core.F0 cf args + Core.regsLen cf.w pr < 256 ^ cf.w)
    (hwf : Core.wfProg pr = true) (hlen : args.length = pr.params.length)
    (fuel : Nat) (env' : Core.Env) (tr : List Ev) (res : Core.Res)
    (hex : Core.srcRun cf fuel args pr = some (env', tr, res))
    (hck : res = .div0 ∨ res = .ovf → cf.checked = true)
    (hpkF : res = .ovf → ∀ fd ∈ pr.funs, Core.pkS cf.w (Core.entryOff cf.w fd.params) fd.body < 256 ^ cf.w)
    (hroom : Core.pkS cf.w (Core.entryOff cf.w pr.params) pr.body ≤ Core.roomOf cf args) :
    C03_statement (Core.coreProg cf pr) (Core.coreInit cf args pr) :=
  (Core.core_correct cf args pr hw hB hSE hwf hlen fuel env' tr res hex hck hpkF hroom).choose_spec.2

/-- … and neither does a checked build whose stack is too small: it ends in `stack_overflow` -/
theorem core_overflow_never_halts (cf : Core.Config) (args : List Int) (pr : Core.CProg)
    (hw : 2 ≤ cf.w) (hck : cf.checked = true)
    (hB : Core.progLen cf.checked pr + stdlibLength < 256 ^ cf.w) (hSE : Core.F0 cf args < 256 ^ cf.w)
    (hnd : pr.params.Nodup) (hlen : args.length = pr.params.length)
    (hsmall : Core.roomOf cf args < Core.pkS cf.w (Core.entryOff cf.w pr.params) pr.body)
    (hpkM : Core.pkS cf.w (Core.entryOff cf.w pr.params) pr.body < 256 ^ cf.w) :
    C03_statement (Core.coreProg cf pr) (Core.coreInit cf args pr) :=
  (Core.core_overflow cf args pr hw hck hB hSE hnd hlen hsmall hpkM).choose_spec.2

end HidVerif.Props.C03
