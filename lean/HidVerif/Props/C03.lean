import HidVerif.Proofs.Terminal
import HidVerif.Proofs.Tables
import HidVerif.Proofs.SourceLaws
import HidVerif.Proofs.CoreMain
import HidVerif.Props.C17
/-!
# C03 — halt is defeat: a compiled program never halts

Full-strength statement (kept visible; proved only for the fragments below):
  for every accepted program with defined behaviour, `¬ Halts (sphinx prog) init`.
By `cstep_halts_iff` this is the same as "the committed timeline never reaches `halt`".
-/
namespace HidVerif.Props.C03
open HidVerif HidVerif.PSys HidVerif.Sphinx HidVerif.Gen

/-- the full statement, as a proposition about a loaded program -/
def C03_statement (p : Prog) (init : St) : Prop := ¬ Halts (sphinx p) init

/-- committed execution preserves halting status: "never commits a halt" ⇔ `¬ Halts init` -/
theorem never_commits_halt_iff (p : Prog) {s s' : St} {tr} (h : Exec (sphinx p) s tr s') :
    Halts (sphinx p) s ↔ Halts (sphinx p) s' := exec_halts_iff h

/-- mechanism 3 of the property: the win/error end states are loops that never fall into
`halt` — for the library text of the current tree, every `w ≥ 2`, any memory -/
theorem terminal_never_halts {p : Prog} {B : Nat} (hp : Placed p B) (m : Mem) :
    ¬ Halts (sphinx p) ⟨B + off_all_is_win, m⟩ ∧ ¬ Halts (sphinx p) ⟨B + off_all_is_broken, m⟩ ∧
    ¬ Halts (sphinx p) ⟨B + off_stack_overflow, m⟩ ∧ ¬ Halts (sphinx p) ⟨B + off_division_by_zero, m⟩ ∧
    ¬ Halts (sphinx p) ⟨B + off_out_of_bounds, m⟩ ∧ ¬ Halts (sphinx p) ⟨B + off_nonlocal_preempt, m⟩ :=
  Sphinx.terminal_never_halts hp m

/-- mechanism 2: the inverse condition placed at every branch target is the logical negation,
for all ten conditional halts of the regenerated table -/
theorem halt_inversion_sound (M a b : Nat) :
    ∀ pr ∈ haltInversion, haltCond M pr.2 a b = !haltCond M pr.1 a b :=
  Sphinx.halt_inversion_sound M a b

theorem halt_inversion_total : ∀ c : HaltOp, ∃ c', (c, c') ∈ haltInversion := Sphinx.haltInversion_total

/-- `j X; halt` is an unconditional transfer that never commits the halt -/
theorem goto_reach {p : Prog} {pc x : Nat} {t : Arg} {m : Mem}
    (c0 : p.code[pc]? = some (.j t)) (c1 : p.code[pc + 1]? = some .halt)
    (ht : evalArg p ⟨pc, m⟩ t = some x) : Reach (sphinx p) ⟨pc, m⟩ [] ⟨x, m⟩ :=
  Reach.jump_taken (sys := sphinx p) (step_j c0 ht) (step_halt c1)

/-- what a VM verdict means: `hidmodel` reporting `terminal`/`fault` exhibits a committed run
that never halts; reporting `halted` exhibits `Halts init` -/
theorem vm_verdict_sound {p : Prog} {B : Nat} (hp : Placed p B) (fuel : Nat) (s₀ : St) :
    Sound (sphinx p) (fun s => s.pc == tntPc B) s₀
      ((sphinx p).run (fun s => s.pc == tntPc B) (fun _ => #[]) fuel s₀) := vm_sound hp fuel s₀

/-! ## The print routines of the library commit no halt of their own -/

/-- `Reach` preserves the halting status in both directions -/
theorem reach_halts_iff {p : Prog} {s s' : St} {tr} (h : Reach (sphinx p) s tr s') :
    Halts (sphinx p) s ↔ Halts (sphinx p) s' :=
  ⟨fun hs => Classical.byContradiction (fun hn => (h.exec hn).2 hs), h.1⟩

/-- **library print routines never halt**: called according to the calling convention (the hypotheses of the
C17 theorems: registers in place, argument slots below `fp`, lengths below half the address space - zero
included), each of `write_int`, `write_string`, `write_const_byte_array`, `write_state_byte_array` and
`write_bool` halts iff the caller's continuation at the return address does; their Turing jumps (the
empty-array guards among them) are all resolved inside the routine.  For the library text of the current
tree, every `w ≥ 2`. -/
theorem library_writes_never_halt (p : Prog) (B : Nat) (hp : Placed p B) (m : Mem) (F ra r0 r1 r2 : Nat)
    (hF : 6 * p.w ≤ F) (hFM : F < 256 ^ p.w) (hFsz : F ≤ m.size) (hr : Regs p.w m F r0 r1 r2)
    (hra : m.readLE (F - p.w) p.w = ra) :
    (∀ v, v < 256 ^ p.w → 5 * p.w + (digits (absW (256 ^ p.w) v)).length + p.w ≤ F → 7 * p.w ≤ F →
      m.readLE (F - 2 * p.w) p.w = v →
      ∃ m', (Halts (sphinx p) ⟨B + off_write_int, m⟩ ↔ Halts (sphinx p) ⟨ra, m'⟩)) ∧
    (∀ s k, k < 256 ^ p.w / 2 → s + p.w + k < 256 ^ p.w → s + p.w + k ≤ p.const.size →
      m.readLE (F - 2 * p.w) p.w = s → p.const.readLE s p.w = k →
      ∃ m', (Halts (sphinx p) ⟨B + off_write_string, m⟩ ↔ Halts (sphinx p) ⟨ra, m'⟩)) ∧
    (∀ a k, k < 256 ^ p.w / 2 → a + k < 256 ^ p.w → a + k ≤ p.const.size →
      m.readLE (F - 3 * p.w) p.w = a → m.readLE (F - 2 * p.w) p.w = k →
      ∃ m', (Halts (sphinx p) ⟨B + off_write_const_byte_array, m⟩ ↔ Halts (sphinx p) ⟨ra, m'⟩)) ∧
    (∀ a k, k < 256 ^ p.w / 2 → a + k < 256 ^ p.w → 5 * p.w ≤ a → a + k ≤ m.size →
      m.readLE (F - 3 * p.w) p.w = a → m.readLE (F - 2 * p.w) p.w = k →
      ∃ m', (Halts (sphinx p) ⟨B + off_write_state_byte_array, m⟩ ↔ Halts (sphinx p) ⟨ra, m'⟩)) ∧
    (∃ m', (Halts (sphinx p) ⟨B + off_write_bool, m⟩ ↔ Halts (sphinx p) ⟨ra, m'⟩)) := by
  refine ⟨fun v hv hroom h7 harg => ?_, fun s k hk hs hssz hptr hlen => ?_, fun a k hk ha hasz haddr hlen => ?_,
    fun a k hk ha h5 hasz haddr hlen => ?_, ?_⟩
  · obtain ⟨m', h, _⟩ := C17.write_int_correct p B hp m F v ra r0 r1 r2 hv hFM hFsz hroom h7 hr harg hra
    exact ⟨m', reach_halts_iff h⟩
  · obtain ⟨m', h, _⟩ := C17.write_string_correct p B hp m F s k ra r0 r1 r2 hk hs hssz hF hFM hFsz hr hptr hlen hra
    exact ⟨m', reach_halts_iff h⟩
  · obtain ⟨m', h, _⟩ := C17.write_const_byte_array_correct p B hp m F a k ra r0 r1 r2 hk ha hasz hF hFM hFsz hr haddr hlen hra
    exact ⟨m', reach_halts_iff h⟩
  · obtain ⟨m', h, _⟩ := C17.write_state_byte_array_correct p B hp m F a k ra r0 r1 r2 hk ha h5 hasz hF hFM hFsz hr haddr hlen hra
    exact ⟨m', reach_halts_iff h⟩
  · obtain ⟨m', h, _⟩ := C17.write_bool_correct p B hp m F ra r0 r1 r2 hF hFM hFsz hr hra
    exact ⟨m', reach_halts_iff h⟩

/-! ## The sequential integer core never halts (proved for the model that the `core`
correspondence suite identifies with the compiler's output) -/

/-- **C03 on the core**: every terminating core program, for every argument vector and in every
configuration whose stack holds the frame peak, never reaches the halted state on its committed
timeline. -/
theorem core_never_halts (cf : Core.Config) (args : List Int) (pr : Core.CProg) (hw : 2 ≤ cf.w)
    (hB : Core.progLen cf.checked pr + stdlibLength < 256 ^ cf.w) (hSE : Core.F0 cf args + Core.regsLen cf.w pr < 256 ^ cf.w)
    (hwf : Core.wfProg pr = true) (hlen : args.length = pr.params.length)
    (fuel : Nat) (env' : Core.Env) (tr : List Ev) (res : Core.Res)
    (hex : Core.srcRun cf fuel args pr = some (env', tr, res))
    (hck : res = .div0 ∨ res = .ovf → cf.checked = true)
    (hpkF : res = .ovf → ∀ fd ∈ pr.funs, Core.pkS cf.w (Core.entryOff cf.w fd.params) fd.body < 256 ^ cf.w)
    (hroom : Core.pkS cf.w (Core.entryOff cf.w pr.params) pr.body ≤ Core.roomOf cf args) :
    C03_statement (Core.coreProg cf pr) (Core.coreInit cf args pr) :=
  (Core.core_correct cf args pr hw hB hSE hwf hlen fuel env' tr res hex hck hpkF hroom).choose_spec.2

/-- … and neither does a checked build whose stack is too small: it ends in `stack_overflow` -/
theorem core_overflow_never_halts (cf : Core.Config) (args : List Int) (pr : Core.CProg)
    (hw : 2 ≤ cf.w) (hck : cf.checked = true)
    (hB : Core.progLen cf.checked pr + stdlibLength < 256 ^ cf.w) (hSE : Core.F0 cf args < 256 ^ cf.w)
    (hnd : pr.params.Nodup) (hlen : args.length = pr.params.length)
    (hsmall : Core.roomOf cf args < Core.pkS cf.w (Core.entryOff cf.w pr.params) pr.body)
    (hpkM : Core.pkS cf.w (Core.entryOff cf.w pr.params) pr.body < 256 ^ cf.w) :
    C03_statement (Core.coreProg cf pr) (Core.coreInit cf args pr) :=
  (Core.core_overflow cf args pr hw hck hB hSE hnd hlen hsmall hpkM).choose_spec.2

end HidVerif.Props.C03
