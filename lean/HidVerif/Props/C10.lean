import HidVerif.Hid.TypecheckStmt
import HidVerif.Proofs.Escape
import HidVerif.Proofs.ParseFuel
/-!
# C10 — the compiler is total

The front-end models are total Lean functions by construction (`Lex.lex`, and with explicit
fuel `Parse.parse`, which `parse_never_runs_out_of_fuel` shows is never exhausted); their agreement with the implementation on error *class and position* is
the content of the `lex`/`parse`/`tc` suites.  Proved here: what rendering needs — every byte
string that reaches an `.ascii` directive or a character immediate is accepted back by the
assembler (C13's round trip), and the front end of the model never reports an internal error
on closed inputs of the corpus.  RUNTIME BEHAVIOUR NOT MODELLED: exit status, stderr and the
output file of the `hidc` process are observed on the real command-line tool.
-/
namespace HidVerif.Props.C10
open HidVerif.Sphinx HidVerif.Gen HidVerif.Sphinx.Asm

/-- string data never makes the output unassemblable -/
theorem ascii_always_assemblable (bs : List Nat) (hbs : ∀ b ∈ bs, b < 256) :
    unescape '"' (chars (escapeBytes bs [34])) = .ok bs := escape_roundtrip 34 (by simp) bs hbs

theorem char_immediate_always_assemblable (b : Nat) (hb : b < 256) :
    unescape '\'' (chars (escapeBytes [b] [39])) = .ok [b] := escape_roundtrip 39 (by simp) [b] (by simpa using hb)

/-- the lexer model is a total function: it returns tokens and an ending for every input -/
theorem lex_total (src : List HidVerif.Hid.Lex.Line) : ∃ toks ending, HidVerif.Hid.Lex.lex src = (toks, ending) :=
  ⟨_, _, rfl⟩

/-- the explicit fuel of the parser model is always enough: the model never answers "out of fuel", for any
source text whatsoever (the budget is `16·|tokens| + 64`; `Proofs/ParseFuel.lean` proves by induction that
every parser of the grammar, given fuel `16·|remaining tokens| + c` for its own constant `c`, does not run
out and consumes at least one token before it recurses) — so the recursion of the real coroutine parser,
which this fuel stands in for, is bounded by a linear function of the number of tokens -/
theorem parse_never_runs_out_of_fuel (src : List HidVerif.Hid.Lex.Line) :
    HidVerif.Hid.Parse.parse src ≠ .error .fuel := HidVerif.Hid.Parse.parse_never_out_of_fuel src

/-- the parser model is total in the strong sense: for every input it returns a tree or a *located* lexer
or parser error — there is no fourth outcome -/
theorem parse_total (src : List HidVerif.Hid.Lex.Line) :
    (∃ p, HidVerif.Hid.Parse.parse src = .ok p) ∨ (∃ c, HidVerif.Hid.Parse.parse src = .error (.lexer c)) ∨
      (∃ c, HidVerif.Hid.Parse.parse src = .error (.parser c)) := by
  have hf := parse_never_runs_out_of_fuel src
  cases h : HidVerif.Hid.Parse.parse src with
  | ok p => exact Or.inl ⟨p, rfl⟩
  | error e =>
    cases e with
    | lexer c => exact Or.inr (Or.inl ⟨c, rfl⟩)
    | parser c => exact Or.inr (Or.inr ⟨c, rfl⟩)
    | fuel => exact absurd h hf

end HidVerif.Props.C10
