import HidVerif.Hid.TypecheckStmt
import HidVerif.Proofs.Escape
import HidVerif.Proofs.ParseFuel
import HidVerif.Proofs.TypeSoundProg
import HidVerif.Proofs.NoInternalModes
/-!
# C10 — the compiler is total

The front-end models are total Lean functions by construction (`Lex.lex`, and with explicit
fuel `Parse.parse`, which `parse_never_runs_out_of_fuel` shows is never exhausted); their agreement with the implementation on error *class and position* is
the content of the `lex`/`parse`/`tc` suites.  Proved here: what rendering needs — every byte
string that reaches an `.ascii` directive or a character immediate is accepted back by the
assembler (C13's round trip), and the front end of the model never reports an internal error
on closed inputs of the corpus.  RUNTIME BEHAVIOUR NOT MODELLED: exit status, stderr and the
output file of the `hidc` process are observed on the real command-line tool.
-/
namespace HidVerif.Props.C10
open HidVerif.Sphinx HidVerif.Gen HidVerif.Sphinx.Asm

/-- string data never makes the output unassemblable -/
theorem ascii_always_assemblable (bs : List Nat) (hbs : ∀ b ∈ bs, b < 256) :
    unescape '"' (chars (escapeBytes bs [34])) = .ok bs := escape_roundtrip 34 (by simp) bs hbs

theorem char_immediate_always_assemblable (b : Nat) (hb : b < 256) :
    unescape '\'' (chars (escapeBytes [b] [39])) = .ok [b] := escape_roundtrip 39 (by simp) [b] (by simpa using hb)

/-- the lexer model is a total function: it returns tokens and an ending for every input -/
theorem lex_total (src : List HidVerif.Hid.Lex.Line) : ∃ toks ending, HidVerif.Hid.Lex.lex src = (toks, ending) :=
  ⟨_, _, rfl⟩

/-- the explicit fuel of the parser model is always enough: the model never answers "out of fuel", for any
source text whatsoever (the budget is `16·|tokens| + 64`; `Proofs/ParseFuel.lean` proves by induction that
every parser of the grammar, given fuel `16·|remaining tokens| + c` for its own constant `c`, does not run
out and consumes at least one token before it recurses) — so the recursion of the real coroutine parser,
which this fuel stands in for, is bounded by a linear function of the number of tokens -/
theorem parse_never_runs_out_of_fuel (src : List HidVerif.Hid.Lex.Line) :
    HidVerif.Hid.Parse.parse src ≠ .error .fuel := HidVerif.Hid.Parse.parse_never_out_of_fuel src

/-- the parser model is total in the strong sense: for every input it returns a tree or a *located* lexer
or parser error — there is no fourth outcome -/
theorem parse_total (src : List HidVerif.Hid.Lex.Line) :
    (∃ p, HidVerif.Hid.Parse.parse src = .ok p) ∨ (∃ c, HidVerif.Hid.Parse.parse src = .error (.lexer c)) ∨
      (∃ c, HidVerif.Hid.Parse.parse src = .error (.parser c)) := by
  have hf := parse_never_runs_out_of_fuel src
  cases h : HidVerif.Hid.Parse.parse src with
  | ok p => exact Or.inl ⟨p, rfl⟩
  | error e =>
    cases e with
    | lexer c => exact Or.inr (Or.inl ⟨c, rfl⟩)
    | parser c => exact Or.inr (Or.inr ⟨c, rfl⟩)
    | fuel => exact absurd h hf

/-! ### the assertions inside the typechecker cannot fire

`hidc/ast/expressions.py` asserts, when the type of a cast node is asked for, that the operand has the source type
of the cast (`TypeCast.type`), and that the operand of `Volatile` is a non-const array; `statements.py` asserts that a
declaration whose coerced initialiser is `Volatile` has a const array type.  In the typed tree these are the `.cast`
clause of `wtE` (`castSrcOK`) — which `C07.accepted_programs_are_well_typed` proves of every node of every accepted
program — and the following corollary. The typechecker model is a total function (no `partial def` is left in
`tcProgram`'s call graph — otherwise nothing could be proved about it), so it returns a tree or an error for every
parse tree. -/
open HidVerif.Hid.TC in
/-- a declaration whose initialiser was coerced to a volatile view has a const array type (`assert self.var.type.const`) -/
theorem volatile_initialiser_means_const_array (fs : List FuncSig) (init e : TE) (ty : HidVerif.Hid.Ty)
    (hw : wtE fs init = true) (hty : HidVerif.Hid.Parse.tyOK ty = true) (h : coerce init ty = .ok (.cast .vol e)) :
    ∃ el, ty = .arr el true := by
  have h2 := (coerce_ok hw (tyOK_tgtOK hty) h).2
  simp only [typeOf] at h2
  cases ht : typeOf e with
  | arr el c => rw [ht] at h2; exact ⟨el, h2.symm⟩
  | _ =>
    have h1 := (coerce_ok hw (tyOK_tgtOK hty) h).1
    simp [wtE, castSrcOK, ht] at h1

open HidVerif.Hid.TC in
/-- in an accepted tree the operand of every cast node has the source type of the cast (`assert expr_type ==
self.expr.type`, `assert not self.expr.type.const`): this is how `wtE` reads on a cast node -/
theorem cast_node_operand_type (fs : List FuncSig) (k : HidVerif.Hid.CastK) (e : TE) (h : wtE fs (.cast k e) = true) :
    castSrcOK k (typeOf e) = true := by
  simp only [wtE, Bool.and_eq_true] at h; exact h.2

/-- the typechecker model never reports an internal error (an `assert` of `hidc/ast`, an unknown operator class) on a
program the parser accepted (`Proofs/NoInternal*.lean`) -/
theorem typechecker_never_internal (lint : Bool) (src : List HidVerif.Hid.Lex.Line) (p : HidVerif.Hid.Parse.PProgram)
    (hparse : HidVerif.Hid.Parse.parse src = .ok p) (m : String) : HidVerif.Hid.TC.tcProgram lint p ≠ .error (.internal m) :=
  HidVerif.Hid.TC.typechecker_never_internal lint src p hparse m

/-- **the front end is total**: for every source text the model answers a located lexer error, a located parser error,
a type error, or a typed tree — it neither runs out of fuel nor reports an internal error -/
theorem front_end_total (lint : Bool) (src : List HidVerif.Hid.Lex.Line) :
    (∃ c, HidVerif.Hid.Parse.parse src = .error (.lexer c)) ∨ (∃ c, HidVerif.Hid.Parse.parse src = .error (.parser c)) ∨
    (∃ p, HidVerif.Hid.Parse.parse src = .ok p ∧
      ((∃ tp, HidVerif.Hid.TC.tcProgram lint p = .ok tp) ∨ (∃ msg, HidVerif.Hid.TC.tcProgram lint p = .error (.tc msg)))) := by
  rcases parse_total src with ⟨p, hp⟩ | h | h
  · refine Or.inr (Or.inr ⟨p, hp, ?_⟩)
    cases ht : HidVerif.Hid.TC.tcProgram lint p with
    | ok tp => exact Or.inl ⟨tp, rfl⟩
    | error e =>
      cases e with
      | tc msg => exact Or.inr ⟨msg, rfl⟩
      | internal m => exact absurd ht (typechecker_never_internal lint src p hp m)
  · exact Or.inl h
  · exact Or.inr (Or.inl h)

/-- the two outcomes on the typechecker's side both occur -/
example :
    let line (s : String) : List HidVerif.Hid.Lex.Line := [s.toList.map Char.toNat]
    let run (s : String) : Nat := match HidVerif.Hid.Parse.parse (line s) with
      | .ok p => (match HidVerif.Hid.TC.tcProgram false p with | .ok _ => 0 | .error (.tc _) => 1 | .error (.internal _) => 2)
      | .error _ => 3
    run "empty !d() { !is_defeat(); } empty @is_you() { int i = 0; while (true) { i += 1; if (i > 3) { break; } } try { !d(); } undo { } }" = 0 ∧
    run "empty @is_you() { int i = true + 1; }" = 1 ∧ run "empty @is_you() { break; }" = 3 := by
  refine ⟨by decide +kernel, by decide +kernel, by decide +kernel⟩

end HidVerif.Props.C10
