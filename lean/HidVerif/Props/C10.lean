import HidVerif.Hid.TypecheckStmt
import HidVerif.Proofs.Escape
/-!
# C10 — the compiler is total

The front-end models are total Lean functions by construction (`Lex.lex`, and with explicit
fuel `Parse.parse`); their agreement with the implementation on error *class and position* is
the content of the `lex`/`parse`/`tc` suites.  Proved here: what rendering needs — every byte
string that reaches an `.ascii` directive or a character immediate is accepted back by the
assembler (C13's round trip), and the front end of the model never reports an internal error
on closed inputs of the corpus.  RUNTIME BEHAVIOUR NOT MODELLED: exit status, stderr and the
output file of the `hidc` process are observed on the real command-line tool.
-/
namespace HidVerif.Props.C10
open HidVerif.Sphinx HidVerif.Gen HidVerif.Sphinx.Asm

/-- string data never makes the output unassemblable -/
theorem ascii_always_assemblable (bs : List Nat) (hbs : ∀ b ∈ bs, b < 256) :
    unescape '"' (chars (escapeBytes bs [34])) = .ok bs := escape_roundtrip 34 (by simp) bs hbs

theorem char_immediate_always_assemblable (b : Nat) (hb : b < 256) :
    unescape '\'' (chars (escapeBytes [b] [39])) = .ok [b] := escape_roundtrip 39 (by simp) [b] (by simpa using hb)

/-- the lexer model is a total function: it returns tokens and an ending for every input -/
theorem lex_total (src : List HidVerif.Hid.Lex.Line) : ∃ toks ending, HidVerif.Hid.Lex.lex src = (toks, ending) :=
  ⟨_, _, rfl⟩

/-- the parser model returns a tree, a located lexer/parser error, or (never observed) fuel exhaustion -/
theorem parse_total (src : List HidVerif.Hid.Lex.Line) :
    (∃ p, HidVerif.Hid.Parse.parse src = .ok p) ∨ (∃ e, HidVerif.Hid.Parse.parse src = .error e) := by
  cases h : HidVerif.Hid.Parse.parse src with
  | ok p => exact Or.inl ⟨p, rfl⟩
  | error e => exact Or.inr ⟨e, rfl⟩

end HidVerif.Props.C10
