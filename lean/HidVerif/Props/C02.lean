import HidVerif.Proofs.SourceLaws
import HidVerif.Proofs.Terminal
import HidVerif.Proofs.CoreMain
/-!
# C02 — try/undo, try/stop, preempt and `??` follow their time-travel semantics

The construct laws are theorems about the reference semantics `Hid.machine` (they say what the
semantics *is*); the compiled code is compared with it by the differential searcher, and the
target-side idioms the generator uses for them are proved in `Proofs/Templates.lean`.
-/
namespace HidVerif.Props.C02
open HidVerif HidVerif.PSys HidVerif.Hid

theorem undo_law (E : Env) (c : Cfg) (body h : Stmt) (hc : c.ctl = .exec (.tryb body .undo h)) :
    (Defeats E (undoBody c body) → CStep (machine E) c none (undoHandler c h)) ∧
    (¬ Defeats E (undoBody c body) → CStep (machine E) c none (undoBody c body)) :=
  Hid.undo_law E c body h hc

theorem preempt_law (E : Env) (c : Cfg) (body : Stmt) (hc : c.ctl = .exec (.preempt body)) (hm : c.mode = none) :
    (Defeats E { c with ctl := .ret .unit } → CStep (machine E) c none { c with ctl := .exec body }) ∧
    (¬ Defeats E { c with ctl := .ret .unit } → CStep (machine E) c none { c with ctl := .ret .unit }) :=
  Hid.preempt_law E c body hc hm

theorem preempt_forced (E : Env) (c : Cfg) (body : Stmt) (sn : Snap) (hc : c.ctl = .exec (.preempt body))
    (hm : c.mode = some sn) : CStep (machine E) c none { c with ctl := .exec body } :=
  Hid.preempt_forced E c body sn hc hm

theorem stop_law (E : Env) (c : Cfg) (body h : Stmt) (hc : c.ctl = .exec (.tryb body .stop h)) :
    (Defeats E (stopReal c body) → CStep (machine E) c none (stopCaught c body h)) ∧
    (¬ Defeats E (stopReal c body) → CStep (machine E) c none (stopReal c body)) :=
  Hid.stop_law E c body h hc

/-- the handler is entered with the try's environment and continuation and with defeat
"behaving normally again" (`mode := none`) — the conjunct that D2 violated in the compiled code -/
theorem defeat_caught (c : Cfg) (sn : Snap) (hm : c.mode = some sn) :
    doDefeat c = .next { c with ctl := .exec sn.handler, env := sn.env, kont := sn.kont, mode := none } none :=
  Hid.defeat_caught c sn hm

theorem spec_law (E : Env) (c : Cfg) (l : Expr) (v : Val) (k : List Frame) (hc : c.ctl = .ret v)
    (hk : c.kont = .specR l :: k) :
    (Defeats E { c with ctl := .eval l, kont := .specL v :: k } →
        CStep (machine E) c none { c with ctl := .ret v, kont := k }) ∧
    (¬ Defeats E { c with ctl := .eval l, kont := .specL v :: k } →
        CStep (machine E) c none { c with ctl := .eval l, kont := .specL v :: k }) :=
  Hid.spec_law E c l v k hc hk

theorem spec_compare (E : Env) (c : Cfg) (a b : Nat) (k : List Frame) (hc : c.ctl = .ret (.num a))
    (hk : c.kont = .specL (.num b) :: k) :
    (machine E).step c = if a = b then .halt else .next { c with ctl := .ret (.num a), kont := k } none :=
  Hid.spec_compare E c a b k hc hk

/-- verdicts of the reference machine are statements about its committed timeline -/
theorem interp_verdict_sound (E : Env) (fuel : Nat) (c₀ : Cfg) :
    Sound (machine E) isDone c₀ ((machine E).run isDone (fun _ => #[]) fuel c₀) := interp_sound E fuel c₀

/-- non-vacuity: a configuration about to execute a try/undo exists and satisfies the
hypothesis of `undo_law` -/
example : ({ ctl := .exec (.tryb (.block []) .undo (.block [])) } : Cfg).ctl =
    .exec (.tryb (.block []) .undo (.block [])) := rfl

/-! ## try/undo in compiled code: proved for the core

The core sub-language (see `C01`) includes `try { … } undo { … }` in the you function, with
`!is_defeat()` and `!truth_is_defeat(c)` inside the try body.  Its source semantics `Core.exec`
says what the language says: -/

/-- a try body that would be defeated is never run — none of its output, none of its assignments —
and the handler runs from the state before the `try` -/
theorem undo_source_law (M n w f room o : Nat) (fns : List Core.FDecl) (env env1 : Core.Env) (tr1 : List Ev) (body handler k : Core.S)
    (hb : Core.exec M n fns w f room o env body = some (env1, tr1, .defeat)) :
    Core.exec M n fns w (f + 1) room o env (.tryUndo body handler k) =
      (do let (env2, tr2, r2) ← Core.exec M n fns w f room o env handler
          if r2 = .norm then
            let (env3, tr3, r3) ← Core.exec M n fns w f room o env2 k
            pure (env3, tr2 ++ tr3, r3)
          else pure (env2, tr2, r2)) := by
  simp [Core.exec, hb]

/-- a try body that completes is committed, and the handler is skipped -/
theorem try_ok_source_law (M n w f room o : Nat) (fns : List Core.FDecl) (env env1 : Core.Env) (tr1 : List Ev) (body handler k : Core.S)
    (hb : Core.exec M n fns w f room o env body = some (env1, tr1, .norm)) :
    Core.exec M n fns w (f + 1) room o env (.tryUndo body handler k) =
      (do let (env3, tr3, r3) ← Core.exec M n fns w f room o env1 k
          pure (env3, tr1 ++ tr3, r3)) := by
  simp [Core.exec, hb]

/-- **C02 (try/undo) on the core**: the emitted code — one Turing jump over the body, conditional
halts for the defeat calls — realises exactly that semantics on the committed timeline, for
every core program (any nesting of blocks, conditionals and loops inside and around the `try`),
every argument vector, word size, stack size and build mode.  (`Core.coreProg` is checked on
every run to be identical to the real compiler's output, and `Core.exec` to agree with the
reference machine.) -/
theorem core_try_undo_correct (cf : Core.Config) (args : List Int) (pr : Core.CProg) (hw : 2 ≤ cf.w)
    (hB : Core.progLen cf.checked pr + Gen.stdlibLength < 256 ^ cf.w) (hSE : Core.F0 cf args + Core.regsLen cf.w pr < 256 ^ cf.w)
    (hwf : Core.wfProg pr = true) (hlen : args.length = pr.params.length)
    (fuel : Nat) (env' : Core.Env) (tr : List Ev) (res : Core.Res)
    (hex : Core.srcRun cf fuel args pr = some (env', tr, res))
    (hck : res = .div0 ∨ res = .ovf → cf.checked = true)
    (hpkF : res = .ovf → ∀ fd ∈ pr.funs, Core.pkS cf.w (Core.entryOff cf.w fd.params) fd.body < 256 ^ cf.w)
    (hroom : Core.pkS cf.w (Core.entryOff cf.w pr.params) pr.body ≤ Core.roomOf cf args) :
    ∃ mEnd, Exec (Sphinx.sphinx (Core.coreProg cf pr)) (Core.coreInit cf args pr) (tr ++ Core.terminalEvs res)
        ⟨Sphinx.tntPc (Core.progLen cf.checked pr), mEnd⟩ ∧
      ¬ Halts (Sphinx.sphinx (Core.coreProg cf pr)) (Core.coreInit cf args pr) :=
  Core.core_correct cf args pr hw hB hSE hwf hlen fuel env' tr res hex hck hpkF hroom

/-- non-vacuity: a program whose try body prints `A`, assigns, is then defeated and undone: the
committed output is `U` (handler) and `Y` (the assignment did not happen) -/
example :
    let pr : Core.CProg :=
      { params := [], funs := [],
        body := .decl "x" (.lit 5)
          (.tryUndo (.putc 65 (.assign "x" (.lit 9) (.defeatIf (.cmp .gt (.var "x") (.lit 5)) .nil)))
                    (.putc 85 .nil)
            (.ifb (.cmp .eq (.var "x") (.lit 5)) (.putc 89 .nil) (.putc 78 .nil) .ret)) }
    Core.wfProg pr = true ∧
    (Core.srcRun ⟨2, 100, true⟩ 12 [] pr).map (fun r => (r.2.1, r.2.2)) =
      some ([Ev.out 85, Ev.out 89], .returned) := by
  refine ⟨by decide, by decide +kernel⟩

/-! ## try/stop in compiled code: proved for the core

`try { … } stop { … }` keeps what the body did up to the point of defeat and continues in the handler
from there.  In the source semantics: -/

/-- a try body that is defeated keeps its output and its assignments up to the defeat call, and the
handler goes on from that state (`%ap` is the frame slot in which the compiler saves `ap`) -/
theorem stop_source_law (M n w f room o : Nat) (fns : List Core.FDecl) (env env1 : Core.Env) (tr1 : List Ev) (body handler k : Core.S)
    (hb : Core.exec M n fns w f room (o + w) (Core.upd env "%ap" (5 * w)) body = some (env1, tr1, .defeat))
    (hap : env1 "%ap" = 5 * w) :
    Core.exec M n fns w (f + 1) room o env (.tryStop body handler k) =
      (do let (env2, tr2, r2) ← Core.exec M n fns w f room o env1 handler
          if r2 = .norm then
            let (env3, tr3, r3) ← Core.exec M n fns w f room o env2 k
            pure (env3, tr1 ++ tr2 ++ tr3, r3)
          else pure (env2, tr1 ++ tr2, r2)) := by
  simp [Core.exec, hb, hap]

/-- a try body that completes is committed, and the handler is skipped -/
theorem stop_ok_source_law (M n w f room o : Nat) (fns : List Core.FDecl) (env env1 : Core.Env) (tr1 : List Ev) (body handler k : Core.S)
    (hb : Core.exec M n fns w f room (o + w) (Core.upd env "%ap" (5 * w)) body = some (env1, tr1, .norm)) :
    Core.exec M n fns w (f + 1) room o env (.tryStop body handler k) =
      (do let (env3, tr3, r3) ← Core.exec M n fns w f room o env1 k
          pure (env3, tr1 ++ tr3, r3)) := by
  simp [Core.exec, hb]

/-- **C02 (try/stop) on the core**: the emitted code — `ap` and `fp` saved, the handler address stored
in the word `defeat`, one Turing jump that asks whether the body would halt with `defeat = halt`, and
`j [defeat]; halt` for every `!is_defeat()` and `j [defeat]` before every conditional halt of a
`!truth_is_defeat(c)` inside the body — realises exactly that semantics on the
committed timeline: when the body is defeated its effects up to the defeat call stay and the handler
runs in the restored frame; when it is not, the handler is skipped.  For every core program with
`try/stop` blocks (any nesting of blocks, conditionals, loops and calls inside the body and around
the block), every argument vector, word size, stack size and build mode.  This is `core_correct` for
programs with `hasStop`; the case of the block itself is `Core.tryStop_ok`. -/
theorem core_try_stop_correct (cf : Core.Config) (args : List Int) (pr : Core.CProg) (hw : 2 ≤ cf.w)
    (_hstop : Core.hasStop pr.body = true)
    (hB : Core.progLen cf.checked pr + Gen.stdlibLength < 256 ^ cf.w) (hSE : Core.F0 cf args + 2 * cf.w < 256 ^ cf.w)
    (hwf : Core.wfProg pr = true) (hlen : args.length = pr.params.length)
    (fuel : Nat) (env' : Core.Env) (tr : List Ev) (res : Core.Res)
    (hex : Core.srcRun cf fuel args pr = some (env', tr, res))
    (hck : res = .div0 ∨ res = .ovf → cf.checked = true)
    (hpkF : res = .ovf → ∀ fd ∈ pr.funs, Core.pkS cf.w (Core.entryOff cf.w fd.params) fd.body < 256 ^ cf.w)
    (hroom : Core.pkS cf.w (Core.entryOff cf.w pr.params) pr.body ≤ Core.roomOf cf args) :
    ∃ mEnd, Exec (Sphinx.sphinx (Core.coreProg cf pr)) (Core.coreInit cf args pr) (tr ++ Core.terminalEvs res)
        ⟨Sphinx.tntPc (Core.progLen cf.checked pr), mEnd⟩ ∧
      ¬ Halts (Sphinx.sphinx (Core.coreProg cf pr)) (Core.coreInit cf args pr) :=
  Core.core_correct cf args pr hw hB (by have : Core.needsVD pr = true := by simp [Core.needsVD, _hstop]
                                         simp only [Core.regsLen, this, if_true]; exact hSE) hwf hlen fuel env' tr res hex hck hpkF hroom

/-- non-vacuity: the body prints `A`, sets `x := 9`, and is defeated when `x > 5`: the committed output
is `A` (kept), `S` (handler), `N` (the assignment is kept: `x` is 9, not 5); with `x := 3` instead the
body completes: `A`, then `N`… -/
example :
    let pr (v : Int) : Core.CProg :=
      { params := [], funs := [],
        body := .decl "x" (.lit 5)
          (.tryStop (.putc 65 (.assign "x" (.lit v) (.ifb (.cmp .gt (.var "x") (.lit 5)) (.defeat .nil) .nil .nil)))
                    (.putc 83 .nil)
            (.ifb (.cmp .eq (.var "x") (.lit 5)) (.putc 89 .nil) (.putc 78 .nil) .ret)) }
    Core.wfProg (pr 9) = true ∧ Core.hasStop (pr 9).body = true ∧
    (Core.srcRun ⟨2, 100, true⟩ 12 [] (pr 9)).map (fun r => (r.2.1, r.2.2)) =
      some ([Ev.out 65, Ev.out 83, Ev.out 78], .returned) ∧
    (Core.srcRun ⟨2, 100, true⟩ 12 [] (pr 5)).map (fun r => (r.2.1, r.2.2)) =
      some ([Ev.out 65, Ev.out 89], .returned) := by
  refine ⟨by decide, by decide, by decide +kernel, by decide +kernel⟩

/-- the same with `!truth_is_defeat(x > 5 or x == 0)` in the body (conditional halts behind `j [defeat]`) -/
example :
    let pr (v : Int) : Core.CProg :=
      { params := [], funs := [],
        body := .decl "x" (.lit 5)
          (.tryStop (.putc 65 (.assign "x" (.lit v)
                      (.defeatIf (.or (.cmp .gt (.var "x") (.lit 5)) (.cmp .eq (.var "x") (.lit 0))) (.putc 66 .nil))))
                    (.putc 83 .nil)
            (.ifb (.cmp .eq (.var "x") (.lit 5)) (.putc 89 .nil) (.putc 78 .nil) .ret)) }
    Core.wfProg (pr 9) = true ∧
    (Core.srcRun ⟨2, 100, true⟩ 12 [] (pr 9)).map (fun r => (r.2.1, r.2.2)) =
      some ([Ev.out 65, Ev.out 83, Ev.out 78], .returned) ∧
    (Core.srcRun ⟨2, 100, true⟩ 12 [] (pr 0)).map (fun r => (r.2.1, r.2.2)) =
      some ([Ev.out 65, Ev.out 83, Ev.out 78], .returned) ∧
    (Core.srcRun ⟨2, 100, true⟩ 12 [] (pr 5)).map (fun r => (r.2.1, r.2.2)) =
      some ([Ev.out 65, Ev.out 66, Ev.out 89], .returned) := by
  refine ⟨by decide, by decide +kernel, by decide +kernel, by decide +kernel⟩

/-- the same through a defeat function: `!chk(x)` is `{ !truth_is_defeat(x > 5); write('c'); }`, called from the body of the
`try/stop`.  The defeat happens two frames down (the handler gets `fp` back from `try_fp`, then `ap` from the frame slot);
`core_try_stop_correct` covers such programs, the case is `Core.call_ok` with the callee in the caller's situation -/
example :
    let pr (v : Int) : Core.CProg :=
      { params := [],
        funs := [{ name := "!chk", params := ["x"], dfn := true,
                   body := .defeatIf (.cmp .gt (.var "x") (.lit 5)) (.putc 99 .ret) }],
        body := .decl "x" (.lit 5)
          (.tryStop (.putc 65 (.assign "x" (.lit v) (.callS "!chk" [.var "x"] (.putc 66 .nil))))
                    (.putc 83 .nil)
            (.ifb (.cmp .eq (.var "x") (.lit 5)) (.putc 89 .nil) (.putc 78 .nil) .ret)) }
    Core.wfProg (pr 9) = true ∧
    (Core.srcRun ⟨2, 100, true⟩ 12 [] (pr 9)).map (fun r => (r.2.1, r.2.2)) =
      some ([Ev.out 65, Ev.out 83, Ev.out 78], .returned) ∧
    (Core.srcRun ⟨2, 100, true⟩ 12 [] (pr 5)).map (fun r => (r.2.1, r.2.2)) =
      some ([Ev.out 65, Ev.out 99, Ev.out 66, Ev.out 89], .returned) := by
  refine ⟨by decide, by decide +kernel, by decide +kernel⟩

/-- … and from the body of a `try/undo` (`try { !chk(x); … } undo { … }`, the commonest shape in real programs): the
defeat function still goes through the word `defeat`, which holds the address of a `halt` there; the machine
halts in the body's world exactly when the source body is defeated, and the handler runs from the state before
the `try`.  (`core_try_undo_correct` covers it; the case is `Core.call_ok` in the situation `stop dA halt`.) -/
example :
    let pr (v : Int) : Core.CProg :=
      { params := [],
        funs := [{ name := "!chk", params := ["x"], dfn := true,
                   body := .defeatIf (.cmp .gt (.var "x") (.lit 5)) (.putc 99 .ret) }],
        body := .decl "x" (.lit 5)
          (.tryUndo (.putc 65 (.assign "x" (.lit v) (.callS "!chk" [.var "x"] (.putc 66 .nil))))
                    (.putc 85 .nil)
            (.ifb (.cmp .eq (.var "x") (.lit 5)) (.putc 89 .nil) (.putc 78 .nil) .ret)) }
    Core.wfProg (pr 9) = true ∧ Core.needsVD (pr 9) = true ∧
    (Core.srcRun ⟨2, 100, true⟩ 12 [] (pr 9)).map (fun r => (r.2.1, r.2.2)) =
      some ([Ev.out 85, Ev.out 89], .returned) ∧
    (Core.srcRun ⟨2, 100, true⟩ 12 [] (pr 5)).map (fun r => (r.2.1, r.2.2)) =
      some ([Ev.out 65, Ev.out 99, Ev.out 66, Ev.out 89], .returned) := by
  refine ⟨by decide, by decide, by decide +kernel, by decide +kernel⟩

/-- … and a defeat function that returns a value (`int y = !val(x);` inside the body of a `try/stop`): the value comes
back through the callee's frame slot exactly as for ordinary functions when no defeat is reached -/
example :
    let pr (v : Int) : Core.CProg :=
      { params := [],
        funs := [{ name := "!val", params := ["x"], dfn := true,
                   body := .defeatIf (.cmp .gt (.var "x") (.lit 5)) (.retE (.bin .add (.var "x") (.lit 60))) }],
        body := .decl "x" (.lit v)
          (.tryStop (.putc 65 (.declCall "y" "!val" [.var "x"] (.putc 66 (.assign "x" (.var "y") .nil))))
                    (.putc 83 .nil)
            (.ifb (.cmp .eq (.var "x") (.lit 65)) (.putc 89 .nil) (.putc 78 .nil) .ret)) }
    Core.wfProg (pr 9) = true ∧
    (Core.srcRun ⟨2, 100, true⟩ 12 [] (pr 9)).map (fun r => (r.2.1, r.2.2)) =
      some ([Ev.out 65, Ev.out 83, Ev.out 78], .returned) ∧
    (Core.srcRun ⟨2, 100, true⟩ 12 [] (pr 5)).map (fun r => (r.2.1, r.2.2)) =
      some ([Ev.out 65, Ev.out 66, Ev.out 89], .returned) := by
  refine ⟨by decide, by decide +kernel, by decide +kernel⟩

end HidVerif.Props.C02
