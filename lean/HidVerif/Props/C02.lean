import HidVerif.Proofs.SourceLaws
import HidVerif.Proofs.Terminal
/-!
# C02 — try/undo, try/stop, preempt and `??` follow their time-travel semantics

The construct laws are theorems about the reference semantics `Hid.machine` (they say what the
semantics *is*); the compiled code is compared with it by the differential searcher, and the
target-side idioms the generator uses for them are proved in `Proofs/Templates.lean`.
-/
namespace HidVerif.Props.C02
open HidVerif HidVerif.PSys HidVerif.Hid

theorem undo_law (E : Env) (c : Cfg) (body h : Stmt) (hc : c.ctl = .exec (.tryb body .undo h)) :
    (Defeats E (undoBody c body) → CStep (machine E) c none (undoHandler c h)) ∧
    (¬ Defeats E (undoBody c body) → CStep (machine E) c none (undoBody c body)) :=
  Hid.undo_law E c body h hc

theorem preempt_law (E : Env) (c : Cfg) (body : Stmt) (hc : c.ctl = .exec (.preempt body)) (hm : c.mode = none) :
    (Defeats E { c with ctl := .ret .unit } → CStep (machine E) c none { c with ctl := .exec body }) ∧
    (¬ Defeats E { c with ctl := .ret .unit } → CStep (machine E) c none { c with ctl := .ret .unit }) :=
  Hid.preempt_law E c body hc hm

theorem preempt_forced (E : Env) (c : Cfg) (body : Stmt) (sn : Snap) (hc : c.ctl = .exec (.preempt body))
    (hm : c.mode = some sn) : CStep (machine E) c none { c with ctl := .exec body } :=
  Hid.preempt_forced E c body sn hc hm

theorem stop_law (E : Env) (c : Cfg) (body h : Stmt) (hc : c.ctl = .exec (.tryb body .stop h)) :
    (Defeats E (stopReal c body) → CStep (machine E) c none (stopCaught c body h)) ∧
    (¬ Defeats E (stopReal c body) → CStep (machine E) c none (stopReal c body)) :=
  Hid.stop_law E c body h hc

/-- the handler is entered with the try's environment and continuation and with defeat
"behaving normally again" (`mode := none`) — the conjunct that D2 violated in the compiled code -/
theorem defeat_caught (c : Cfg) (sn : Snap) (hm : c.mode = some sn) :
    doDefeat c = .next { c with ctl := .exec sn.handler, env := sn.env, kont := sn.kont, mode := none } none :=
  Hid.defeat_caught c sn hm

theorem spec_law (E : Env) (c : Cfg) (l : Expr) (v : Val) (k : List Frame) (hc : c.ctl = .ret v)
    (hk : c.kont = .specR l :: k) :
    (Defeats E { c with ctl := .eval l, kont := .specL v :: k } →
        CStep (machine E) c none { c with ctl := .ret v, kont := k }) ∧
    (¬ Defeats E { c with ctl := .eval l, kont := .specL v :: k } →
        CStep (machine E) c none { c with ctl := .eval l, kont := .specL v :: k }) :=
  Hid.spec_law E c l v k hc hk

theorem spec_compare (E : Env) (c : Cfg) (a b : Nat) (k : List Frame) (hc : c.ctl = .ret (.num a))
    (hk : c.kont = .specL (.num b) :: k) :
    (machine E).step c = if a = b then .halt else .next { c with ctl := .ret (.num a), kont := k } none :=
  Hid.spec_compare E c a b k hc hk

/-- verdicts of the reference machine are statements about its committed timeline -/
theorem interp_verdict_sound (E : Env) (fuel : Nat) (c₀ : Cfg) :
    Sound (machine E) isDone c₀ ((machine E).run isDone (fun _ => #[]) fuel c₀) := interp_sound E fuel c₀

/-- non-vacuity: a configuration about to execute a try/undo exists and satisfies the
hypothesis of `undo_law` -/
example : ({ ctl := .exec (.tryb (.block []) .undo (.block [])) } : Cfg).ctl =
    .exec (.tryb (.block []) .undo (.block [])) := rfl

end HidVerif.Props.C02
