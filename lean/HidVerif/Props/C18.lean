import HidVerif.Proofs.Prophetic
import HidVerif.Proofs.Guards
import HidVerif.Proofs.CoreMain
/-!
# C18 — reproducible builds; options do not change meaning

Proved: a run is a function of the assembled program and its inputs (the committed step and
the committed trace are unique — no scheduling, no hidden state), and the stack guards depend
on the stack size only through `fp - ap` (so a larger stack can only turn an overflow into a
pass, never change a passing run).  That `hidc` itself is a function of (source, options) is a
statement about a Python process and is *observed* (byte-identical output across fresh
interpreters and hash seeds), not proved.
-/
namespace HidVerif.Props.C18
open HidVerif HidVerif.PSys HidVerif.Sphinx HidVerif.Gen HidVerif.Compiler

theorem step_deterministic {σ : Type} (sys : PSys σ Ev) {s ev₁ s₁ ev₂ s₂}
    (h₁ : CStep sys s ev₁ s₁) (h₂ : CStep sys s ev₂ s₂) : ev₁ = ev₂ ∧ s₁ = s₂ := cstep_det h₁ h₂

theorem run_deterministic {σ : Type} (sys : PSys σ Ev) {s tr₁ s₁ tr₂ s₂}
    (h₁ : Exec sys s tr₁ s₁) (h₂ : Exec sys s tr₂ s₂) :
    (∃ tr, Exec sys s₁ tr s₂ ∧ tr₂ = tr₁ ++ tr) ∨ (∃ tr, Exec sys s₂ tr s₁ ∧ tr₁ = tr₂ ++ tr) := exec_det h₁ h₂

/-- monotonicity in the free space: a function-entry guard that passes with `ap + k ≤ fp`
passes for every larger gap -/
theorem entry_guard_monotone {p : Prog} {B pc ok k : Nat} {m m' : Mem} (hp : Placed p B)
    (h : PlacedAt p pc (entryGuard p.w ok k (B + off_stack_overflow))) (hok : ok < 256 ^ p.w)
    (hsz : 5 * p.w ≤ m'.size) (hk : k < 256 ^ p.w)
    {fp ap fp' ap' : Nat} (hfit : ap + k ≤ fp)
    (hfp' : m'.readLE p.w p.w = fp') (hap' : m'.readLE 0 p.w = ap') (hle' : ap' ≤ fp')
    (hmore : fp - ap ≤ fp' - ap') : Reach (sphinx p) ⟨pc, m'⟩ [] ⟨ok, m'⟩ :=
  (Sphinx.entry_guard_exact hp h hok hsz hk hfp' hap' hle').1 (by omega)

/-! ## On the verified core: a run that fits behaves identically at every larger stack size -/

/-- **C18 (stack size) on the core**: if a core program runs to completion with stack size `S`
(the stack holds the entry frame and every callee frame: the source run is conclusive and not
a stack overflow), then at
every larger stack size `S'` the emitted machine performs exactly the same events — for every
program, argument vector, word size and build mode. -/
theorem core_larger_stack_same (w S S' : Nat) (ck : Bool) (hS : S ≤ S') (args : List Int) (pr : Core.CProg) (hw : 2 ≤ w)
    (hB : Core.progLen ck pr + stdlibLength < 256 ^ w)
    (hSE : 5 * w + S' * w + args.length * w + w + Core.regsLen w pr < 256 ^ w)
    (hwf : Core.wfProg pr = true) (hlen : args.length = pr.params.length)
    (fuel : Nat) (env' : Core.Env) (tr : List Ev) (res : Core.Res)
    (hex : Core.srcRun ⟨w, S, ck⟩ fuel args pr = some (env', tr, res))
    (hck : res = .div0 → ck = true) (hno : res ≠ .ovf)
    (hroom : Core.pkS w (Core.entryOff w pr.params) pr.body ≤ S * w + args.length * w + w) :
    ∃ m m',
      Exec (sphinx (Core.coreProg ⟨w, S, ck⟩ pr)) (Core.coreInit ⟨w, S, ck⟩ args pr) (tr ++ Core.terminalEvs res)
        ⟨tntPc (Core.progLen ck pr), m⟩ ∧
      Exec (sphinx (Core.coreProg ⟨w, S', ck⟩ pr)) (Core.coreInit ⟨w, S', ck⟩ args pr) (tr ++ Core.terminalEvs res)
        ⟨tntPc (Core.progLen ck pr), m'⟩ := by
  have hSw := Nat.mul_le_mul_right w hS
  obtain ⟨m, h, _⟩ := Core.core_correct ⟨w, S, ck⟩ args pr hw hB
    (by show 5 * w + S * w + args.length * w + w + Core.regsLen w pr < 256 ^ w; omega) hwf hlen fuel env' tr res hex (fun h => h.elim hck (fun h => absurd h hno)) (fun h => absurd h hno) hroom
  obtain ⟨m', h', _⟩ := Core.core_correct ⟨w, S', ck⟩ args pr hw hB hSE hwf hlen fuel env' tr res
    (Core.srcRun_stack_mono w S S' ck hS fuel args pr _ _ _ hex hno) (fun h => h.elim hck (fun h => absurd h hno)) (fun h => absurd h hno)
    (by show Core.pkS w (Core.entryOff w pr.params) pr.body ≤ S' * w + args.length * w + w; omega)
  exact ⟨m, m', h, h'⟩

end HidVerif.Props.C18
