import HidVerif.Proofs.Prophetic
import HidVerif.Proofs.Guards
/-!
# C18 — reproducible builds; options do not change meaning

Proved: a run is a function of the assembled program and its inputs (the committed step and
the committed trace are unique — no scheduling, no hidden state), and the stack guards depend
on the stack size only through `fp - ap` (so a larger stack can only turn an overflow into a
pass, never change a passing run).  That `hidc` itself is a function of (source, options) is a
statement about a Python process and is *observed* (byte-identical output across fresh
interpreters and hash seeds), not proved.
-/
namespace HidVerif.Props.C18
open HidVerif HidVerif.PSys HidVerif.Sphinx HidVerif.Gen HidVerif.Compiler

theorem step_deterministic {σ : Type} (sys : PSys σ Ev) {s ev₁ s₁ ev₂ s₂}
    (h₁ : CStep sys s ev₁ s₁) (h₂ : CStep sys s ev₂ s₂) : ev₁ = ev₂ ∧ s₁ = s₂ := cstep_det h₁ h₂

theorem run_deterministic {σ : Type} (sys : PSys σ Ev) {s tr₁ s₁ tr₂ s₂}
    (h₁ : Exec sys s tr₁ s₁) (h₂ : Exec sys s tr₂ s₂) :
    (∃ tr, Exec sys s₁ tr s₂ ∧ tr₂ = tr₁ ++ tr) ∨ (∃ tr, Exec sys s₂ tr s₁ ∧ tr₁ = tr₂ ++ tr) := exec_det h₁ h₂

/-- monotonicity in the free space: a function-entry guard that passes with `ap + k ≤ fp`
passes for every larger gap -/
theorem entry_guard_monotone {p : Prog} {B pc ok k : Nat} {m m' : Mem} (hp : Placed p B)
    (h : PlacedAt p pc (entryGuard p.w ok k (B + off_stack_overflow))) (hok : ok < 256 ^ p.w)
    (hsz : 5 * p.w ≤ m'.size) (hk : k < 256 ^ p.w)
    {fp ap fp' ap' : Nat} (hfit : ap + k ≤ fp)
    (hfp' : m'.readLE p.w p.w = fp') (hap' : m'.readLE 0 p.w = ap') (hle' : ap' ≤ fp')
    (hmore : fp - ap ≤ fp' - ap') : Reach (sphinx p) ⟨pc, m'⟩ [] ⟨ok, m'⟩ :=
  (Sphinx.entry_guard_exact hp h hok hsz hk hfp' hap' hle').1 (by omega)

end HidVerif.Props.C18
