import HidVerif.Hid.TypecheckStmt
import HidVerif.Proofs.TypeSoundProg
/-!
# C07 — the typechecker accepts exactly the well-typed programs

Theorems about `Hid/Typecheck*.lean`, the model of the `evaluate` methods (tied to the real
typechecker by the `tc` suite: identical typed trees on accepted programs, identical error
class on rejected ones, on generated programs, type mutations and the repository's own test
snippets).  Proved: the coercion lattice and the explicit-cast table equal the documented ones
on all scalar and array types; literal shrinkability and its loss; overload resolution
(exact match first, else first coercible overload in declaration order); rejection lemmas.
-/
namespace HidVerif.Props.C07
open HidVerif.Hid HidVerif.Hid.TC HidVerif.Hid.Lex

/-- all types of the language: five scalar types and arrays of them, const or not -/
def scalars : List Ty := [.int, .byte, .bool, .string, .empty]
def allTys : List Ty := scalars ++ scalars.map (fun t => .arr t false) ++ scalars.map (fun t => .arr t true)

/-- README: "byte coercible to int", "string coercible to const byte[]", "a non-const array may
be coerced into a const array, but not vice-versa" — and nothing else -/
def docCoercible (t new : Ty) : Bool :=
  t == new || (t == .byte && new == .int) || (t == .string && new == .arr .byte true) ||
  (match t, new with | .arr a false, .arr b true => a == b | _, _ => false)

/-- a non-literal expression of static type `t` (e.g. a variable) is implicitly coercible to
`new` exactly according to the documented lattice -/
theorem coercible_table : ∀ t ∈ allTys, ∀ new ∈ allTys,
    coercible (.var [] t false) new = docCoercible t new := by decide

/-- README "Allowed explicit type casts" -/
def docCastable (t new : Ty) : Bool :=
  t == new ||
  ((t == .byte || t == .bool) && new == .int) ||
  ((t == .int || t == .bool) && new == .byte) ||
  ((t == .int || t == .byte || t == .string || isArr t) && new == .bool) ||
  (t == .string && new == .arr .byte true) ||
  (match t, new with | .arr a false, .arr b true => a == b | _, _ => false)

theorem cast_table : ∀ t ∈ allTys, ∀ new ∈ allTys,
    (match TC.cast (.var [] t false) new with | .ok _ => true | .error _ => false) = docCastable t new := by decide

/-- numeric literals are `int` but coercible to `byte` … -/
theorem literal_shrinkable (v : Int) : coercible (.intv v false true) .byte = true := by simp [coercible]
/-- … lose that when substituted for a const variable (`.at`) … -/
theorem substituted_literal_not_shrinkable (v : Int) : coercible (atSpan (.intv v false true)) .byte = false := by
  simp [atSpan, coercible, baseCoercible, typeOf]
/-- … and after an explicit cast to `int` -/
theorem explicit_int_cast_not_shrinkable (v : Int) (sh : Bool) :
    TC.cast (.intv v false sh) .int = .ok (.intv v false false) ∧ coercible (.intv v false false) .byte = false := by
  simp [TC.cast, coercible, baseCoercible, typeOf, pure, Except.pure]
/-- arithmetic is coercible to byte iff it was built from byte-coercible operands -/
theorem arith_shrinkable (op : BinOp) (l r : TE) (sh : Bool) : coercible (.arith op l r sh) .byte = sh := by
  simp [coercible, baseCoercible]
/-- a non-literal int is never implicitly narrowed -/
theorem narrowing_rejected (n : List CP) (c : Bool) : (coerce (.var n .int c) .byte).toOption = none := by
  simp [coerce, coercible, baseCoercible, typeOf, Except.toOption, throw, throwThe, MonadExceptOf.throw]
/-- a const array never becomes mutable -/
theorem const_array_to_mutable_rejected (n : List CP) (el : Ty) :
    (coerce (.var n (.arr el true) true) (.arr el false)).toOption = none := by
  simp [coerce, coercible, baseCoercible, typeOf, Except.toOption, throw, throwThe, MonadExceptOf.throw]

/-! ### overload resolution -/

theorem resolve_exact (cands : List FuncSig) (args : List TE) (f : FuncSig)
    (h : cands.find? (fun f => f.ptys == args.map typeOf) = some f) : resolveCall cands args = some f := by
  simp [resolveCall, h]

theorem resolve_fallback (cands : List FuncSig) (args : List TE)
    (h : cands.find? (fun f => f.ptys == args.map typeOf) = none) :
    resolveCall cands args = cands.find? (fun f => f.ptys.length == args.length &&
      (List.zip args f.ptys).all (fun (a, t) => coercible a t)) := by
  simp [resolveCall, h]

/-- the chosen overload is a declared one, and if it is not an exact match then no overload
matches exactly, every argument is coercible to it, and no earlier overload would do -/
theorem resolve_spec (cands : List FuncSig) (args : List TE) (f : FuncSig) (h : resolveCall cands args = some f) :
    f ∈ cands ∧ (f.ptys = args.map typeOf ∨
      ((∀ g ∈ cands, g.ptys ≠ args.map typeOf) ∧ f.ptys.length = args.length ∧
       (List.zip args f.ptys).all (fun (a, t) => coercible a t) = true)) := by
  unfold resolveCall at h
  cases he : cands.find? (fun f => f.ptys == args.map typeOf) with
  | some g =>
    simp [he] at h; subst h
    have := List.find?_some he
    exact ⟨List.mem_of_find?_eq_some he, Or.inl (by simpa using this)⟩
  | none =>
    simp only [he] at h
    have hm := List.mem_of_find?_eq_some h
    have hp := List.find?_some h
    refine ⟨hm, Or.inr ⟨?_, ?_, ?_⟩⟩
    · intro g hg
      have := List.find?_eq_none.1 he g hg
      simpa using this
    · simp at hp; exact hp.1
    · simp at hp; simpa using hp.2

/-- assignment to a const variable or a const-array / string element is rejected (the target's
const attribute, as `Assignment.evaluate` consults it) -/
theorem const_targets : isAssignableTE (.var [] .int true) = some true
    ∧ isAssignableTE (.index (.var [] (.arr .int true) true) (.intv 0 false true)) = some true
    ∧ isAssignableTE (.index (.var [] .string false) (.intv 0 false true)) = some true
    ∧ isAssignableTE (.index (.var [] (.arr .int false) true) (.intv 0 false true)) = some false
    ∧ isAssignableTE (.intv 5 false true) = none := by
  simp [isAssignableTE, typeOf]

/-! ### type soundness: every accepted program obeys the rules (Proofs/TypeSound*.lean)

`wtProg` (Hid/TypeRules.lean) is the conjunction of the documented rules, node by node: a call node carries arguments
of *exactly* the parameter types of an overload declared with that name and flavour, and has its return type; operands
of arithmetic and comparisons are `int`, of `and`/`or`/`not` and every `if`/`while` condition `bool`; the two sides of an
assignment have the same type and the target is a non-const variable or an element of a non-const array (never a
string element); a declaration's initialiser has exactly the declared type; `return` carries a value exactly when the
function is not `empty`, of exactly the function's type; an array literal has a scalar, non-`empty` element type that
every element has (after an explicit or implicit cast) or can be coerced to; cast nodes connect only the pairs of types
of the cast table; `??` has two operands of the same `byte`/`int`/`bool` type; no type is an array of arrays.
Rejection is the contrapositive: a source whose only possible typed tree breaks one of these is not accepted. -/

/-- for every source text, whatever the parser and then the typechecker accept has a well-typed tree -/
theorem accepted_programs_are_well_typed (lint : Bool) (src : List HidVerif.Hid.Lex.Line) (p : HidVerif.Hid.Parse.PProgram)
    (tp : TProgram) (hparse : HidVerif.Hid.Parse.parse src = .ok p) (htc : tcProgram lint p = .ok tp) : wtProg tp = true :=
  accepted_well_typed lint src p tp hparse htc

/-- the expression level, for any environment in order: the typed tree of an accepted expression is well typed -/
theorem accepted_expressions_are_well_typed (env : Env) (henv : EnvOK env) (e : HidVerif.Hid.Parse.PExpr) (te : TE)
    (hty : ptyE e = true) (h : tcExpr env e = .ok te) : wtE env.funcs te = true := tcExpr_wt env henv e te hty h

/-- an implicit or explicit cast that succeeds yields a tree of exactly the requested type -/
theorem cast_has_target_type (fs : List FuncSig) (e e' : TE) (new : Ty) (impl : Bool) (hw : wtE fs e = true)
    (hn : HidVerif.Hid.Parse.tgtOK new = true) (h : cast e new impl = .ok e') : typeOf e' = new :=
  (cast_ok fs e new impl e' hw hn h).2

/-- the rules are not vacuous: ill-typed trees are told apart -/
example : wtE [] (.arith .add (.boolv true) (.intv 1 false true) false) = false
    ∧ wtS [] .int (.assign (.var [] .int true) (.intv 1 false true)) = false
    ∧ wtS [] .int (.assign (.index (.var [] .string false) (.intv 0 false true)) (.intv 1 true true)) = false
    ∧ wtS [] .int (.assign (.var [] .byte false) (.var [] .int false)) = false
    ∧ wtS [] .empty (.ret (some (.intv 1 false true))) = false
    ∧ wtS [] .int (.ret none) = false
    ∧ wtE [] (.call [] .none [] [] .empty) = false
    ∧ wtE [] (.arrlit [.arrlit [] (.arr .int true) true] (.arr (.arr .int true) true) true) = false
    ∧ wtS [] .int (.assign (.var [] .byte false) (.intv 1 true true)) = true := by
  decide

/-- … and the theorem's hypotheses are met by concrete sources: these parse, typecheck and (as the theorem says) are
well typed; the third is rejected by the typechecker -/
example :
    let line (s : String) : List HidVerif.Hid.Lex.Line := [s.toList.map Char.toNat]
    let run (s : String) : Option Bool := match HidVerif.Hid.Parse.parse (line s) with
      | .ok p => (match tcProgram false p with | .ok tp => some (wtProg tp) | .error _ => none)
      | .error _ => none
    run "int f(byte b) { return b + 1; } empty @is_you() { int x = f(3); byte[] a = [1, 2, x is byte]; a[0] += 2; writeln(a.length); }" = some true ∧
    run "const int g = 5; empty @is_you() { bool b = g > 2 and not (g == 7); if (b) { write(\"x\"); } }" = some true ∧
    run "empty @is_you() { byte b = 1; int i = 300; b = i; }" = none := by
  refine ⟨by decide +kernel, by decide +kernel, by decide +kernel⟩

end HidVerif.Props.C07
