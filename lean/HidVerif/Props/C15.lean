import HidVerif.Proofs.Guards
import HidVerif.Proofs.CoreMain
/-!
# C15 — `--unchecked` changes nothing on fault-free runs

`guards_are_observers`: each runtime check, when it passes, hands control to the code after it
with *exactly* the memory it found (same `m` on both sides of `Reach`, empty trace) — the
scratch subtraction of the stack guards sits on the path not taken and is never committed.  An
unchecked build is the checked build without these fragments (validated on every generated
program by comparing both builds on the VM).
-/
namespace HidVerif.Props.C15
open HidVerif HidVerif.PSys HidVerif.Sphinx HidVerif.Gen HidVerif.Compiler

theorem div_guard_observer {p : Prog} {B pc ok : Nat} {m : Mem} (hp : Placed p B) {b : Arg} {y : Nat}
    (h : PlacedAt p pc (divGuard ok b (B + off_division_by_zero))) (hok : ok < 256 ^ p.w)
    (hb : ∀ pc', evalArg p ⟨pc', m⟩ b = some y) (hy : y ≠ 0) : Reach (sphinx p) ⟨pc, m⟩ [] ⟨ok, m⟩ :=
  (Sphinx.div_guard_exact hp h hok hb).1 hy

theorem index_guard_observer {p : Prog} {B pc ok : Nat} {m : Mem} (hp : Placed p B) {ia la : Arg} {idx len : Nat}
    (h : PlacedAt p pc (indexGuard ok ia la (B + off_out_of_bounds))) (hok : ok < 256 ^ p.w)
    (hi : ∀ pc', evalArg p ⟨pc', m⟩ ia = some idx) (hl : ∀ pc', evalArg p ⟨pc', m⟩ la = some len)
    (hlen : len < 256 ^ p.w / 2) (hidx : idx < 256 ^ p.w)
    (hin : 0 ≤ toS (256 ^ p.w) idx ∧ toS (256 ^ p.w) idx < (len : Int)) : Reach (sphinx p) ⟨pc, m⟩ [] ⟨ok, m⟩ :=
  (Sphinx.index_guard_exact hp h hok hi hl hlen hidx).1 hin

theorem length_guard_observer {p : Prog} {B pc ok : Nat} {m : Mem} (hp : Placed p B) {la : Arg} {len maxLen : Nat}
    (h : PlacedAt p pc (lengthGuard ok la maxLen (B + off_stack_overflow))) (hok : ok < 256 ^ p.w)
    (hl : ∀ pc', evalArg p ⟨pc', m⟩ la = some len) (hmx : maxLen < 256 ^ p.w) (hle : len ≤ maxLen) :
    Reach (sphinx p) ⟨pc, m⟩ [] ⟨ok, m⟩ := (Sphinx.length_guard_exact hp h hok hl hmx).1 hle

/-- the stack guard writes `r1` only on the path that is not taken -/
theorem entry_guard_observer {p : Prog} {B pc ok k : Nat} {m : Mem} (hp : Placed p B)
    (h : PlacedAt p pc (entryGuard p.w ok k (B + off_stack_overflow))) (hok : ok < 256 ^ p.w)
    (hsz : 5 * p.w ≤ m.size) (hk : k < 256 ^ p.w)
    {fp ap : Nat} (hfp : m.readLE p.w p.w = fp) (hap : m.readLE 0 p.w = ap) (hle : ap ≤ fp)
    (hfit : ap + k ≤ fp) : Reach (sphinx p) ⟨pc, m⟩ [] ⟨ok, m⟩ :=
  (Sphinx.entry_guard_exact hp h hok hsz hk hfp hap hle).1 hfit

/-! ## The sequential integer core: `--unchecked` changes nothing on fault-free runs -/

/-- **C15 on the core**: for a fault-free run, the checked and the unchecked build (same source,
arguments, word size and stack size) perform the same events and both end in the terminal loop. -/
theorem core_unchecked_same (w S : Nat) (args : List Int) (pr : Core.CProg) (hw : 2 ≤ w)
    (hB1 : Core.progLen true pr + stdlibLength < 256 ^ w) (hB0 : Core.progLen false pr + stdlibLength < 256 ^ w)
    (hSE : 5 * w + S * w + args.length * w + w + Core.regsLen w pr < 256 ^ w)
    (hwf : Core.wfProg pr = true) (hlen : args.length = pr.params.length)
    (fuel : Nat) (env' : Core.Env) (tr : List Ev) (res : Core.Res)
    (hex : Core.srcRun ⟨w, S, true⟩ fuel args pr = some (env', tr, res))
    (hnf : res ≠ .div0) (hno : res ≠ .ovf) (hroom : Core.pkS w (Core.entryOff w pr.params) pr.body ≤ S * w + args.length * w + w) :
    ∃ m1 m0,
      Exec (sphinx (Core.coreProg ⟨w, S, true⟩ pr)) (Core.coreInit ⟨w, S, true⟩ args pr) (tr ++ [Ev.flag "win"])
        ⟨tntPc (Core.progLen true pr), m1⟩ ∧
      Exec (sphinx (Core.coreProg ⟨w, S, false⟩ pr)) (Core.coreInit ⟨w, S, false⟩ args pr) (tr ++ [Ev.flag "win"])
        ⟨tntPc (Core.progLen false pr), m0⟩ := by
  obtain ⟨m1, h1, _⟩ := Core.core_correct ⟨w, S, true⟩ args pr hw hB1 hSE hwf hlen fuel env' tr res hex
    (fun h => h.elim (fun h => absurd h hnf) (fun h => absurd h hno)) (fun h => absurd h hno) hroom
  obtain ⟨m0, h0, _⟩ := Core.core_correct ⟨w, S, false⟩ args pr hw hB0 hSE hwf hlen fuel env' tr res hex
    (fun h => h.elim (fun h => absurd h hnf) (fun h => absurd h hno)) (fun h => absurd h hno) hroom
  have ht : Core.terminalEvs res = [Ev.flag "win"] := by
    cases res with
    | div0 => exact absurd rfl hnf
    | norm => rfl
    | returned => rfl
    | defeat => rfl
    | retv v => rfl
    | ovf => exact absurd rfl hno
    | brk => rfl
    | cnt => rfl
  rw [ht] at h1 h0
  exact ⟨m1, m0, h1, h0⟩

end HidVerif.Props.C15
