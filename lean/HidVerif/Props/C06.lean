import HidVerif.Hid.Parser
import HidVerif.Proofs.ParseSound
/-!
# C06 — flavour and context rules are enforced on every program

The context discipline of the parser is carried by a flag set (`BlockContext`) threaded through
the grammar.  `Gen.Grammar` holds the context expressions transcribed from grammar.py and the
values Python's `IntFlag` arithmetic gives them; the theorems below show (i) the transcription
agrees with Python on every valid context value, (ii) what each derived context permits equals
the documented permission table.  The parser model (`Hid/Parser.lean`) uses exactly these
definitions and is tied to the implementation by the `parse` suite (trees, error class and
position).  Soundness of whole parses is proved (`accepted_programs_respect_the_rules`, by
induction on the fuel of every parser function, then on the derivation of the context
discipline); completeness ("every program that respects the rules is accepted") is validated by
exhaustive placement enumeration against an independent permission table.
-/
namespace HidVerif.Props.C06
open HidVerif.Gen HidVerif.Hid.Parse HidVerif.Hid.Lex

/-- (i) the transcribed context expressions agree with Python's evaluation for all 28 valid values -/
theorem ctx_algebra : ∀ row ∈ ctxTable, ctxExprs.map (fun f => f row.1) = row.2 := by decide

/-- the context tests of the grammar are exactly these (a removed or added test changes the list) -/
theorem ctx_tests_pinned : ctxTests =
    [("ps_func_call", ["FUNC"]), ("ps_expr", ["YOU"]), ("ps_stmt", ["LOOP", "LOOP"]), ("ps_block", ["YOU", "DEFEAT"])] := by decide

theorem func_contexts_pinned : funcContexts = [3, 5, 1] ∧ blockContext =
    [("NONE", 0), ("FUNC", 1), ("YOU", 3), ("DEFEAT", 5), ("TRY", 13), ("LOOP", 16)] := by decide

/-- contexts that can occur: reachable from the three function contexts and the global context -/
def reachable : List Nat := [0, 1, 3, 5, 13, 16, 17, 19, 21, 29]

theorem reachable_closed : ∀ c ∈ reachable, ∀ f ∈ ctxExprs, f c ∈ reachable := by decide
theorem function_contexts_reachable : ∀ c ∈ funcContexts, c ∈ reachable := by decide

/-- (ii) you-function bodies: ordinary and you calls, try, `??`; no defeat calls, no preempt -/
theorem you_permissions : ∀ c ∈ [3, 19],
    flavorAllowed c .none = true ∧ flavorAllowed c .you = true ∧ flavorAllowed c .defeat = false ∧
    has c "YOU" = true ∧ has c "DEFEAT" = false := by decide

/-- try bodies (entered only from a you context): ordinary and defeat calls, preempt; no
you calls, no nested try, no `??`; the loop flag is kept -/
theorem try_body_permissions : ∀ c ∈ [3, 19],
    flavorAllowed (ctxTryBody c) .none = true ∧ flavorAllowed (ctxTryBody c) .defeat = true ∧
    flavorAllowed (ctxTryBody c) .you = false ∧ has (ctxTryBody c) "YOU" = false ∧
    has (ctxTryBody c) "DEFEAT" = true ∧ has (ctxTryBody c) "LOOP" = has c "LOOP" := by decide

/-- handlers are parsed in the context of the `try` statement itself -/
theorem handler_context : ∀ c ∈ reachable, ctxHandler c = c := by decide

/-- operands of `??`: ordinary calls only -/
theorem spec_permissions : ∀ c ∈ [3, 19],
    flavorAllowed (ctxSpec c) .none = true ∧ flavorAllowed (ctxSpec c) .you = false ∧
    flavorAllowed (ctxSpec c) .defeat = false ∧ has (ctxSpec c) "YOU" = false ∧ has (ctxSpec c) "DEFEAT" = false := by decide

/-- defeat functions: ordinary and defeat calls, preempt; no you calls, try or `??` -/
theorem defeat_permissions : ∀ c ∈ [5, 21, 13, 29],
    flavorAllowed c .none = true ∧ flavorAllowed c .defeat = true ∧ flavorAllowed c .you = false ∧
    has c "YOU" = false ∧ has c "DEFEAT" = true := by decide

/-- ordinary functions: ordinary calls only -/
theorem ordinary_permissions : ∀ c ∈ [1, 17],
    flavorAllowed c .none = true ∧ flavorAllowed c .defeat = false ∧ flavorAllowed c .you = false ∧
    has c "YOU" = false ∧ has c "DEFEAT" = false := by decide

/-- global initialisers: no calls at all -/
theorem global_permissions : has 0 "FUNC" = false ∧ has 0 "YOU" = false ∧ has 0 "DEFEAT" = false ∧ has 0 "LOOP" = false := by decide

/-- break/continue: the loop flag is set exactly by loop bodies and kept by every nested block -/
theorem loop_flag : ∀ c ∈ reachable, has (ctxWhileBody c) "LOOP" = true ∧ has (ctxForBody c) "LOOP" = true ∧
    has (ctxIfBody c) "LOOP" = has c "LOOP" ∧ has (ctxPreemptBody c) "LOOP" = has c "LOOP" := by decide

/-! ## Soundness of whole parses, for every program -/

/-- `Proofs/ParseSound.lean` uses the same list of reachable contexts -/
theorem reachable_same : reachableCtx = reachable := rfl

/-- **C06 (only-if direction), for every source text**: if the parser model accepts, then in
every function body and every global initialiser of the resulting program
* a call of a defeat function and a `preempt` block occur only inside a try body or a defeat
  function (`mayCall _ .defeat`, `mayPreempt`),
* a `try`, a `??` and a call of a you-function occur only in a you-function, never inside a try
  body, never inside an operand of `??` (`mayTry`, `mayCall _ .you`),
* both operands of `??` contain only ordinary calls (`inSpec`),
* `break` and `continue` occur only inside a loop body (`inLoop`),
* a global initialiser contains no call at all (`Kind.global`).
`RulesS` / `RulesE` state exactly this, position by position, in the vocabulary of the
documentation (`Pos`); no context number appears in the statement. -/
theorem accepted_programs_respect_the_rules (src : List Line) (p : PProgram) (h : parse src = .ok p) :
    (∀ f ∈ p.funcs, RulesS (startPos f.fl) f.body) ∧
    (∀ v ∈ p.vars, RulesS ⟨.global, false, false, false⟩ v) :=
  accepted_respects_rules src p h

/-- what the rules say in four typical positions (non-vacuity of the vocabulary): a defeat call is
allowed in a try body of a you-function and in a defeat function, not directly in a you-function
and not in an operand of `??`; a you-call is not allowed inside a try body; nothing may be called
from a global initialiser -/
example : mayCall ⟨.you, true, false, false⟩ .defeat = true ∧ mayCall ⟨.defeat, false, false, false⟩ .defeat = true ∧
    mayCall ⟨.you, false, false, false⟩ .defeat = false ∧ mayCall ⟨.you, false, false, true⟩ .defeat = false ∧
    mayCall ⟨.you, true, false, false⟩ .you = false ∧ mayCall ⟨.global, false, false, false⟩ .none = false ∧
    mayTry ⟨.you, false, true, false⟩ = true ∧ mayTry ⟨.you, true, false, false⟩ = false ∧ mayTry ⟨.ordinary, false, false, false⟩ = false := by
  decide

/-- the hypothesis of the theorem is satisfiable, and the parser model does reject what the rules
forbid: a defeat call in a try body and a you-call in the handler are accepted; the same defeat
call directly in the you-function, a you-call inside the try body and a `break` outside a loop
are not -/
example :
    let line (s : String) : List Line := [s.toList.map Char.toNat]
    (match parse (line "empty @is_you() { try { !f(1); } undo { @g(); } }") with | .ok p => p.funcs.length == 1 | .error _ => false) = true ∧
    (match parse (line "empty @is_you() { !f(1); }") with | .ok _ => false | .error _ => true) = true ∧
    (match parse (line "empty @is_you() { try { @g(); } undo { } }") with | .ok _ => false | .error _ => true) = true ∧
    (match parse (line "empty f() { break; }") with | .ok _ => false | .error _ => true) = true := by
  refine ⟨by decide +kernel, by decide +kernel, by decide +kernel, by decide +kernel⟩

end HidVerif.Props.C06
