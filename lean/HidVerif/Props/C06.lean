import HidVerif.Hid.Parser
/-!
# C06 — flavour and context rules are enforced on every program

The context discipline of the parser is carried by a flag set (`BlockContext`) threaded through
the grammar.  `Gen.Grammar` holds the context expressions transcribed from grammar.py and the
values Python's `IntFlag` arithmetic gives them; the theorems below show (i) the transcription
agrees with Python on every valid context value, (ii) what each derived context permits equals
the documented permission table.  The parser model (`Hid/Parser.lean`) uses exactly these
definitions and is tied to the implementation by the `parse` suite (trees, error class and
position).  Soundness of whole parses w.r.t. an independent context checker is validated by
exhaustive placement enumeration (not yet proved).
-/
namespace HidVerif.Props.C06
open HidVerif.Gen HidVerif.Hid.Parse HidVerif.Hid.Lex

/-- (i) the transcribed context expressions agree with Python's evaluation for all 28 valid values -/
theorem ctx_algebra : ∀ row ∈ ctxTable, ctxExprs.map (fun f => f row.1) = row.2 := by decide

/-- the context tests of the grammar are exactly these (a removed or added test changes the list) -/
theorem ctx_tests_pinned : ctxTests =
    [("ps_func_call", ["FUNC"]), ("ps_expr", ["YOU"]), ("ps_stmt", ["LOOP", "LOOP"]), ("ps_block", ["YOU", "DEFEAT"])] := by decide

theorem func_contexts_pinned : funcContexts = [3, 5, 1] ∧ blockContext =
    [("NONE", 0), ("FUNC", 1), ("YOU", 3), ("DEFEAT", 5), ("TRY", 13), ("LOOP", 16)] := by decide

/-- contexts that can occur: reachable from the three function contexts and the global context -/
def reachable : List Nat := [0, 1, 3, 5, 13, 16, 17, 19, 21, 29]

theorem reachable_closed : ∀ c ∈ reachable, ∀ f ∈ ctxExprs, f c ∈ reachable := by decide
theorem function_contexts_reachable : ∀ c ∈ funcContexts, c ∈ reachable := by decide

/-- (ii) you-function bodies: ordinary and you calls, try, `??`; no defeat calls, no preempt -/
theorem you_permissions : ∀ c ∈ [3, 19],
    flavorAllowed c .none = true ∧ flavorAllowed c .you = true ∧ flavorAllowed c .defeat = false ∧
    has c "YOU" = true ∧ has c "DEFEAT" = false := by decide

/-- try bodies (entered only from a you context): ordinary and defeat calls, preempt; no
you calls, no nested try, no `??`; the loop flag is kept -/
theorem try_body_permissions : ∀ c ∈ [3, 19],
    flavorAllowed (ctxTryBody c) .none = true ∧ flavorAllowed (ctxTryBody c) .defeat = true ∧
    flavorAllowed (ctxTryBody c) .you = false ∧ has (ctxTryBody c) "YOU" = false ∧
    has (ctxTryBody c) "DEFEAT" = true ∧ has (ctxTryBody c) "LOOP" = has c "LOOP" := by decide

/-- handlers are parsed in the context of the `try` statement itself -/
theorem handler_context : ∀ c ∈ reachable, ctxHandler c = c := by decide

/-- operands of `??`: ordinary calls only -/
theorem spec_permissions : ∀ c ∈ [3, 19],
    flavorAllowed (ctxSpec c) .none = true ∧ flavorAllowed (ctxSpec c) .you = false ∧
    flavorAllowed (ctxSpec c) .defeat = false ∧ has (ctxSpec c) "YOU" = false ∧ has (ctxSpec c) "DEFEAT" = false := by decide

/-- defeat functions: ordinary and defeat calls, preempt; no you calls, try or `??` -/
theorem defeat_permissions : ∀ c ∈ [5, 21, 13, 29],
    flavorAllowed c .none = true ∧ flavorAllowed c .defeat = true ∧ flavorAllowed c .you = false ∧
    has c "YOU" = false ∧ has c "DEFEAT" = true := by decide

/-- ordinary functions: ordinary calls only -/
theorem ordinary_permissions : ∀ c ∈ [1, 17],
    flavorAllowed c .none = true ∧ flavorAllowed c .defeat = false ∧ flavorAllowed c .you = false ∧
    has c "YOU" = false ∧ has c "DEFEAT" = false := by decide

/-- global initialisers: no calls at all -/
theorem global_permissions : has 0 "FUNC" = false ∧ has 0 "YOU" = false ∧ has 0 "DEFEAT" = false ∧ has 0 "LOOP" = false := by decide

/-- break/continue: the loop flag is set exactly by loop bodies and kept by every nested block -/
theorem loop_flag : ∀ c ∈ reachable, has (ctxWhileBody c) "LOOP" = true ∧ has (ctxForBody c) "LOOP" = true ∧
    has (ctxIfBody c) "LOOP" = has c "LOOP" ∧ has (ctxPreemptBody c) "LOOP" = has c "LOOP" := by decide

end HidVerif.Props.C06
