import HidVerif.Proofs.FoldMain
/-!
# C14 — compile-time evaluation is invisible

Full statement: `∀ w e, evalW w e = (evalZ e).map wrap` — folding on unbounded integers then
truncating equals evaluating on `w`-byte words.  It is **false** on the current tree (known
finding D6: the typechecker folds on unbounded Python integers); the counter-example is proved
below.  What holds, and is proved for every word size: the statement under `InRange` (no
intermediate value of the exact evaluation leaves the signed word range).
-/
namespace HidVerif.Props.C14
open HidVerif.Hid

def C14_statement : Prop :=
  ∀ (E : Env) (e : CExpr), 512 ≤ E.M → E.M % 256 = 0 → evalW E e = (evalZ e).map E.wrap

theorem fold_agrees_partial (E : Env) (hM : 512 ≤ E.M) (heven : E.M % 2 = 0) (hdiv : E.M % 256 = 0)
    (e : CExpr) (h : InRange E.H e) : evalW E e = (evalZ e).map E.wrap :=
  fold_agrees E hM heven hdiv e h

/-- compile-time rejection (`Division by zero` / `Modulus of zero`) happens only where the
run-time evaluation faults as well -/
theorem fold_error_only_on_fault (E : Env) (hM : 512 ≤ E.M) (heven : E.M % 2 = 0) (hdiv : E.M % 256 = 0)
    (e : CExpr) (h : InRange E.H e) (herr : evalZ e = none) : evalW E e = none := by
  rw [fold_agrees E hM heven hdiv e h, herr]; rfl

def env16 : Env := { w := 2, checked := true, stackBytes := 1000, prog := ⟨[], []⟩ }

/-- **D6** (known finding): `(32767 + 1) / 2` folds to 16384 but evaluates to -16384 on 16-bit
words; so the unconditional statement fails -/
theorem fold_disagrees_on_overflow :
    evalW env16 (.bin .div (.bin .add (.lit 32767) (.lit 1)) (.lit 2)) ≠
      (evalZ (.bin .div (.bin .add (.lit 32767) (.lit 1)) (.lit 2))).map env16.wrap := by decide

theorem C14_statement_false : ¬ C14_statement := by
  intro h
  exact fold_disagrees_on_overflow (h env16 _ (by decide) (by decide))

/-- non-vacuity of `fold_agrees_partial`: a constant expression with casts and a comparison that is in range -/
example : InRange env16.H (.bin .lt (.toByte (.lit 258)) (.bin .mul (.lit 3) (.lit (-7)))) := by
  simp [InRange, evalZ, env16, Env.H, Env.M, b2i]

end HidVerif.Props.C14
