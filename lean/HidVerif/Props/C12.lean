import HidVerif.Proofs.LexSymbols
import HidVerif.Proofs.LexInt
import HidVerif.Proofs.LexLayout
/-!
# C12 — lexing is exact and independent of layout

Theorems about `Hid/Lexer.lean` (the model of `hidc.lexer`, tied by the `lex` correspondence
suite: tokens, spans and error positions on generated texts) instantiated with the tables
regenerated from the source and the running Python (`Gen.LexTables`).
Proved: (i) integer literals for every digit string, base and underscore placement;
(iii) keyword / flavour classification for the whole keyword table; (iv) longest symbol match,
independent of the order among equal-length symbols; escape table; (v) layout independence and
(vi) span exactness for every source in layout form (`lex_of_layout`, `layout_independence`,
`span_exact`, with symbols and identifiers shown to be pieces).  The re-layout searcher runs the
same statement through the real lexer.
-/
namespace HidVerif.Props.C12
open HidVerif.Hid.Lex HidVerif.Gen

/-- (i) digits with optional single underscores between them are read completely and the
underscores do not contribute; `isD` is the digit class of the base (decimal: Unicode `\d`,
hex: `[\da-fA-F]`, …) -/
theorem int_literal_digits (isD : CP → Option Nat) (hus : isD 95 = none) (c0 : CP) (v0 : Nat) (h0 : isD c0 = some v0)
    (tl : List (Bool × CP)) (val : CP → Nat) (hv : ∀ x ∈ tl, isD x.2 = some (val x.2))
    (rest : Line) (hrest : Stops isD rest) :
    digitsSep isD (c0 :: renderTail tl ++ rest) = (v0 :: tl.map (fun x => val x.2), 1 + (renderTail tl).length) :=
  digitsSep_spec isD hus c0 v0 h0 tl val hv rest hrest

theorem int_literal_value (base : Nat) (ds : List Nat) (d : Nat) :
    ofDigits base (ds ++ [d]) = base * ofDigits base ds + d := ofDigits_append base ds d

/-- the underscore is not a digit in any of the four classes -/
theorem underscore_not_digit : digitVal 95 = none ∧ hexVal 95 = none ∧ asciiIn 48 55 95 = none ∧ asciiIn 48 49 95 = none := by
  decide +kernel

/-- spot values through the whole reader (prefix dispatch, separators, Unicode digits) -/
example : readInt (cps "0xFF_ff;") = some (65535, 7) ∧ readInt (cps "1_000 ") = some (1000, 5)
    ∧ readInt (cps "0b1_01") = some (5, 6) ∧ readInt (cps "0o17") = some (15, 4) ∧ readInt (cps "1__2") = some (1, 1)
    ∧ readInt (cps "0x") = some (0, 1) ∧ readInt [0x661, 0x662] = some (12, 2) := by decide +kernel

/-- (iii) every keyword of the regenerated table, alone on a line, lexes to its token -/
theorem keywords_classified : ∀ kw ∈ keywordTokens, readToken (cps kw.1) = .ok (.enum kw.2) kw.1.length := by
  decide +kernel

/-- … and with a flavour prefix it is rejected, while an ordinary name gets the flavour -/
theorem keyword_flavour_rejected : ∀ kw ∈ keywordTokens,
    readIdent (64 :: cps kw.1) = .err (1 + kw.1.length) ∧ readIdent (33 :: cps kw.1) = .err (1 + kw.1.length) := by
  decide +kernel

example : readToken (cps "@is_you(") = .ok (.ident (cps "is_you") .you) 7
    ∧ readToken (cps "!is_defeat") = .ok (.ident (cps "is_defeat") .defeat) 10
    ∧ readToken (cps "!=") = .ok (.enum "OpToken.NE") 2 ∧ readToken (cps "iffy") = .ok (.ident (cps "iffy") .none) 4 := by
  decide +kernel

/-- (iv) the answer of the symbol reader does not depend on the order among symbols of equal
length — the one place where the source depends on `set` iteration order -/
theorem symbol_order_irrelevant (l₁ l₂ : List (List CP)) (rest : List CP)
    (hmem : ∀ s, s ∈ l₁ ↔ s ∈ l₂)
    (h₁ : l₁.Pairwise (fun a b => a.length ≥ b.length)) (h₂ : l₂.Pairwise (fun a b => a.length ≥ b.length)) :
    l₁.find? (fun s => isPrefix s rest) = l₂.find? (fun s => isPrefix s rest) :=
  find_prefix_order_irrelevant l₁ l₂ rest hmem h₁ h₂

theorem symbol_longest (rest : List CP) (s : List CP)
    (h : (symbolTokens.map cps).find? (fun s => isPrefix s rest) = some s) :
    s ∈ symbolTokens.map cps ∧ isPrefix s rest = true ∧
    ∀ t ∈ symbolTokens.map cps, isPrefix t rest = true → t.length ≤ s.length := readSymbol_longest rest s h

/-- every symbol and keyword text of the enum table is found again by the reader -/
theorem symbols_classified : ∀ s ∈ symbolTokens, readToken (cps s) = .ok (.enum (enumName s)) s.length := by
  decide +kernel

/-- (ii) the escape table: each simple escape yields the UTF-8 bytes of its code point -/
theorem escapes_classified : ∀ e ∈ escapeCodes, readEscape [92, e.1] = (match utf8 e.2 with
    | some bs => .ok bs 2 | none => .err 2) := by decide +kernel

example : readToken (cps "\"a\\x41\\u{e9}\\n\"") = .ok (.str [97, 65, 0xC3, 0xA9, 10]) 15 := by decide +kernel

/-! ## (v), (vi): layout independence and span exactness, for every source text of the layout form -/

/-- **C12 (v)+(vi)**: a source is *laid out* when every line is a sequence of token texts, each
`SelfDelim` (wherever white space or the end of the line follows, `readToken` reads exactly that
text as that token), separated by white space (`WFLine`: any mix of blanks and tabs; non-empty
between two tokens), optionally ending in white space and a `//` comment; lines may be empty or
comment-only.  For every such source `lex` returns exactly the tokens of the texts, in order,
each with the span of exactly its text, and ends normally at the end of the last token. -/
theorem lex_of_layout (lines : List (List Piece × Line)) (hwf : ∀ l ∈ lines, WFLine l.1 l.2) :
    lex (lines.map render) = (lexemesFrom 0 lines, .eof (lastOf ⟨0, 0⟩ (lexemesFrom 0 lines))) :=
  lex_layout lines hwf

/-- (v) two layouts of the same token texts — other separators, other comments, other line breaks —
give the same token sequence, and neither ends in an error -/
theorem layout_independence (lines lines' : List (List Piece × Line))
    (hwf : ∀ l ∈ lines, WFLine l.1 l.2) (hwf' : ∀ l ∈ lines', WFLine l.1 l.2) (hsame : tokensOf lines = tokensOf lines') :
    (lex (lines.map render)).1.map (·.tok) = (lex (lines'.map render)).1.map (·.tok) ∧
    (∃ c, (lex (lines.map render)).2 = .eof c) ∧ (∃ c, (lex (lines'.map render)).2 = .eof c) :=
  layout_independent lines lines' hwf hwf' hsame

/-- (vi) the span of every lexeme of a line covers exactly the text of its token -/
theorem span_exact (i : Nat) (ps : List Piece) (trail L : Line) (col : Nat) (h : L.drop col = renderLine ps trail) :
    ∀ lx ∈ lexemesAt i col ps, ∃ p ∈ ps, lx.tok = p.2.2 ∧ lx.start.line = i ∧ lx.stop.line = i ∧
      (L.drop lx.start.col).take (lx.stop.col - lx.start.col) = p.2.1 :=
  spans_exact i ps trail L col h

/-- the hypothesis is met by every symbol of the language … -/
theorem symbols_are_pieces (s : String) (hs : s ∈ symbolTokens) : SelfDelim (cps s) (.enum (enumName s)) :=
  selfDelim_symbol s hs

/-- … and by every plain identifier that is not a keyword (a letter or `_`, then word characters) -/
theorem identifiers_are_pieces (c : CP) (r : Line) (hc : isIdStart c = true) (hr : ∀ d ∈ r, isWord d = true)
    (hk : keywordOf (c :: r) = none) : SelfDelim (c :: r) (.ident (c :: r) .none) :=
  selfDelim_ident c r hc hr hk

/-- a concrete laid-out source: `x1 <= ( y )  // c` then an empty line then `;` -/
example :
    let x1 : Piece := ([32], [120, 49], .ident [120, 49] .none)
    let le : Piece := ([9, 32], cps "<=", .enum (enumName "<="))
    let lp : Piece := ([32], cps "(", .enum (enumName "("))
    let y : Piece := ([32], [121], .ident [121] .none)
    let rp : Piece := ([32], cps ")", .enum (enumName ")"))
    let semi : Piece := ([], cps ";", .enum (enumName ";"))
    let lines : List (List Piece × Line) := [([x1, le, lp, y, rp], [32, 32, 47, 47, 32, 99]), ([], []), ([semi], [32])]
    (∀ l ∈ lines, WFLine l.1 l.2) ∧
    (lex (lines.map render)).1.map (·.tok) =
      [.ident [120, 49] .none, .enum "OpToken.LE", .enum "BracToken.LPAREN", .ident [121] .none, .enum "BracToken.RPAREN", .enum "SepToken.SEMICOLON"] := by
  intro x1 le lp y rp semi lines
  have hx1 : SelfDelim [120, 49] (.ident [120, 49] .none) := selfDelim_ident 120 [49] (by decide) (by decide) (by decide)
  have hy : SelfDelim [121] (.ident [121] .none) := selfDelim_ident 121 [] (by decide) (by decide) (by decide)
  have hwf : ∀ l ∈ lines, WFLine l.1 l.2 := by
    intro l hl
    simp only [lines, List.mem_cons, List.not_mem_nil, or_false] at hl
    rcases hl with rfl | rfl | rfl
    · exact ⟨by decide, hx1, Or.inr ⟨9, _, rfl, by decide⟩, by decide, selfDelim_symbol "<=" (by decide), Or.inr ⟨32, _, rfl, by decide⟩,
        by decide, selfDelim_symbol "(" (by decide), Or.inr ⟨32, _, rfl, by decide⟩, by decide, hy, Or.inr ⟨32, _, rfl, by decide⟩,
        by decide, selfDelim_symbol ")" (by decide), Or.inr ⟨32, _, rfl, by decide⟩, Or.inr ⟨[32, 32], [32, 99], rfl, by decide⟩⟩
    · exact Or.inl (by decide)
    · exact ⟨by decide, selfDelim_symbol ";" (by decide), Or.inr ⟨32, _, rfl, by decide⟩, Or.inl (by decide)⟩
  refine ⟨hwf, ?_⟩
  rw [lex_layout lines hwf, lexemesFrom_toks]
  rfl

end HidVerif.Props.C12
