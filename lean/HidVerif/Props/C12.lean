import HidVerif.Proofs.LexSymbols
import HidVerif.Proofs.LexInt
/-!
# C12 — lexing is exact and independent of layout

Theorems about `Hid/Lexer.lean` (the model of `hidc.lexer`, tied by the `lex` correspondence
suite: tokens, spans and error positions on generated texts) instantiated with the tables
regenerated from the source and the running Python (`Gen.LexTables`).
Proved: (i) integer literals for every digit string, base and underscore placement;
(iii) keyword / flavour classification for the whole keyword table; (iv) longest symbol match,
independent of the order among equal-length symbols; escape table.  Validated only:
(v) layout independence and (vi) spans (re-layout searcher).
-/
namespace HidVerif.Props.C12
open HidVerif.Hid.Lex HidVerif.Gen

/-- (i) digits with optional single underscores between them are read completely and the
underscores do not contribute; `isD` is the digit class of the base (decimal: Unicode `\d`,
hex: `[\da-fA-F]`, …) -/
theorem int_literal_digits (isD : CP → Option Nat) (hus : isD 95 = none) (c0 : CP) (v0 : Nat) (h0 : isD c0 = some v0)
    (tl : List (Bool × CP)) (val : CP → Nat) (hv : ∀ x ∈ tl, isD x.2 = some (val x.2))
    (rest : Line) (hrest : Stops isD rest) :
    digitsSep isD (c0 :: renderTail tl ++ rest) = (v0 :: tl.map (fun x => val x.2), 1 + (renderTail tl).length) :=
  digitsSep_spec isD hus c0 v0 h0 tl val hv rest hrest

theorem int_literal_value (base : Nat) (ds : List Nat) (d : Nat) :
    ofDigits base (ds ++ [d]) = base * ofDigits base ds + d := ofDigits_append base ds d

/-- the underscore is not a digit in any of the four classes -/
theorem underscore_not_digit : digitVal 95 = none ∧ hexVal 95 = none ∧ asciiIn 48 55 95 = none ∧ asciiIn 48 49 95 = none := by
  decide +kernel

/-- spot values through the whole reader (prefix dispatch, separators, Unicode digits) -/
example : readInt (cps "0xFF_ff;") = some (65535, 7) ∧ readInt (cps "1_000 ") = some (1000, 5)
    ∧ readInt (cps "0b1_01") = some (5, 6) ∧ readInt (cps "0o17") = some (15, 4) ∧ readInt (cps "1__2") = some (1, 1)
    ∧ readInt (cps "0x") = some (0, 1) ∧ readInt [0x661, 0x662] = some (12, 2) := by decide +kernel

/-- (iii) every keyword of the regenerated table, alone on a line, lexes to its token -/
theorem keywords_classified : ∀ kw ∈ keywordTokens, readToken (cps kw.1) = .ok (.enum kw.2) kw.1.length := by
  decide +kernel

/-- … and with a flavour prefix it is rejected, while an ordinary name gets the flavour -/
theorem keyword_flavour_rejected : ∀ kw ∈ keywordTokens,
    readIdent (64 :: cps kw.1) = .err (1 + kw.1.length) ∧ readIdent (33 :: cps kw.1) = .err (1 + kw.1.length) := by
  decide +kernel

example : readToken (cps "@is_you(") = .ok (.ident (cps "is_you") .you) 7
    ∧ readToken (cps "!is_defeat") = .ok (.ident (cps "is_defeat") .defeat) 10
    ∧ readToken (cps "!=") = .ok (.enum "OpToken.NE") 2 ∧ readToken (cps "iffy") = .ok (.ident (cps "iffy") .none) 4 := by
  decide +kernel

/-- (iv) the answer of the symbol reader does not depend on the order among symbols of equal
length — the one place where the source depends on `set` iteration order -/
theorem symbol_order_irrelevant (l₁ l₂ : List (List CP)) (rest : List CP)
    (hmem : ∀ s, s ∈ l₁ ↔ s ∈ l₂)
    (h₁ : l₁.Pairwise (fun a b => a.length ≥ b.length)) (h₂ : l₂.Pairwise (fun a b => a.length ≥ b.length)) :
    l₁.find? (fun s => isPrefix s rest) = l₂.find? (fun s => isPrefix s rest) :=
  find_prefix_order_irrelevant l₁ l₂ rest hmem h₁ h₂

theorem symbol_longest (rest : List CP) (s : List CP)
    (h : (symbolTokens.map cps).find? (fun s => isPrefix s rest) = some s) :
    s ∈ symbolTokens.map cps ∧ isPrefix s rest = true ∧
    ∀ t ∈ symbolTokens.map cps, isPrefix t rest = true → t.length ≤ s.length := readSymbol_longest rest s h

/-- every symbol and keyword text of the enum table is found again by the reader -/
theorem symbols_classified : ∀ s ∈ symbolTokens, readToken (cps s) = .ok (.enum (enumName s)) s.length := by
  decide +kernel

/-- (ii) the escape table: each simple escape yields the UTF-8 bytes of its code point -/
theorem escapes_classified : ∀ e ∈ escapeCodes, readEscape [92, e.1] = (match utf8 e.2 with
    | some bs => .ok bs 2 | none => .err 2) := by decide +kernel

example : readToken (cps "\"a\\x41\\u{e9}\\n\"") = .ok (.str [97, 65, 0xC3, 0xA9, 10]) 15 := by decide +kernel

end HidVerif.Props.C12
