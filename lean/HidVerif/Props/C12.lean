import HidVerif.Proofs.LexSymbols
import HidVerif.Proofs.LexInt
import HidVerif.Proofs.LexLayout
import HidVerif.Proofs.LexQuoted
import HidVerif.Proofs.LexEscaped
import HidVerif.Proofs.LexTouch
/-!
# C12 — lexing is exact and independent of layout

Theorems about `Hid/Lexer.lean` (the model of `hidc.lexer`, tied by the `lex` correspondence
suite: tokens, spans and error positions on generated texts) instantiated with the tables
regenerated from the source and the running Python (`Gen.LexTables`).
Proved: (i) integer literals for every digit string, base and underscore placement;
(iii) keyword / flavour classification for the whole keyword table; (iv) longest symbol match,
independent of the order among equal-length symbols; escape table; (v) layout independence and
(vi) span exactness for every source in layout form (`lex_of_layout`, `layout_independence`,
`span_exact`, with symbols, identifiers, integer literals of all four bases and plain string and
character literals shown to be pieces).  The re-layout searcher runs the
same statement through the real lexer.
-/
namespace HidVerif.Props.C12
open HidVerif.Hid.Lex HidVerif.Gen

/-- (i) digits with optional single underscores between them are read completely and the
underscores do not contribute; `isD` is the digit class of the base (decimal: Unicode `\d`,
hex: `[\da-fA-F]`, …) -/
theorem int_literal_digits (isD : CP → Option Nat) (hus : isD 95 = none) (c0 : CP) (v0 : Nat) (h0 : isD c0 = some v0)
    (tl : List (Bool × CP)) (val : CP → Nat) (hv : ∀ x ∈ tl, isD x.2 = some (val x.2))
    (rest : Line) (hrest : Stops isD rest) :
    digitsSep isD (c0 :: renderTail tl ++ rest) = (v0 :: tl.map (fun x => val x.2), 1 + (renderTail tl).length) :=
  digitsSep_spec isD hus c0 v0 h0 tl val hv rest hrest

theorem int_literal_value (base : Nat) (ds : List Nat) (d : Nat) :
    ofDigits base (ds ++ [d]) = base * ofDigits base ds + d := ofDigits_append base ds d

/-- the underscore is not a digit in any of the four classes -/
theorem underscore_not_digit : digitVal 95 = none ∧ hexVal 95 = none ∧ asciiIn 48 55 95 = none ∧ asciiIn 48 49 95 = none := by
  decide +kernel

/-- spot values through the whole reader (prefix dispatch, separators, Unicode digits) -/
example : readInt (cps "0xFF_ff;") = some (65535, 7) ∧ readInt (cps "1_000 ") = some (1000, 5)
    ∧ readInt (cps "0b1_01") = some (5, 6) ∧ readInt (cps "0o17") = some (15, 4) ∧ readInt (cps "1__2") = some (1, 1)
    ∧ readInt (cps "0x") = some (0, 1) ∧ readInt [0x661, 0x662] = some (12, 2) := by decide +kernel

/-- (iii) every keyword of the regenerated table, alone on a line, lexes to its token -/
theorem keywords_classified : ∀ kw ∈ keywordTokens, readToken (cps kw.1) = .ok (.enum kw.2) kw.1.length := by
  decide +kernel

/-- … and with a flavour prefix it is rejected, while an ordinary name gets the flavour -/
theorem keyword_flavour_rejected : ∀ kw ∈ keywordTokens,
    readIdent (64 :: cps kw.1) = .err (1 + kw.1.length) ∧ readIdent (33 :: cps kw.1) = .err (1 + kw.1.length) := by
  decide +kernel

example : readToken (cps "@is_you(") = .ok (.ident (cps "is_you") .you) 7
    ∧ readToken (cps "!is_defeat") = .ok (.ident (cps "is_defeat") .defeat) 10
    ∧ readToken (cps "!=") = .ok (.enum "OpToken.NE") 2 ∧ readToken (cps "iffy") = .ok (.ident (cps "iffy") .none) 4 := by
  decide +kernel

/-- (iv) the answer of the symbol reader does not depend on the order among symbols of equal
length — the one place where the source depends on `set` iteration order -/
theorem symbol_order_irrelevant (l₁ l₂ : List (List CP)) (rest : List CP)
    (hmem : ∀ s, s ∈ l₁ ↔ s ∈ l₂)
    (h₁ : l₁.Pairwise (fun a b => a.length ≥ b.length)) (h₂ : l₂.Pairwise (fun a b => a.length ≥ b.length)) :
    l₁.find? (fun s => isPrefix s rest) = l₂.find? (fun s => isPrefix s rest) :=
  find_prefix_order_irrelevant l₁ l₂ rest hmem h₁ h₂

theorem symbol_longest (rest : List CP) (s : List CP)
    (h : (symbolTokens.map cps).find? (fun s => isPrefix s rest) = some s) :
    s ∈ symbolTokens.map cps ∧ isPrefix s rest = true ∧
    ∀ t ∈ symbolTokens.map cps, isPrefix t rest = true → t.length ≤ s.length := readSymbol_longest rest s h

/-- every symbol and keyword text of the enum table is found again by the reader -/
theorem symbols_classified : ∀ s ∈ symbolTokens, readToken (cps s) = .ok (.enum (enumName s)) s.length := by
  decide +kernel

/-- (ii) the escape table: each simple escape yields the UTF-8 bytes of its code point -/
theorem escapes_classified : ∀ e ∈ escapeCodes, readEscape [92, e.1] = (match utf8 e.2 with
    | some bs => .ok bs 2 | none => .err 2) := by decide +kernel

example : readToken (cps "\"a\\x41\\u{e9}\\n\"") = .ok (.str [97, 65, 0xC3, 0xA9, 10]) 15 := by decide +kernel

/-! ## (v), (vi): layout independence and span exactness, for every source text of the layout form -/

/-- **C12 (v)+(vi)**: a source is *laid out* when every line is a sequence of token texts, each preceded
by a white-space separator - any mix of blanks and tabs, *possibly empty* - and each reading as its token in
front of the rest of its line (`ReadsAs`: `readToken` returns that token, consumes exactly that text, and
text plus rest do not begin a comment; `WFLine`), optionally ending in white space and a `//` comment; lines
may be empty or comment-only.  For every such source `lex` returns exactly the tokens of the texts, in
order, each with the span of exactly its text, and ends normally at the end of the last token.
`ReadsAs` holds for a `SelfDelim` text in front of white space (`SelfDelim.readsAs`) and, without white
space, under the follow conditions of `touching_*` below. -/
theorem lex_of_layout (lines : List (List Piece × Line)) (hwf : ∀ l ∈ lines, WFLine l.1 l.2) :
    lex (lines.map render) = (lexemesFrom 0 lines, .eof (lastOf ⟨0, 0⟩ (lexemesFrom 0 lines))) :=
  lex_layout lines hwf

/-- (v) two layouts of the same token texts — other separators, other comments, other line breaks —
give the same token sequence, and neither ends in an error -/
theorem layout_independence (lines lines' : List (List Piece × Line))
    (hwf : ∀ l ∈ lines, WFLine l.1 l.2) (hwf' : ∀ l ∈ lines', WFLine l.1 l.2) (hsame : tokensOf lines = tokensOf lines') :
    (lex (lines.map render)).1.map (·.tok) = (lex (lines'.map render)).1.map (·.tok) ∧
    (∃ c, (lex (lines.map render)).2 = .eof c) ∧ (∃ c, (lex (lines'.map render)).2 = .eof c) :=
  layout_independent lines lines' hwf hwf' hsame

/-- (vi) the span of every lexeme of a line covers exactly the text of its token -/
theorem span_exact (i : Nat) (ps : List Piece) (trail L : Line) (col : Nat) (h : L.drop col = renderLine ps trail) :
    ∀ lx ∈ lexemesAt i col ps, ∃ p ∈ ps, lx.tok = p.2.2 ∧ lx.start.line = i ∧ lx.stop.line = i ∧
      (L.drop lx.start.col).take (lx.stop.col - lx.start.col) = p.2.1 :=
  spans_exact i ps trail L col h

/-- the hypothesis is met by every symbol of the language … -/
theorem symbols_are_pieces (s : String) (hs : s ∈ symbolTokens) : SelfDelim (cps s) (.enum (enumName s)) :=
  selfDelim_symbol s hs

/-- … and by every plain identifier that is not a keyword (a letter or `_`, then word characters) -/
theorem identifiers_are_pieces (c : CP) (r : Line) (hc : isIdStart c = true) (hr : ∀ d ∈ r, isWord d = true)
    (hk : keywordOf (c :: r) = none) : SelfDelim (c :: r) (.ident (c :: r) .none) :=
  selfDelim_ident c r hc hr hk

/-- … by every decimal literal: an ASCII digit, then ASCII digits each optionally preceded by one underscore;
the token carries the positional value … -/
theorem decimal_literals_are_pieces (c0 : CP) (tl : List (Bool × CP)) (h0 : asciiDigit c0) (htl : ∀ x ∈ tl, asciiDigit x.2) :
    SelfDelim (c0 :: renderTail tl) (.int (ofDigits 10 ((c0 - 48) :: tl.map (fun x => x.2 - 48)))) :=
  selfDelim_decimal c0 tl h0 htl

/-- … by every `0x`, `0o` and `0b` literal with at least one digit of its class (underscores as above) … -/
theorem prefixed_literals_are_pieces (d0 : CP) (v0 : Nat) (tl : List (Bool × CP)) (val : CP → Nat) :
    ((hexVal d0 = some v0 ∧ ∀ x ∈ tl, hexVal x.2 = some (val x.2)) →
      SelfDelim (48 :: 120 :: d0 :: renderTail tl) (.int (ofDigits 16 (v0 :: tl.map (fun x => val x.2))))) ∧
    ((asciiIn 48 55 d0 = some v0 ∧ ∀ x ∈ tl, asciiIn 48 55 x.2 = some (val x.2)) →
      SelfDelim (48 :: 111 :: d0 :: renderTail tl) (.int (ofDigits 8 (v0 :: tl.map (fun x => val x.2))))) ∧
    ((asciiIn 48 49 d0 = some v0 ∧ ∀ x ∈ tl, asciiIn 48 49 x.2 = some (val x.2)) →
      SelfDelim (48 :: 98 :: d0 :: renderTail tl) (.int (ofDigits 2 (v0 :: tl.map (fun x => val x.2))))) :=
  ⟨fun h => selfDelim_hex d0 v0 h.1 tl val h.2, fun h => selfDelim_oct d0 v0 h.1 tl val h.2, fun h => selfDelim_bin d0 v0 h.1 tl val h.2⟩

/-- … by every string literal without escapes, whatever it contains (white space and `//` included): the token
holds the UTF-8 bytes of the characters … -/
theorem string_literals_are_pieces (body : Line) (enc : List (List Nat)) (hb : ∀ c ∈ body, c ≠ 92 ∧ c ≠ 34)
    (henc : body.mapM utf8 = some enc) : SelfDelim (34 :: (body ++ [34])) (.str enc.flatten) :=
  selfDelim_string body enc hb henc

/-- … and by every character literal of one ASCII character other than `'` and `\`.  String literals with escape
sequences: `escaped_string_literals_are_pieces` below. -/
theorem char_literals_are_pieces (c : CP) (h1 : c ≠ 39) (h2 : c ≠ 92) (h3 : c < 128) : SelfDelim [39, c, 39] (.chr c) :=
  selfDelim_char c h1 h2 h3

/-- string literals *with* escape sequences: the body is any sequence of segments - a plain run followed by one complete
escape sequence - and a final plain run; the token holds the UTF-8 bytes of the runs and the bytes of the escapes in order.
Every simple escape of the regenerated table, every `\xHH` and every `\u{h…}` (below) is a complete escape sequence. -/
theorem escaped_string_literals_are_pieces (segs : List Seg) (hs : ∀ s ∈ segs, SegOK s) (last : Line) (lenc : List (List Nat))
    (hl : ∀ c ∈ last, c ≠ 92 ∧ c ≠ 34) (hlenc : last.mapM utf8 = some lenc) :
    SelfDelim (34 :: (bodyText segs ++ (last ++ [34]))) (.str (bodyBytes segs ++ lenc.flatten)) :=
  selfDelim_string_esc segs hs last lenc hl hlenc

theorem simple_and_hex_escapes_complete :
    (∀ c v bs, escapeCodes.lookup c = some v → utf8 v = some bs → IsEsc [92, c] bs) ∧
    (∀ a b x y, hexVal a = some x → hexVal b = some y → IsEsc [92, 120, a, b] [16 * x + y]) :=
  ⟨isEsc_simple, isEsc_hex⟩

/-- `"a\n\x41 b"` : two segments and a final run -/
example : SelfDelim (cps "\"a\\n\\x41 b\"") (.str [97, 10, 65, 32, 98]) :=
  selfDelim_string_esc [([97], [[97]], [92, 110], [10]), ([], [], [92, 120, 52, 49], [65])]
    (by
      intro s hs
      simp only [List.mem_cons, List.not_mem_nil, or_false] at hs
      rcases hs with rfl | rfl
      · exact ⟨by decide, by decide, isEsc_simple 110 10 [10] (by decide) (by decide)⟩
      · exact ⟨by decide, by decide, isEsc_hex 52 49 4 1 (by decide +kernel) (by decide +kernel)⟩)
    [32, 98] [[32], [98]] (by decide) (by decide)

/-- keywords of the table, as words on their own, are pieces denoting their keyword token … -/
theorem keywords_are_pieces (c : CP) (r : Line) (k : String) (hc : isIdStart c = true) (hr : ∀ d ∈ r, isWord d = true)
    (hk : keywordOf (c :: r) = some k) : SelfDelim (c :: r) (.enum k) :=
  selfDelim_keyword c r k hc hr hk

/-- … and so are `@name` and `!name` for names that are not keywords (`!` is not taken for the start of `!=`) -/
theorem flavoured_names_are_pieces (c : CP) (r : Line) (hc : isIdStart c = true) (hr : ∀ d ∈ r, isWord d = true)
    (hk : keywordOf (c :: r) = none) :
    SelfDelim (64 :: c :: r) (.ident (c :: r) .you) ∧ SelfDelim (33 :: c :: r) (.ident (c :: r) .defeat) :=
  ⟨selfDelim_flavoured 64 .you (Or.inl ⟨rfl, rfl⟩) c r hc hr hk, selfDelim_flavoured 33 .defeat (Or.inr ⟨rfl, rfl⟩) c r hc hr hk⟩

example : SelfDelim (cps "break") (.enum "StmtToken.BREAK") ∧ SelfDelim (cps "@is_you") (.ident (cps "is_you") .you)
    ∧ SelfDelim (cps "!f") (.ident (cps "f") .defeat) :=
  ⟨selfDelim_keyword 98 (cps "reak") _ (by decide) (by decide +kernel) (by decide +kernel),
   (flavoured_names_are_pieces 105 (cps "s_you") (by decide) (by decide +kernel) (by decide +kernel)).1,
   (flavoured_names_are_pieces 102 [] (by decide) (by decide) (by decide +kernel)).2⟩

/-- `x = 0x1_F + 12 ;` and `s = "a // b" ;` with a comment: numbers and strings in a layout -/
example :
    let lines : List (List Piece × Line) :=
      [([([], [120], .ident [120] .none), ([32], cps "=", .enum (enumName "=")), ([32, 32], cps "0x1_F", .int 31),
         ([32], cps "+", .enum (enumName "+")), ([9], cps "12", .int 12), ([32], cps ";", .enum (enumName ";"))], [32, 47, 47, 34]),
       ([([32], [115], .ident [115] .none), ([32], cps "=", .enum (enumName "=")), ([32], cps "\"a // b\"", .str [97, 32, 47, 47, 32, 98]),
         ([32], cps "'q'", .chr 113), ([32], cps ";", .enum (enumName ";"))], [])]
    (∀ l ∈ lines, WFLine l.1 l.2) ∧ (lex (lines.map render)).1.map (·.tok) = tokensOf lines := by
  intro lines
  have hx : SelfDelim [120] (.ident [120] .none) := selfDelim_ident 120 [] (by decide) (by decide) (by decide)
  have hs : SelfDelim [115] (.ident [115] .none) := selfDelim_ident 115 [] (by decide) (by decide) (by decide)
  have hhex : SelfDelim (cps "0x1_F") (.int 31) := selfDelim_hex 49 1 (by decide +kernel) [(true, 70)] (fun _ => 15) (by decide +kernel)
  have hdec : SelfDelim (cps "12") (.int 12) := selfDelim_decimal 49 [(false, 50)] (by decide) (by decide)
  have hstr : SelfDelim (cps "\"a // b\"") (.str [97, 32, 47, 47, 32, 98]) :=
    selfDelim_string [97, 32, 47, 47, 32, 98] [[97], [32], [47], [47], [32], [98]] (by decide) (by decide)
  have hchr : SelfDelim (cps "'q'") (.chr 113) := selfDelim_char 113 (by decide) (by decide) (by decide)
  have hwf : ∀ l ∈ lines, WFLine l.1 l.2 := by
    intro l hl
    simp only [lines, List.mem_cons, List.not_mem_nil, or_false] at hl
    rcases hl with rfl | rfl
    · exact ⟨by decide, hx.readsAs (Or.inr ⟨32, _, rfl, by decide⟩), by decide, (selfDelim_symbol "=" (by decide)).readsAs (Or.inr ⟨32, _, rfl, by decide⟩),
        by decide, hhex.readsAs (Or.inr ⟨32, _, rfl, by decide⟩), by decide, (selfDelim_symbol "+" (by decide)).readsAs (Or.inr ⟨9, _, rfl, by decide⟩),
        by decide, hdec.readsAs (Or.inr ⟨32, _, rfl, by decide⟩), by decide, (selfDelim_symbol ";" (by decide)).readsAs (Or.inr ⟨32, _, rfl, by decide⟩),
        Or.inr ⟨[32], [34], rfl, by decide⟩⟩
    · exact ⟨by decide, hs.readsAs (Or.inr ⟨32, _, rfl, by decide⟩), by decide, (selfDelim_symbol "=" (by decide)).readsAs (Or.inr ⟨32, _, rfl, by decide⟩),
        by decide, hstr.readsAs (Or.inr ⟨32, _, rfl, by decide⟩), by decide, hchr.readsAs (Or.inr ⟨32, _, rfl, by decide⟩),
        by decide, (selfDelim_symbol ";" (by decide)).readsAs (Or.inl rfl), Or.inl (by decide)⟩
  refine ⟨hwf, ?_⟩
  rw [lex_layout lines hwf, lexemesFrom_toks]

/-- a concrete laid-out source: `x1 <= ( y )  // c` then an empty line then `;` -/
example :
    let x1 : Piece := ([32], [120, 49], .ident [120, 49] .none)
    let le : Piece := ([9, 32], cps "<=", .enum (enumName "<="))
    let lp : Piece := ([32], cps "(", .enum (enumName "("))
    let y : Piece := ([32], [121], .ident [121] .none)
    let rp : Piece := ([32], cps ")", .enum (enumName ")"))
    let semi : Piece := ([], cps ";", .enum (enumName ";"))
    let lines : List (List Piece × Line) := [([x1, le, lp, y, rp], [32, 32, 47, 47, 32, 99]), ([], []), ([semi], [32])]
    (∀ l ∈ lines, WFLine l.1 l.2) ∧
    (lex (lines.map render)).1.map (·.tok) =
      [.ident [120, 49] .none, .enum "OpToken.LE", .enum "BracToken.LPAREN", .ident [121] .none, .enum "BracToken.RPAREN", .enum "SepToken.SEMICOLON"] := by
  intro x1 le lp y rp semi lines
  have hx1 : SelfDelim [120, 49] (.ident [120, 49] .none) := selfDelim_ident 120 [49] (by decide) (by decide) (by decide)
  have hy : SelfDelim [121] (.ident [121] .none) := selfDelim_ident 121 [] (by decide) (by decide) (by decide)
  have hwf : ∀ l ∈ lines, WFLine l.1 l.2 := by
    intro l hl
    simp only [lines, List.mem_cons, List.not_mem_nil, or_false] at hl
    rcases hl with rfl | rfl | rfl
    · exact ⟨by decide, hx1.readsAs (Or.inr ⟨9, _, rfl, by decide⟩), by decide, (selfDelim_symbol "<=" (by decide)).readsAs (Or.inr ⟨32, _, rfl, by decide⟩),
        by decide, (selfDelim_symbol "(" (by decide)).readsAs (Or.inr ⟨32, _, rfl, by decide⟩), by decide, hy.readsAs (Or.inr ⟨32, _, rfl, by decide⟩),
        by decide, (selfDelim_symbol ")" (by decide)).readsAs (Or.inr ⟨32, _, rfl, by decide⟩), Or.inr ⟨[32, 32], [32, 99], rfl, by decide⟩⟩
    · exact Or.inl (by decide)
    · exact ⟨by decide, (selfDelim_symbol ";" (by decide)).readsAs (Or.inr ⟨32, _, rfl, by decide⟩), Or.inl (by decide)⟩
  refine ⟨hwf, ?_⟩
  rw [lex_layout lines hwf, lexemesFrom_toks]
  rfl

/-! ## tokens that touch: `ReadsAs` without white space -/

/-- maximal munch: a symbol reads as itself in front of any continuation of which no longer symbol is a prefix
(and which does not turn it into a comment) … -/
theorem touching_symbol (s : String) (hs : s ∈ symbolTokens) (rest : Line)
    (hmax : ∀ s' ∈ symbolTokens, (cps s).length < (cps s').length → isPrefix (cps s') (cps s ++ rest) = false)
    (hnc : ∀ r, cps s ++ rest ≠ 47 :: 47 :: r) : ReadsAs (cps s) (.enum (enumName s)) rest :=
  readsAs_symbol s hs rest hmax hnc

/-- … in particular whenever the next character is neither `=` nor `?` (and not `/` after `/`) -/
theorem touching_symbol_next (s : String) (hs : s ∈ symbolTokens) (c : CP) (r : Line) (h1 : c ≠ 61) (h2 : c ≠ 63)
    (h3 : cps s = [47] → c ≠ 47) : ReadsAs (cps s) (.enum (enumName s)) (c :: r) :=
  readsAs_symbol_next s hs c r h1 h2 h3

/-- a word (letter or `_`, then word characters) in front of anything that is not a word character reads as its
keyword if it is one, else as a plain identifier; `@word` / `!word` for non-keywords likewise -/
theorem touching_word (c : CP) (r : Line) (hc : isIdStart c = true) (hr : ∀ d ∈ r, isWord d = true) (rest : Line)
    (hrest : NotWordNext rest) :
    (∀ k, keywordOf (c :: r) = some k → ReadsAs (c :: r) (.enum k) rest) ∧
    (keywordOf (c :: r) = none → ReadsAs (c :: r) (.ident (c :: r) .none) rest ∧
      ReadsAs (64 :: c :: r) (.ident (c :: r) .you) rest ∧ ReadsAs (33 :: c :: r) (.ident (c :: r) .defeat) rest) := by
  have h := readsAs_word c r hc hr rest hrest
  refine ⟨fun k hk => by rw [hk] at h; exact h, fun hk => ⟨by rw [hk] at h; exact h,
    readsAs_flavoured 64 .you (Or.inl ⟨rfl, rfl⟩) c r hc hr hk rest hrest,
    readsAs_flavoured 33 .defeat (Or.inr ⟨rfl, rfl⟩) c r hc hr hk rest hrest⟩⟩

/-- integer literals in front of anything that does not continue them (`Stops`: no digit of the class, no `_digit`;
a lone `0` not before a base letter) -/
theorem touching_decimal (c0 : CP) (tl : List (Bool × CP)) (h0 : asciiDigit c0) (htl : ∀ x ∈ tl, asciiDigit x.2) (rest : Line)
    (hstop : Stops digitVal rest) (hzero : tl = [] → c0 = 48 → ∀ q r, rest = q :: r → q ≠ 120 ∧ q ≠ 111 ∧ q ≠ 98) :
    ReadsAs (c0 :: renderTail tl) (.int (ofDigits 10 ((c0 - 48) :: tl.map (fun x => x.2 - 48)))) rest :=
  readsAs_decimal c0 tl h0 htl rest hstop hzero

/-- the same for digits of the whole class `\d` the lexer accepts (Unicode `Nd`: Arabic-Indic, Devanagari, full-width, …),
mixed freely: the value is positional over the digit values -/
theorem touching_decimal_unicode (c0 v0 : Nat) (h0 : digitVal c0 = some v0) (tl : List (Bool × CP)) (val : CP → Nat)
    (hv : ∀ x ∈ tl, digitVal x.2 = some (val x.2)) (rest : Line) (hstop : Stops digitVal rest)
    (hzero : tl = [] → c0 = 48 → ∀ q r, rest = q :: r → q ≠ 120 ∧ q ≠ 111 ∧ q ≠ 98) :
    ReadsAs (c0 :: renderTail tl) (.int (ofDigits 10 (v0 :: tl.map (fun x => val x.2)))) rest :=
  readsAs_decimal_unicode c0 v0 h0 tl val hv rest hstop hzero

example : ReadsAs [0x661, 0x32, 95, 0xFF13] (.int 123) [59] :=
  readsAs_decimal_unicode 0x661 1 (by decide +kernel) [(false, 0x32), (true, 0xFF13)] (fun c => if c = 0x32 then 2 else 3)
    (by decide +kernel) [59] ⟨by decide +kernel, fun h => absurd h (by decide)⟩ (fun h => absurd h (by decide))

theorem touching_hex (d0 : CP) (v0 : Nat) (h0 : hexVal d0 = some v0) (tl : List (Bool × CP)) (val : CP → Nat)
    (hv : ∀ x ∈ tl, hexVal x.2 = some (val x.2)) (rest : Line) (hstop : Stops hexVal rest) :
    ReadsAs (48 :: 120 :: d0 :: renderTail tl) (.int (ofDigits 16 (v0 :: tl.map (fun x => val x.2)))) rest :=
  readsAs_prefixed 120 hexVal 16 (by decide +kernel) readInt_hex d0 v0 h0 tl val hv rest hstop

theorem touching_oct_bin (d0 : CP) (v0 : Nat) (tl : List (Bool × CP)) (val : CP → Nat) (rest : Line) :
    ((asciiIn 48 55 d0 = some v0 ∧ (∀ x ∈ tl, asciiIn 48 55 x.2 = some (val x.2)) ∧ Stops (asciiIn 48 55) rest) →
      ReadsAs (48 :: 111 :: d0 :: renderTail tl) (.int (ofDigits 8 (v0 :: tl.map (fun x => val x.2)))) rest) ∧
    ((asciiIn 48 49 d0 = some v0 ∧ (∀ x ∈ tl, asciiIn 48 49 x.2 = some (val x.2)) ∧ Stops (asciiIn 48 49) rest) →
      ReadsAs (48 :: 98 :: d0 :: renderTail tl) (.int (ofDigits 2 (v0 :: tl.map (fun x => val x.2)))) rest) :=
  ⟨fun h => readsAs_prefixed 111 (asciiIn 48 55) 8 (by decide) readInt_oct d0 v0 h.1 tl val h.2.1 rest h.2.2,
   fun h => readsAs_prefixed 98 (asciiIn 48 49) 2 (by decide) readInt_bin d0 v0 h.1 tl val h.2.1 rest h.2.2⟩

/-- string literals (with simple and hex escapes) and plain character literals read the same in front of anything -/
theorem touching_quoted (rest : Line) :
    (∀ (segs : List Seg) (last : Line) (lenc : List (List Nat)), (∀ s ∈ segs, SegOK s) → (∀ c ∈ last, c ≠ 92 ∧ c ≠ 34) →
      last.mapM utf8 = some lenc → ReadsAs (34 :: (bodyText segs ++ (last ++ [34]))) (.str (bodyBytes segs ++ lenc.flatten)) rest) ∧
    (∀ c, c ≠ 39 → c ≠ 92 → c < 128 → ReadsAs [39, c, 39] (.chr c) rest) :=
  ⟨fun segs last lenc hs hl hlenc => readsAs_string_esc segs hs last lenc hl hlenc rest, fun c h1 h2 h3 => readsAs_char c h1 h2 h3 rest⟩

/-- character literals written with a complete one-byte escape sequence (`'\\n'`, `'\\x41'`, `'\\''`, …), and `\\u{h…}` as a
complete escape sequence (at least one hex digit, a value up to 0x10FFFF that is not a surrogate; usable in strings and,
when it encodes to one byte, in character literals) -/
theorem escaped_char_literals_are_pieces (e : Line) (b : Nat) (he : IsEsc e [b]) (rest : Line) :
    ReadsAs (39 :: (e ++ [39])) (.chr b) rest :=
  readsAs_char_esc e b he rest

theorem unicode_escapes_complete (hs : Line) (bs : List Nat) (hne : hs ≠ []) (hh : ∀ c ∈ hs, (hexVal c).isSome = true)
    (hcp : ofDigits 16 (hs.filterMap hexVal) ≤ 0x10FFFF) (hu : utf8 (ofDigits 16 (hs.filterMap hexVal)) = some bs) :
    IsEsc (92 :: 117 :: 123 :: (hs ++ [125])) bs :=
  isEsc_unicode hs bs hne hh hcp hu

example : ReadsAs (cps "'\\n'") (.chr 10) (cps ";") ∧ IsEsc (cps "\\u{e9}") [0xC3, 0xA9] ∧ ReadsAs (cps "'\\u{41}'") (.chr 65) [] :=
  ⟨readsAs_char_esc [92, 110] 10 (isEsc_simple 110 10 [10] (by decide) (by decide)) _,
   isEsc_unicode (cps "e9") _ (by decide) (by decide +kernel) (by decide +kernel) (by decide +kernel),
   readsAs_char_esc (cps "\\u{41}") 65 (isEsc_unicode (cps "41") _ (by decide) (by decide +kernel) (by decide +kernel) (by decide +kernel)) _⟩

/-- `f(x1)+=0x1F;//c` and `while(n<=10)"a b"` : no white space anywhere between the tokens -/
example :
    let lines : List (List Piece × Line) :=
      [([([], [102], .ident [102] .none), ([], cps "(", .enum (enumName "(")), ([], [120, 49], .ident [120, 49] .none),
         ([], cps ")", .enum (enumName ")")), ([], cps "+=", .enum (enumName "+=")), ([], cps "0x1F", .int 31),
         ([], cps ";", .enum (enumName ";"))], cps "//c"),
       ([([], cps "while", .enum "BlockToken.WHILE"), ([], cps "(", .enum (enumName "(")), ([], [110], .ident [110] .none),
         ([], cps "<=", .enum (enumName "<=")), ([], cps "10", .int 10), ([], cps ")", .enum (enumName ")")),
         ([], cps "\"a b\"", .str [97, 32, 98])], [])]
    (∀ l ∈ lines, WFLine l.1 l.2) ∧ (lex (lines.map render)).1.map (·.tok) = tokensOf lines
      ∧ lines.map render = [cps "f(x1)+=0x1F;//c", cps "while(n<=10)\"a b\""] := by
  intro lines
  have hwf : ∀ l ∈ lines, WFLine l.1 l.2 := by
    intro l hl
    simp only [lines, List.mem_cons, List.not_mem_nil, or_false] at hl
    rcases hl with rfl | rfl
    · exact ⟨by decide, ((touching_word 102 [] (by decide) (by decide) _ (Or.inr ⟨40, _, rfl, by decide +kernel⟩)).2 (by decide +kernel)).1,
        by decide, touching_symbol_next "(" (by decide) 120 _ (by decide) (by decide) (fun h => absurd h (by decide)),
        by decide, ((touching_word 120 [49] (by decide) (by decide +kernel) _ (Or.inr ⟨41, _, rfl, by decide +kernel⟩)).2 (by decide +kernel)).1,
        by decide, touching_symbol_next ")" (by decide) 43 _ (by decide) (by decide) (fun h => absurd h (by decide)),
        by decide, touching_symbol_next "+=" (by decide) 48 _ (by decide) (by decide) (fun h => absurd h (by decide)),
        by decide, touching_hex 49 1 (by decide +kernel) [(false, 70)] (fun _ => 15) (by decide +kernel) _
          ⟨by decide +kernel, fun h => absurd h (by decide)⟩,
        by decide, touching_symbol_next ";" (by decide) 47 _ (by decide) (by decide) (fun h => absurd h (by decide)),
        Or.inr ⟨[], [99], rfl, by decide⟩⟩
    · exact ⟨by decide, (touching_word 119 (cps "hile") (by decide) (by decide +kernel) _ (Or.inr ⟨40, _, rfl, by decide +kernel⟩)).1 _ (by decide +kernel),
        by decide, touching_symbol_next "(" (by decide) 110 _ (by decide) (by decide) (fun h => absurd h (by decide)),
        by decide, ((touching_word 110 [] (by decide) (by decide) _ (Or.inr ⟨60, _, rfl, by decide +kernel⟩)).2 (by decide +kernel)).1,
        by decide, touching_symbol_next "<=" (by decide) 49 _ (by decide) (by decide) (fun h => absurd h (by decide)),
        by decide, touching_decimal 49 [(false, 48)] (by decide) (by decide) _ ⟨by decide +kernel, fun h => absurd h (by decide)⟩
          (fun h => absurd h (by decide)),
        by decide, touching_symbol_next ")" (by decide) 34 _ (by decide) (by decide) (fun h => absurd h (by decide)),
        by decide, (touching_quoted []).1 [] [97, 32, 98] [[97], [32], [98]] (fun _ h => absurd h (by simp)) (by decide) (by decide),
        Or.inl (by decide)⟩
  refine ⟨hwf, ?_, by decide⟩
  rw [lex_layout lines hwf, lexemesFrom_toks]

end HidVerif.Props.C12
