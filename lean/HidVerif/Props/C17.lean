import HidVerif.Proofs.WriteArrays
/-!
# C17 — the write family prints every value correctly

Statements only; the proofs are in `Proofs/`.  Everything is about `Gen.code_*`, the
instruction lists regenerated from `hidc/codegen/stdlib.py` on every run, inside an arbitrary
program `p` that contains the library at address `B` (`Placed p B`), for **every** word size
`w ≥ 2`, every word value and every caller state satisfying the calling convention.
-/
namespace HidVerif.Props.C17
open HidVerif HidVerif.PSys HidVerif.Sphinx HidVerif.Gen

/-- `write(int)`: from the routine's entry, with the argument in the caller-pushed slot
`[fp-2w]` and the return address in `[fp-w]`, the machine emits exactly the decimal reading of
the signed value (sign, no leading zeros, `-H` included) and arrives at the return address;
state memory is unchanged except the registers and the digit buffer `[fp-w-k, fp-w)` where `k`
is the number of digits.  `Reach` makes the statement independent of what the caller does
next (in particular of whether it later defeats). -/
theorem write_int_correct (p : Prog) (B : Nat) (hp : Placed p B)
    (m : Mem) (F v ra r0 r1 r2 : Nat)
    (hv : v < 256 ^ p.w) (hFM : F < 256 ^ p.w) (hFsz : F ≤ m.size)
    (hroom : 5 * p.w + (digits (absW (256 ^ p.w) v)).length + p.w ≤ F) (h7 : 7 * p.w ≤ F)
    (hr : Regs p.w m F r0 r1 r2)
    (harg : m.readLE (F - 2 * p.w) p.w = v) (hra : m.readLE (F - p.w) p.w = ra) :
    ∃ m', Reach (sphinx p) ⟨B + off_write_int, m⟩ (outs (decimalW (256 ^ p.w) v)) ⟨ra, m'⟩ ∧
      Same p.w m m' (F - p.w - (digits (absW (256 ^ p.w) v)).length) (F - p.w) :=
  write_int_spec p B hp m F v ra r0 r1 r2 hv hFM hFsz hroom h7 hr harg hra

/-- the specification function is the usual decimal notation (spot values, as a sanity check of
the *specification*, not of the routine) -/
example : decimalW (256 ^ 2) 0 = [48] ∧ decimalW (256 ^ 2) 12345 = [49, 50, 51, 52, 53]
    ∧ decimalW (256 ^ 2) 65535 = [45, 49] ∧ decimalW (256 ^ 2) 32768 = [45, 51, 50, 55, 54, 56] := by
  refine ⟨?_, ?_, ?_, ?_⟩ <;> simp [decimalW, digits]

/-- D4 in theorem form: the digit buffer is `k` bytes long and only `w` bytes below `fp - w`
belong to the frame the caller reserved for the call (`RA` + one word argument), so for values
with more than `w` digits the routine writes below its own frame. -/
theorem write_int_buffer_exceeds_frame : ∃ v, v < 256 ^ 2 ∧ (digits (absW (256 ^ 2) v)).length > 2 :=
  ⟨12345, by decide, by simp [absW, digits]⟩

/-- `write(string)`: with the pointer to the length-prefixed constant in `[fp-2w]`, the routine
emits exactly the `k` bytes that follow the length word — for every length `0 ≤ k < 2^(8w-1)`,
every byte content — returns to the caller, and changes nothing in state memory outside the
register block (`Same … 0 0`: every byte at an address `≥ 5w` is unchanged, sizes equal). -/
theorem write_string_correct (p : Prog) (B : Nat) (hp : Placed p B)
    (m : Mem) (F s k ra r0 r1 r2 : Nat)
    (hk : k < 256 ^ p.w / 2) (hs : s + p.w + k < 256 ^ p.w) (hssz : s + p.w + k ≤ p.const.size)
    (hF : 6 * p.w ≤ F) (hFM : F < 256 ^ p.w) (hFsz : F ≤ m.size)
    (hr : Regs p.w m F r0 r1 r2)
    (hptr : m.readLE (F - 2 * p.w) p.w = s) (hlen : p.const.readLE s p.w = k)
    (hra : m.readLE (F - p.w) p.w = ra) :
    ∃ m', Reach (sphinx p) ⟨B + off_write_string, m⟩ (outs (bytesAt p.const (s + p.w) k)) ⟨ra, m'⟩ ∧
      Same p.w m m' 0 0 :=
  write_string_spec p B hp m F s k ra r0 r1 r2 hk hs hssz hF hFM hFsz hr hptr hlen hra

/-- `write(const byte[])`: address into the const section in `[fp-3w]`, length in `[fp-2w]`. -/
theorem write_const_byte_array_correct (p : Prog) (B : Nat) (hp : Placed p B)
    (m : Mem) (F a k ra r0 r1 r2 : Nat)
    (hk : k < 256 ^ p.w / 2) (ha : a + k < 256 ^ p.w) (hasz : a + k ≤ p.const.size)
    (hF : 6 * p.w ≤ F) (hFM : F < 256 ^ p.w) (hFsz : F ≤ m.size)
    (hr : Regs p.w m F r0 r1 r2)
    (haddr : m.readLE (F - 3 * p.w) p.w = a) (hlen : m.readLE (F - 2 * p.w) p.w = k)
    (hra : m.readLE (F - p.w) p.w = ra) :
    ∃ m', Reach (sphinx p) ⟨B + off_write_const_byte_array, m⟩ (outs (bytesAt p.const a k)) ⟨ra, m'⟩ ∧
      Same p.w m m' 0 0 :=
  write_const_byte_array_spec p B hp m F a k ra r0 r1 r2 hk ha hasz hF hFM hFsz hr haddr hlen hra

/-- `write(byte[])` for an array in the state section (stack or global). The bytes printed are
those of the *initial* memory: the routine does not disturb the array while printing it. -/
theorem write_state_byte_array_correct (p : Prog) (B : Nat) (hp : Placed p B)
    (m : Mem) (F a k ra r0 r1 r2 : Nat)
    (hk : k < 256 ^ p.w / 2) (ha : a + k < 256 ^ p.w) (h5 : 5 * p.w ≤ a) (hasz : a + k ≤ m.size)
    (hF : 6 * p.w ≤ F) (hFM : F < 256 ^ p.w) (hFsz : F ≤ m.size)
    (hr : Regs p.w m F r0 r1 r2)
    (haddr : m.readLE (F - 3 * p.w) p.w = a) (hlen : m.readLE (F - 2 * p.w) p.w = k)
    (hra : m.readLE (F - p.w) p.w = ra) :
    ∃ m', Reach (sphinx p) ⟨B + off_write_state_byte_array, m⟩ (outs (bytesAt m a k)) ⟨ra, m'⟩ ∧
      Same p.w m m' 0 0 :=
  write_state_byte_array_spec p B hp m F a k ra r0 r1 r2 hk ha h5 hasz hF hFM hFsz hr haddr hlen hra

/-- `write(bool)`: prints `false` for the byte 0 and `true` for any other byte. -/
theorem write_bool_correct (p : Prog) (B : Nat) (hp : Placed p B)
    (m : Mem) (F ra r0 r1 r2 : Nat)
    (hF : 6 * p.w ≤ F) (hFM : F < 256 ^ p.w) (hFsz : F ≤ m.size)
    (hr : Regs p.w m F r0 r1 r2) (hra : m.readLE (F - p.w) p.w = ra) :
    ∃ m', Reach (sphinx p) ⟨B + off_write_bool, m⟩ (outs (boolText (m.rd (F - p.w - 1)))) ⟨ra, m'⟩ ∧
      Same p.w m m' 0 0 :=
  write_bool_spec p B hp m F ra r0 r1 r2 hF hFM hFsz hr hra

/-- the specification text really is `false` / `true` -/
example : (boolText 0).map Char.ofNat = "false".toList ∧ (boolText 1).map Char.ofNat = "true".toList := by decide

/-- the number of bytes emitted is exactly the length (no terminator, no padding) -/
theorem bytesAt_length (m : Mem) (a k : Nat) : (bytesAt m a k).length = k := by
  induction k generalizing a with
  | zero => rfl
  | succ k ih => simp [bytesAt, ih]

/-- `write(byte)` and the newline of `writeln` are lowered to a single `yield` (checked by the
conformance pass on every compiled program); one `yield x` emits exactly the low byte of `x`
and changes nothing. -/
theorem yield_exact (p : Prog) (pc : Nat) (m : Mem) (a : Arg) (x : Nat)
    (hc : p.code[pc]? = some (.yld a)) (ha : evalArg p ⟨pc, m⟩ a = some x) :
    Reach (sphinx p) ⟨pc, m⟩ [Ev.out (x % 256)] ⟨pc + 1, m⟩ := by
  simpa [evl] using Reach.of_next (sys := sphinx p) (step_yld (m := m) hc ha)

/-! ## The specification function itself: `decimalW` is decimal notation, for every word

`write_int_correct` says the routine emits `decimalW M v`. The spot values above check the specification on four words;
the theorems below check it on all of them: what is printed consists of digits (and a leading `-`), has no leading zero,
and read back as a number gives the word that was printed - so the specification cannot be a function that is wrong
outside the sampled values, and distinct words print distinct texts. -/
/-- reading decimal text back: the value of a digit string -/
def valOf (ds : List Nat) : Nat := ds.foldl (fun a d => a * 10 + (d - 48)) 0
/-- reading the output of `write(int)` back as a word: a leading `-` negates modulo `M` -/
def readBack (M : Nat) : List Nat → Nat
  | 45 :: ds => (M - valOf ds) % M
  | ds => valOf ds

theorem valOf_append (ds : List Nat) (d : Nat) : valOf (ds ++ [d]) = valOf ds * 10 + (d - 48) := by
  simp [valOf, List.foldl_append]

/-- the specification function produces digits only -/
theorem digits_range (n : Nat) : ∀ d ∈ digits n, 48 ≤ d ∧ d ≤ 57 := by
  induction n using Nat.strongRecOn with
  | _ n ih =>
    by_cases h : n < 10
    · rw [digits_lt n h]; intro d hd; simp at hd; omega
    · rw [digits_ge n h]; intro d hd
      rcases List.mem_append.mp hd with hd | hd
      · exact ih (n / 10) (by omega) d hd
      · simp at hd; omega

/-- ... and it is decimal notation: read back, the digits give the number - for every number -/
theorem valOf_digits (n : Nat) : valOf (digits n) = n := by
  induction n using Nat.strongRecOn with
  | _ n ih =>
    by_cases h : n < 10
    · rw [digits_lt n h]; simp [valOf]
    · rw [digits_ge n h, valOf_append, ih (n / 10) (by omega)]; omega

/-- no leading zero except for zero itself -/
theorem digits_head (n : Nat) : (digits n).head? = some 48 → n = 0 := by
  induction n using Nat.strongRecOn with
  | _ n ih =>
    by_cases h : n < 10
    · rw [digits_lt n h]; simp
    · rw [digits_ge n h]
      have hp := digits_pos (n / 10)
      cases hd : digits (n / 10) with
      | nil => simp [hd] at hp
      | cons x xs =>
        intro hh; simp at hh
        have := ih (n / 10) (by omega) (by simp [hd, hh])
        omega

/-- **what `write(int)` prints determines the word**: for every even modulus and every word `v`, reading the
specified text back gives `v` - so two different values never print the same text, the sign is printed exactly for
the words `≥ M/2`, and the most negative value (whose absolute value does not fit) is covered too -/
theorem decimalW_reads_back (M v : Nat) (hM : M % 2 = 0) (hv : v < M) : readBack M (decimalW M v) = v := by
  unfold decimalW
  split
  · have hr := digits_range v
    cases hd : digits v with
    | nil => have := digits_pos v; simp [hd] at this
    | cons x xs =>
      have hx := hr x (by simp [hd])
      have : x ≠ 45 := by omega
      unfold readBack
      split
      · next h => simp at h; omega
      · rw [← hd, valOf_digits]
  · simp only [readBack, valOf_digits]
    have : M - (M - v) = v := by omega
    rw [this, Nat.mod_eq_of_lt hv]

theorem decimalW_injective (M a b : Nat) (hM : M % 2 = 0) (ha : a < M) (hb : b < M)
    (h : decimalW M a = decimalW M b) : a = b := by
  rw [← decimalW_reads_back M a hM ha, ← decimalW_reads_back M b hM hb, h]

example : readBack (256 ^ 2) (decimalW (256 ^ 2) 32768) = 32768 ∧ readBack (256 ^ 2) [45, 49] = 65535 := by
  refine ⟨decimalW_reads_back _ _ (by decide) (by decide), by decide⟩

end HidVerif.Props.C17
