import HidVerif.Proofs.WriteIntSpec
/-!
# C17 — the write family prints every value correctly

Statements only; the proofs are in `Proofs/`.  Everything is about `Gen.code_*`, the
instruction lists regenerated from `hidc/codegen/stdlib.py` on every run, inside an arbitrary
program `p` that contains the library at address `B` (`Placed p B`), for **every** word size
`w ≥ 2`, every word value and every caller state satisfying the calling convention.
-/
namespace HidVerif.Props.C17
open HidVerif HidVerif.PSys HidVerif.Sphinx HidVerif.Gen

/-- `write(int)`: from the routine's entry, with the argument in the caller-pushed slot
`[fp-2w]` and the return address in `[fp-w]`, the machine emits exactly the decimal reading of
the signed value (sign, no leading zeros, `-H` included) and arrives at the return address;
state memory is unchanged except the registers and the digit buffer `[fp-w-k, fp-w)` where `k`
is the number of digits.  `Reach` makes the statement independent of what the caller does
next (in particular of whether it later defeats). -/
theorem write_int_correct (p : Prog) (B : Nat) (hp : Placed p B)
    (m : Mem) (F v ra r0 r1 r2 : Nat)
    (hv : v < 256 ^ p.w) (hFM : F < 256 ^ p.w) (hFsz : F ≤ m.size)
    (hroom : 5 * p.w + (digits (absW (256 ^ p.w) v)).length + p.w ≤ F) (h7 : 7 * p.w ≤ F)
    (hr : Regs p.w m F r0 r1 r2)
    (harg : m.readLE (F - 2 * p.w) p.w = v) (hra : m.readLE (F - p.w) p.w = ra) :
    ∃ m', Reach (sphinx p) ⟨B + off_write_int, m⟩ (outs (decimalW (256 ^ p.w) v)) ⟨ra, m'⟩ ∧
      Same p.w m m' (F - p.w - (digits (absW (256 ^ p.w) v)).length) (F - p.w) :=
  write_int_spec p B hp m F v ra r0 r1 r2 hv hFM hFsz hroom h7 hr harg hra

/-- the specification function is the usual decimal notation (spot values, as a sanity check of
the *specification*, not of the routine) -/
example : decimalW (256 ^ 2) 0 = [48] ∧ decimalW (256 ^ 2) 12345 = [49, 50, 51, 52, 53]
    ∧ decimalW (256 ^ 2) 65535 = [45, 49] ∧ decimalW (256 ^ 2) 32768 = [45, 51, 50, 55, 54, 56] := by
  refine ⟨?_, ?_, ?_, ?_⟩ <;> simp [decimalW, digits]

/-- D4 in theorem form: the digit buffer is `k` bytes long and only `w` bytes below `fp - w`
belong to the frame the caller reserved for the call (`RA` + one word argument), so for values
with more than `w` digits the routine writes below its own frame. -/
theorem write_int_buffer_exceeds_frame : ∃ v, v < 256 ^ 2 ∧ (digits (absW (256 ^ 2) v)).length > 2 :=
  ⟨12345, by decide, by simp [absW, digits]⟩

end HidVerif.Props.C17
