import HidVerif.Proofs.Guards
import HidVerif.Hid.Machine
import HidVerif.Proofs.CoreMain
/-!
# C05 — runtime faults are detected exactly, first, and terminally

For each guard template of the generator (`Compiler.divGuard`, `indexGuard`, `lengthGuard`,
`entryGuard`; conformance of real `hidc` output to these templates is checked on every program
the harness compiles): it passes — leaving memory untouched — **iff** the condition holds, and
otherwise the committed trace is exactly `[flag <kind>, flag error]` followed by the terminal
loop, before the guarded instruction is reached.  All word sizes, all operand values.
-/
namespace HidVerif.Props.C05
open HidVerif HidVerif.PSys HidVerif.Sphinx HidVerif.Gen HidVerif.Compiler

theorem div_guard_exact {p : Prog} {B pc ok : Nat} {m : Mem} (hp : Placed p B) {b : Arg} {y : Nat}
    (h : PlacedAt p pc (divGuard ok b (B + off_division_by_zero))) (hok : ok < 256 ^ p.w)
    (hb : ∀ pc', evalArg p ⟨pc', m⟩ b = some y) :
    (y ≠ 0 → Reach (sphinx p) ⟨pc, m⟩ [] ⟨ok, m⟩) ∧
    (y = 0 → Exec (sphinx p) ⟨pc, m⟩ [Ev.flag "division_by_zero", Ev.flag "error"] ⟨tntPc B, m⟩ ∧
              ¬ Halts (sphinx p) ⟨pc, m⟩) := Sphinx.div_guard_exact hp h hok hb

theorem index_guard_exact {p : Prog} {B pc ok : Nat} {m : Mem} (hp : Placed p B) {ia la : Arg} {idx len : Nat}
    (h : PlacedAt p pc (indexGuard ok ia la (B + off_out_of_bounds))) (hok : ok < 256 ^ p.w)
    (hi : ∀ pc', evalArg p ⟨pc', m⟩ ia = some idx) (hl : ∀ pc', evalArg p ⟨pc', m⟩ la = some len)
    (hlen : len < 256 ^ p.w / 2) (hidx : idx < 256 ^ p.w) :
    ((0 ≤ toS (256 ^ p.w) idx ∧ toS (256 ^ p.w) idx < (len : Int)) → Reach (sphinx p) ⟨pc, m⟩ [] ⟨ok, m⟩) ∧
    (¬ (0 ≤ toS (256 ^ p.w) idx ∧ toS (256 ^ p.w) idx < (len : Int)) →
        Exec (sphinx p) ⟨pc, m⟩ [Ev.flag "out_of_bounds", Ev.flag "error"] ⟨tntPc B, m⟩ ∧
        ¬ Halts (sphinx p) ⟨pc, m⟩) := Sphinx.index_guard_exact hp h hok hi hl hlen hidx

theorem length_guard_exact {p : Prog} {B pc ok : Nat} {m : Mem} (hp : Placed p B) {la : Arg} {len maxLen : Nat}
    (h : PlacedAt p pc (lengthGuard ok la maxLen (B + off_stack_overflow))) (hok : ok < 256 ^ p.w)
    (hl : ∀ pc', evalArg p ⟨pc', m⟩ la = some len) (hmx : maxLen < 256 ^ p.w) :
    (len ≤ maxLen → Reach (sphinx p) ⟨pc, m⟩ [] ⟨ok, m⟩) ∧
    (¬ len ≤ maxLen → Exec (sphinx p) ⟨pc, m⟩ [Ev.flag "stack_overflow", Ev.flag "error"] ⟨tntPc B, m⟩ ∧
        ¬ Halts (sphinx p) ⟨pc, m⟩) := Sphinx.length_guard_exact hp h hok hl hmx

/-- `max_length` as the length guard uses it rules out negative lengths and wrapping sizes -/
theorem length_guard_arith {M w len : Nat} (hw : 0 < w) (hH : 0 < M / 2) (hlen : len ≤ (M / 2 - 1) / w) :
    len * w < M / 2 ∧ toS M len = (len : Int) := Sphinx.length_guard_arith hw hH hlen

/-- ... and it rules out nothing else: a length the guard rejects needs at least `M/2` bytes (which covers every
length that is negative as a signed word when `w ≥ 1`), so `max_length` is exact, not merely safe - for every word
size and element size -/
theorem length_guard_tight {M w len : Nat} (hw : 0 < w) (hlen : ¬ len ≤ (M / 2 - 1) / w) : M / 2 ≤ len * w := by
  have h1 : M / 2 - 1 < w * ((M / 2 - 1) / w + 1) := Nat.lt_mul_div_succ _ hw
  have h2 : (M / 2 - 1) / w + 1 ≤ len := by omega
  have h3 : w * ((M / 2 - 1) / w + 1) ≤ w * len := Nat.mul_le_mul_left w h2
  rw [Nat.mul_comm w len] at h3
  omega

example : ¬ (8192 : Nat) ≤ (65536 / 2 - 1) / 4 ∧ 65536 / 2 ≤ 8192 * 4 ∧ (8191 : Nat) ≤ (65536 / 2 - 1) / 4 := by decide

/-- the four error stubs emit their kind, then `error`, then only the terminal loop -/
theorem error_stub_trace {p : Prog} {B : Nat} (hp : Placed p B) (m : Mem) :
    Reach (sphinx p) ⟨B + off_stack_overflow, m⟩ [Ev.flag "stack_overflow", Ev.flag "error"] ⟨tntPc B, m⟩ ∧
    Reach (sphinx p) ⟨B + off_division_by_zero, m⟩ [Ev.flag "division_by_zero", Ev.flag "error"] ⟨tntPc B, m⟩ ∧
    Reach (sphinx p) ⟨B + off_out_of_bounds, m⟩ [Ev.flag "out_of_bounds", Ev.flag "error"] ⟨tntPc B, m⟩ ∧
    Reach (sphinx p) ⟨B + off_nonlocal_preempt, m⟩ [Ev.flag "nonlocal_preempt", Ev.flag "error"] ⟨tntPc B, m⟩ :=
  error_stub_reach hp m

/-- the reference semantics raises the same faults: division by zero -/
example (E : Hid.Env) (a : Nat) : Hid.binArith E .div a 0 = none := by simp [Hid.binArith]

/-! ## The sequential integer core: division by zero is caught -/

/-- **C05 on the core**: whenever the source semantics faults with a division by zero, a checked
build prints what was printed before, then `division_by_zero`, `error`, and stays in the
terminal loop (no machine fault, no wrong value) — for every program and argument vector. -/
theorem core_division_by_zero (cf : Core.Config) (args : List Int) (pr : Core.CProg)
    (hw : 2 ≤ cf.w) (hck : cf.checked = true)
    (hB : Core.progLen cf.checked pr + stdlibLength < 256 ^ cf.w) (hSE : Core.F0 cf args + Core.regsLen cf.w pr < 256 ^ cf.w)
    (hwf : Core.wfProg pr = true) (hlen : args.length = pr.params.length)
    (fuel : Nat) (env' : Core.Env) (tr : List Ev)
    (hex : Core.srcRun cf fuel args pr = some (env', tr, .div0))
    (hroom : Core.pkS cf.w (Core.entryOff cf.w pr.params) pr.body ≤ Core.roomOf cf args) :
    ∃ mEnd, Exec (sphinx (Core.coreProg cf pr)) (Core.coreInit cf args pr)
      (tr ++ [Ev.flag "division_by_zero", Ev.flag "error"]) ⟨tntPc (Core.progLen cf.checked pr), mEnd⟩ :=
  let ⟨m, h, _⟩ := Core.core_correct cf args pr hw hB hSE hwf hlen fuel env' tr .div0 hex (fun _ => hck) (fun h => by cases h) hroom
  ⟨m, h⟩

end HidVerif.Props.C05
