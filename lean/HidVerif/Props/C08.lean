import HidVerif.Proofs.Frames
import HidVerif.Proofs.SourceLaws
import HidVerif.Proofs.CoreMain
/-!
# C08 — every scope exit releases exactly what the scope allocated

Proved: the paired instructions the generator emits around an array literal and around a call
restore `ap` / `fp` exactly (word arithmetic, all `w`, all values, no wrap assumptions beyond
"the allocation fits the address space"); in the reference semantics a caught defeat re-enters
the handler with the environment and continuation of the `try`.  The run-time statement for
whole programs (footprint independent of iteration count, `ap` equal at every arrival at a loop
head within one activation) is validated by the monitor and by minimal-stack search.
For the verified core (programs with `int` locals, blocks, loops, calls and recursion — no arrays,
so the array stack never moves) the whole statement is a theorem: `core_scope_exit_restores_frame`.
-/
namespace HidVerif.Props.C08
open HidVerif HidVerif.PSys HidVerif.Sphinx

theorem call_restores_fp {M fp off : Nat} (hoff : off ≤ fp) (hfp : fp < M) (h0 : 0 < off) :
    ((fp + (M - off) % M) % M + off % M) % M = fp := fp_restore_arith hoff hfp h0

theorem static_pop_restores_ap {M ap size : Nat} (h : ap + size < M) :
    ((ap + size % M) % M + M - size % M) % M = ap := ap_static_pop_arith h

theorem alloc_release_restores {p : Prog} {pc pc' size ap : Nat} {m : Mem} (hw : 2 ≤ p.w)
    (c0 : p.code[pc]? = some (.alu .add 0 (.st 0) (.imm size)))
    (c1 : p.code[pc']? = some (.alu .sub 0 (.st 0) (.imm size)))
    (hsz : 5 * p.w ≤ m.size) (hap : m.readLE 0 p.w = ap) (hfit : ap + size < 256 ^ p.w) :
    ∃ m1, step p ⟨pc, m⟩ = .next ⟨pc + 1, m1⟩ none ∧
      ∀ m2, (∀ x, x < p.w → m2.rd x = m1.rd x) → m2.size = m.size →
        ∃ m3, step p ⟨pc', m2⟩ = .next ⟨pc' + 1, m3⟩ none ∧ m3.readLE 0 p.w = ap ∧
          (∀ x, p.w ≤ x → m3.rd x = m2.rd x) := alloc_release hw c0 c1 hsz hap hfit

/-- defeat caught by a stop block: environment and continuation are those saved at `try` -/
theorem stop_handler_restores (c : Hid.Cfg) (sn : Hid.Snap) (hm : c.mode = some sn) :
    Hid.doDefeat c = .next { c with ctl := .exec sn.handler, env := sn.env, kont := sn.kont, mode := none } none :=
  Hid.defeat_caught c sn hm

/-- **C08 on the core**: however a statement list of a core program is left — falling through,
`return`, `return e` — after any number of loop iterations, nested blocks and (recursive) calls
inside it, the frame pointer, the array pointer and every byte at and above the frame pointer
are exactly what they were on entry; control is at the end of the list or at the caller's
return address.  (`Core.Keep w m m' F`: same size, same `fp`, same `ap`, same bytes from `F` up.) -/
theorem core_scope_exit_restores_frame {p : Prog} {ck : Bool} {B dA : Nat} {fa : Core.FAddr} {fns : List Core.FDecl}
    (lib : Placed p B) (fok : Core.FnsOK p ck B dA fa fns) (fuel F D ra : Nat) (hra : ra < 256 ^ p.w)
    (lp : Core.Jt) (hlp : lp.cont < 256 ^ p.w ∧ lp.brk < 256 ^ p.w) (hvd : lp.vd = false) (s : Core.S) (Γ : Core.Gam) (env : Core.Env) (pc o : Nat) (m : Mem) (env' : Core.Env) (tr : List Ev) (res : Core.Res)
    (hpl : PlacedAt p pc (Core.cS (Core.cxOf p ck B dA) fa lp Γ pc o s))
    (hB : pc + (Core.cS (Core.cxOf p ck B dA) fa lp Γ pc o s).length ≤ B)
    (hinv : Core.SInv p .plain Γ env m F D o ra) (hd : Core.Disj p.w Γ) (hwf : Core.wfS fns false (Γ.map Prod.fst) s = true)
    (hpk : Core.pkS p.w o s ≤ D) (ho : p.w ≤ o) (hnt : Core.noTry s = true)
    (hex : Core.exec (256 ^ p.w) (8 * p.w) fns p.w fuel D o env s = some (env', tr, res))
    (hres : res = .norm ∨ res = .returned ∨ ∃ v, res = .retv v) :
    ∃ st', Reach (sphinx p) ⟨pc, m⟩ tr st' ∧ Core.Keep p.w m st'.mem F ∧ st'.mem.readLE p.w p.w = F ∧
      (res = .norm → st'.pc = pc + (Core.cS (Core.cxOf p ck B dA) fa lp Γ pc o s).length) ∧ (res ≠ .norm → st'.pc = ra) :=
  Core.core_frame_restored lib fok fuel F D ra hra lp hlp hvd s Γ env pc o m env' tr res hpl hB hinv hd hwf hpk ho hnt hex hres

end HidVerif.Props.C08
