import HidVerif.Proofs.Frames
import HidVerif.Proofs.SourceLaws
/-!
# C08 — every scope exit releases exactly what the scope allocated

Proved: the paired instructions the generator emits around an array literal and around a call
restore `ap` / `fp` exactly (word arithmetic, all `w`, all values, no wrap assumptions beyond
"the allocation fits the address space"); in the reference semantics a caught defeat re-enters
the handler with the environment and continuation of the `try`.  The run-time statement for
whole programs (footprint independent of iteration count, `ap` equal at every arrival at a loop
head within one activation) is validated by the monitor and by minimal-stack search.
-/
namespace HidVerif.Props.C08
open HidVerif HidVerif.PSys HidVerif.Sphinx

theorem call_restores_fp {M fp off : Nat} (hoff : off ≤ fp) (hfp : fp < M) (h0 : 0 < off) :
    ((fp + (M - off) % M) % M + off % M) % M = fp := fp_restore_arith hoff hfp h0

theorem static_pop_restores_ap {M ap size : Nat} (h : ap + size < M) :
    ((ap + size % M) % M + M - size % M) % M = ap := ap_static_pop_arith h

theorem alloc_release_restores {p : Prog} {pc pc' size ap : Nat} {m : Mem} (hw : 2 ≤ p.w)
    (c0 : p.code[pc]? = some (.alu .add 0 (.st 0) (.imm size)))
    (c1 : p.code[pc']? = some (.alu .sub 0 (.st 0) (.imm size)))
    (hsz : 5 * p.w ≤ m.size) (hap : m.readLE 0 p.w = ap) (hfit : ap + size < 256 ^ p.w) :
    ∃ m1, step p ⟨pc, m⟩ = .next ⟨pc + 1, m1⟩ none ∧
      ∀ m2, (∀ x, x < p.w → m2.rd x = m1.rd x) → m2.size = m.size →
        ∃ m3, step p ⟨pc', m2⟩ = .next ⟨pc' + 1, m3⟩ none ∧ m3.readLE 0 p.w = ap ∧
          (∀ x, p.w ≤ x → m3.rd x = m2.rd x) := alloc_release hw c0 c1 hsz hap hfit

/-- defeat caught by a stop block: environment and continuation are those saved at `try` -/
theorem stop_handler_restores (c : Hid.Cfg) (sn : Hid.Snap) (hm : c.mode = some sn) :
    Hid.doDefeat c = .next { c with ctl := .exec sn.handler, env := sn.env, kont := sn.kont, mode := none } none :=
  Hid.defeat_caught c sn hm

end HidVerif.Props.C08
