import HidVerif.Hid.Parser
/-!
# C11 — expressions group by the documented precedence and associativity

`levels_documented`: the operator tables of `ps_expr2 … ps_expr8`, regenerated from grammar.py,
are the documented table.  The parser model uses these tables (`Hid/Parser.lean`,
`psBinLevel`/`psBinRest` = the left-associative fold of `bin_op`) and is tied to the
implementation by the `parse` suite; the round trip print → parse for all operator pairs and
triples and random trees is validated against an independent precedence-climbing parser.
-/
namespace HidVerif.Props.C11
open HidVerif.Gen HidVerif.Hid.Parse HidVerif.Hid.Lex

/-- README "Operators, in order of precedence" -/
def documentedLevels : List (Nat × List (String × String)) :=
  [(2, [("ADD", "Pos"), ("SUB", "Neg"), ("NOT", "Not")]),
   (4, [("MUL", "Mul"), ("DIV", "Div"), ("MOD", "Mod")]),
   (5, [("ADD", "Add"), ("SUB", "Sub")]),
   (6, [("LT", "Lt"), ("LE", "Le"), ("GT", "Gt"), ("GE", "Ge"), ("EQ", "Eq"), ("NE", "Ne")]),
   (7, [("AND", "And")]),
   (8, [("OR", "Or")])]

theorem levels_documented : exprLevels = documentedLevels := by decide

/-- every binary operator token sits on exactly one level -/
theorem levels_disjoint : ∀ l₁ ∈ exprLevels, ∀ l₂ ∈ exprLevels, l₁.1 ≥ 4 → l₂.1 ≥ 4 → l₁.1 ≠ l₂.1 →
    ∀ op ∈ l₁.2, ∀ op' ∈ l₂.2, op.1 ≠ op'.1 := by decide

end HidVerif.Props.C11
