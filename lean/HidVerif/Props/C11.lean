import HidVerif.Hid.Parser
import HidVerif.Proofs.ParseRoundTrip
/-!
# C11 — expressions group by the documented precedence and associativity

`levels_documented`: the operator tables of `ps_expr2 … ps_expr8`, regenerated from grammar.py,
are the documented table.  The parser model uses these tables (`Hid/Parser.lean`,
`psBinLevel`/`psBinRest` = the left-associative fold of `bin_op`) and is tied to the
implementation by the `parse` suite.  `documented_grouping` is the inductive proof: for *every*
operator expression, printing it with the parentheses the documented table requires (and any
redundant ones) and parsing the tokens with the model of `hidc.parser` gives back exactly that
tree.  The round trip through the *real* lexer and parser for all operator pairs and triples and
random trees is additionally executed against an independent precedence-climbing parser.
-/
namespace HidVerif.Props.C11
open HidVerif.Gen HidVerif.Hid.Parse HidVerif.Hid.Lex

/-- README "Operators, in order of precedence" -/
def documentedLevels : List (Nat × List (String × String)) :=
  [(2, [("ADD", "Pos"), ("SUB", "Neg"), ("NOT", "Not")]),
   (4, [("MUL", "Mul"), ("DIV", "Div"), ("MOD", "Mod")]),
   (5, [("ADD", "Add"), ("SUB", "Sub")]),
   (6, [("LT", "Lt"), ("LE", "Le"), ("GT", "Gt"), ("GE", "Ge"), ("EQ", "Eq"), ("NE", "Ne")]),
   (7, [("AND", "And")]),
   (8, [("OR", "Or")])]

theorem levels_documented : exprLevels = documentedLevels := by decide

/-- every binary operator token sits on exactly one level -/
theorem levels_disjoint : ∀ l₁ ∈ exprLevels, ∀ l₂ ∈ exprLevels, l₁.1 ≥ 4 → l₂.1 ≥ 4 → l₁.1 ≠ l₂.1 →
    ∀ op ∈ l₁.2, ∀ op' ∈ l₂.2, op.1 ≠ op'.1 := by decide

/-! ## The inductive proof: print → parse is the identity on operator expressions -/

/-- every context the grammar can reach (`C06.reachable`) lets a plain identifier through the
flavour test of `ps_func_call` — the one side condition of the theorem -/
theorem reachable_contexts_ok : ∀ c ∈ [0, 1, 3, 5, 13, 16, 17, 19, 21, 29],
    has c "FUNC" = false ∨ flavorAllowed c .none = true := by decide

/-- **C11**: for every operator expression `e` — literals, variables, postfix indexing `e[i]` and
`.length`, the prefix operators `+ - not`, `is` casts to a scalar type, the binary levels `* / %`,
`+ -`, comparisons and equality, `and`, `or`, with operators taken from the tables regenerated
from grammar.py, nested to any depth, plus any parentheses the programmer added — and every token
sequence `ls` that spells `e` with binary operators of equal
level grouped to the left and parentheses exactly where the documented table requires them
(`pr 8 e`), the parser returns exactly the tree of `e` (`e.toP`) and leaves whatever follows
(`rest`, anything that cannot continue an expression: `)`, `]`, `;`, `,`, `{`, end of input …)
untouched, for all sufficiently large fuel.  Unbounded: by induction on `e`. -/
theorem documented_grouping (c : Cursor) (ctx : Nat) (hctx : CtxOK ctx) (e : OE) (hwf : e.WF)
    (ls rest : List Lexeme) (hls : ls.map (·.tok) = pr 8 e) (hc : headCont 9 rest = false) :
    ∃ n, ∀ fuel, n ≤ fuel → psExpr (.eof c) fuel ctx (ls ++ rest) = .val e.toP rest :=
  parse_pr c ctx hctx e hwf ls rest hls hc

/-- postfix binds tighter than prefix, prefix tighter than `is`, `is` tighter than `*`:
`-a[i].length is int * b` is `((-(a[i].length)) is int) * b` and prints without parentheses, while a cast
of a product or an index into a negation needs them -/
example :
    let a : OE := .var [97]; let b : OE := .var [98]; let i : OE := .var [105]
    pr 8 (.bin 4 "MUL" "Mul" (.cast (.un "SUB" "Neg" (.len (.index a i))) "DataType.INT" .int) b) =
      [tkOp "SUB", .ident [97] .none, tkLS, .ident [105] .none, tkRS, tkDot, tkLength, tkIS, .enum "DataType.INT",
       tkOp "MUL", .ident [98] .none] ∧
    pr 8 (.cast (.bin 4 "MUL" "Mul" a b) "DataType.INT" .int) =
      [tkL, .ident [97] .none, tkOp "MUL", .ident [98] .none, tkR, tkIS, .enum "DataType.INT"] ∧
    pr 8 (.index (.un "SUB" "Neg" a) i) = [tkL, tkOp "SUB", .ident [97] .none, tkR, tkLS, .ident [105] .none, tkRS] := by
  refine ⟨by decide, by decide, by decide⟩

/-- what the printer does on `a - b - c * -d`, `(a - b) * c` and `a - (b - c)`: no parentheses in the
first, required ones in the others -/
example :
    let a : OE := .var [97]; let b : OE := .var [98]; let c : OE := .var [99]; let d : OE := .var [100]
    pr 8 (.bin 5 "SUB" "Sub" (.bin 5 "SUB" "Sub" a b) (.bin 4 "MUL" "Mul" c (.un "SUB" "Neg" d))) =
      [.ident [97] .none, tkOp "SUB", .ident [98] .none, tkOp "SUB", .ident [99] .none, tkOp "MUL", tkOp "SUB", .ident [100] .none] ∧
    pr 8 (.bin 4 "MUL" "Mul" (.bin 5 "SUB" "Sub" a b) c) =
      [tkL, .ident [97] .none, tkOp "SUB", .ident [98] .none, tkR, tkOp "MUL", .ident [99] .none] ∧
    pr 8 (.bin 5 "SUB" "Sub" a (.bin 5 "SUB" "Sub" b c)) =
      [.ident [97] .none, tkOp "SUB", tkL, .ident [98] .none, tkOp "SUB", .ident [99] .none, tkR] := by
  refine ⟨by decide, by decide, by decide⟩

/-- structural equality on the trees of the fragment (for the executable example below) -/
def peq : PExpr → PExpr → Bool
  | .int a, .int b => a == b
  | .var a, .var b => a == b
  | .un o e, .un o' e' => o == o' && peq e e'
  | .bin o l r, .bin o' l' r' => o == o' && peq l l' && peq r r'
  | .index e i, .index e' i' => peq e e' && peq i i'
  | .len e, .len e' => peq e e'
  | .is_ e t, .is_ e' t' => peq e e' && t == t'
  | _, _ => false

/-- non-vacuity: the hypotheses are satisfiable (a well-formed expression, a reachable context,
a stop token), and the parser model run on the printed tokens indeed returns the tree -/
example :
    let a : OE := .var [97]; let b : OE := .var [98]; let c : OE := .var [99]
    let e : OE := .bin 5 "SUB" "Sub" (.bin 5 "SUB" "Sub" a (.cast (.len (.index b (.bin 5 "ADD" "Add" c (.lit 1)))) "DataType.BYTE" .byte))
      (.bin 4 "MUL" "Mul" c (.un "SUB" "Neg" (.lit 7)))
    let z : Cursor := ⟨0, 0⟩
    let ls : List Lexeme := (pr 8 e).map (fun t => ⟨t, z, z⟩)
    let semi : Lexeme := ⟨.enum "SepToken.SEMICOLON", z, z⟩
    e.WF ∧ CtxOK 3 ∧ headCont 9 [semi] = false ∧
      (match psExpr (.eof z) 40 3 (ls ++ [semi]) with | .val t r => peq t e.toP && r == [semi] | _ => false) = true := by
  refine ⟨by simp only [OE.WF]; decide, by unfold CtxOK; decide, by decide, by decide +kernel⟩

end HidVerif.Props.C11
