import HidVerif.Proofs.Escape
import HidVerif.Proofs.PackBools
/-!
# C13 — constant data reaches the output byte for byte

`escape_roundtrip`: for **every** byte string and both quote characters, what the assembler
reads back from the text produced by `_escape_bytes` (transcribed from the source on every run)
is the original string.  With `write_string`/`write_*` of C17 and the `.ascii`/`.byte`/`.word`
loader of `Asm.lean` this is why writing, indexing and `.length` of constants observe exactly
their bytes; data sections of whole programs are validated by the searcher.
-/
namespace HidVerif.Props.C13
open HidVerif.Sphinx HidVerif.Gen HidVerif.Sphinx.Asm

theorem escape_roundtrip (q : Nat) (hq : q ∈ [34, 39]) (bs : List Nat) (hbs : ∀ b ∈ bs, b < 256) :
    unescape (Char.ofNat q) (chars (escapeBytes bs [q])) = .ok bs := Sphinx.escape_roundtrip q hq bs hbs

/-- every byte value, both quotes: the per-byte table the round trip is built from -/
theorem unit_table : ∀ q ∈ [34, 39], ∀ b < 256, unitOk q b = true := Sphinx.unit_table

/-- the escaped text never contains a raw quote of its own kind, a control byte or a byte
above 0x7e (all 256 × 2 cases) -/
theorem escaped_is_printable : ∀ q ∈ [34, 39], ∀ b < 256,
    (escapeByte [q] b).all (fun c => decide (0x20 ≤ c) && decide (c ≤ 0x7e)) = true := by decide +kernel

/-- lifted to whole strings: whatever the constant, the text between the quotes consists of printable ASCII only,
so no byte of it depends on the encoding of the output file or can end the line -/
theorem escaped_string_is_printable (q : Nat) (hq : q ∈ [34, 39]) (bs : List Nat) (hbs : ∀ b ∈ bs, b < 256) :
    ∀ c ∈ escapeBytes bs [q], 0x20 ≤ c ∧ c ≤ 0x7e := by
  intro c hc
  simp only [escapeBytes, List.mem_flatMap] at hc
  obtain ⟨b, hb, hcb⟩ := hc
  have h := escaped_is_printable q hq b (hbs b hb)
  rw [List.all_eq_true] at h
  simpa using h c hcb

/-- the escaped text is never shorter than the data and at most four characters per byte -/
theorem escaped_length (q : Nat) (hq : q ∈ [34, 39]) (bs : List Nat) (hbs : ∀ b ∈ bs, b < 256) :
    bs.length ≤ (escapeBytes bs [q]).length ∧ (escapeBytes bs [q]).length ≤ 4 * bs.length := by
  have tbl : ∀ q ∈ [34, 39], ∀ b < 256, (decide (1 ≤ (escapeByte [q] b).length) && decide ((escapeByte [q] b).length ≤ 4)) = true := by
    decide +kernel
  induction bs with
  | nil => simp [escapeBytes]
  | cons b bs ih =>
    have hb := tbl q hq b (hbs b (by simp))
    have ih' := ih (fun x hx => hbs x (by simp [hx]))
    simp only [escapeBytes, List.flatMap_cons, List.length_append, List.length_cons] at ih' ⊢
    simp only [Bool.and_eq_true, decide_eq_true_eq] at hb
    omega

/-- character immediates (`IntLiteral.__bytes__` with `is_char`) use the same function with the
single quote: the assembler reads the byte back -/
theorem char_immediate_roundtrip (b : Nat) (hb : b < 256) :
    unescape '\'' (chars (escapeBytes [b] [39])) = .ok [b] :=
  Sphinx.escape_roundtrip 39 (by simp) [b] (by simpa using hb)

/-- non-vacuity / spot values of the transcribed function -/
example : escapeBytes [97, 92, 98, 34, 10, 0, 255] [34] =
    [97, 92, 92, 98, 92, 34, 92, 110, 92, 120, 48, 48, 92, 120, 102, 102] := by decide

/-- **constant `bool` arrays**: `pack_bools` (transcribed from the source on every run) turns `n` booleans into `⌈n/8⌉`
bytes, each below 256, in which bit `j % 8` of byte `j / 8` is element `j` and every other bit is clear - for every
list of booleans, of every length. -/
theorem pack_bools_spec (bs : List Nat) (hb : ∀ b ∈ bs, b ≤ 1) :
    (packBools bs).length = (bs.length + 7) / 8 ∧ (∀ x ∈ packBools bs, x < 256) ∧
    (∀ j, j < bs.length → Pack.bitAt (packBools bs) j = (bs.getD j 0 == 1)) ∧
    (∀ j, bs.length ≤ j → Pack.bitAt (packBools bs) j = false) :=
  Pack.packBools_spec bs hb

example : packBools [1, 0, 1, 1, 0, 0, 0, 0, 1, 1] = [13, 3] ∧ packBools [] = [] ∧ packBools [0, 0, 0, 0, 0, 0, 0, 1] = [128] := by decide

end HidVerif.Props.C13
