import HidVerif.Proofs.Branch
/-!
# C09 — operators and casts at every boundary value

Quantification is over the whole value space (all `a b < 2^n`, all `w ≥ 2`), not a grid:
the regenerated tables map each source operator to the instruction that computes it, the
two-sided branch template decides exactly the comparison, `IntToBool` normalises to strict
0/1, `not`/unary minus are the subtractions the generator emits, byte access is truncation.
-/
namespace HidVerif.Props.C09
open HidVerif HidVerif.PSys HidVerif.Sphinx HidVerif.Gen HidVerif.Compiler

theorem arith_map_correct (E : Hid.Env) (a b : Nat) :
    ∀ pr ∈ arithMap, Hid.binArith E pr.1 a b = aluOp E.M (8 * E.w) pr.2 a b := arith_map_sound E a b

theorem compare_map_correct (E : Hid.Env) (a b : Nat) :
    ∀ pr ∈ compareMap, (Hid.binArith E pr.1 a b = some 1 ↔ haltCond E.M pr.2 a b = true) ∧
      (Hid.binArith E pr.1 a b = some 1 ∨ Hid.binArith E pr.1 a b = some 0) := compare_map_sound E a b

theorem halt_inversion_correct (M a b : Nat) :
    ∀ pr ∈ haltInversion, haltCond M pr.2 a b = !haltCond M pr.1 a b := halt_inversion_sound M a b

theorem branch_lowering {p : Prog} {J T : Nat} {c c' : HaltOp} {a b : Arg} {m : Mem} {x y : Nat}
    (hinv : (c, c') ∈ haltInversion)
    (c0 : p.code[J]? = some (.j (.imm T))) (c1 : p.code[J + 1]? = some (.hcond c a b))
    (cT : p.code[T]? = some (.hcond c' a b)) (hT : T < 256 ^ p.w)
    (ha : ∀ pc', evalArg p ⟨pc', m⟩ a = some x) (hb : ∀ pc', evalArg p ⟨pc', m⟩ b = some y) :
    (haltCond p.M c x y = true → Reach (sphinx p) ⟨J, m⟩ [] ⟨T + 1, m⟩) ∧
    (haltCond p.M c x y = false → Reach (sphinx p) ⟨J, m⟩ [] ⟨J + 1 + 1, m⟩) :=
  branch_exact hinv c0 c1 cT hT ha hb

theorem int_to_bool_norm {p : Prog} {pc r v : Nat} {m : Mem}
    (h : PlacedAt p pc (boolNorm (pc + 3) r)) (hpc : pc + 3 < 256 ^ p.w) (hw : 2 ≤ p.w)
    (hr : r < 256 ^ p.w) (hrsz : r + p.w ≤ m.size) (hv : m.readLE r p.w = v) :
    ∃ m', Reach (sphinx p) ⟨pc, m⟩ [] ⟨pc + 4, m'⟩ ∧ m'.readLE r p.w = (if v = 0 then 0 else 1) ∧
      (∀ x, (x < r ∨ r + p.w ≤ x) → m'.rd x = m.rd x) := bool_norm_exact h hpc hw hr hrsz hv

theorem neg_lowering (M n x : Nat) (hx : x < M) : aluOp M n .sub 0 x = some ((M - x) % M) :=
  Sphinx.neg_lowering M n x hx
theorem not_lowering (M n x : Nat) (hM : 2 ≤ M) (hx : x ≤ 1) :
    aluOp M n .sub 1 x = some (if x = 0 then 1 else 0) := Sphinx.not_lowering M n x hM hx
theorem int_to_byte_is_truncation (m : Mem) (a w : Nat) (hw : 1 ≤ w) : m.rd a = m.readLE a w % 256 :=
  low_byte m a w hw

/-- `x is byte` after a word store: the byte the generator reads back at the word's address is the stored value
modulo 256 - for every word size, every value, every address (little-endian layout; no byte of the rest of the word
leaks into the cast) -/
theorem word_store_then_byte_read (m : Mem) (a w v : Nat) (hw : 1 ≤ w) (hb : a + w ≤ m.size) :
    (m.writeLE a w v).rd a = v % 256 := by
  rw [low_byte (m.writeLE a w v) a w hw, Mem.readLE_writeLE_same m a w v hb]
  obtain ⟨k, rfl⟩ : ∃ k, w = k + 1 := ⟨w - 1, by omega⟩
  rw [Nat.pow_succ, Nat.mul_comm, Nat.mod_mul_right_mod]

/-- `b is int` for a byte `b`: a value below 256 survives the word store and the byte read unchanged -/
theorem byte_survives_word_roundtrip (m : Mem) (a w b : Nat) (hw : 1 ≤ w) (hb : a + w ≤ m.size) (hlt : b < 256) :
    (m.writeLE a w b).rd a = b := by
  rw [word_store_then_byte_read m a w b hw hb, Nat.mod_eq_of_lt hlt]

/-- the word unary minus computes, as a function -/
def negW (M x : Nat) : Nat := (M - x) % M

/-- unary minus at the boundary: the most negative word negates to itself (as on the machine, and as `write(int)`
then prints it: `decimalW` takes `M - v`), and zero to zero -/
theorem neg_boundary (M : Nat) (hM : 2 ≤ M) (he : M % 2 = 0) : negW M (M / 2) = M / 2 ∧ negW M 0 = 0 := by
  unfold negW
  refine ⟨?_, by simp⟩
  have : M - M / 2 = M / 2 := by omega
  rw [this]; exact Nat.mod_eq_of_lt (by omega)

/-- unary minus is an involution on words, for every modulus: `-(-x) = x` including the most negative word -/
theorem neg_neg_word (M x : Nat) (hx : x < M) : negW M (negW M x) = x := by
  unfold negW
  by_cases h0 : x = 0
  · subst h0; simp
  · have h1 : (M - x) % M = M - x := Nat.mod_eq_of_lt (by omega)
    rw [h1]
    have : M - (M - x) = x := by omega
    rw [this]; exact Nat.mod_eq_of_lt hx

/-- tie to the lowering: what the generator's `sub 0, x` computes is `negW` -/
theorem neg_lowering_is_negW (M n x : Nat) (hx : x < M) : aluOp M n .sub 0 x = some (negW M x) :=
  neg_lowering M n x hx

/-- spot check of the specification itself (floor division, assumption A4): -7 / 2 = -4, -7 % 2 = 1 at 16 bits -/
example : aluOp 65536 16 .div 65529 2 = some 65532 ∧ aluOp 65536 16 .mod 65529 2 = some 1 := by decide

end HidVerif.Props.C09
