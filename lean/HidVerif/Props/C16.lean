import HidVerif.Proofs.ExitModes
import HidVerif.Proofs.Terminal
import HidVerif.Proofs.CoreMain
/-!
# C16 — control never runs off the end of a function

(a) and (c) are theorems about `Hid/ExitModes.lean` — the model of the exit-mode bookkeeping
of blocks.py, tied to it by the `exit` suite (the mode of every block of every accepted
function is recomputed and compared) — against an abstract control-flow semantics in which
every condition may go either way.  (b) is part of the `tc` suite (accept/reject).  (d) is
validated by the VM monitor: the program counter never reaches a function entry by falling
through.
-/
namespace HidVerif.Props.C16
open HidVerif HidVerif.Hid.Exit

/-- (a) a well-formed block whose exit modes lack `NONE` never completes normally -/
theorem analysis_sound (s : Skel) (hb : blockish s = true) (hw : wf s = true)
    (h : has (modes s) NONE = false) : ¬ Exits s .normal := no_none_no_fallthrough s hb hw h

/-- (c) statements the typechecker drops as unreachable (everything after a prefix whose mode
lacks `NONE`) can indeed not be reached by normal completion of that prefix -/
theorem dropped_is_unreachable (pre : List Skel) (hw : wfAll pre = true)
    (h : has (blockGo pre NONE false) NONE = false) : ¬ Exits (.block pre) .normal := unreachable_after pre hw h

/-- full invariant: normal completion shows as NONE, an escaping break as BREAK -/
theorem exits_reflected {s : Skel} {o : Out} (h : Exits s o) (hb : blockish s = true) (hw : wf s = true) :
    (o = .normal → has (modes s) NONE = true) ∧ (o = .brk → has (modes s) BREAK = true) :=
  (exits_sound h hw).1 hb

/-- the body of a function that was accepted without an appended `return` cannot fall through:
a constant-true loop without break, then anything -/
example : ¬ Exits (.block [.loop true (.block [.other]) (.block []), .other]) .normal :=
  analysis_sound _ rfl (by decide) (by decide)

/-- non-vacuity in the other direction: a loop with a reachable break does complete -/
example : Exits (.block [.loop true (.block [.brk]) (.block [])]) .normal :=
  .blockNext (.loopBreak (.blockStop .brk (by decide))) .blockNil

/-! ## (d) on the verified core: the machine-level statement

In `Core.coreProg` the functions of a program follow each other in the code section, so "never
runs off the end" is a statement about addresses.  It is proved as part of
`C01.core_semantic_preservation` (the committed run performs exactly the source trace and ends in
the terminal loop — it can therefore never continue into the next function); the two facts it
rests on are stated here. -/

/-- the entry point of a core program (to which the front end has appended `return;` where
needed: `noFall`, part of `wfProg`) never completes by falling off its end -/
theorem core_entry_never_falls_off (cf : Core.Config) (args : List Int) (pr : Core.CProg) (hwf : Core.wfProg pr = true)
    (fuel : Nat) (env' : Core.Env) (tr : List Ev) (res : Core.Res)
    (hex : Core.srcRun cf fuel args pr = some (env', tr, res)) : res ≠ .norm :=
  Core.exec_noFall _ _ _ _ _ _ _ _ _ _ _ _ (Core.wfProg_parts hwf).2.2.2.1 hex

/-- every activation of a core function whose body does not fall through ends at the return
address its caller stored, with the caller's frame intact (instance of `C08.core_scope_exit…`
for `return` / `return e`) -/
theorem core_activation_returns_to_caller {p : Sphinx.Prog} {ck : Bool} {B dA : Nat} {fa : Core.FAddr} {fns : List Core.FDecl}
    (lib : Sphinx.Placed p B) (fok : Core.FnsOK p ck B dA fa fns) (fuel F D ra : Nat) (hra : ra < 256 ^ p.w)
    (lp : Core.Jt) (hlp : lp.cont < 256 ^ p.w ∧ lp.brk < 256 ^ p.w) (hvd : lp.vd = false) (s : Core.S) (Γ : Core.Gam) (env : Core.Env) (pc o : Nat) (m : Sphinx.Mem) (env' : Core.Env) (tr : List Ev) (res : Core.Res)
    (hpl : Sphinx.PlacedAt p pc (Core.cS (Core.cxOf p ck B dA) fa lp Γ pc o s))
    (hB : pc + (Core.cS (Core.cxOf p ck B dA) fa lp Γ pc o s).length ≤ B)
    (hinv : Core.SInv p .plain Γ env m F D o ra) (hd : Core.Disj p.w Γ) (hwf : Core.wfS fns false (Γ.map Prod.fst) s = true)
    (hpk : Core.pkS p.w o s ≤ D) (ho : p.w ≤ o) (hnt : Core.noTry s = true)
    (hex : Core.exec (256 ^ p.w) (8 * p.w) fns p.w fuel D o env s = some (env', tr, res))
    (hres : res = .returned ∨ ∃ v, res = .retv v) :
    ∃ st', PSys.Reach (Sphinx.sphinx p) ⟨pc, m⟩ tr st' ∧ st'.pc = ra ∧ Core.Keep p.w m st'.mem F := by
  obtain ⟨st', r, k, _, _, h2⟩ := Core.core_frame_restored lib fok fuel F D ra hra lp hlp hvd s Γ env pc o m env' tr res hpl hB hinv hd
    hwf hpk ho hnt hex (Or.inr hres)
  exact ⟨st', r, h2 (by rcases hres with h | ⟨v, h⟩ <;> subst h <;> simp), k⟩

end HidVerif.Props.C16
