import HidVerif.Proofs.ExitLink
import HidVerif.Proofs.ExitModes
import HidVerif.Proofs.Terminal
import HidVerif.Proofs.CoreMain
/-!
# C16 — control never runs off the end of a function

(a) and (c) are theorems about `Hid/ExitModes.lean` — the model of the exit-mode bookkeeping
of blocks.py, tied to it by the `exit` suite (the mode of every block of every accepted
function is recomputed and compared) — against an abstract control-flow semantics in which
every condition may go either way and every statement that evaluates an expression may be defeated.
(b) `accepted_function_never_falls_off` (Proofs/ExitLink.lean): the modes the *typechecker model* writes into its
tree are that analysis of the statements it kept, so for every source text every function of an accepted
program has a body that cannot complete normally.  (d) is
validated by the VM monitor: the program counter never reaches a function entry by falling
through.
-/
namespace HidVerif.Props.C16
open HidVerif HidVerif.Hid.Exit

/-- (a) a well-formed block whose exit modes lack `NONE` never completes normally -/
theorem analysis_sound (s : Skel) (hb : blockish s = true) (hw : wf s = true)
    (h : has (modes s) NONE = false) : ¬ Exits s .normal := no_none_no_fallthrough s hb hw h

/-- (c) statements the typechecker drops as unreachable (everything after a prefix whose mode
lacks `NONE`) can indeed not be reached by normal completion of that prefix -/
theorem dropped_is_unreachable (pre : List Skel) (hw : wfAll pre = true)
    (h : has (blockGo pre NONE false) NONE = false) : ¬ Exits (.block pre) .normal := unreachable_after pre hw h

/-- full invariant: normal completion shows as NONE, an escaping break as BREAK -/
theorem exits_reflected {s : Skel} {o : Out} (h : Exits s o) (hb : blockish s = true) (hw : wf s = true) :
    (o = .normal → has (modes s) NONE = true) ∧ (o = .brk → has (modes s) BREAK = true) :=
  (exits_sound h hw).1 hb

/-- the body of a function that was accepted without an appended `return` cannot fall through:
a constant-true loop without break, then anything -/
example : ¬ Exits (.block [.loop true (.block [.other]) (.block []), .other]) .normal :=
  analysis_sound _ rfl (by decide) (by decide)

/-- non-vacuity in the other direction: a loop with a reachable break does complete -/
example : Exits (.block [.loop true (.block [.brk]) (.block [])]) .normal :=
  .blockNext (.loopBreak (.blockStop .brk (by decide))) .blockNil

/-! ## (d) on the verified core: the machine-level statement

In `Core.coreProg` the functions of a program follow each other in the code section, so "never
runs off the end" is a statement about addresses.  It is proved as part of
`C01.core_semantic_preservation` (the committed run performs exactly the source trace and ends in
the terminal loop — it can therefore never continue into the next function); the two facts it
rests on are stated here. -/

/-- the entry point of a core program (to which the front end has appended `return;` where
needed: `noFall`, part of `wfProg`) never completes by falling off its end -/
theorem core_entry_never_falls_off (cf : Core.Config) (args : List Int) (pr : Core.CProg) (hwf : Core.wfProg pr = true)
    (fuel : Nat) (env' : Core.Env) (tr : List Ev) (res : Core.Res)
    (hex : Core.srcRun cf fuel args pr = some (env', tr, res)) : res ≠ .norm :=
  Core.exec_noFall _ _ _ _ _ _ _ _ _ _ _ _ (Core.wfProg_parts hwf).2.2.2.1 hex

/-- every activation of a core function whose body does not fall through ends at the return
address its caller stored, with the caller's frame intact (instance of `C08.core_scope_exit…`
for `return` / `return e`) -/
theorem core_activation_returns_to_caller {p : Sphinx.Prog} {ck : Bool} {B dA : Nat} {fa : Core.FAddr} {fns : List Core.FDecl}
    (lib : Sphinx.Placed p B) (fok : Core.FnsOK p ck B dA fa fns) (fuel F D ra : Nat) (hra : ra < 256 ^ p.w)
    (lp : Core.Jt) (hlp : lp.cont < 256 ^ p.w ∧ lp.brk < 256 ^ p.w) (hvd : lp.vd = false) (s : Core.S) (Γ : Core.Gam) (env : Core.Env) (pc o : Nat) (m : Sphinx.Mem) (env' : Core.Env) (tr : List Ev) (res : Core.Res)
    (hpl : Sphinx.PlacedAt p pc (Core.cS (Core.cxOf p ck B dA) fa lp Γ pc o s))
    (hB : pc + (Core.cS (Core.cxOf p ck B dA) fa lp Γ pc o s).length ≤ B)
    (hinv : Core.SInv p .plain Γ env m F D o ra) (hd : Core.Disj p.w Γ) (hwf : Core.wfS fns false (Γ.map Prod.fst) s = true)
    (hpk : Core.pkS p.w o s ≤ D) (ho : p.w ≤ o) (hnt : Core.noTry s = true)
    (hex : Core.exec (256 ^ p.w) (8 * p.w) fns p.w fuel D o env s = some (env', tr, res))
    (hres : res = .returned ∨ ∃ v, res = .retv v) :
    ∃ st', PSys.Reach (Sphinx.sphinx p) ⟨pc, m⟩ tr st' ∧ st'.pc = ra ∧ Core.Keep p.w m st'.mem F := by
  obtain ⟨st', r, k, _, _, h2⟩ := Core.core_frame_restored lib fok fuel F D ra hra lp hlp hvd s Γ env pc o m env' tr res hpl hB hinv hd
    hwf hpk ho hnt hex (Or.inr hres)
  exact ⟨st', r, h2 (by rcases hres with h | ⟨v, h⟩ <;> subst h <;> simp), k⟩

/-- **(b), for every source text**: in every accepted program, no function body can complete normally — a value-returning
function whose body could is rejected ("Missing return statement"), an `empty` one gets a `return;` appended. The skeleton
semantics lets every condition go either way, every loop run any number of times and every statement that evaluates an
expression be defeated, so this covers defeat functions called in expression position, which the analysis cannot see. -/
theorem accepted_function_never_falls_off (lint : Bool) (src : List HidVerif.Hid.Lex.Line) (p : HidVerif.Hid.Parse.PProgram)
    (tp : HidVerif.Hid.TC.TProgram) (hparse : HidVerif.Hid.Parse.parse src = .ok p) (htc : HidVerif.Hid.TC.tcProgram lint p = .ok tp) :
    ∀ tf ∈ tp.funcs, ¬ Exits (HidVerif.Hid.TC.skelOf tf.body) .normal :=
  HidVerif.Hid.TC.accepted_never_falls_off lint src p tp hparse htc

/-- the hypotheses are met, and the rejection is real: the first source is accepted (the infinite loop has no `break`,
the `try` returns on both sides), the second and third are rejected for a missing return -/
example :
    let line (s : String) : List HidVerif.Hid.Lex.Line := [s.toList.map Char.toNat]
    let run (s : String) : Nat := match HidVerif.Hid.Parse.parse (line s) with
      | .ok p => (match HidVerif.Hid.TC.tcProgram false p with | .ok _ => 0 | .error (.tc _) => 1 | .error (.internal _) => 2)
      | .error _ => 3
    run "int !g(int x) { !truth_is_defeat(x > 3); return x; } int @f(int x) { try { return !g(x); } undo { return 0; } } int h() { while (true) { } } empty @is_you() { write(@f(2)); }" = 0 ∧
    run "int @f(int x) { try { return 1; } undo { write(x); } } empty @is_you() { }" = 1 ∧
    run "int f(bool x) { while (true) { if (x) { break; } } } empty @is_you() { }" = 1 := by
  refine ⟨by decide +kernel, by decide +kernel, by decide +kernel⟩

end HidVerif.Props.C16
