import HidVerif.Proofs.ExitModes
import HidVerif.Proofs.Terminal
/-!
# C16 — control never runs off the end of a function

(a) and (c) are theorems about `Hid/ExitModes.lean` — the model of the exit-mode bookkeeping
of blocks.py, tied to it by the `exit` suite (the mode of every block of every accepted
function is recomputed and compared) — against an abstract control-flow semantics in which
every condition may go either way.  (b) is part of the `tc` suite (accept/reject).  (d) is
validated by the VM monitor: the program counter never reaches a function entry by falling
through.
-/
namespace HidVerif.Props.C16
open HidVerif.Hid.Exit

/-- (a) a well-formed block whose exit modes lack `NONE` never completes normally -/
theorem analysis_sound (s : Skel) (hb : blockish s = true) (hw : wf s = true)
    (h : has (modes s) NONE = false) : ¬ Exits s .normal := no_none_no_fallthrough s hb hw h

/-- (c) statements the typechecker drops as unreachable (everything after a prefix whose mode
lacks `NONE`) can indeed not be reached by normal completion of that prefix -/
theorem dropped_is_unreachable (pre : List Skel) (hw : wfAll pre = true)
    (h : has (blockGo pre NONE false) NONE = false) : ¬ Exits (.block pre) .normal := unreachable_after pre hw h

/-- full invariant: normal completion shows as NONE, an escaping break as BREAK -/
theorem exits_reflected {s : Skel} {o : Out} (h : Exits s o) (hb : blockish s = true) (hw : wf s = true) :
    (o = .normal → has (modes s) NONE = true) ∧ (o = .brk → has (modes s) BREAK = true) :=
  (exits_sound h hw).1 hb

/-- the body of a function that was accepted without an appended `return` cannot fall through:
a constant-true loop without break, then anything -/
example : ¬ Exits (.block [.loop true (.block [.other]) (.block []), .other]) .normal :=
  analysis_sound _ rfl (by decide) (by decide)

/-- non-vacuity in the other direction: a loop with a reachable break does complete -/
example : Exits (.block [.loop true (.block [.brk]) (.block [])]) .normal :=
  .blockNext (.loopBreak (.blockStop .brk (by decide))) .blockNil

end HidVerif.Props.C16
