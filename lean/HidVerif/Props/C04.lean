import HidVerif.Proofs.Guards
import HidVerif.Proofs.WriteIntSpec
import HidVerif.Proofs.CoreMain
/-!
# C04 — checked builds are memory safe, even with the stack exactly full

Mechanism theorems (all word sizes, all values).  The whole-program invariant is validated by
the access monitor of `Sphinx/Monitor.lean` at the minimal succeeding stack size ± 1.
-/
namespace HidVerif.Props.C04
open HidVerif HidVerif.PSys HidVerif.Sphinx HidVerif.Gen HidVerif.Compiler

/-- the function-entry guard lets the function run iff its whole static frame (`k` bytes: the
`Tracker` maximum) fits between the array region and `fp`; otherwise `stack_overflow` -/
theorem entry_guard_exact {p : Prog} {B pc ok k : Nat} {m : Mem} (hp : Placed p B)
    (h : PlacedAt p pc (entryGuard p.w ok k (B + off_stack_overflow))) (hok : ok < 256 ^ p.w)
    (hsz : 5 * p.w ≤ m.size) (hk : k < 256 ^ p.w)
    {fp ap : Nat} (hfp : m.readLE p.w p.w = fp) (hap : m.readLE 0 p.w = ap) (hle : ap ≤ fp) :
    (ap + k ≤ fp → Reach (sphinx p) ⟨pc, m⟩ [] ⟨ok, m⟩) ∧
    (¬ ap + k ≤ fp → ∃ m', Exec (sphinx p) ⟨pc, m⟩ [Ev.flag "stack_overflow", Ev.flag "error"] ⟨tntPc B, m'⟩ ∧
        ¬ Halts (sphinx p) ⟨pc, m⟩) := Sphinx.entry_guard_exact hp h hok hsz hk hfp hap hle

/-- no wrap-around in the free-space computation -/
theorem gap_arith {M fp ap : Nat} (h : ap ≤ fp) (hfp : fp < M) : (fp + M - ap % M) % M = fp - ap :=
  Sphinx.gap_arith h hfp

/-- the unsigned index check is the two-sided bounds check -/
theorem index_guard_arith {M idx len : Nat} (hlen : len < M / 2) (hidx : idx < M) :
    idx < len ↔ (0 ≤ toS M idx ∧ toS M idx < (len : Int)) := Sphinx.index_guard_arith hlen hidx

/-- a sane length cannot make the size computation wrap -/
theorem length_guard_arith {M w len : Nat} (hw : 0 < w) (hH : 0 < M / 2) (hlen : len ≤ (M / 2 - 1) / w) :
    len * w < M / 2 ∧ toS M len = (len : Int) := Sphinx.length_guard_arith hw hH hlen

/-- footprint of the one library routine that writes to the stack: `write(int)` changes only
its registers and the `k` digit bytes `[fp-w-k, fp-w)`; with the call-site accounting of the
fix for D4 (`k ≤ maxDigits`) these lie inside the guarded frame -/
theorem write_int_footprint (p : Prog) (B : Nat) (hp : Placed p B)
    (m : Mem) (F v ra r0 r1 r2 : Nat)
    (hv : v < 256 ^ p.w) (hFM : F < 256 ^ p.w) (hFsz : F ≤ m.size)
    (hroom : 5 * p.w + (digits (absW (256 ^ p.w) v)).length + p.w ≤ F) (h7 : 7 * p.w ≤ F)
    (hr : Regs p.w m F r0 r1 r2)
    (harg : m.readLE (F - 2 * p.w) p.w = v) (hra : m.readLE (F - p.w) p.w = ra) :
    ∃ m', Reach (sphinx p) ⟨B + off_write_int, m⟩ (outs (decimalW (256 ^ p.w) v)) ⟨ra, m'⟩ ∧
      Same p.w m m' (F - p.w - (digits (absW (256 ^ p.w) v)).length) (F - p.w) :=
  write_int_spec p B hp m F v ra r0 r1 r2 hv hFM hFsz hroom h7 hr harg hra

/-! ## The sequential integer core: the stack check is exact -/

/-- **C04 on the core**: a checked build either has room for the frame peak (then
`C01.core_semantic_preservation` applies: every access stays inside the frame, which is what its
proof establishes instruction by instruction) or reports `stack_overflow` before executing any
statement — there is no third possibility, for any stack size (including 0), argument vector and
word size. -/
theorem core_stack_check_exact (cf : Core.Config) (args : List Int) (pr : Core.CProg)
    (hw : 2 ≤ cf.w) (hck : cf.checked = true)
    (hB : Core.progLen cf.checked pr + stdlibLength < 256 ^ cf.w) (hSE : Core.F0 cf args < 256 ^ cf.w)
    (hnd : pr.params.Nodup) (hlen : args.length = pr.params.length)
    (hsmall : Core.roomOf cf args < Core.pkS cf.w (Core.entryOff cf.w pr.params) pr.body)
    (hpkM : Core.pkS cf.w (Core.entryOff cf.w pr.params) pr.body < 256 ^ cf.w) :
    ∃ mEnd, Exec (sphinx (Core.coreProg cf pr)) (Core.coreInit cf args pr)
      [Ev.flag "stack_overflow", Ev.flag "error"] ⟨tntPc (Core.progLen cf.checked pr), mEnd⟩ :=
  let ⟨m, h, _⟩ := Core.core_overflow cf args pr hw hck hB hSE hnd hlen hsmall hpkM
  ⟨m, h⟩

/-- **C04 on the core, calls**: the same at every call, at any depth of (recursive) calls: when the
source run ends in `.ovf` — some callee's frame peak exceeds what is left of the stack at the
moment of the call (`Core.callWith`) — a checked build prints exactly what was printed before,
then `stack_overflow`, `error`, and stays in the terminal loop; the callee's body is never
entered.  Together with `C01.core_semantic_preservation` (all other outcomes) this decides every
call of every core program. -/
theorem core_call_stack_check (cf : Core.Config) (args : List Int) (pr : Core.CProg)
    (hw : 2 ≤ cf.w) (hck : cf.checked = true)
    (hB : Core.progLen cf.checked pr + stdlibLength < 256 ^ cf.w) (hSE : Core.F0 cf args + Core.regsLen cf.w pr < 256 ^ cf.w)
    (hwf : Core.wfProg pr = true) (hlen : args.length = pr.params.length)
    (hpkF : ∀ fd ∈ pr.funs, Core.pkS cf.w (Core.entryOff cf.w fd.params) fd.body < 256 ^ cf.w)
    (fuel : Nat) (env' : Core.Env) (tr : List Ev)
    (hex : Core.srcRun cf fuel args pr = some (env', tr, .ovf))
    (hroom : Core.pkS cf.w (Core.entryOff cf.w pr.params) pr.body ≤ Core.roomOf cf args) :
    ∃ mEnd, Exec (sphinx (Core.coreProg cf pr)) (Core.coreInit cf args pr)
      (tr ++ [Ev.flag "stack_overflow", Ev.flag "error"]) ⟨tntPc (Core.progLen cf.checked pr), mEnd⟩ :=
  let ⟨m, h, _⟩ := Core.core_correct cf args pr hw hB hSE hwf hlen fuel env' tr .ovf hex (fun _ => hck) (fun _ => hpkF) hroom
  ⟨m, h⟩

/-- non-vacuity: a recursion of depth 3 prints `A` at each level; with 6 stack words at `w = 2` the
third activation's frame does not fit: the source semantics says `AA` then overflow -/
example :
    let fbody : Core.S :=
      .putc 65 (.ifb (.cmp .lt (.var "n") (.lit 1)) (.retE (.lit 0)) .nil
        (.declCall "r" "f" [.bin .sub (.var "n") (.lit 1)] (.retE (.var "r"))))
    let pr : Core.CProg :=
      { params := [], funs := [{ name := "f", params := ["n"], body := fbody }],
        body := .declCall "y" "f" [.lit 3] .ret }
    Core.wfProg pr = true ∧
    (Core.srcRun ⟨2, 6, true⟩ 20 [] pr).map (fun r => (r.2.1, r.2.2)) = some ([Ev.out 65, Ev.out 65], .ovf) := by
  refine ⟨by decide, by decide +kernel⟩

/-- the digit buffer the compiler accounts for (`(8w-1)·30103/100000 + 1` bytes) is long enough for
the decimal form of every word value, at every word size (D4 cannot recur for any `w`) -/
theorem write_int_buffer_sufficient (w : Nat) (hw : 1 ≤ w) (v : Nat) (hv : v < 256 ^ w) :
    (digits (absW (256 ^ w) v)).length ≤ (8 * w - 1) * 30103 / 100000 + 1 :=
  digits_absW_le w hw v hv

end HidVerif.Props.C04
