import HidVerif.Proofs.Terminal
import HidVerif.Proofs.Tables
import HidVerif.Proofs.SourceLaws
/-!
# C01 — compiled code computes what the source program says (sequential core)

Full statement (visible, not yet proved end to end): for every typed program without time
travel, every argument vector, every `w ∈ {2,3,4,8}` and sufficient stack,
`Exec (sphinx asm) init (tr ++ [flag win]) terminal` where `tr` is the trace of the reference
machine.  What is proved: both machines are instances of one prophetic semantics whose driver
is sound (so the differential verdicts are statements about `Exec`), both are deterministic,
the operator tables agree with the reference operators for all values, and the library
routines the generated code calls are correct.
-/
namespace HidVerif.Props.C01
open HidVerif HidVerif.PSys HidVerif.Sphinx HidVerif.Gen

/-- the committed timeline of either machine is unique -/
theorem trace_unique {σ : Type} (sys : PSys σ Ev) {s tr₁ s₁ tr₂ s₂}
    (h₁ : Exec sys s tr₁ s₁) (h₂ : Exec sys s tr₂ s₂) :
    (∃ tr, Exec sys s₁ tr s₂ ∧ tr₂ = tr₁ ++ tr) ∨ (∃ tr, Exec sys s₂ tr s₁ ∧ tr₁ = tr₂ ++ tr) :=
  exec_det h₁ h₂

theorem arith_map_sound (E : Hid.Env) (a b : Nat) :
    ∀ pr ∈ arithMap, Hid.binArith E pr.1 a b = aluOp E.M (8 * E.w) pr.2 a b :=
  Sphinx.arith_map_sound E a b

theorem compare_map_sound (E : Hid.Env) (a b : Nat) :
    ∀ pr ∈ compareMap, (Hid.binArith E pr.1 a b = some 1 ↔ haltCond E.M pr.2 a b = true) ∧
      (Hid.binArith E pr.1 a b = some 1 ∨ Hid.binArith E pr.1 a b = some 0) :=
  Sphinx.compare_map_sound E a b

/-- reaching `all_is_win` is reaching the win state: `[flag win]`, then the terminal loop -/
theorem win_reach {p : Prog} {B : Nat} (hp : Placed p B) (m : Mem) :
    Reach (sphinx p) ⟨B + off_all_is_win, m⟩ [Ev.flag "win"] ⟨tntPc B, m⟩ := all_is_win_reach hp m

theorem vm_verdict_sound {p : Prog} {B : Nat} (hp : Placed p B) (fuel : Nat) (s₀ : St) :
    Sound (sphinx p) (fun s => s.pc == tntPc B) s₀
      ((sphinx p).run (fun s => s.pc == tntPc B) (fun _ => #[]) fuel s₀) := vm_sound hp fuel s₀

theorem interp_verdict_sound (E : Hid.Env) (fuel : Nat) (c₀ : Hid.Cfg) :
    Sound (Hid.machine E) Hid.isDone c₀ ((Hid.machine E).run Hid.isDone (fun _ => #[]) fuel c₀) :=
  Hid.interp_sound E fuel c₀

end HidVerif.Props.C01
