import HidVerif.Proofs.Terminal
import HidVerif.Proofs.Tables
import HidVerif.Proofs.SourceLaws
import HidVerif.Proofs.CoreMain
/-!
# C01 — compiled code computes what the source program says (sequential core)

Full statement (visible, not yet proved end to end): for every typed program without time
travel, every argument vector, every `w ∈ {2,3,4,8}` and sufficient stack,
`Exec (sphinx asm) init (tr ++ [flag win]) terminal` where `tr` is the trace of the reference
machine.  What is proved: both machines are instances of one prophetic semantics whose driver
is sound (so the differential verdicts are statements about `Exec`), both are deterministic,
the operator tables agree with the reference operators for all values, and the library
routines the generated code calls are correct.
-/
namespace HidVerif.Props.C01
open HidVerif HidVerif.PSys HidVerif.Sphinx HidVerif.Gen

/-- the committed timeline of either machine is unique -/
theorem trace_unique {σ : Type} (sys : PSys σ Ev) {s tr₁ s₁ tr₂ s₂}
    (h₁ : Exec sys s tr₁ s₁) (h₂ : Exec sys s tr₂ s₂) :
    (∃ tr, Exec sys s₁ tr s₂ ∧ tr₂ = tr₁ ++ tr) ∨ (∃ tr, Exec sys s₂ tr s₁ ∧ tr₁ = tr₂ ++ tr) :=
  exec_det h₁ h₂

theorem arith_map_sound (E : Hid.Env) (a b : Nat) :
    ∀ pr ∈ arithMap, Hid.binArith E pr.1 a b = aluOp E.M (8 * E.w) pr.2 a b :=
  Sphinx.arith_map_sound E a b

theorem compare_map_sound (E : Hid.Env) (a b : Nat) :
    ∀ pr ∈ compareMap, (Hid.binArith E pr.1 a b = some 1 ↔ haltCond E.M pr.2 a b = true) ∧
      (Hid.binArith E pr.1 a b = some 1 ∨ Hid.binArith E pr.1 a b = some 0) :=
  Sphinx.compare_map_sound E a b

/-- reaching `all_is_win` is reaching the win state: `[flag win]`, then the terminal loop -/
theorem win_reach {p : Prog} {B : Nat} (hp : Placed p B) (m : Mem) :
    Reach (sphinx p) ⟨B + off_all_is_win, m⟩ [Ev.flag "win"] ⟨tntPc B, m⟩ := all_is_win_reach hp m

theorem vm_verdict_sound {p : Prog} {B : Nat} (hp : Placed p B) (fuel : Nat) (s₀ : St) :
    Sound (sphinx p) (fun s => s.pc == tntPc B) s₀
      ((sphinx p).run (fun s => s.pc == tntPc B) (fun _ => #[]) fuel s₀) := vm_sound hp fuel s₀

theorem interp_verdict_sound (E : Hid.Env) (fuel : Nat) (c₀ : Hid.Cfg) :
    Sound (Hid.machine E) Hid.isDone c₀ ((Hid.machine E).run Hid.isDone (fun _ => #[]) fuel c₀) :=
  Hid.interp_sound E fuel c₀

/-! ## The sequential integer core: semantic preservation, proved

`Core.coreProg cf body` is a hand-written model of what `hidc` emits for programs of the core
sub-language (one `@is_you()`, `int` locals, `+ - * / %`, unary `+ -`, comparisons, `and or not`,
declarations, assignments, `write(int)`, `writeln`, character output, blocks, `if`, loops,
`return`, and — see C02 — `try/undo` with `!is_defeat()` / `!truth_is_defeat(…)`); the `core` correspondence suite checks on every run that it is *identical* to the
assembled output of the real compiler (every instruction, the const and state sections, the
entry point) and that `Core.exec` agrees with the reference machine.  For that model: -/

/-- **C01 on the core, for every program, every argument vector, word size `w ≥ 2`, stack size and
build mode**: if the source semantics runs the program (its `int` parameters bound to the
command-line arguments) to completion with output `tr` (possibly ending in a division by zero,
or in a callee's frame not fitting the stack, which
only checked builds define) and the stack holds the frame peak of the entry point, the emitted machine
performs exactly `tr` followed by the terminal flag(s) on its committed timeline, and ends in
the terminal loop. -/
theorem core_semantic_preservation (cf : Core.Config) (args : List Int) (pr : Core.CProg) (hw : 2 ≤ cf.w)
    (hB : Core.progLen cf.checked pr + stdlibLength < 256 ^ cf.w) (hSE : Core.F0 cf args + Core.regsLen cf.w pr < 256 ^ cf.w)
    (hwf : Core.wfProg pr = true) (hlen : args.length = pr.params.length)
    (fuel : Nat) (env' : Core.Env) (tr : List Ev) (res : Core.Res)
    (hex : Core.srcRun cf fuel args pr = some (env', tr, res))
    (hck : res = .div0 ∨ res = .ovf → cf.checked = true)
    (hpkF : res = .ovf → ∀ fd ∈ pr.funs, Core.pkS cf.w (Core.entryOff cf.w fd.params) fd.body < 256 ^ cf.w)
    (hroom : Core.pkS cf.w (Core.entryOff cf.w pr.params) pr.body ≤ Core.roomOf cf args) :
    ∃ mEnd, Exec (sphinx (Core.coreProg cf pr)) (Core.coreInit cf args pr) (tr ++ Core.terminalEvs res)
      ⟨tntPc (Core.progLen cf.checked pr), mEnd⟩ :=
  let ⟨m, h, _⟩ := Core.core_correct cf args pr hw hB hSE hwf hlen fuel env' tr res hex hck hpkF hroom
  ⟨m, h⟩

/-- expressions: the emitted code computes `evalE` (the building block, for every placement) -/
theorem core_expression_correct {p : Prog} {ck : Bool} {B dA : Nat} (lib : Placed p B) (Γ : Core.Gam) (env : Core.Env)
    (F D : Nat) (e : Core.E) (pc o rout : Nat) (keep : Bool) (m : Mem)
    (hpl : PlacedAt p pc (Core.cE (Core.cxOf p ck B dA) Γ pc o rout e keep).1)
    (hB : pc + (Core.cE (Core.cxOf p ck B dA) Γ pc o rout e keep).1.length ≤ B)
    (hr : rout = 2 * p.w ∨ rout = 3 * p.w) (fr : Core.Fr p m F D) (hv : Core.VarsOK p.w Γ env m F o)
    (hb : Core.boundE (Γ.map Prod.fst) e = true) (hpk : Core.pkE p.w o e keep ≤ D) (ho : p.w ≤ o)
    (v : Nat) (hev : Core.evalE (256 ^ p.w) (8 * p.w) env e = some v) :
    ∃ m', Reach (sphinx p) ⟨pc, m⟩ [] ⟨pc + (Core.cE (Core.cxOf p ck B dA) Γ pc o rout e keep).1.length, m'⟩ ∧
      Core.Keep p.w m m' (F - o) ∧ Core.valOf p.w m' F (Core.cE (Core.cxOf p ck B dA) Γ pc o rout e keep).2.1 = v :=
  let ⟨m', h1, h2, h3, _⟩ := (Core.cE_ok lib Γ env F D e pc o rout keep m hpl hB hr fr hv hb hpk ho).1 v hev
  ⟨m', h1, h2, h3⟩

/-- non-vacuity: a concrete core program with a function call satisfies every hypothesis of the
theorem (`int y = f(4); if (y == 12) putc 'Y' else putc 'N'; return;` with `f(a) = a * 3`) -/
example :
    let pr : Core.CProg :=
      { params := [], funs := [{ name := "f", params := ["a"], body := .retE (.bin .mul (.var "a") (.lit 3)) }],
        body := .declCall "y" "f" [.lit 4]
          (.ifb (.cmp .eq (.var "y") (.lit 12)) (.putc 89 .nil) (.putc 78 .nil) .ret) }
    let cf : Core.Config := ⟨2, 100, true⟩
    Core.wfProg pr = true ∧ Core.pkS 2 (Core.entryOff 2 pr.params) pr.body ≤ Core.roomOf cf [] ∧
    (Core.srcRun cf 10 [] pr).map (fun r => (r.2.1, r.2.2)) = some ([Ev.out 89], .returned) := by
  refine ⟨by decide, by decide, by decide +kernel⟩

end HidVerif.Props.C01
